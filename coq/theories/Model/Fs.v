(** A POSIX-style file system model with symbolic and hard links (C26, C27).

    The state is a finite map from canonical absolute paths (lists of
    component names from the model root, no ".", ".." or link in them) to
    objects: regular file (an inode number into a content store, so that hard
    links share content), directory, or symbolic link (its text).  The map is
    an association list in which the first binding of a path wins and [None]
    marks a removed path; the root [] is always a directory.

    Path resolution follows Linux: component by component, ".." goes to the
    parent of the directory reached so far (after links were followed), a
    symbolic link in a non-final position (or in final position when the
    call follows links) is replaced by its text, at most 40 links per
    resolution (ELOOP).  [walk1] runs until the next link, [walk] iterates. *)
From Coq Require Import List NArith Bool Ascii.
From Coq Require Import String.
Import ListNotations.
Local Open Scope string_scope.
Local Open Scope list_scope.

Definition comp := string.
Definition path := list comp.

Inductive obj := FileO (ino : N) | DirO | LinkO (target : string).

Definition fsmap := list (path * option obj).

Record fsys := { objs : fsmap; store : list (N * string); next_ino : N }.

Fixpoint path_eqb (a b : path) : bool :=
  match a, b with
  | [], [] => true
  | x :: a', y :: b' => String.eqb x y && path_eqb a' b'
  | _, _ => false
  end.

Fixpoint assoc_path (p : path) (m : fsmap) : option obj :=
  match m with
  | [] => None
  | (q, o) :: m' => if path_eqb p q then o else assoc_path p m'
  end.

(** the object at canonical path p: the binding of p, provided every proper
    prefix of p is bound to a directory (what lies under a removed or
    replaced directory is not reachable) *)
Definition raw_look (m : fsmap) (p : path) : option obj :=
  match p with [] => Some DirO | _ => assoc_path p m end.

Fixpoint look_from (m : fsmap) (cur rest : path) : option obj :=
  match rest with
  | [] => raw_look m cur
  | c :: rest' =>
    match raw_look m cur with
    | Some DirO => look_from m (cur ++ [c]) rest'
    | _ => None
    end
  end.

Definition look (fs : fsys) (p : path) : option obj := look_from (objs fs) [] p.

Definition set_obj (fs : fsys) (p : path) (o : option obj) : fsys :=
  {| objs := (p, o) :: objs fs; store := store fs; next_ino := next_ino fs |}.

Fixpoint assoc_N (i : N) (l : list (N * string)) : option string :=
  match l with [] => None | (j, c) :: l' => if N.eqb i j then Some c else assoc_N i l' end.

Definition content (fs : fsys) (i : N) : string := match assoc_N i (store fs) with Some c => c | None => "" end.

Definition set_content (fs : fsys) (i : N) (c : string) : fsys :=
  {| objs := objs fs; store := (i, c) :: store fs; next_ino := next_ino fs |}.

(** [is_prefix a b]: a is a prefix of b *)
Fixpoint is_prefix (a b : path) : bool :=
  match a, b with
  | [], _ => true
  | x :: a', y :: b' => String.eqb x y && is_prefix a' b'
  | _, [] => false
  end.

Definition parent (p : path) : path := removelast p.

Definition strict_prefix (a b : path) : bool := is_prefix a b && negb (path_eqb a b).

(** a new, empty directory at k: stale bindings below k are dropped *)
Definition mkdir_at (fs : fsys) (k : path) : fsys :=
  {| objs := (k, Some DirO) :: filter (fun e => negb (strict_prefix k (fst e))) (objs fs);
     store := store fs; next_ino := next_ino fs |}.

(** paths bound in the map (live or not), without duplicates handled by callers *)
Definition keys (fs : fsys) : list path := map fst (objs fs).

(** does directory d have a live child? *)
Definition has_child (fs : fsys) (d : path) : bool :=
  existsb (fun q => match q with
                    | [] => false
                    | _ => path_eqb (parent q) d && match look fs q with Some _ => true | None => false end
                    end) (keys fs).

(** ** Splitting path text *)
Definition slash : ascii := "/"%char.

Fixpoint split_acc (s : string) (cur : string) : list string :=
  match s with
  | EmptyString => [cur]
  | String c rest => if Ascii.eqb c slash then cur :: split_acc rest "" else split_acc rest (cur ++ String c EmptyString)%string
  end.

(** components of a path text; empty components and "." are dropped *)
Definition split_path (s : string) : list comp :=
  filter (fun c => negb (String.eqb c "" || String.eqb c ".")) (split_acc s "").

(** a string given by its bytes (the harness prints non-printable bytes this way) *)
Definition bytes_str (l : list nat) : string := fold_right (fun n s => String (ascii_of_nat n) s) EmptyString l.

Definition is_abs (s : string) : bool :=
  match s with String c _ => Ascii.eqb c slash | EmptyString => false end.

(** ** Resolution *)
Inductive errno := ENOENT | ENOTDIR | ELOOP | EEXIST | EISDIR | ENOTEMPTY | EPERM | EINVAL.

Inductive wres :=
| WDone (p : path)                       (* an existing object *)
| WMissing (d : path) (c : comp)         (* directory d exists, it has no entry c, nothing follows *)
| WExpand (cur : path) (todo : list comp)  (* a link was met: continue from cur with todo *)
| WErr (e : errno).

(** [walk1 fs cur todo follow]: cur is the canonical path of the directory
    reached so far; [follow] says whether a link in final position is followed *)
Fixpoint walk1 (fs : fsys) (cur : path) (todo : list comp) (follow : bool) : wres :=
  match todo with
  | [] => WDone cur
  | c :: rest =>
    if String.eqb c ".." then walk1 fs (parent cur) rest follow
    else
      let p := cur ++ [c] in
      match look fs p with
      | None => match rest with [] => WMissing cur c | _ => WErr ENOENT end
      | Some DirO => walk1 fs p rest follow
      | Some (FileO _) => match rest with [] => WDone p | _ => WErr ENOTDIR end
      | Some (LinkO t) =>
        match rest, follow with
        | [], false => WDone p
        | _, _ =>
          if String.eqb t "" then WErr ENOENT
          else WExpand (if is_abs t then [] else cur) (split_path t ++ rest)
        end
      end
  end.

Fixpoint walk (n : nat) (fs : fsys) (cur : path) (todo : list comp) (follow : bool) : wres :=
  match walk1 fs cur todo follow with
  | WExpand cur' todo' =>
    match n with
    | O => WErr ELOOP
    | S n' => walk n' fs cur' todo' follow
    end
  | r => r
  end.

Definition max_links : nat := 40.

(** resolve an absolute path given as components (from the model root) *)
Definition resolve (fs : fsys) (p : list comp) (follow : bool) : wres := walk max_links fs [] p follow.

(** ** System calls.  Each returns the new state and an optional error. *)
Definition sysres := (fsys * option errno)%type.

Definition sys_stat (fs : fsys) (p : list comp) : option obj + errno :=
  match resolve fs p true with
  | WDone q => inl (look fs q)
  | WMissing _ _ => inr ENOENT
  | WErr e => inr e
  | WExpand _ _ => inr ELOOP
  end.

Definition sys_lstat (fs : fsys) (p : list comp) : option obj + errno :=
  match resolve fs p false with
  | WDone q => inl (look fs q)
  | WMissing _ _ => inr ENOENT
  | WErr e => inr e
  | WExpand _ _ => inr ELOOP
  end.

(** mkdir(2): does not follow a final link *)
Definition sys_mkdir (fs : fsys) (p : list comp) : sysres :=
  match resolve fs p false with
  | WMissing d c => (mkdir_at fs (d ++ [c]), None)
  | WDone _ => (fs, Some EEXIST)
  | WErr e => (fs, Some e)
  | WExpand _ _ => (fs, Some ELOOP)
  end.

(** open(O_WRONLY|O_CREAT|O_TRUNC) + write(data) + close: follows a final link *)
Definition sys_create_write (fs : fsys) (p : list comp) (data : string) : sysres :=
  match resolve fs p true with
  | WDone q =>
    match look fs q with
    | Some (FileO i) => (set_content fs i data, None)
    | Some DirO => (fs, Some EISDIR)
    | _ => (fs, Some ENOENT)
    end
  | WMissing d c =>
    let i := next_ino fs in
    let fs1 := {| objs := (d ++ [c], Some (FileO i)) :: objs fs; store := (i, data) :: store fs; next_ino := N.succ i |} in
    (fs1, None)
  | WErr e => (fs, Some e)
  | WExpand _ _ => (fs, Some ELOOP)
  end.

(** symlink(2) *)
Definition sys_symlink (fs : fsys) (target : string) (p : list comp) : sysres :=
  if String.eqb target "" then (fs, Some ENOENT)
  else match resolve fs p false with
       | WMissing d c => (set_obj fs (d ++ [c]) (Some (LinkO target)), None)
       | WDone _ => (fs, Some EEXIST)
       | WErr e => (fs, Some e)
       | WExpand _ _ => (fs, Some ELOOP)
       end.

(** link(2) as used by os.Link (linkat without AT_SYMLINK_FOLLOW) *)
Definition sys_link (fs : fsys) (old new : list comp) : sysres :=
  match resolve fs old false with
  | WDone q =>
    match look fs q with
    | Some DirO => (fs, Some EPERM)
    | Some o =>
      match resolve fs new false with
      | WMissing d c => (set_obj fs (d ++ [c]) (Some o), None)
      | WDone _ => (fs, Some EEXIST)
      | WErr e => (fs, Some e)
      | WExpand _ _ => (fs, Some ELOOP)
      end
    | None => (fs, Some ENOENT)
    end
  | WMissing _ _ => (fs, Some ENOENT)
  | WErr e => (fs, Some e)
  | WExpand _ _ => (fs, Some ELOOP)
  end.

(** os.Remove: unlink(2), and rmdir(2) for a directory *)
Definition sys_remove (fs : fsys) (p : list comp) : sysres :=
  match resolve fs p false with
  | WDone q =>
    match q, look fs q with
    | [], _ => (fs, Some EINVAL)
    | _, Some DirO => if has_child fs q then (fs, Some ENOTEMPTY) else (set_obj fs q None, None)
    | _, Some _ => (set_obj fs q None, None)
    | _, None => (fs, Some ENOENT)
    end
  | WMissing _ _ => (fs, Some ENOENT)
  | WErr e => (fs, Some e)
  | WExpand _ _ => (fs, Some ELOOP)
  end.

(** os.MkdirAll on a cleaned absolute path; [rp] is the path reversed *)
Fixpoint mkdir_all_rev (fs : fsys) (rp : list comp) : sysres :=
  match sys_stat fs (rev rp) with
  | inl (Some DirO) => (fs, None)
  | inl _ => (fs, Some ENOTDIR)
  | inr _ =>
    match rp with
    | [] => (fs, Some ENOENT)
    | _ :: rp' =>
      let '(fs1, e1) := match rp' with [] => (fs, None) | _ => mkdir_all_rev fs rp' end in
      match e1 with
      | Some e => (fs1, Some e)
      | None =>
        let '(fs2, e2) := sys_mkdir fs1 (rev rp) in
        match e2 with
        | None => (fs2, None)
        | Some e =>
          match sys_lstat fs2 (rev rp) with
          | inl (Some DirO) => (fs2, None)
          | _ => (fs2, Some e)
          end
        end
      end
    end
  end.

Definition mkdir_all (fs : fsys) (p : list comp) : sysres := mkdir_all_rev fs (rev p).

(** ** Building an initial tree and observing a tree (correspondence) *)
Inductive inode_spec :=
| IDir (p : string) | IFile (p : string) (data : string) | ISym (p : string) (target : string) | IHard (p : string) (existing : string).

Definition empty_fs : fsys := {| objs := []; store := []; next_ino := 1 |}.

Definition init_step (fs : fsys) (s : inode_spec) : fsys :=
  match s with
  | IDir p => fst (sys_mkdir fs (split_path p))
  | IFile p d => fst (sys_create_write fs (split_path p) d)
  | ISym p t => fst (sys_symlink fs t (split_path p))
  | IHard p e => fst (sys_link fs (split_path e) (split_path p))
  end.

Definition build_fs (l : list inode_spec) : fsys := fold_left init_step l empty_fs.

Inductive oobj := ODir | OFile (data : string) (leader : string) | OSym (target : string) | OOther.

Fixpoint join_path (p : path) : string :=
  match p with
  | [] => ""
  | [c] => c
  | c :: p' => (c ++ "/" ++ join_path p')%string
  end.

(** live paths, each once *)
Fixpoint dedup (l : list path) (seen : list path) : list path :=
  match l with
  | [] => []
  | p :: l' => if existsb (path_eqb p) seen then dedup l' seen else p :: dedup l' (p :: seen)
  end.

Definition live_paths (fs : fsys) : list path :=
  filter (fun p => match p with [] => false | _ => match look fs p with Some _ => true | None => false end end)
         (dedup (keys fs) []).

Fixpoint insert_str (x : string * path) (l : list (string * path)) : list (string * path) :=
  match l with
  | [] => [x]
  | y :: l' => if String.leb (fst x) (fst y) then x :: l else y :: insert_str x l'
  end.

Definition sorted_live (fs : fsys) : list (string * path) :=
  fold_right insert_str [] (map (fun p => (join_path p, p)) (live_paths fs)).

(** leader of an inode: the first path in sorted order that is a file with that inode *)
Fixpoint leader_of (fs : fsys) (i : N) (l : list (string * path)) : string :=
  match l with
  | [] => ""
  | (s, p) :: l' => match look fs p with
                    | Some (FileO j) => if N.eqb i j then s else leader_of fs i l'
                    | _ => leader_of fs i l'
                    end
  end.

Definition observe (fs : fsys) : list (string * oobj) :=
  let sl := sorted_live fs in
  map (fun sp => (fst sp,
                  match look fs (snd sp) with
                  | Some DirO => ODir
                  | Some (FileO i) => OFile (content fs i) (leader_of fs i sl)
                  | Some (LinkO t) => OSym t
                  | None => OOther
                  end)) sl.

Definition oobj_eqb (a b : oobj) : bool :=
  match a, b with
  | ODir, ODir => true
  | OFile d l, OFile d' l' => String.eqb d d' && String.eqb l l'
  | OSym t, OSym t' => String.eqb t t'
  | OOther, OOther => true
  | _, _ => false
  end.

Fixpoint obs_eqb (a b : list (string * oobj)) : bool :=
  match a, b with
  | [], [] => true
  | (s, o) :: a', (s', o') :: b' => String.eqb s s' && oobj_eqb o o' && obs_eqb a' b'
  | _, _ => false
  end.
