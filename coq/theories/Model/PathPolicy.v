(** Model of the path policy and of the operations of
    internal/filetransfer/stream.go and browse.go (C26), over the file system
    model of Model/Fs.v.

    Boundaries of the model (stated, not hidden):
    - paths and patterns are ASCII; Unicode NFC normalisation is the identity
      on them;
    - glob patterns use only the metacharacters * and ? ([ ] classes and
      backslash escapes of filepath.Match are not modelled: such a pattern
      matches nothing in the model);
    - authentication, size limits, compression, pagination are not modelled;
    - each request is one atomic step (no race between check and use).

    Every operation returns, next to its result, the list of canonical paths
    of the objects it touched (read, listed, stat'ed, written, created,
    chmodded, deleted): the property is a statement about that list. *)
From Coq Require Import List NArith Bool Ascii.
From Coq Require Import String.
From MM Require Import Model.Fs Model.Untar.
Import ListNotations.
Local Open Scope string_scope.
Local Open Scope list_scope.

(** ** Text helpers *)
Fixpoint chars (s : string) : list ascii :=
  match s with EmptyString => [] | String c r => c :: chars r end.

Fixpoint prefix_chars (p s : list ascii) : bool :=
  match p, s with
  | [], _ => true
  | a :: p', b :: s' => Ascii.eqb a b && prefix_chars p' s'
  | _, [] => false
  end.

Fixpoint contains_chars (p s : list ascii) : bool :=
  prefix_chars p s || match s with [] => false | _ :: s' => contains_chars p s' end.

Definition contains (s sub : string) : bool := contains_chars (chars sub) (chars s).

Definition ctl1 : string := String (ascii_of_nat 1) EmptyString.

(** unicode.IsControl on ASCII, with the three exceptions of containsDangerousChars *)
Definition dangerous_char (c : ascii) : bool :=
  let n := nat_of_ascii c in
  ((Nat.ltb n 32) && negb (Nat.eqb n 9 || Nat.eqb n 10 || Nat.eqb n 13)) || Nat.eqb n 127.

Definition contains_dangerous (s : string) : bool := existsb dangerous_char (chars s).

(** filepath.Clean as (absolute?, components); the text is "/" ++ join or join (or ".") *)
Definition clean_text (s : string) : bool * list string := (is_abs s, clean (is_abs s) (raw_comps s)).

Definition text_of (abs : bool) (cs : list string) : string :=
  if abs then ("/" ++ join_path cs)%string else match cs with [] => "." | _ => join_path cs end.

(** ** filepath.Match restricted to * and ? *)
Definition is_sep (c : ascii) : bool := Ascii.eqb c "/"%char.
Definition is_meta (c : ascii) : bool := Ascii.eqb c "*"%char || Ascii.eqb c "?"%char || Ascii.eqb c "["%char.
Definition unmodelled_meta (c : ascii) : bool := Ascii.eqb c "["%char || Ascii.eqb c "\"%char.

Fixpoint gmatch (p s : list ascii) : bool :=
  match p with
  | [] => match s with [] => true | _ => false end
  | c :: p' =>
    if Ascii.eqb c "*"%char then
      (fix star (s : list ascii) : bool :=
         gmatch p' s || match s with [] => false | d :: s' => if is_sep d then false else star s' end) s
    else if Ascii.eqb c "?"%char then
      match s with d :: s' => negb (is_sep d) && gmatch p' s' | [] => false end
    else
      match s with d :: s' => Ascii.eqb c d && gmatch p' s' | [] => false end
  end.

Definition glob_match (pattern name : string) : bool :=
  if existsb unmodelled_meta (chars pattern) then false else gmatch (chars pattern) (chars name).

(** ** The allow list *)
Fixpoint ends_with_2stars (cs : list string) : option (list string) :=
  match cs with
  | [] => None
  | [c] => if String.eqb c "**" then Some [] else None
  | c :: rest => match ends_with_2stars rest with Some b => Some (c :: b) | None => None end
  end.

(** isPathUnderPrefix on cleaned absolute paths = component prefix *)
Definition under_prefix (path prefix : list string) : bool := is_prefix prefix path.

(** all non-root ancestors-or-self of a cleaned absolute path, as texts *)
Fixpoint ancestors_rev (rp : list string) : list (list string) :=
  match rp with [] => [] | _ :: rp' => rev rp :: ancestors_rev rp' end.
Definition ancestors (p : list string) : list (list string) := ancestors_rev (rev p).

(** isPathAllowed(path, pattern) for a cleaned absolute path *)
Definition path_allowed_by (p : list string) (pattern : string) : bool :=
  let '(pabs, pcs) := clean_text pattern in
  match ends_with_2stars pcs with
  | Some base => if pabs then under_prefix p base else false
  | None =>
    let ptxt := text_of pabs pcs in
    if existsb is_meta (chars ptxt) then
      existsb (fun a => glob_match ptxt (text_of true a)) (ancestors p)
    else if pabs then under_prefix p pcs else false
  end.

Inductive verdict := VOk (p : list string) | VRefused.

(** normalizePath: the path the ALLOW-LIST DECISION is made on —
    filepath.Clean(norm.NFC.String(path)); NFC is the identity on the
    (NFC-stable) byte strings of this model, nothing else is rewritten *)
Definition normalize_for_check (path : string) : bool * list string := clean_text path.

(** the path the OPERATIONS use: filepath.Clean(path) of the request as given
    (requirePath, WriteUploadedFile, ReadFileForDownload) *)
Definition used_path (path : string) : list string := snd (clean_text path).

(** validatePath: the decision, made on the normalised path (whose
    components are returned for reference) *)
Definition validate_path (allowed : list string) (path : string) : verdict :=
  if contains_dangerous path then VRefused
  else
    let '(abs, cs) := normalize_for_check path in
    if negb abs then VRefused
    else if existsb (fun c => contains c "..") cs then VRefused
    else match allowed with
         | [] => VRefused
         | _ => if existsb (fun pat => String.eqb pat "*" || path_allowed_by cs pat) allowed then VOk cs else VRefused
         end.

Definition allowed_lex (allowed : list string) (p : path) : bool :=
  match validate_path allowed (text_of true p) with VOk _ => true | VRefused => false end.

(** ** Formatting of FileEntry values for comparison *)
Definition bool_text (b : bool) : string := if b then "true" else "false".

Fixpoint digits (fuel n : nat) (acc : string) : string :=
  match fuel with
  | O => acc
  | S f =>
    let d := String (ascii_of_nat (48 + Nat.modulo n 10)) EmptyString in
    match Nat.div n 10 with
    | O => (d ++ acc)%string
    | q => digits f q (d ++ acc)%string
    end
  end.
Definition nat_text (n : nat) : string := digits (S n) n "".

(** os.Stat on a canonical child path: follow links *)
Definition stat_follow (fs : fsys) (p : list comp) : option obj :=
  match sys_stat fs p with inl o => o | inr _ => None end.

(** FileEntry of the object at path p (components, not necessarily canonical):
    statPath / buildFileEntry + resolveSymlink *)
Definition entry_text (fs : fsys) (name : string) (p : list comp) (with_size : bool) : option string :=
  match sys_lstat fs p with
  | inl (Some o) =>
    let '(isdir, issym, target, size) :=
      match o with
      | LinkO t =>
        match stat_follow fs p with
        | Some DirO => (true, true, t, 0)
        | Some (FileO i) => (false, true, t, String.length (content fs i))
        | _ => (false, true, t, String.length t)          (* broken link: lstat info *)
        end
      | DirO => (true, false, "", 0)
      | FileO i => (false, false, "", String.length (content fs i))
      end in
    Some (name ++ "|dir=" ++ bool_text isdir ++ "|sym=" ++ bool_text issym ++ "|" ++ target ++
          (if with_size && negb isdir then "|" ++ nat_text size else ""))%string
  | _ => None
  end.

Definition entry_is_dir (fs : fsys) (p : list comp) : bool :=
  match stat_follow fs p with Some DirO => true | _ => false end.

(** live children names of canonical directory d *)
Definition children (fs : fsys) (d : path) : list string :=
  let ks := dedup (keys fs) [] in
  fold_right (fun q acc =>
                match q with
                | [] => acc
                | _ => if path_eqb (parent q) d && match look fs q with Some _ => true | None => false end
                       then last q "" :: acc else acc
                end) [] ks.

Fixpoint insert_name (x : string) (l : list string) : list string :=
  match l with [] => [x] | y :: l' => if String.leb x y then x :: l else y :: insert_name x l' end.
Definition sort_names (l : list string) : list string := fold_right insert_name [] l.

Fixpoint join_with (sep : string) (l : list string) : string :=
  match l with [] => "" | [x] => x | x :: l' => (x ++ sep ++ join_with sep l')%string end.

(** ** Resolution of a path text as given to the kernel (not cleaned first):
    "." and empty components are kept because "file/." and "file/" fail with
    ENOTDIR; [walk1d] is [walk1] with that case added *)
Definition raw_todo (s : string) : list comp :=
  match raw_comps s with
  | c :: rest => if String.eqb c "" then map (fun x => if String.eqb x "" then "." else x) rest
                 else map (fun x => if String.eqb x "" then "." else x) (c :: rest)
  | [] => []
  end.

Fixpoint walk1d (fs : fsys) (cur : path) (todo : list comp) (follow : bool) : wres :=
  match todo with
  | [] => WDone cur
  | c :: rest =>
    if String.eqb c "." then walk1d fs cur rest follow
    else if String.eqb c ".." then walk1d fs (parent cur) rest follow
    else
      let p := cur ++ [c] in
      match look fs p with
      | None => match rest with [] => WMissing cur c | _ => WErr ENOENT end
      | Some DirO => walk1d fs p rest follow
      | Some (FileO _) => match rest with [] => WDone p | _ => WErr ENOTDIR end
      | Some (LinkO t) =>
        match rest, follow with
        | [], false => WDone p
        | _, _ =>
          if String.eqb t "" then WErr ENOENT
          else WExpand (if is_abs t then [] else cur) (raw_todo t ++ rest)
        end
      end
  end.

Fixpoint walkd (n : nat) (fs : fsys) (cur : path) (todo : list comp) (follow : bool) : wres :=
  match walk1d fs cur todo follow with
  | WExpand cur' todo' => match n with O => WErr ELOOP | S n' => walkd n' fs cur' todo' follow end
  | r => r
  end.

Definition resolve_raw (fs : fsys) (path : string) (follow : bool) : wres := walkd max_links fs [] (raw_todo path) follow.

Definition look_raw (fs : fsys) (path : string) (follow : bool) : option obj + errno :=
  match resolve_raw fs path follow with
  | WDone q => inl (look fs q)
  | WMissing _ _ => inr ENOENT
  | WErr e => inr e
  | WExpand _ _ => inr ELOOP
  end.

Definition resolved_raw (fs : fsys) (ptxt : string) (follow : bool) : option path :=
  match resolve_raw fs ptxt follow with WDone q => Some q | _ => None end.

(** ** Requests *)
Inductive request :=
| RUpload (path data : string)
| RDownload (path : string)
| RList (path : string)
| RStat (path : string)
| RChmod (path mode : string)
| RDelete (path : string) (recursive : bool).

Record outcome := {
  o_fs : fsys;
  o_code : N;                 (* 0 carried out, 1 refused by validation, 2 failed later *)
  o_payload : string;
  o_chmod : option path;       (* object whose permission bits were changed *)
  o_touched : list path        (* canonical paths of the objects touched *)
}.

Definition refused (fs : fsys) : outcome := {| o_fs := fs; o_code := 1; o_payload := ""; o_chmod := None; o_touched := [] |}.
Definition failed (fs : fsys) (t : list path) : outcome := {| o_fs := fs; o_code := 2; o_payload := ""; o_chmod := None; o_touched := t |}.

(** canonical path of the object a followed resolution ends at *)
Definition resolved (fs : fsys) (p : list comp) (follow : bool) : option path :=
  match resolve fs p follow with WDone q => Some q | _ => None end.

Definition opt_list {A} (o : option A) : list A := match o with Some a => [a] | None => [] end.

(** paths whose binding differs between two states (created / deleted / replaced) *)
Definition changed_paths (a b : fsys) : list path :=
  filter (fun p => match look a p, look b p with
                   | None, None => false
                   | Some _, None | None, Some _ => true
                   | Some x, Some y => negb (match x, y with
                                             | DirO, DirO => true
                                             | FileO i, FileO j => N.eqb i j
                                             | LinkO s, LinkO t => String.eqb s t
                                             | _, _ => false end)
                   end) (dedup (keys a ++ keys b) []).

(** strconv.ParseUint(s, 8, 32) followed by the 0777 bound *)
Fixpoint octal_acc (cs : list ascii) (acc : nat) : option nat :=
  match cs with
  | [] => Some acc
  | c :: r => let n := nat_of_ascii c in
              if Nat.leb 48 n && Nat.leb n 55 then
                if Nat.leb 4096 acc then None else octal_acc r (acc * 8 + (n - 48))
              else None
  end.
Definition parse_mode (s : string) : option nat :=
  match chars s with
  | [] => None
  | cs => match octal_acc cs 0 with Some n => if Nat.leb n 511 then Some n else None | None => None end
  end.

(** os.RemoveAll *)
Definition remove_all (fs : fsys) (p : list comp) : fsys * list path :=
  match resolve fs p false with
  | WDone q =>
    match look fs q with
    | Some DirO =>
      let victims := filter (fun k => is_prefix q k && match look fs k with Some _ => true | None => false end) (dedup (keys fs) []) in
      let victims := match q with [] => victims | _ => q :: filter (fun k => negb (path_eqb k q)) victims end in
      (fold_left (fun f k => match k with [] => f | _ => set_obj f k None end) victims fs, victims)
    | Some _ => (set_obj fs q None, [q])
    | None => (fs, [])
    end
  | _ => (fs, [])
  end.

Definition base_name (cs : list string) : string := match cs with [] => "/" | _ => last cs "" end.

(** names in the tar stream of a directory download: TarDirectory walks
    filepath.Clean(path) with filepath.Walk, which does not follow links — not
    even when the walked root itself is a link (then nothing is archived) *)
Definition tar_listing (fs : fsys) (cs : list comp) : string :=
  match sys_lstat fs cs, resolved fs cs true with
  | inl (Some DirO), Some q =>
    let below := filter (fun p => is_prefix q p && negb (path_eqb p q)) (live_paths fs) in
    join_with ";" (sort_names (map (fun p => join_path (skipn (List.length q) p)) below))
  | _, _ => ""
  end.

Definition dir_payload (fs : fsys) (cs : list comp) : string := ("<directory>:" ++ tar_listing fs cs)%string.

Definition exec (allowed : list string) (fs : fsys) (r : request) : outcome :=
  match r with
  | RUpload path data =>
    match validate_path allowed path with
    | VRefused => refused fs
    | VOk _ =>
      let cs := used_path path in      (* check on the normalised path, act on the request's own *)
      let '(fs1, e1) := mkdir_all fs (parent cs) in
      match e1 with
      | Some _ => failed fs1 (changed_paths fs fs1)
      | None =>
        let '(fs2, e2) := sys_create_write fs1 cs data in
        match e2 with
        | Some _ => failed fs2 (changed_paths fs fs1)
        | None => {| o_fs := fs2; o_code := 0; o_payload := ""; o_chmod := None;
                     o_touched := opt_list (resolved fs2 cs true) ++ changed_paths fs fs1 |}
        end
      end
    end
  | RDownload path =>
    match validate_path allowed path with
    | VRefused => refused fs
    | VOk _ =>
      let cs := used_path path in      (* check on the normalised path, act on the request's own *)
      (* ValidateDownloadMetadata works on the path as given (the kernel resolves
         its ".." components physically); ReadFileForDownload on the cleaned path *)
      let link_ok :=
        match look_raw fs path false with
        | inl (Some (LinkO _)) =>
          match resolved_raw fs path true with
          | Some q => allowed_lex allowed q
          | None => false
          end
        | _ => true
        end in
      if negb link_ok then refused fs
      else match look_raw fs path true with
           | inl (Some _) =>
             match sys_stat fs cs with
             | inl (Some DirO) => {| o_fs := fs; o_code := 0; o_payload := dir_payload fs cs; o_chmod := None;
                                     o_touched := opt_list (resolved_raw fs path true) ++ opt_list (resolved fs cs true) |}
             | inl (Some (FileO i)) => {| o_fs := fs; o_code := 0; o_payload := content fs i; o_chmod := None;
                                          o_touched := opt_list (resolved_raw fs path true) ++ opt_list (resolved fs cs true) |}
             | _ => failed fs (opt_list (resolved_raw fs path true))
             end
           | _ => failed fs []
           end
    end
  | RList path =>
    if String.eqb path "" then refused fs else
    match validate_path allowed path with
    | VRefused => refused fs
    | VOk _ =>
      let cs := used_path path in      (* check on the normalised path, act on the request's own *)
      match sys_stat fs cs, resolved fs cs true with
      | inl (Some DirO), Some q =>
        let names := children fs q in
        let dirs := sort_names (filter (fun n => entry_is_dir fs (q ++ [n])) names) in
        let others := sort_names (filter (fun n => negb (entry_is_dir fs (q ++ [n]))) names) in
        let texts := map (fun n => match entry_text fs n (q ++ [n]) false with Some t => t | None => n end) (dirs ++ others) in
        {| o_fs := fs; o_code := 0; o_payload := join_with ";" texts; o_chmod := None; o_touched := [q] |}
      | inl (Some _), Some q => failed fs [q]
      | _, _ => failed fs []
      end
    end
  | RStat path =>
    if String.eqb path "" then refused fs else
    match validate_path allowed path with
    | VRefused => refused fs
    | VOk _ =>
      let cs := used_path path in      (* check on the normalised path, act on the request's own *)
      match entry_text fs (base_name cs) cs true with
      | Some t => {| o_fs := fs; o_code := 0; o_payload := t; o_chmod := None;
                     o_touched := opt_list (resolved fs cs false) ++ opt_list (resolved fs cs true) |}
      | None => failed fs []
      end
    end
  | RChmod path mode =>
    if String.eqb path "" then refused fs else
    match validate_path allowed path with
    | VRefused => refused fs
    | VOk _ =>
      let cs := used_path path in      (* check on the normalised path, act on the request's own *)
      match parse_mode mode with
      | None => failed fs []
      | Some _ =>
        match resolved fs cs true with
        | Some q =>
          match entry_text fs (base_name cs) cs false with
          | Some t => {| o_fs := fs; o_code := 0; o_payload := t; o_chmod := Some q; o_touched := [q] |}
          | None => failed fs [q]
          end
        | None => failed fs []
        end
      end
    end
  | RDelete path recursive =>
    if String.eqb path "" then refused fs else
    match validate_path allowed path with
    | VRefused => refused fs
    | VOk _ =>
      let cs := used_path path in      (* check on the normalised path, act on the request's own *)
      match entry_text fs (base_name cs) cs false with
      | None => failed fs []
      | Some t =>
        let isdir := match sys_lstat fs cs with
                     | inl (Some (LinkO _)) => entry_is_dir fs cs
                     | inl (Some DirO) => true
                     | _ => false
                     end in
        let listed := if isdir then opt_list (resolved fs cs true) else [] in
        let nonempty := match listed with [q] => match children fs q with [] => false | _ => true end | _ => false end in
        if isdir && match listed with [] => true | _ => false end then failed fs []      (* ReadDir fails *)
        else if isdir && nonempty && negb recursive then failed fs listed
        else if recursive && isdir then
          let '(fs1, victims) := remove_all fs cs in
          {| o_fs := fs1; o_code := 0; o_payload := t; o_chmod := None; o_touched := victims ++ listed |}
        else
          let '(fs1, e) := sys_remove fs cs in
          match e with
          | Some _ => failed fs1 listed
          | None => {| o_fs := fs1; o_code := 0; o_payload := t; o_chmod := None; o_touched := opt_list (resolved fs cs false) ++ listed |}
          end
      end
    end
  end.

(** ** The object a request designates after links are resolved (as the
    harness monitor computes it): the longest resolvable prefix, resolved,
    followed by the remaining components *)
Fixpoint real_path_rev (fs : fsys) (rp : list comp) : path :=
  match resolve fs (rev rp) true with
  | WDone q => q
  | WMissing d c => d ++ [c]
  | _ => match rp with
         | [] => []
         | c :: rp' => real_path_rev fs rp' ++ [c]
         end
  end.
Definition real_path (fs : fsys) (cs : list comp) : path := real_path_rev fs (rev cs).

Definition request_path (r : request) : string :=
  match r with RUpload p _ | RDownload p | RList p | RStat p | RChmod p _ | RDelete p _ => p end.

(** ** The other entry points and histories on one handler *)
Fixpoint drop_chars (n : nat) (s : string) : string :=
  match n, s with
  | O, _ => s
  | S n', String _ r => drop_chars n' r
  | S _, EmptyString => EmptyString
  end.

(** patternBaseDir, as text *)
Definition pattern_base (pattern : string) : string :=
  let '(pabs, pcs) := clean_text pattern in
  match ends_with_2stars pcs with
  | Some base => text_of pabs base
  | None =>
    if existsb is_meta (chars (text_of pabs pcs)) then
      let fix lit (cs : list string) : list string :=
        match cs with
        | [] => []
        | c :: r => if existsb is_meta (chars c) then [] else c :: lit r
        end in
      match lit pcs, pabs with
      | [], true => "/"
      | l, _ => text_of pabs l
      end
    else text_of pabs pcs
  end.

Fixpoint uniq (l : list string) (seen : list string) : list string :=
  match l with
  | [] => []
  | x :: r => if existsb (String.eqb x) seen then uniq r seen else x :: uniq r (x :: seen)
  end.

Inductive xrequest :=
| XBase (r : request)                                  (* the six operations above *)
| XUploadDir (path : string) (e : entry)                (* directory upload: a tar.gz with one entry *)
| XDownloadAt (path : string) (offset : nat)           (* resume: ReadFileForDownloadAtOffset *)
| XRoots.                                              (* browse action "roots" *)

(** The policy (allowed) is an argument of every step and is never returned:
    no request changes it. *)
Definition xexec (allowed : list string) (fs : fsys) (x : xrequest) : outcome :=
  match x with
  | XBase r => exec allowed fs r
  | XUploadDir path e =>
    match validate_path allowed path with
    | VRefused => refused fs
    | VOk _ =>
      let cs := used_path path in
      let '(fs1, er) := extract true cs fs [e] in
      match er with
      | Some _ => failed fs1 (changed_paths fs fs1)
      | None => {| o_fs := fs1; o_code := 0; o_payload := ""; o_chmod := None; o_touched := changed_paths fs fs1 |}
      end
    end
  | XDownloadAt path offset =>
    (* validation as for a download; the agent stats the path as given; then the cleaned path is read from the offset *)
    match exec allowed fs (RDownload path) with
    | {| o_code := 1%N |} => refused fs
    | o =>
      match validate_path allowed path with
      | VRefused => refused fs
      | VOk _ =>
        let cs := used_path path in
        match look_raw fs path true with
        | inl (Some _) =>
          match sys_stat fs cs with
          | inl (Some (FileO i)) =>
            if Nat.ltb (String.length (content fs i)) offset then failed fs (opt_list (resolved fs cs true))
            else {| o_fs := fs; o_code := 0; o_payload := drop_chars offset (content fs i); o_chmod := None;
                    o_touched := opt_list (resolved_raw fs path true) ++ opt_list (resolved fs cs true) |}
          | inl (Some _) => failed fs (opt_list (resolved fs cs true))
          | _ => failed fs (opt_list (resolved_raw fs path true))
          end
        | _ => failed fs []
        end
      end
    end
  | XRoots =>
    match allowed with
    | [] => refused fs
    | _ =>
      if existsb (fun p => String.eqb p "*") allowed
      then {| o_fs := fs; o_code := 0; o_payload := "/"; o_chmod := None; o_touched := [] |}
      else {| o_fs := fs; o_code := 0; o_chmod := None; o_touched := [];
              o_payload := join_with ";" (sort_names (uniq (filter (fun b => negb (String.eqb b "")) (map pattern_base allowed)) [])) |}
    end
  end.

Definition xrequest_path (x : xrequest) : string :=
  match x with XBase r => request_path r | XUploadDir p _ | XDownloadAt p _ => p | XRoots => "/x" end.

(** ** Correspondence oracle *)
Inductive fcase :=
  FCase (fs0 : fsys) (allowed : list string)
        (steps : list (xrequest * (N * string * string * bool)))   (* request, (code, payload, chmodded, escaped) *)
        (final : option (list (string * oobj))).

(** observed files carry their own path as leader (no hard links here) *)
Definition observe_plain (fs : fsys) : list (string * oobj) :=
  map (fun so => match so with (s, OFile d _) => (s, OFile d s) | x => x end) (observe fs).

(** every state change conses a binding onto [objs] or [store]: equal lengths = nothing happened *)
Definition unchanged (a b : fsys) : bool :=
  Nat.eqb (List.length (objs a)) (List.length (objs b)) && Nat.eqb (List.length (store a)) (List.length (store b)).

Definition step_ok (allowed : list string) (fs : fsys) (x : xrequest) (obs : N * string * string * bool) : bool * fsys :=
  let '(code, payload, chmodded, escaped) := obs in
  let o := xexec allowed fs x in
  let esc := N.eqb (o_code o) 0 && match x with XRoots => false | _ =>
             negb (allowed_lex allowed (real_path fs (snd (clean_text (xrequest_path x))))) end in
  (N.eqb (o_code o) code && String.eqb (o_payload o) payload &&
   String.eqb (match o_chmod o with Some q => join_path q | None => "" end) chmodded &&
   Bool.eqb esc escaped, o_fs o).

Fixpoint steps_ok (allowed : list string) (fs : fsys) (steps : list (xrequest * (N * string * string * bool))) : bool * fsys :=
  match steps with
  | [] => (true, fs)
  | (x, obs) :: rest =>
    let '(ok, fs1) := step_ok allowed fs x obs in
    let '(ok', fs2) := steps_ok allowed fs1 rest in
    (ok && ok', fs2)
  end.

Definition case_ok (c : fcase) : bool :=
  match c with
  | FCase fs0 allowed steps final =>
    let '(ok, fs1) := steps_ok allowed fs0 steps in
    ok && match final with Some f => obs_eqb (observe_plain fs1) f | None => unchanged fs0 fs1 end
  end.

Fixpoint mismatches_from (i : N) (cs : list fcase) : list N :=
  match cs with
  | [] => []
  | c :: cs' => if case_ok c then mismatches_from (i + 1) cs' else i :: mismatches_from (i + 1) cs'
  end.

Definition mismatches (cs : list fcase) : list N := mismatches_from 0 cs.
