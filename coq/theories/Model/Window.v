(** Model of sleep.WindowCalculator (internal/sleep/window.go).

    Instants are [Z] nanoseconds (any common origin; the harness uses the Unix
    epoch), durations are [Z] nanoseconds.  The Go code computes with
    [time.Time] / [time.Duration]; the model is exact for instants whose
    distance to the configured epoch fits [time.Duration] (|t - epoch| < 2^63
    ns, about 292 years) - outside that range [Time.Sub] saturates and the Go
    code is not modelled.

    Go's integer division and remainder truncate towards zero: [Z.quot] and
    [Z.rem].  The identity seed is the XOR of the two big-endian 64-bit halves
    of the 16-byte agent identifier, reduced modulo (cycle - window) as an
    unsigned 64-bit number.

    The functions are parameterised by the cycle-number function so that the
    behaviour before the repair (truncating division) and the repaired
    behaviour (floor division) share one definition. *)
From Coq Require Import List NArith ZArith Bool.
Import ListNotations.
Local Open Scope Z_scope.

Record config := mkcfg { cycle : Z; window : Z; tol : Z; epoch : Z }.

(** NewWindowCalculator: a window that is not shorter than the cycle is
    replaced by a sixth of the cycle. *)
Definition norm_divisor : Z := 6.

Definition normalize (c : config) : config :=
  if cycle c <=? window c
  then mkcfg (cycle c) (Z.quot (cycle c) norm_divisor) (tol c) (epoch c)
  else c.

(** seedFromAgentID *)
Definition seed (hi lo : N) : N := N.lxor hi lo.

(** windowOffset *)
Definition offset (c : config) (hi lo : N) : Z :=
  let m := cycle c - window c in
  if m <=? 0 then 0 else Z.of_N (N.modulo (seed hi lo) (Z.to_N m)).

(** cycleStart: the cycle number of instant [t].
    [cycle_num_pre_fix] is the code before the repair: elapsed / CycleLength. *)
Definition cycle_num_pre_fix (c : config) (t : Z) : Z := Z.quot (t - epoch c) (cycle c).

(** repaired code: cycleNum := elapsed / cycle; if elapsed % cycle < 0 { cycleNum-- } *)
Definition cycle_num (c : config) (t : Z) : Z :=
  let e := t - epoch c in
  let q := Z.quot e (cycle c) in
  if Z.rem e (cycle c) <? 0 then q - 1 else q.

Section WithCycleNum.
  Variable cn : config -> Z -> Z.

  Definition cycle_start_with (c : config) (t : Z) : Z := epoch c + cn c t * cycle c.

  (** NextWindow *)
  Definition next_window_with (c : config) (hi lo : N) (now : Z) : Z * Z :=
    let off := offset c hi lo in
    let cs := cycle_start_with c now in
    let ws := cs + off in
    let we := ws + window c in
    if we <? now (* now.After(windowEnd) *)
    then let cs' := cs + cycle c in (cs' + off, cs' + off + window c)
    else (ws, we).

  (** PreviousWindow *)
  Definition previous_window_with (c : config) (hi lo : N) (now : Z) : Z * Z :=
    let off := offset c hi lo in
    let cs := cycle_start_with c now in
    let ws := cs + off in
    if now <? ws
    then let cs' := cs - cycle c in (cs' + off, cs' + off + window c)
    else (ws, ws + window c).

  (** GetWindowInfo: the fields the harness observes. *)
  Record info := mkinfo {
    i_start : Z; i_end : Z; i_safe_start : Z; i_safe_end : Z; i_mid : Z; i_until : Z; i_active : bool }.

  Definition window_info_with (c : config) (hi lo : N) (now : Z) : info :=
    let '(s, e) := next_window_with c hi lo now in
    let ss := s - tol c in
    let se := e + tol c in
    mkinfo s e ss se (s + Z.quot (window c) 2)
           (if now <? ss then ss - now else 0)
           (negb (now <? ss) && (now <? se)).

  (** IsInWindow: the active flag of the window NextWindow returned. *)
  Definition is_in_window_with (c : config) (hi lo : N) (t : Z) : bool :=
    i_active (window_info_with c hi lo t).

  (** NOT in the code: the test a repair of the trailing-tolerance defect
      would make (additionally the window one cycle earlier).  The repository's
      own test "false after window end" pins the present behaviour, so this is
      a known finding, and this definition only serves to show that the full
      statement is provable for that shape of repair. *)
  Definition is_in_window_trailing_with (c : config) (hi lo : N) (t : Z) : bool :=
    let i := window_info_with c hi lo t in
    if i_active i then true
    else
      let pe := i_end i - cycle c in
      let ps := i_start i - cycle c in
      negb (t <? ps - tol c) && (t <? pe + tol c).
End WithCycleNum.

(** The code as it is now (floor division repaired). *)
Definition cycle_start := cycle_start_with cycle_num.
Definition next_window := next_window_with cycle_num.
Definition previous_window := previous_window_with cycle_num.
Definition window_info := window_info_with cycle_num.
Definition is_in_window := is_in_window_with cycle_num.
Definition is_in_window_trailing := is_in_window_trailing_with cycle_num.

(** The code before the repair (truncating division). *)
Definition next_window_pre_fix := next_window_with cycle_num_pre_fix.
Definition is_in_window_pre_fix := is_in_window_with cycle_num_pre_fix.

(** The family of windows of an agent, as the property speaks of them:
    window number [k] starts [offset] after the start of cycle [k]. *)
Definition win_start (c : config) (hi lo : N) (k : Z) : Z := epoch c + k * cycle c + offset c hi lo.
Definition win_end (c : config) (hi lo : N) (k : Z) : Z := win_start c hi lo k + window c.

(** ------------------------------------------------------------------ *)
(** Correspondence oracle.  A case carries the raw configuration handed to
    NewWindowCalculator and what the implementation answered. *)
Record case := mkcase {
  k_hi : N; k_lo : N; k_epoch : Z; k_cycle : Z; k_window : Z; k_tol : Z; k_t : Z;
  o_start : Z; o_end : Z; o_in : bool; o_safe_start : Z; o_safe_end : Z; o_mid : Z; o_until : Z;
  o_active : bool; o_pstart : Z; o_pend : Z }.

Definition case_ok (k : case) : bool :=
  let c := normalize (mkcfg (k_cycle k) (k_window k) (k_tol k) (k_epoch k)) in
  let i := window_info c (k_hi k) (k_lo k) (k_t k) in
  let '(ps, pe) := previous_window c (k_hi k) (k_lo k) (k_t k) in
  let '(s, e) := next_window c (k_hi k) (k_lo k) (k_t k) in
  (s =? o_start k) && (e =? o_end k) &&
  Bool.eqb (is_in_window c (k_hi k) (k_lo k) (k_t k)) (o_in k) &&
  (i_safe_start i =? o_safe_start k) && (i_safe_end i =? o_safe_end k) &&
  (i_mid i =? o_mid k) && (i_until i =? o_until k) && Bool.eqb (i_active i) (o_active k) &&
  (ps =? o_pstart k) && (pe =? o_pend k).

Fixpoint mismatches_from (i : N) (cs : list case) : list N :=
  match cs with
  | [] => []
  | c :: cs' => if case_ok c then mismatches_from (i + 1) cs' else i :: mismatches_from (i + 1) cs'
  end.

Definition mismatches (cs : list case) : list N := mismatches_from 0 cs.

(** ------------------------------------------------------------------ *)
(** The configuration path: sleep.NewManager builds the calculator from the
    sleep configuration: cycle = poll interval; window length and clock
    tolerance from the configuration when positive, else the defaults (30 s,
    5 s); the epoch is the INSTANT the RFC3339 string denotes (time.Parse keeps
    the instant whatever zone offset it is written with), the Unix epoch when
    the string is empty or does not parse.  Then NewWindowCalculator's
    normalisation. *)
Definition default_window : Z := 30000000000.
Definition default_tolerance : Z := 5000000000.

Definition manager_config (poll wl tl epoch_instant : Z) : config :=
  normalize (mkcfg poll (if 0 <? wl then wl else default_window) (if 0 <? tl then tl else default_tolerance) epoch_instant).

(** what the Manager reported (GetNextWindowInfo) at instant [g_t];
    [g_epoch] is the instant the configured string denotes *)
Record mgrcase := mkmgr {
  g_hi : N; g_lo : N; g_epoch : Z; g_poll : Z; g_wl : Z; g_tol : Z; g_t : Z;
  og_start : Z; og_end : Z; og_safe_start : Z; og_safe_end : Z; og_mid : Z; og_until : Z; og_active : bool }.

Definition mgrcase_ok (k : mgrcase) : bool :=
  let c := manager_config (g_poll k) (g_wl k) (g_tol k) (g_epoch k) in
  let i := window_info c (g_hi k) (g_lo k) (g_t k) in
  (i_start i =? og_start k) && (i_end i =? og_end k) &&
  (i_safe_start i =? og_safe_start k) && (i_safe_end i =? og_safe_end k) &&
  (i_mid i =? og_mid k) && (i_until i =? og_until k) && Bool.eqb (i_active i) (og_active k).

Fixpoint mgr_mismatches_from (i : N) (cs : list mgrcase) : list N :=
  match cs with
  | [] => []
  | c :: cs' => if mgrcase_ok c then mgr_mismatches_from (i + 1) cs' else i :: mgr_mismatches_from (i + 1) cs'
  end.
