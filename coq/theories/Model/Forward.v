(** Model of the port-forward exit endpoint (C20).

    Go code followed: internal/forward/handler.go NewHandler (targets map
    built from the endpoint list, a later endpoint with the same key
    overwrites an earlier one), HandleStreamOpen (exact map lookup of the
    requested key; unknown key -> STREAM_OPEN_ERR code ErrForwardNotFound = 40
    and no dial); internal/agent/agent.go handleStreamOpen (the special
    domain addresses and the "forward:" prefix dispatch).

    Keys and targets are byte strings (Go strings are byte strings; map
    lookup is byte equality).  No proofs in this file. *)
From Coq Require Import List NArith Bool.
From Coq Require String.
From MM Require Import Lib.Bytes.
Import ListNotations.
Local Open Scope N_scope.

Definition endpoint := (bytes * bytes)%type.   (* key, target *)

(** targets[ep.Key] = ep.Target for every endpoint in order, then
    targets[key]: the LAST endpoint with that key *)
Fixpoint lookup (eps : list endpoint) (key : bytes) : option bytes :=
  match eps with
  | [] => None
  | (k, t) :: eps' =>
    match lookup eps' key with
    | Some t' => Some t'
    | None => if bytes_eqb k key then Some t else None
    end
  end.

Definition err_forward_not_found : N := 40.

Inductive fresult := FDial (target : bytes) | FErr (code : N).

(** forward.Handler.HandleStreamOpen (handler running, below the connection limit) *)
Definition forward_open (eps : list endpoint) (key : bytes) : fresult :=
  match lookup eps key with
  | Some t => FDial t
  | None => FErr err_forward_not_found
  end.

(** ** the agent's dispatch of a domain-type STREAM_OPEN address *)

Definition ascii_bytes (s : String.string) : bytes :=
  map (fun a => n2b (Ascii.N_of_ascii a)) (String.list_ascii_of_string s).

Module Lits.
  Import Coq.Strings.String.
  Local Open Scope string_scope.
  Definition forward_prefix_s : string := "forward:".
  Definition file_upload_s : string := "file:upload".
  Definition file_download_s : string := "file:download".
  Definition shell_stream_s : string := "shell:stream".
  Definition shell_tty_s : string := "shell:tty".
End Lits.

Definition forward_prefix : bytes := ascii_bytes Lits.forward_prefix_s.
Definition file_upload : bytes := ascii_bytes Lits.file_upload_s.
Definition file_download : bytes := ascii_bytes Lits.file_download_s.
Definition shell_stream : bytes := ascii_bytes Lits.shell_stream_s.
Definition shell_tty : bytes := ascii_bytes Lits.shell_tty_s.

Fixpoint has_prefix (p s : bytes) : bool :=
  match p, s with
  | [], _ => true
  | x :: p', y :: s' => byte_eqb x y && has_prefix p' s'
  | _ :: _, [] => false
  end.

Inductive route := RFileUpload | RFileDownload | RShell | RShellTTY | RForward (key : bytes) | RExit.

Definition dispatch (addr : bytes) : route :=
  if bytes_eqb addr file_upload then RFileUpload
  else if bytes_eqb addr file_download then RFileDownload
  else if bytes_eqb addr shell_stream then RShell
  else if bytes_eqb addr shell_tty then RShellTTY
  else if has_prefix forward_prefix addr then RForward (skipn (length forward_prefix) addr)
  else RExit.

(** ** requests as the harness issues them *)

Inductive request := ReqDispatch (addr : bytes) | ReqDirect (key : bytes).

Inductive observed := FDialed (target : bytes) | FNotFound | FNoAnswer | FOther (code : N).

(** answer seen by the forward handler's stream writer; with no endpoints
    configured there is no forward handler *)
Definition answer (eps : list endpoint) (r : request) : observed :=
  match eps with
  | [] => FNoAnswer
  | _ =>
    let go key := match forward_open eps key with
                  | FDial t => FDialed t
                  | FErr c => if c =? err_forward_not_found then FNotFound else FOther c
                  end in
    match r with
    | ReqDirect key => go key
    | ReqDispatch addr => match dispatch addr with RForward key => go key | _ => FNoAnswer end
    end
  end.

Definition observed_eqb (a b : observed) : bool :=
  match a, b with
  | FDialed x, FDialed y => bytes_eqb x y
  | FNotFound, FNotFound => true
  | FNoAnswer, FNoAnswer => true
  | FOther x, FOther y => x =? y
  | _, _ => false
  end.

Definition case := (list endpoint * list (request * observed))%type.

Definition case_ok (c : case) : bool :=
  forallb (fun s => observed_eqb (answer (fst c) (fst s)) (snd s)) (snd c).

Fixpoint mismatches_from (i : N) (cs : list case) : list N :=
  match cs with
  | [] => []
  | c :: cs' => if case_ok c then mismatches_from (i + 1) cs' else i :: mismatches_from (i + 1) cs'
  end.

Definition mismatches (cs : list case) : list N := mismatches_from 0 cs.
