(** Model of the announcement building in internal/flood/flood.go
    (AnnounceLocalRoutes, SendFullTable's per-origin groups, after the repair
    that splits a route set into several advertisements) composed with the
    RouteAdvertise codec of Model/Frames.v, and of what a neighbour extracts.

    Go map iteration order decides the order of the routes; the model takes
    the ordered list as its argument (the theorems hold for every order).
    No proofs in this file. *)
From Coq Require Import List Bool NArith.
From Coq.Strings Require Import Byte.
From MM Require Import Lib.Bytes Lib.Codec Model.Frames.
Import ListNotations.
Local Open Scope N_scope.

Definition two64 : N := 18446744073709551616.

(** maxRoutesPerAdvertise, maxRouteBytesPerAdvertise *)
Definition max_routes_per_adv : N := 255.
Definition adv_growth_room : N := 2 * (1 + 255 * 16).
Definition adv_fixed_room : N := 16 + 1 + 255 + 8 + 1 + 3.
Definition max_route_bytes_per_adv : N := max_payload - adv_growth_room - adv_fixed_room.

(** maxDisplayNameLen and getLocalDisplayName's cut: the first 255 bytes of the
    configured name (a byte cut, possibly inside a multi-byte character) *)
Definition max_name_len : N := 255.
Definition cut_name (cfg : bytes) : bytes := firstN max_name_len cfg.

(** routeSize := 2 + len(r.Prefix) + 2 *)
Definition route_wire_size (r : Route) : N := let '(_, (_, (pre, _))) := r in 2 + lenN pre + 2.

(** splitRoutes: [cur] is the open group in reverse, [cnt] = i - start, [size] its encoded size *)
Fixpoint split_routes_aux (rs : list Route) (cur : list Route) (cnt size : N) : list (list Route) :=
  match rs with
  | [] => [rev cur]
  | r :: rs' =>
      let rsz := route_wire_size r in
      if (0 <? cnt) && ((max_routes_per_adv <=? cnt) || (max_route_bytes_per_adv <? size + rsz))
      then rev cur :: split_routes_aux rs' [r] 1 rsz
      else split_routes_aux rs' (r :: cur) (cnt + 1) (size + rsz)
  end.
Definition split_routes (rs : list Route) : list (list Route) := split_routes_aux rs [] 0 0.

(** one advertisement per group, consecutive sequence numbers *)
Fixpoint advertise_groups (origin name : bytes) (seq : N) (path seenby : list bytes)
         (groups : list (list Route)) : list (option bytes) :=
  match groups with
  | [] => []
  | g :: gs =>
      encode_RA (origin, (name, (seq mod two64, (g, (path, (None, seenby))))))
      :: advertise_groups origin name (seq + 1) path seenby gs
  end.
Definition announce (origin name : bytes) (seq1 : N) (rs : list Route) (path seenby : list bytes) : list (option bytes) :=
  advertise_groups origin name seq1 path seenby (split_routes rs).
(** before the repair: everything in one advertisement *)
Definition announce_pre_fix (origin name : bytes) (seq1 : N) (rs : list Route) (path seenby : list bytes) : list (option bytes) :=
  advertise_groups origin name seq1 path seenby [rs].

(** ** Re-flooding and replaying (HandleRouteAdvertise / SendFullTable) *)

Definition two16 : N := 65536.
(** fwdRoutes[i].Metric++ (uint16) *)
Definition bump_metric (r : Route) : Route :=
  let '(f, (pl, (pre, m))) := r in (f, (pl, (pre, (m + 1) mod two16))).

(** what agent [local] re-floods for a received advertisement: every metric one
    higher, itself in front of the path and at the end of the seen-by list,
    origin, name and sequence number unchanged *)
Definition reflood (local origin name : bytes) (seq : N) (rs : list Route) (path seenby : list bytes) : option bytes :=
  encode_RA (origin, (name, (seq, (map bump_metric rs, (local :: path, (None, seenby ++ [local])))))).

(** SendFullTable for a stored group of a foreign origin: the origin's sequence
    number on every advertisement the splitter yields (one, when the group
    fits), seen-by = path *)
Fixpoint replay_groups (origin name : bytes) (seq : N) (path : list bytes) (groups : list (list Route)) : list (option bytes) :=
  match groups with
  | [] => []
  | g :: gs => encode_RA (origin, (name, (seq, (g, (path, (None, path)))))) :: replay_groups origin name seq path gs
  end.
Definition replay_foreign (origin name : bytes) (seq : N) (rs : list Route) (path : list bytes) : list (option bytes) :=
  replay_groups origin name seq path (split_routes rs).
(** ... and for the replaying agent's own routes: a fresh announcement *)
Definition replay_local (local name : bytes) (seq1 : N) (rs : list Route) : list (option bytes) :=
  announce local name seq1 rs [local] [local].

(** stored groups of foreign origins as SendFullTable forms them: (origin, (sequence, (path, routes))) *)
Definition rgroup := (bytes * (N * (list bytes * list Route)))%type.
Definition rg_same_adv (a b : rgroup) : bool :=
  bytes_eqb (fst a) (fst b) && (fst (snd a) =? fst (snd b)).
Definition path_bytes (p : list bytes) : bytes := enc idlist p.
(** lexicographic order on byte strings (Go's string comparison) *)
Fixpoint bytes_ltb (a b : bytes) : bool :=
  match a, b with
  | _, [] => false
  | [], _ :: _ => true
  | x :: a', y :: b' => (b2n x <? b2n y) || ((b2n x =? b2n y) && bytes_ltb a' b')
  end.
(** more routes wins; among equals the shorter, then the smaller, encoded path *)
Definition rg_better (a b : rgroup) : bool :=
  let sa := lenN (snd (snd (snd a))) in let sb := lenN (snd (snd (snd b))) in
  let pa := path_bytes (fst (snd (snd a))) in let pb := path_bytes (fst (snd (snd b))) in
  (sb <? sa) || ((sa =? sb) && ((lenN pa <? lenN pb) || ((lenN pa =? lenN pb) && bytes_ltb pa pb))).
(** keep one group per (origin, sequence) *)
Fixpoint rg_insert (g : rgroup) (acc : list rgroup) : list rgroup :=
  match acc with
  | [] => [g]
  | h :: t => if rg_same_adv g h then (if rg_better g h then g :: t else h :: t) else h :: rg_insert g t
  end.
Definition select_groups (gs : list rgroup) : list rgroup := fold_right rg_insert [] gs.
(** the whole foreign part of one replay *)
Definition replay_table (name_of : bytes -> bytes) (gs : list rgroup) : list (option bytes) :=
  concat (map (fun g : rgroup => let '(o, (s, (p, rs))) := g in replay_foreign o (name_of o) s rs p) (select_groups gs)).

(** the neighbour: agent.handleRouteAdvertise decodes each payload and hands
    the routes to the flooder; an undecodable payload is dropped *)
Definition routes_of (m : RA) : list Route := let '(_, (_, (_, (rs, _)))) := m in rs.
Definition learned (payloads : list bytes) : list Route :=
  concat (map (fun p => match decode_RA p with Some m => routes_of m | None => [] end) payloads).
(** (origin, sequence) keys of the decodable payloads: the receivers' seen cache keys *)
Definition adv_keys (payloads : list bytes) : list (bytes * N) :=
  concat (map (fun p => match decode_RA p with
                        | Some (o, (_, (s, _))) => [(o, s)]
                        | None => [] end) payloads).

(** * Local route entries and what the receiver extracts (HandleRouteAdvertise) *)
Inductive entry :=
| ECidr (v6 : bool) (ip : bytes) (plen : N) (metric : N)
| EDomain (pattern : bytes) (wildcard : bool) (metric : N)
| EForward (key target : bytes) (metric : N)
| EAgent (id : bytes) (metric : N).

(** ipNetToProtocolRoute / EncodeDomainPrefix / EncodeForwardKeyWithTarget / EncodeAgentPrefix *)
Definition lp1 (s : bytes) : bytes := n2b (lenN s) :: s.
Definition to_route (e : entry) : Route :=
  match e with
  | ECidr v6 ip plen m => (if v6 then fam_ipv6 else fam_ipv4, (plen, (ip, m)))
  | EDomain p w m => (fam_domain, (if w then 1 else 0, (lp1 p, m)))
  | EForward k t m => (fam_forward, (0, (lp1 k ++ lp1 t, m)))
  | EAgent id m => (fam_agent, (0, (id, m)))
  end.
Definition is_nil {A} (l : list A) : bool := match l with [] => true | _ => false end.
Definition all_zero (b : bytes) : bool := forallb (fun x => b2n x =? 0) b.
(** the switch in HandleRouteAdvertise; [None] = the route is skipped *)
Definition of_route (r : Route) : option entry :=
  let '(f, (pl, (pre, m))) := r in
  if f =? fam_domain then
    let p := decode_DomainPrefix pre in if is_nil p then None else Some (EDomain p (pl =? 1) m)
  else if f =? fam_forward then
    let '(k, t) := decode_ForwardKeyTarget pre in if is_nil k then None else Some (EForward k t m)
  else if f =? fam_agent then
    if lenN pre <? 16 then None else
    let id := firstN 16 pre in if all_zero id then None else Some (EAgent id m)
  else if f =? fam_ipv4 then (if is_nil pre then None else Some (ECidr false (firstN 4 pre) pl m))
  else if f =? fam_ipv6 then (if is_nil pre then None else Some (ECidr true (firstN 16 pre) pl m))
  else None.

(** an entry the wire format can carry and the receiver does not skip *)
Definition entry_ok (e : entry) : bool :=
  match e with
  | ECidr v6 ip plen m => (lenN ip =? (if v6 then 16 else 4)) && (plen <? 256) && (m <? 65536)
  | EDomain p w m => negb (is_nil p) && (lenN p <? 256) && (m <? 65536)
  | EForward k t m => negb (is_nil k) && (lenN k <? 256) && (lenN t <? 256) && (m <? 65536)
  | EAgent id m => (lenN id =? 16) && negb (all_zero id) && (m <? 65536)
  end.

(** * CIDR networks: ipNetToProtocolRoute / protocolRouteToIPNet

    A configured network is a net.IPNet as net.ParseCIDR returns it: the
    address bytes (4, or 16 for every IPv6 spelling including IPv4-mapped
    ::ffff:a.b.c.d), the number of leading ones of the mask and the mask's
    width in bits (32 or 128).  The wire route takes its family from the MASK
    width, its prefix length from the mask's ones, and carries the address
    bytes as they are; the receiver rebuilds the same (address, ones, bits)
    triple, so that both routing tables canonicalise the same net.IPNet
    (routing.canonicalNetwork: ::ffff:a.b.c.d/96+n becomes a.b.c.d/n). *)
Definition ipnet := (bytes * (N * N))%type.   (* address, ones, bits *)
Definition ipnet_to_route (n : ipnet) (metric : N) : Route :=
  let '(ip, (ones, bits)) := n in
  ((if bits =? 128 then fam_ipv6 else fam_ipv4), (ones mod 256, (ip, metric))).
(** protocolRouteToIPNet; [None]: not a CIDR route, or a prefix length the
    family's mask cannot have (net.CIDRMask returns nil, the table rejects it) *)
Definition route_to_ipnet (r : Route) : option ipnet :=
  let '(f, (pl, (pre, _))) := r in
  if is_nil pre then None
  else if f =? fam_ipv4 then (if pl <=? 32 then Some (firstN 4 pre, (pl, 32)) else None)
  else if f =? fam_ipv6 then (if pl <=? 128 then Some (firstN 16 pre, (pl, 128)) else None)
  else None.
(** a network as net.ParseCIDR produces it *)
Definition ipnet_ok (n : ipnet) : bool :=
  let '(ip, (ones, bits)) := n in
  ((bits =? 32) && (lenN ip =? 4) && (ones <=? 32)) || ((bits =? 128) && (lenN ip =? 16) && (ones <=? 128)).

(** * Correspondence oracle *)
Inductive acase :=
| CAnn (origin name : bytes) (seq1 : N) (routes : list Route) (path seenby : list bytes) (obs : list bytes)
| CRep (origin name : bytes) (seq : N) (routes : list Route) (path : list bytes) (obs : list bytes)
| CFwd (local origin name : bytes) (seq : N) (routes : list Route) (path seenby : list bytes) (obs : bytes)
| CName (cfg obs : bytes)
(** configured networks (address, (ones, (bits, metric))) and the CIDR routes put on the wire for them (any order) *)
| CNets (nets : list (bytes * (N * (N * N)))) (emitted : list Route).

Definition acase_ok (c : acase) : bool :=
  match c with
  | CAnn o n s rs p sb obs =>
      list_eqb (option_eqb bytes_eqb) (announce o n s rs p sb) (map Some obs)
  | CRep o n s rs p obs =>
      list_eqb (option_eqb bytes_eqb) (replay_foreign o n s rs p) (map Some obs)
  | CFwd l o n s rs p sb obs =>
      option_eqb bytes_eqb (reflood l o n s rs p sb) (Some obs)
  | CName cfg obs => bytes_eqb (cut_name cfg) obs
  | CNets nets emitted =>
      let req (a b : Route) := (N.eqb (fst a) (fst b)) && (N.eqb (fst (snd a)) (fst (snd b))) &&
                               bytes_eqb (fst (snd (snd a))) (fst (snd (snd b))) && (N.eqb (snd (snd (snd a))) (snd (snd (snd b)))) in
      (lenN nets =? lenN emitted) &&
      forallb (fun x : bytes * (N * (N * N)) =>
                 let '(ip, (ones, (bits, m))) := x in existsb (req (ipnet_to_route (ip, (ones, bits)) m)) emitted) nets
  end.
Fixpoint amismatches_from (i : N) (cs : list acase) : list N :=
  match cs with
  | [] => []
  | c :: cs' => if acase_ok c then amismatches_from (i + 1) cs' else i :: amismatches_from (i + 1) cs'
  end.
Definition amismatches (cs : list acase) : list N := amismatches_from 0 cs.
