(** Model of crypto.SessionKey (internal/crypto/crypto.go): nonce
    construction, Encrypt, Decrypt, and the two-endpoint session under an
    adversarial network.  Used by C01 (freshness/authenticity) and C02 (nonce
    uniqueness).

    The Go code (after the two `fix:` commits on Decrypt):

      Encrypt:  lock; nonce := dir(isInitiator) || 000000 || BE64(sendNonce);
                sendNonce++ (uint64, wraps); unlock;
                out := nonce || Seal(key, nonce, plaintext)
      Decrypt:  len < 28 -> "too short"
                nonce := first 12 bytes
                lock
                prefix(nonce) <> expected receive prefix -> "direction mismatch"
                counter(nonce) < recvNonce            -> "too old"
                counter(nonce) = 2^64-1               -> "exhausted"
                unlock
                Open(key, nonce, rest) fails          -> "decrypt"
                lock; counter < recvNonce -> "too old"; recvNonce := counter+1; unlock

    Each Encrypt is one atomic step (its lock region; the seal afterwards only
    uses the local copy of the nonce).  Each Decrypt is one atomic step too:
    recvNonce only grows, the first locked region only reads, so a call that
    is rejected there linearises at that point and a call that reaches the
    second region linearises there (see SessionProofs.decrypt_two_phase).

    [decrypt_pre_fix] is the function as it was before the fixes (kept for the
    refutation lemmas about the old behaviour).

    The AEAD under the (fixed, shared) session key is a Section variable. *)
From Coq Require Import List Bool NArith.
From Coq Require String.
From Coq.Strings Require Import Byte.
From MM Require Import Lib.Bytes.
Import ListNotations.
Local Open Scope N_scope.

Definition two64 : N := 18446744073709551616.
Definition max64 : N := 18446744073709551615.
Definition nonce_size : N := 12.
Definition tag_size : N := 16.
Definition overhead : N := nonce_size + tag_size.

Inductive side := Ini | Res.

Definition other (s : side) : side := match s with Ini => Res | Res => Ini end.

Definition side_eqb (a b : side) : bool :=
  match a, b with Ini, Ini | Res, Res => true | _, _ => false end.

(** first nonce byte written by buildSendNonce *)
Definition dir_byte (s : side) : byte := match s with Ini => x00 | Res => x80 end.

Definition send_prefix (s : side) : bytes := [dir_byte s; x00; x00; x00].

(** buildRecvNonce: the prefix the other end sends with *)
Definition recv_prefix (s : side) : bytes := send_prefix (other s).

Definition build_nonce (pre : bytes) (ctr : N) : bytes := pre ++ be_put 8 ctr.

Definition nonce_prefix (n : bytes) : bytes := firstn 4 n.
Definition nonce_counter (n : bytes) : N := be_get (skipn 4 n).

(** counters of one endpoint *)
Record sess := { s_send : N; s_recv : N }.

Definition sess0 : sess := {| s_send := 0; s_recv := 0 |}.

Section Session.
  Variable ptext : Type.
  Variable ctext : Type.
  Variable plen : ptext -> N.
  Variable seal : bytes -> ptext -> ctext.          (* Seal under the session key *)
  Variable open : bytes -> ctext -> option ptext.   (* Open under the session key *)

  (** a frame as Decrypt sees it: total length, the first 12 bytes (fewer if
      the frame is shorter), and the rest *)
  Record frame := { f_len : N; f_nonce : bytes; f_body : ctext }.

  Inductive result :=
  | Accept (p : ptext)
  | RejShort | RejDir | RejOld | RejExhausted | RejAuth.

  Definition is_accept (r : result) : bool := match r with Accept _ => true | _ => false end.

  Definition encrypt (s : side) (st : sess) (p : ptext) : sess * frame :=
    let n := build_nonce (send_prefix s) (s_send st) in
    ({| s_send := (s_send st + 1) mod two64; s_recv := s_recv st |},
     {| f_len := overhead + plen p; f_nonce := n; f_body := seal n p |}).

  Definition too_short (f : frame) : bool :=
    (f_len f <? overhead) || negb (Nat.eqb (length (f_nonce f)) 12).

  Definition decrypt (s : side) (st : sess) (f : frame) : sess * result :=
    if too_short f then (st, RejShort) else
    let ctr := nonce_counter (f_nonce f) in
    if negb (bytes_eqb (nonce_prefix (f_nonce f)) (recv_prefix s)) then (st, RejDir) else
    if ctr <? s_recv st then (st, RejOld) else
    if ctr =? max64 then (st, RejExhausted) else
    match open (f_nonce f) (f_body f) with
    | None => (st, RejAuth)
    | Some p => ({| s_send := s_send st; s_recv := (ctr + 1) mod two64 |}, Accept p)
    end.

  (** Decrypt before the fixes: prefix never compared, window moved before
      the AEAD is opened, counter+1 wraps. *)
  Definition decrypt_pre_fix (s : side) (st : sess) (f : frame) : sess * result :=
    if too_short f then (st, RejShort) else
    let ctr := nonce_counter (f_nonce f) in
    if ctr <? s_recv st then (st, RejOld) else
    let st' := {| s_send := s_send st; s_recv := (ctr + 1) mod two64 |} in
    match open (f_nonce f) (f_body f) with
    | None => (st', RejAuth)
    | Some p => (st', Accept p)
    end.

  (** ** The session: two endpoints and the network *)

  (** what an Encrypt call produced (ghost log) *)
  Record sent := { e_side : side; e_ctr : N; e_nonce : bytes; e_body : ctext; e_plain : ptext }.

  (** what a Decrypt call accepted (ghost log) *)
  Record accepted := { a_nonce : bytes; a_body : ctext; a_plain : ptext }.

  Definition sent_item (e : sent) : accepted :=
    {| a_nonce := e_nonce e; a_body := e_body e; a_plain := e_plain e |}.

  Record sys := {
    st_i : sess; st_r : sess;
    sent_rev : list sent;            (* newest first, both ends *)
    acc_i_rev : list accepted;       (* accepted by the initiator, newest first *)
    acc_r_rev : list accepted }.

  Definition init : sys :=
    {| st_i := sess0; st_r := sess0; sent_rev := []; acc_i_rev := []; acc_r_rev := [] |}.

  Definition st_of (y : sys) (s : side) : sess := match s with Ini => st_i y | Res => st_r y end.
  Definition acc_rev_of (y : sys) (s : side) : list accepted :=
    match s with Ini => acc_i_rev y | Res => acc_r_rev y end.

  Definition set_st (y : sys) (s : side) (st : sess) : sys :=
    match s with
    | Ini => {| st_i := st; st_r := st_r y; sent_rev := sent_rev y; acc_i_rev := acc_i_rev y; acc_r_rev := acc_r_rev y |}
    | Res => {| st_i := st_i y; st_r := st; sent_rev := sent_rev y; acc_i_rev := acc_i_rev y; acc_r_rev := acc_r_rev y |}
    end.

  Definition log_sent (y : sys) (e : sent) : sys :=
    {| st_i := st_i y; st_r := st_r y; sent_rev := e :: sent_rev y; acc_i_rev := acc_i_rev y; acc_r_rev := acc_r_rev y |}.

  Definition log_acc (y : sys) (s : side) (a : accepted) : sys :=
    match s with
    | Ini => {| st_i := st_i y; st_r := st_r y; sent_rev := sent_rev y; acc_i_rev := a :: acc_i_rev y; acc_r_rev := acc_r_rev y |}
    | Res => {| st_i := st_i y; st_r := st_r y; sent_rev := sent_rev y; acc_i_rev := acc_i_rev y; acc_r_rev := a :: acc_r_rev y |}
    end.

  (** events: an Encrypt call on one end, or the network handing ANY frame to
      one end (drop = never deliver; reorder / duplicate / reflect = deliver
      an emitted frame again, to either end; flip / forge = any other frame) *)
  Inductive event :=
  | EEnc (s : side) (p : ptext)
  | EDeliver (to : side) (f : frame).

  Inductive output :=
  | OutFrame (f : frame)
  | OutResult (r : result).

  (** [dec] is the Decrypt function in force (fixed or pre-fix) *)
  Section Step.
    Variable dec : side -> sess -> frame -> sess * result.

    Definition step (y : sys) (ev : event) : sys * output :=
      match ev with
      | EEnc s p =>
          let '(st', f) := encrypt s (st_of y s) p in
          (log_sent (set_st y s st')
             {| e_side := s; e_ctr := s_send (st_of y s); e_nonce := f_nonce f; e_body := f_body f; e_plain := p |},
           OutFrame f)
      | EDeliver to f =>
          let '(st', r) := dec to (st_of y to) f in
          let y' := set_st y to st' in
          (match r with
           | Accept p => log_acc y' to {| a_nonce := f_nonce f; a_body := f_body f; a_plain := p |}
           | _ => y'
           end, OutResult r)
      end.

    Fixpoint exec (y : sys) (evs : list event) : sys :=
      match evs with
      | [] => y
      | ev :: rest => exec (fst (step y ev)) rest
      end.

    Fixpoint outputs (y : sys) (evs : list event) : list output :=
      match evs with
      | [] => []
      | ev :: rest => let '(y', o) := step y ev in o :: outputs y' rest
      end.

    (** INT-CTXT along a trace: whenever a delivered frame opens under the
        session key, its (nonce, body) was produced by an earlier Encrypt of
        this session. *)
    Fixpoint intctxt (y : sys) (evs : list event) : Prop :=
      match evs with
      | [] => True
      | ev :: rest =>
          match ev with
          | EDeliver _ f =>
              forall p, open (f_nonce f) (f_body f) = Some p ->
                exists e, In e (sent_rev y) /\ e_nonce e = f_nonce f /\ e_body e = f_body f
          | EEnc _ _ => True
          end /\ intctxt (fst (step y ev)) rest
      end.
  End Step.

  (** number of Encrypt calls of one end in a trace *)
  Fixpoint enc_count (s : side) (evs : list event) : N :=
    match evs with
    | [] => 0
    | EEnc s' _ :: rest => (if side_eqb s s' then 1 else 0) + enc_count s rest
    | EDeliver _ _ :: rest => enc_count s rest
    end.

  (** what one end sent, oldest first, as (nonce, body, plaintext) *)
  Definition sent_by (s : side) (y : sys) : list accepted :=
    rev (map sent_item (filter (fun e => side_eqb (e_side e) s) (sent_rev y))).

  (** what one end accepted, oldest first *)
  Definition accepted_by (s : side) (y : sys) : list accepted := rev (acc_rev_of y s).

  (** all nonces used for sealing so far *)
  Definition nonces_used (y : sys) : list bytes := map e_nonce (sent_rev y).
End Session.

Arguments Accept {ptext}.
Arguments RejShort {ptext}.
Arguments RejDir {ptext}.
Arguments RejOld {ptext}.
Arguments RejExhausted {ptext}.
Arguments RejAuth {ptext}.

(** order-preserving subsequence: each element of the second list used at most once *)
Inductive subseq {A : Type} : list A -> list A -> Prop :=
| subseq_nil : forall l, subseq [] l
| subseq_take : forall x a l, subseq a l -> subseq (x :: a) (x :: l)
| subseq_skip : forall x a l, subseq a l -> subseq a (x :: l).

(** ** A concrete (symbolic) AEAD for the correspondence check and witnesses

    A ciphertext body is either the genuine sealing of plaintext [pid] under
    nonce [n], or garbage.  The harness classifies every delivered body this
    way by looking it up among the bodies the real Seal produced. *)
Inductive tbody := TSealed (n : bytes) (pid : N) (len : N) | TGarbage.

Definition tptext := (N * N)%type.  (* (plaintext id, length) *)
Definition toy_plen (p : tptext) : N := snd p.
Definition toy_seal (n : bytes) (p : tptext) : tbody := TSealed n (fst p) (snd p).
Definition toy_open (n : bytes) (c : tbody) : option tptext :=
  match c with
  | TSealed n' pid len => if bytes_eqb n n' then Some (pid, len) else None
  | TGarbage => None
  end.

Definition tframe := frame tbody.
Definition tevent := event tptext tbody.
Definition tdecrypt := decrypt tptext tbody toy_open.
Definition tdecrypt_pre_fix := decrypt_pre_fix tptext tbody toy_open.
Definition tstep := step tptext tbody toy_plen toy_seal.
Definition texec := exec tptext tbody toy_plen toy_seal.
Definition toutputs := outputs tptext tbody toy_plen toy_seal.
Definition tinit := init tptext tbody.

(** ** Correspondence oracle for C01 (harness/cmd/c01 writes [xcase] terms)

    Nonces are written as (first four bytes as a big-endian number, counter):
    numbers parse much faster than string literals. *)
Definition nonce_of (pre ctr : N) : bytes := be_put 4 pre ++ be_put 8 ctr.

Inductive xbody := XSealed (pre ctr : N) (pid : N) (len : N) | XGarbage.

Inductive xevent :=
| XEnc (s : side) (pid : N) (len : N)
| XDeliver (to : side) (hlen : N) (pre ctr : N) (b : xbody) (flen : N)
| XSkip (s : side) (ctr : N).   (* the sender's counter moves forward to ctr: frames sent and lost in between *)
   (* hlen = min(12, frame length): with fewer than 12 header bytes the frame is too short anyway *)

Inductive xoutcome :=
| OEnc (pre ctr : N)
| OAccept (pid : N)
| OShort | ODir | OOld | OExhausted | OAuth
| OSkip
| OReject   (* rejected, error text not recognised by the harness: matches any rejection *)
| OOther.

Record xcase := mkxcase {
  x_isend : N; x_irecv : N; x_rsend : N; x_rrecv : N;
  x_events : list xevent;
  x_obs : list (xoutcome * N * N) }.   (* outcome, send and recv counter of the acting end afterwards *)

Definition tbody_of (b : xbody) : tbody :=
  match b with XSealed pre ctr p l => TSealed (nonce_of pre ctr) p l | XGarbage => TGarbage end.

Definition tevent_of (e : xevent) : tevent :=
  match e with
  | XEnc s pid len => EEnc _ _ s (pid, len)
  | XDeliver to hlen pre ctr b flen =>
      EDeliver _ _ to {| f_len := flen;
                         f_nonce := if N.eqb hlen 12 then nonce_of pre ctr else repeat x00 (N.to_nat hlen);
                         f_body := tbody_of b |}
  | XSkip s _ => EEnc _ _ s (0, 0)   (* not used: [xrun] handles XSkip itself *)
  end.

Definition actor (e : xevent) : side := match e with XEnc s _ _ => s | XDeliver to _ _ _ _ _ => to | XSkip s _ => s end.

(** Only what the property speaks about is compared: accepted or rejected,
    which plaintext, and (in [xrun]) both counters.  The rejection reason is
    recorded by the harness but not compared, so that re-ordering two
    rejection tests (which keeps the property) is not reported. *)
Definition outcome_eqb (model : output tptext tbody) (o : xoutcome) : bool :=
  match model, o with
  | OutFrame _ _ f, OEnc pre ctr => bytes_eqb (f_nonce _ f) (nonce_of pre ctr)
  | OutResult _ _ (Accept p), OAccept pid => N.eqb (fst p) pid
  | OutResult _ _ (Accept _), _ => false
  | OutResult _ _ _, (OShort | ODir | OOld | OExhausted | OAuth | OReject) => true
  | _, _ => false
  end.

Fixpoint xrun (dec : side -> sess -> tframe -> sess * result tptext)
              (y : sys tptext tbody) (evs : list xevent) (obs : list (xoutcome * N * N)) : bool :=
  match evs, obs with
  | [], [] => true
  | XSkip s ctr :: evs', (o, sn, rc) :: obs' =>
      let st := st_of _ _ y s in
      let y' := set_st _ _ y s {| s_send := ctr; s_recv := s_recv st |} in
      (match o with OSkip => true | _ => false end) && N.eqb ctr sn && N.eqb (s_recv st) rc && xrun dec y' evs' obs'
  | e :: evs', (o, sn, rc) :: obs' =>
      let '(y', out) := tstep dec y (tevent_of e) in
      let st := st_of _ _ y' (actor e) in
      outcome_eqb out o && N.eqb (s_send st) sn && N.eqb (s_recv st) rc && xrun dec y' evs' obs'
  | _, _ => false
  end.

Definition xcase_ok (c : xcase) : bool :=
  let y0 := set_st _ _ (set_st _ _ tinit Ini {| s_send := x_isend c; s_recv := x_irecv c |})
                   Res {| s_send := x_rsend c; s_recv := x_rrecv c |} in
  xrun tdecrypt y0 (x_events c) (x_obs c).

Fixpoint mismatches_from {A : Type} (ok : A -> bool) (i : N) (cs : list A) : list N :=
  match cs with
  | [] => []
  | c :: cs' => if ok c then mismatches_from ok (i + 1) cs' else i :: mismatches_from ok (i + 1) cs'
  end.

Definition mismatches (cs : list xcase) : list N := mismatches_from xcase_ok 0 cs.

(** ** Correspondence oracle for C02 (harness/cmd/c02): one end, start
    counter, number of Encrypt calls made by concurrent senders, and the
    nonces observed, sorted by distance of their counter from the start. *)
Fixpoint enc_nonces (n : nat) (s : side) (ctr : N) : list bytes :=
  match n with
  | O => []
  | S n' => build_nonce (send_prefix s) ctr :: enc_nonces n' s ((ctr + 1) mod two64)
  end.

Fixpoint list_bytes_eqb (a b : list bytes) : bool :=
  match a, b with
  | [], [] => true
  | x :: a', y :: b' => bytes_eqb x y && list_bytes_eqb a' b'
  | _, _ => false
  end.

(** observed nonces, run-length encoded by the harness without loss: (prefix,
    first counter, number of nonces whose counters follow each other mod 2^64) *)
Fixpoint run_nonces (n : nat) (pre ctr : N) : list bytes :=
  match n with
  | O => []
  | S n' => nonce_of pre ctr :: run_nonces n' pre ((ctr + 1) mod two64)
  end.

Definition expand_runs (rs : list (N * N * nat)) : list bytes :=
  flat_map (fun r => let '(pre, ctr, n) := r in run_nonces n pre ctr) rs.

Record ncase := mkncase { n_side : side; n_start : N; n_count : nat; n_obs : list (N * N * nat) }.

Definition ncase_ok (c : ncase) : bool :=
  list_bytes_eqb (enc_nonces (n_count c) (n_side c) (n_start c)) (expand_runs (n_obs c)).

Definition nonce_mismatches (cs : list ncase) : list N := mismatches_from ncase_ok 0 cs.
