(** Model of peer.Reconnector (internal/peer/reconnect.go) and of its use by
    peer.Manager (internal/peer/manager.go: connectWithTransport calls
    Schedule when the dial of a persistent peer fails; handleDisconnect calls
    Schedule; DisconnectAll calls Pause).

    Time is virtual, in nanoseconds ([Z]).  Every method of the Reconnector is
    one critical section under Reconnector.mu, hence one atomic event of the
    model.  attemptReconnect is two critical sections with the callback in
    between: event [Fire] (timer fired: the part before the callback) and event
    [Reply] (the callback returned: the part after it).  A callback that is
    running is a [flight].

    reconnectState objects have identity in the Go code (an attempt keeps a
    pointer to the object it started with, while ResetAll / Cancel + Schedule
    can put a NEW object under the same address): [heap] holds all objects,
    [smap] is the map r.states (address -> heap index).  time.Timer objects
    have identity too: [timers] is the set of armed timers that have neither
    fired nor been stopped; a state object remembers the identity of the timer
    its [timer] field points to, and Stop() removes exactly that one.

    The [variant] selects the code that is modelled:
      v_pause  = attemptReconnect checks [paused] before starting an attempt
                 and before re-arming (repo commit "fix: reconnector starts no
                 attempt and arms no timer while paused")
      v_single = Schedule is a no-op while an attempt is in flight, all arming
                 goes through arm() (stop previous timer, new generation), a
                 firing timer of another generation is ignored, an attempt whose
                 state object is no longer the registered one does nothing
                 (repo commit "fix: one live reconnect timer per address")

    Arithmetic.  nextDelay := Duration(float64(nextDelay) * Multiplier) is
    modelled as truncating division of exact rationals, which is what the
    float computation yields when the multiplier is a dyadic rational
    [mul_num / mul_den] and all delays are below 2^53 / mul_num ns.
    addJitter uses x = now mod 1000 (time.Now().UnixNano() % 1000):
      result = trunc (d + d * J * (x/1000 - 0.5) * 2)
    modelled exactly as a rational; the float computation is exact when J is
    dyadic, x is a multiple of 125 and d < 2^45 (the harness keeps to that
    lattice for the exact comparison and checks the band otherwise). *)
From Coq Require Import List NArith ZArith Bool.
Import ListNotations.
Local Open Scope Z_scope.

Record variant := { v_pause : bool; v_single : bool }.
Definition fixed : variant := {| v_pause := true; v_single := true |}.
Definition pause_only : variant := {| v_pause := true; v_single := false |}.
Definition pre_fix : variant := {| v_pause := false; v_single := false |}.

Record config := mkCfg {
  c_initial : Z; c_max : Z;
  c_mul_num : Z; c_mul_den : Z;
  c_jit_num : Z; c_jit_den : Z;
  c_max_attempts : Z
}.

Record rstate := {
  rs_attempts : Z;
  rs_next : Z;
  rs_timer : bool;      (* state.timer != nil *)
  rs_timer_id : N;      (* which timer object it points to *)
  rs_gen : N;           (* timerGen *)
  rs_inflight : bool
}.

(** [t_armed] (when the timer was armed) and [t_k] (how many attempts the
    state object had started when it was armed) are ghost fields: nothing
    reads them except the attempt log. *)
Record timer := { t_id : N; t_due : Z; t_addr : N; t_gen : N; t_armed : Z; t_k : Z }.
Record flight := { f_addr : N; f_start : Z; f_obj : nat }.

(** One entry per attempt start: when, for which address, which state
    object, the index of this attempt among the attempts of that object
    (= the consecutive-retry index k: objects are created by Schedule with
    zero attempts and discarded on success / Cancel / ResetAll / give-up),
    and the ghost data of the timer that started it. *)
Record lentry := { l_time : Z; l_addr : N; l_obj : nat; l_k : Z; l_armed : Z; l_karm : Z }.

Record st := {
  now : Z;
  heap : list rstate;
  smap : list (N * nat);
  timers : list timer;
  flights : list flight;
  paused : bool;
  closed : bool;
  next_id : N;
  gen : N;
  log : list lentry;     (* attempt starts, newest first *)
  zombies : list timer   (* timers that have expired but whose goroutine has not yet entered attemptReconnect's
                            critical section (scheduling latency); Stop() can no longer reach them *)
}.

Definition init (offset : Z) : st :=
  {| now := offset; heap := []; smap := []; timers := []; flights := []; paused := false; closed := false;
     next_id := 0%N; gen := 0%N; log := []; zombies := [] |}.

(* ------------------------------------------------------------------ *)
(** arithmetic *)

Definition next_delay (c : config) (d : Z) : Z :=
  let n := Z.quot (d * c_mul_num c) (c_mul_den c) in
  if c_max c <? n then c_max c else n.

(** constants of addJitter: (float64(now %% 1000)/1000.0 - 0.5) * 2 *)
Definition jitter_modulus : Z := 1000.
Definition jitter_factor : Z := 2.

(** d + d * J * ((x / M) - 1/2) * 2  =  (d*jden*M + d*jnum*(2x - M)) / (jden*M), truncated toward zero *)
Definition add_jitter (c : config) (t : Z) (d : Z) : Z :=
  if c_jit_num c <=? 0 then d else
  let x := t mod jitter_modulus in
  let r := Z.quot (d * c_jit_den c * jitter_modulus + d * c_jit_num c * (jitter_factor * x - jitter_modulus))
                  (c_jit_den c * jitter_modulus) in
  if r <? 0 then d else r.

(* ------------------------------------------------------------------ *)
(** heap / map helpers *)

Fixpoint lookup (a : N) (m : list (N * nat)) : option nat :=
  match m with
  | [] => None
  | (b, i) :: m' => if N.eqb a b then Some i else lookup a m'
  end.

Definition remove_addr (a : N) (m : list (N * nat)) : list (N * nat) :=
  filter (fun e => negb (N.eqb a (fst e))) m.

Fixpoint set_nth {A} (l : list A) (n : nat) (x : A) : list A :=
  match l, n with
  | [], _ => []
  | _ :: l', O => x :: l'
  | y :: l', S n' => y :: set_nth l' n' x
  end.

Definition stop_timer (id : N) (ts : list timer) : list timer :=
  filter (fun t => negb (N.eqb (t_id t) id)) ts.

(** state.timer.Stop() if state.timer != nil *)
Definition stop_of (o : rstate) (ts : list timer) : list timer :=
  if rs_timer o then stop_timer (rs_timer_id o) ts else ts.

Definition with_heap (s : st) (h : list rstate) : st :=
  {| now := now s; heap := h; smap := smap s; timers := timers s; flights := flights s; paused := paused s;
     closed := closed s; next_id := next_id s; gen := gen s; log := log s; zombies := zombies s |}.

Definition fresh (c : config) : rstate :=
  {| rs_attempts := 0; rs_next := c_initial c; rs_timer := false; rs_timer_id := 0%N; rs_gen := 0%N; rs_inflight := false |}.

(** Arms a timer for heap object [i] of address [a].  In the repaired code
    this is arm(): stop the previous timer, take a new generation.  In the
    old code the previous timer is NOT stopped here (Schedule stops it
    itself; the re-arm after a failure does not). *)
Definition arm (v : variant) (c : config) (s : st) (a : N) (i : nat) (o : rstate) : st :=
  let ts := if v_single v then stop_of o (timers s) else timers s in
  let g := if v_single v then N.succ (gen s) else gen s in
  let id := next_id s in
  let tm := {| t_id := id; t_due := now s + add_jitter c (now s) (rs_next o); t_addr := a; t_gen := g;
               t_armed := now s; t_k := rs_attempts o |} in
  let o' := {| rs_attempts := rs_attempts o; rs_next := rs_next o; rs_timer := true; rs_timer_id := id;
               rs_gen := (if v_single v then g else rs_gen o); rs_inflight := rs_inflight o |} in
  {| now := now s; heap := set_nth (heap s) i o'; smap := smap s; timers := ts ++ [tm]; flights := flights s;
     paused := paused s; closed := closed s; next_id := N.succ id; gen := g; log := log s; zombies := zombies s |}.

(* ------------------------------------------------------------------ *)
(** Schedule(addr) *)

Definition schedule (v : variant) (c : config) (s : st) (a : N) : st :=
  if closed s || paused s then s else
  let '(s1, i) :=
    match lookup a (smap s) with
    | Some i => (s, i)
    | None =>
        let i := length (heap s) in
        ({| now := now s; heap := heap s ++ [fresh c]; smap := (a, i) :: smap s; timers := timers s;
            flights := flights s; paused := paused s; closed := closed s; next_id := next_id s; gen := gen s; log := log s; zombies := zombies s |}, i)
    end in
  match nth_error (heap s1) i with
  | None => s1
  | Some o =>
      if v_single v && rs_inflight o then s1 else
      (* cancel any existing timer *)
      let s2 := {| now := now s1; heap := heap s1; smap := smap s1; timers := stop_of o (timers s1); flights := flights s1;
                   paused := paused s1; closed := closed s1; next_id := next_id s1; gen := gen s1; log := log s1; zombies := zombies s1 |} in
      if (0 <? c_max_attempts c) && (c_max_attempts c <=? rs_attempts o)
      then {| now := now s2; heap := heap s2; smap := remove_addr a (smap s2); timers := timers s2; flights := flights s2;
              paused := paused s2; closed := closed s2; next_id := next_id s2; gen := gen s2; log := log s2; zombies := zombies s2 |}
      else arm v c s2 a i o
  end.

(* ------------------------------------------------------------------ *)
(** a timer fires: attemptReconnect up to the callback *)

Definition fire (v : variant) (c : config) (s : st) (t : timer) : st :=
  (* the timer is no longer pending *)
  let s0 := {| now := now s; heap := heap s; smap := smap s; timers := stop_timer (t_id t) (timers s); flights := flights s;
               paused := paused s; closed := closed s; next_id := next_id s; gen := gen s; log := log s; zombies := zombies s |} in
  match lookup (t_addr t) (smap s0) with
  | None => s0
  | Some i =>
      if closed s0 then s0 else
      match nth_error (heap s0) i with
      | None => s0
      | Some o =>
          if v_single v && negb (N.eqb (rs_gen o) (t_gen t)) then s0 else
          if v_pause v && paused s0 then
            with_heap s0 (set_nth (heap s0) i {| rs_attempts := rs_attempts o; rs_next := rs_next o; rs_timer := false;
                                                 rs_timer_id := rs_timer_id o; rs_gen := rs_gen o; rs_inflight := rs_inflight o |})
          else
            let o' := {| rs_attempts := rs_attempts o + 1; rs_next := next_delay c (rs_next o); rs_timer := rs_timer o;
                         rs_timer_id := rs_timer_id o; rs_gen := rs_gen o;
                         rs_inflight := (if v_single v then true else rs_inflight o) |} in
            {| now := now s0; heap := set_nth (heap s0) i o'; smap := smap s0; timers := timers s0;
               flights := flights s0 ++ [{| f_addr := t_addr t; f_start := now s0; f_obj := i |}];
               paused := paused s0; closed := closed s0; next_id := next_id s0; gen := gen s0;
               log := {| l_time := now s0; l_addr := t_addr t; l_obj := i; l_k := rs_attempts o;
                         l_armed := t_armed t; l_karm := t_k t |} :: log s0; zombies := zombies s0 |}
      end
  end.

(** the pending timer that fires first: least (due, addr, id) *)
Definition timer_lt (x y : timer) : bool :=
  (t_due x <? t_due y) ||
  ((t_due x =? t_due y) && ((N.ltb (t_addr x) (t_addr y)) || (N.eqb (t_addr x) (t_addr y) && N.ltb (t_id x) (t_id y)))).

Fixpoint min_timer (ts : list timer) : option timer :=
  match ts with
  | [] => None
  | t :: ts' => match min_timer ts' with
                | None => Some t
                | Some u => if timer_lt u t then Some u else Some t
                end
  end.

Definition set_now (s : st) (t : Z) : st :=
  {| now := t; heap := heap s; smap := smap s; timers := timers s; flights := flights s; paused := paused s;
     closed := closed s; next_id := next_id s; gen := gen s; log := log s; zombies := zombies s |}.

(** time advances to [target]; every timer due on the way fires at its due
    time.  Firing arms nothing (the callback blocks until the script answers),
    so [fuel] = number of pending timers suffices. *)
Fixpoint advance_to (v : variant) (c : config) (fuel : nat) (s : st) (target : Z) : st :=
  match fuel with
  | O => set_now s target
  | S fuel' =>
      match min_timer (timers s) with
      | Some t => if t_due t <=? target
                  then advance_to v c fuel' (fire v c (set_now s (Z.max (now s) (t_due t))) t) target
                  else set_now s target
      | None => set_now s target
      end
  end.

Definition advance (v : variant) (c : config) (s : st) (d : Z) : st :=
  advance_to v c (length (timers s)) s (now s + d).

(** Scheduling latency.  time.AfterFunc runs attemptReconnect on a new
    goroutine; between the expiry of the timer and the moment that goroutine
    takes Reconnector.mu anything can happen (Pause, Schedule, ...), and
    Stop() no longer reaches the timer.  [expire] moves an expired timer to
    [zombies]; [release_all] lets all of them enter attemptReconnect (in
    address order: they contend for the mutex at the same instant and commute). *)
Definition expire (s : st) (t : timer) : st :=
  {| now := now s; heap := heap s; smap := smap s; timers := stop_timer (t_id t) (timers s); flights := flights s;
     paused := paused s; closed := closed s; next_id := next_id s; gen := gen s; log := log s;
     zombies := zombies s ++ [{| t_id := t_id t; t_due := 0; t_addr := t_addr t; t_gen := t_gen t; t_armed := t_armed t; t_k := t_k t |}] |}.

Fixpoint hold_to (fuel : nat) (s : st) (target : Z) : st :=
  match fuel with
  | O => set_now s target
  | S fuel' =>
      match min_timer (timers s) with
      | Some t => if t_due t <=? target
                  then hold_to fuel' (expire (set_now s (Z.max (now s) (t_due t))) t) target
                  else set_now s target
      | None => set_now s target
      end
  end.

Definition advance_hold (s : st) (d : Z) : st := hold_to (length (timers s)) s (now s + d).

Definition drop_zombie (s : st) (t : timer) : st :=
  {| now := now s; heap := heap s; smap := smap s; timers := timers s; flights := flights s;
     paused := paused s; closed := closed s; next_id := next_id s; gen := gen s; log := log s;
     zombies := stop_timer (t_id t) (zombies s) |}.

Fixpoint release_all (v : variant) (c : config) (fuel : nat) (s : st) : st :=
  match fuel with
  | O => s
  | S fuel' =>
      match min_timer (zombies s) with
      | Some t => release_all v c fuel' (fire v c (drop_zombie s t) t)
      | None => s
      end
  end.

(* ------------------------------------------------------------------ *)
(** the callback of flight number [k] returns: attemptReconnect after the callback *)

Fixpoint remove_nth {A} (l : list A) (n : nat) : list A :=
  match l, n with
  | [], _ => []
  | _ :: l', O => l'
  | x :: l', S n' => x :: remove_nth l' n'
  end.

Definition reply (v : variant) (c : config) (s : st) (k : nat) (ok : bool) : st :=
  match nth_error (flights s) k with
  | None => s
  | Some f =>
      let i := f_obj f in
      let a := f_addr f in
      let s0 := {| now := now s; heap := heap s; smap := smap s; timers := timers s; flights := remove_nth (flights s) k;
                   paused := paused s; closed := closed s; next_id := next_id s; gen := gen s; log := log s; zombies := zombies s |} in
      match nth_error (heap s0) i with
      | None => s0
      | Some o =>
          (* state.inFlight = false *)
          let o1 := if v_single v
                    then {| rs_attempts := rs_attempts o; rs_next := rs_next o; rs_timer := rs_timer o; rs_timer_id := rs_timer_id o;
                            rs_gen := rs_gen o; rs_inflight := false |}
                    else o in
          let s1 := with_heap s0 (set_nth (heap s0) i o1) in
          if closed s1 then s1 else
          if v_single v && negb (match lookup a (smap s1) with Some j => Nat.eqb j i | None => false end) then s1 else
          let del := {| now := now s1; heap := heap s1; smap := remove_addr a (smap s1); timers := timers s1; flights := flights s1;
                        paused := paused s1; closed := closed s1; next_id := next_id s1; gen := gen s1; log := log s1; zombies := zombies s1 |} in
          if ok then del else
          if (c_max_attempts c =? 0) || (rs_attempts o1 <? c_max_attempts c) then
            if v_pause v && paused s1 then
              with_heap s1 (set_nth (heap s1) i {| rs_attempts := rs_attempts o1; rs_next := rs_next o1; rs_timer := false;
                                                   rs_timer_id := rs_timer_id o1; rs_gen := rs_gen o1; rs_inflight := rs_inflight o1 |})
            else arm v c s1 a i o1
          else del
      end
  end.

(* ------------------------------------------------------------------ *)
(** Pause / Resume / ResetAll / Cancel / Stop *)

(** stop the timers of the objects registered in the map *)
Fixpoint stop_all (h : list rstate) (m : list (N * nat)) (ts : list timer) : list timer :=
  match m with
  | [] => ts
  | (_, i) :: m' => stop_all h m' (match nth_error h i with Some o => stop_of o ts | None => ts end)
  end.

Fixpoint clear_timers (h : list rstate) (m : list (N * nat)) : list rstate :=
  match m with
  | [] => h
  | (_, i) :: m' =>
      clear_timers (match nth_error h i with
                    | Some o => if rs_timer o
                                then set_nth h i {| rs_attempts := rs_attempts o; rs_next := rs_next o; rs_timer := false;
                                                    rs_timer_id := rs_timer_id o; rs_gen := rs_gen o; rs_inflight := rs_inflight o |}
                                else h
                    | None => h
                    end) m'
  end.

Definition pause (s : st) : st :=
  if paused s || closed s then s else
  {| now := now s; heap := clear_timers (heap s) (smap s); smap := smap s; timers := stop_all (heap s) (smap s) (timers s);
     flights := flights s; paused := true; closed := closed s; next_id := next_id s; gen := gen s; log := log s; zombies := zombies s |}.

Definition resume (s : st) : st :=
  {| now := now s; heap := heap s; smap := smap s; timers := timers s; flights := flights s; paused := false;
     closed := closed s; next_id := next_id s; gen := gen s; log := log s; zombies := zombies s |}.

Definition reset_all (s : st) : st :=
  {| now := now s; heap := heap s; smap := []; timers := stop_all (heap s) (smap s) (timers s); flights := flights s;
     paused := paused s; closed := closed s; next_id := next_id s; gen := gen s; log := log s; zombies := zombies s |}.

Definition cancel (s : st) (a : N) : st :=
  match lookup a (smap s) with
  | None => s
  | Some i =>
      {| now := now s; heap := heap s; smap := remove_addr a (smap s);
         timers := (match nth_error (heap s) i with Some o => stop_of o (timers s) | None => timers s end);
         flights := flights s; paused := paused s; closed := closed s; next_id := next_id s; gen := gen s; log := log s; zombies := zombies s |}
  end.

Definition stop (s : st) : st :=
  {| now := now s; heap := heap s; smap := []; timers := stop_all (heap s) (smap s) (timers s); flights := flights s;
     paused := paused s; closed := true; next_id := next_id s; gen := gen s; log := log s; zombies := zombies s |}.

(* ------------------------------------------------------------------ *)
(** events *)

Inductive op :=
| Sched (a : N)
| Adv (d : Z)
| Reply (k : nat) (ok : bool)
| Pause
| Resume
| ResetAll
| Cancel (a : N)
| Stop
| AdvHold (d : Z)     (* time advances, expired timers do not get to run yet *)
| Release.            (* every expired timer goroutine now enters attemptReconnect *)

(** [mgr] = the Reconnector is driven by peer.Manager: the callback is
    Manager.handleReconnect, whose failing dial calls Schedule(addr) BEFORE
    it returns the error to attemptReconnect. *)
Definition apply (v : variant) (c : config) (mgr : bool) (s : st) (o : op) : st :=
  match o with
  | Sched a => schedule v c s a
  | Adv d => advance v c s d
  | Reply k ok =>
      if mgr && negb ok
      then match nth_error (flights s) k with
           | Some f => reply v c (schedule v c s (f_addr f)) k false
           | None => s
           end
      else reply v c s k ok
  | Pause => pause s
  | Resume => resume s
  | ResetAll => reset_all s
  | Cancel a => cancel s a
  | Stop => stop s
  | AdvHold d => advance_hold s d
  | Release => release_all v c (length (zombies s)) s
  end.

Fixpoint run (v : variant) (c : config) (mgr : bool) (s : st) (ops : list op) : st :=
  match ops with
  | [] => s
  | o :: ops' => run v c mgr (apply v c mgr s o) ops'
  end.

(* ------------------------------------------------------------------ *)
(** observation compared with the implementation *)

Definition addr_snap := (bool * Z * Z * bool)%type.
Definition snapshot := (list addr_snap * bool * bool * nat)%type.

Fixpoint addrs_upto (n : nat) : list N :=
  match n with O => [] | S n' => addrs_upto n' ++ [N.of_nat n'] end.

Definition observe (na : nat) (s : st) : snapshot :=
  (map (fun a => match lookup a (smap s) with
                 | Some i => match nth_error (heap s) i with
                             | Some o => (true, rs_attempts o, rs_next o, rs_timer o)
                             | None => (false, 0, 0, false)
                             end
                 | None => (false, 0, 0, false)
                 end) (addrs_upto na),
   paused s, closed s, length (flights s)).

Definition addr_snap_eqb (x y : addr_snap) : bool :=
  let '(e1, a1, n1, t1) := x in let '(e2, a2, n2, t2) := y in
  Bool.eqb e1 e2 && (a1 =? a2) && (n1 =? n2) && Bool.eqb t1 t2.

Fixpoint list_eqb {A} (eqb : A -> A -> bool) (a b : list A) : bool :=
  match a, b with
  | [], [] => true
  | x :: a', y :: b' => eqb x y && list_eqb eqb a' b'
  | _, _ => false
  end.

Definition snapshot_eqb (x y : snapshot) : bool :=
  let '(l1, p1, c1, f1) := x in let '(l2, p2, c2, f2) := y in
  list_eqb addr_snap_eqb l1 l2 && Bool.eqb p1 p2 && Bool.eqb c1 c2 && Nat.eqb f1 f2.

Record case := mkCase {
  k_mgr : bool; k_cfg : config; k_na : nat; k_offset : Z;
  k_ops : list op; k_snaps : list snapshot; k_log : list (Z * N)
}.

Fixpoint agree (v : variant) (c : config) (mgr : bool) (na : nat) (s : st) (ops : list op) (obs : list snapshot) : option st :=
  match ops, obs with
  | [], [] => Some s
  | o :: ops', ob :: obs' =>
      let s' := apply v c mgr s o in
      if snapshot_eqb (observe na s') ob then agree v c mgr na s' ops' obs' else None
  | _, _ => None
  end.

Definition log_eqb (x y : Z * N) : bool := (fst x =? fst y) && N.eqb (snd x) (snd y).

Definition case_ok (v : variant) (k : case) : bool :=
  match agree v (k_cfg k) (k_mgr k) (k_na k) (init (k_offset k)) (k_ops k) (k_snaps k) with
  | Some s => list_eqb log_eqb (map (fun e => (l_time e, l_addr e)) (rev (log s))) (k_log k)
  | None => false
  end.

Fixpoint mismatches_from (v : variant) (i : N) (cs : list case) : list N :=
  match cs with
  | [] => []
  | c :: cs' => if case_ok v c then mismatches_from v (i + 1)%N cs' else i :: mismatches_from v (i + 1)%N cs'
  end.

(** the tree that is checked is the repaired one *)
Definition mismatches (cs : list case) : list N := mismatches_from fixed 0%N cs.
Definition mismatches_pre_fix (cs : list case) : list N := mismatches_from pre_fix 0%N cs.
