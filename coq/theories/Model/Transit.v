(** Model of what transit agents see of a tunnel (C04).

    Go code followed here:
    - stream tunnels (TCP stream, port forward, shell, file transfer): both
      ends seal every message with the tunnel's [SessionKey] before it is
      framed ([meshConn.Write], [exit/forward.readLoop], [writeEncrypted],
      [streamFileContent], ... - the senders of [Model/Tunnel.v]); a sender
      without a key refuses to send;
    - datagram tunnels (UDP association, ICMP session): the ingress
      ([Agent.RelayUDPDatagram], [Agent.RelayICMPEcho]) seals when it holds a
      key and passes the bytes through when it holds none; the exit
      ([udp.Association.Encrypt], [icmp.Session.Encrypt]) likewise, and - since
      the repair - refuses once the association is closed ([Close] drops the
      key).  [Encrypt] is called by [udp.Handler.readLoop] /
      [icmp.Handler.waitForReply] after the datagram was read, so a close can
      come between the read and the encryption ([Late] below);
    - transits ([Agent.handleStreamData], [handleUDPDatagram],
      [handleICMPEcho]) copy [frame.Payload] into a new frame for the next
      hop; when the close has passed a transit its relay entry is gone and it
      forwards nothing more.

    Key agreement is modelled symbolically (Dolev-Yao): each end sends the
    public half of a fresh ephemeral pair, the key is
    KDF (DH (own private, other public), request id, both publics).

    No proofs in this file. *)
From Coq Require Import List NArith Bool.
From Coq.Strings Require Import Byte.
From MM Require Import Lib.Bytes Model.Tunnel.
Import ListNotations.
Local Open Scope N_scope.

(** * Stream frames along a path of transits *)

(** [Agent.handleStreamData] (and the UDP / ICMP counterparts): the frame for
    the next hop carries [frame.Payload] itself. *)
Definition transit_forward (x : blob) : blob := x.

(** [relay n frames]: the views of the [n] transits, ingress side first, and
    what the last one hands to the exit *)
Fixpoint relay (n : nat) (frames : list blob) : list (list blob) * list blob :=
  match n with
  | O => ([], frames)
  | S n' =>
      let '(views, out) := relay n' (map transit_forward frames) in
      (frames :: views, out)
  end.

(** * Datagram associations *)

Inductive dgop :=
| Up (b : bytes)      (* the ingress application sends a datagram *)
| Down (b : bytes)    (* the destination answers; the exit reads and returns it *)
| CloseAssoc          (* the ingress closes: UDP_CLOSE / ICMP_CLOSE travels to the exit, the exit drops its key *)
| Late (b : bytes).   (* a datagram the exit had read from its socket before the close and processes after it *)

Inductive dir := DUp | DDown.   (* towards the exit / towards the ingress *)

Definition seen := (dir * blob)%type.

Record dgstate := {
  g_ikey : option key;   (* ingress: dest.SessionKey *)
  g_ictr : N;
  g_iopen : bool;        (* ingress still has the association *)
  g_ekey : option key;   (* exit: Association.SessionKey *)
  g_ectr : N;
  g_eclosed : bool;      (* exit: Association.closed *)
  g_views : list (list seen)   (* what each transit, ingress side first, has seen in data frames *)
}.

Definition established (k : key) (transits : nat) : dgstate :=
  {| g_ikey := Some k; g_ictr := 0; g_iopen := true;
     g_ekey := Some k; g_ectr := 0; g_eclosed := false;
     g_views := repeat [] transits |}.

(** which exit code is modelled *)
Inductive version := PreFix | Fixed.

(** [udp.Association.Encrypt] / [icmp.Session.Encrypt]; [None] = error, the
    caller drops the datagram *)
Definition exit_encrypt (v : version) (st : dgstate) (b : bytes) : option blob :=
  match v, g_eclosed st with
  | Fixed, true => None
  | _, _ =>
      match g_ekey st with
      | Some k => Some (Whole k (g_ectr st) b)
      | None => Some (Clear b)
      end
  end.

(** [RelayUDPDatagram] / [RelayICMPEcho] *)
Definition ingress_encrypt (st : dgstate) (b : bytes) : blob :=
  match g_ikey st with
  | Some k => Whole k (g_ictr st) b
  | None => Clear b
  end.

Definition see_all (views : list (list seen)) (x : seen) : list (list seen) :=
  map (fun v => v ++ [x]) views.

(** only the transit next to the exit still sees the frame (it is written on
    their link); its relay entry is gone, nobody else does *)
Fixpoint see_last (views : list (list seen)) (x : seen) : list (list seen) :=
  match views with
  | [] => []
  | [v] => [v ++ [x]]
  | v :: vs => v :: see_last vs x
  end.

Definition with_views (st : dgstate) (vs : list (list seen)) : dgstate :=
  {| g_ikey := g_ikey st; g_ictr := g_ictr st; g_iopen := g_iopen st;
     g_ekey := g_ekey st; g_ectr := g_ectr st; g_eclosed := g_eclosed st; g_views := vs |}.

Definition dg_step (v : version) (st : dgstate) (o : dgop) : dgstate :=
  match o with
  | Up b =>
      if g_iopen st then
        let x := ingress_encrypt st b in
        {| g_ikey := g_ikey st; g_ictr := g_ictr st + 1; g_iopen := true;
           g_ekey := g_ekey st; g_ectr := g_ectr st; g_eclosed := g_eclosed st;
           g_views := see_all (g_views st) (DUp, x) |}
      else st     (* ErrUDPStreamNotFound / ErrICMPStreamNotFound *)
  | Down b =>
      if g_eclosed st then st      (* socket closed: nothing is read any more *)
      else match exit_encrypt v st b with
           | Some x =>
               {| g_ikey := g_ikey st; g_ictr := g_ictr st; g_iopen := g_iopen st;
                  g_ekey := g_ekey st; g_ectr := g_ectr st + 1; g_eclosed := false;
                  g_views := see_all (g_views st) (DDown, x) |}
           | None => st
           end
  | CloseAssoc =>
      {| g_ikey := g_ikey st; g_ictr := g_ictr st; g_iopen := false;
         g_ekey := None; g_ectr := g_ectr st; g_eclosed := true;
         g_views := g_views st |}
  | Late b =>
      if g_eclosed st then
        match exit_encrypt v st b with
        | Some x => with_views st (see_last (g_views st) (DDown, x))
        | None => st
        end
      else st   (* not late: covered by Down *)
  end.

Definition dg_run (v : version) (st : dgstate) (ops : list dgop) : dgstate :=
  fold_left (dg_step v) ops st.

(** * What a payload reveals *)

(** sealed under [k] (whole ciphertext or a slice of one) *)
Definition sealed_under (k : key) (x : blob) : bool :=
  match x with
  | Whole k' _ _ => k' =? k
  | Slice k' _ _ _ _ => k' =? k
  | Clear _ => false
  end.

(** the bytes a reader without any key gets out of a payload *)
Definition readable (x : blob) : bytes :=
  match x with
  | Clear b => b
  | _ => []
  end.

Definition opaque_to_transit (k : key) (x : blob) : bool :=
  sealed_under k x || match x with Clear [] => true | _ => false end.

(** the plaintext the key holder gets *)
Definition plaintext_of (x : blob) : bytes :=
  match x with
  | Whole _ _ p => p
  | _ => []
  end.

(** * Stream exits when a close lands between read and seal

    [exit.Handler.readLoop], [forward.Handler.readLoop],
    [shell.Handler.pumpOutput] / [pumpPTYOutput], [Agent.sendFileDownload]:
    the sender loop reads application bytes, then seals them with the
    connection's [sessionKey] and writes them to the previous hop.  A
    STREAM_CLOSE / STREAM_RESET / handler stop handled by another goroutine can
    land between the two.  In the code the [sessionKey] field of
    [ActiveConnection] / [ShellStream] / [fileTransferStream] is written once
    when the stream is set up and nobody changes or zeroes it afterwards
    ([KeepKey]); the loop does not look at the closed flag before sealing, so
    the late bytes are still emitted - under the tunnel's key.  [WipeKey] is
    the variant in which the close zeroes the key bytes the loop is about to
    use (a zeroed key is still a valid ChaCha20-Poly1305 key, known to
    everybody). *)

Inductive sxop :=
| SDown (b : bytes)    (* bytes read and sealed while the stream is open *)
| SClose               (* closeConnection / HandleStreamClose / Stop ran *)
| SLate (b : bytes).   (* bytes read before the close, sealed after it *)

Inductive close_policy := KeepKey | WipeKey.

Definition zero_key : key := 0.

Record sxstate := { x_key : key; x_closed : bool; x_ctr : N; x_view : list seen }.

Definition sx_emit (st : sxstate) (b : bytes) : sxstate :=
  {| x_key := x_key st; x_closed := x_closed st; x_ctr := x_ctr st + 1;
     x_view := x_view st ++ [(DDown, Whole (x_key st) (x_ctr st) b)] |}.

Definition sx_step (pol : close_policy) (st : sxstate) (o : sxop) : sxstate :=
  match o with
  | SDown b => if x_closed st then st else sx_emit st b
  | SClose =>
      {| x_key := match pol with KeepKey => x_key st | WipeKey => zero_key end;
         x_closed := true; x_ctr := x_ctr st; x_view := x_view st |}
  | SLate b => if x_closed st then sx_emit st b else st
  end.

Definition sx_init (k : key) : sxstate := {| x_key := k; x_closed := false; x_ctr := 0; x_view := [] |}.

Definition sx_run (pol : close_policy) (k : key) (ops : list sxop) : sxstate :=
  fold_left (sx_step pol) ops (sx_init k).

(** * Symbolic key agreement (Dolev-Yao) *)

Inductive term :=
| Priv (n : N)                  (* ephemeral private scalar number n *)
| Pub (n : N)                   (* its public half *)
| Shared (a b : N)              (* X25519 of private a with public b (= of private b with public a) *)
| SKey (a b : N) (req : N)      (* HKDF of Shared a b with request id and both publics *)
| Data (b : bytes)
| Enc (k : term) (t : term).    (* AEAD ciphertext *)

(** what can be computed from a set of terms *)
Inductive derives (S : list term) : term -> Prop :=
| d_in : forall t, In t S -> derives S t
| d_pub : forall n, derives S (Priv n) -> derives S (Pub n)
| d_dh1 : forall a b, derives S (Priv a) -> derives S (Pub b) -> derives S (Shared a b)
| d_dh2 : forall a b, derives S (Priv b) -> derives S (Pub a) -> derives S (Shared a b)
| d_kdf : forall a b r, derives S (Shared a b) -> derives S (SKey a b r)
| d_dec : forall k t, derives S (Enc k t) -> derives S k -> derives S t
| d_enc : forall k t, derives S k -> derives S t -> derives S (Enc k t).

(** everything a transit of the tunnel (initiator scalar [a], responder scalar
    [b], request [r]) receives: the two public halves in the OPEN and ACK
    frames and the sealed payloads *)
Definition transit_knowledge (a b r : N) (payloads : list bytes) : list term :=
  Pub a :: Pub b :: map (fun p => Enc (SKey a b r) (Data p)) payloads.

(** * Size-level oracle for the correspondence check *)

Inductive kind := K_tcp | K_forward | K_shell | K_file | K_udp | K_icmp | K_udp_race | K_stream_race | K_file_race.
Inductive opk := O_up | O_down | O_close | O_late.

(** [(up sealed, up clear, down sealed, down clear)] application bytes seen by
    the transits *)
Definition totals := (N * N * N * N)%type.

(** totals of what one transit has seen *)
Definition blob_app_bytes (x : blob) : N :=
  match x with
  | Whole _ _ p => blen p
  | Slice _ _ _ _ len => len
  | Clear b => blen b
  end.

Definition add_seen (k : key) (t : totals) (s : seen) : totals :=
  let '(a, b, c, d) := t in
  let n := blob_app_bytes (snd s) in
  match fst s, sealed_under k (snd s) with
  | DUp, true => (a + n, b, c, d)
  | DUp, false => (a, b + n, c, d)
  | DDown, true => (a, b, c + n, d)
  | DDown, false => (a, b, c, d + n)
  end.

Definition view_totals (k : key) (v : list seen) : totals := fold_left (add_seen k) v (0, 0, 0, 0).

Record szstate := { z_iopen : bool; z_eclosed : bool; z_haskey : bool; z_tot : totals }.

Definition add_us (t : totals) n : totals := let '(a, b, c, d) := t in (a + n, b, c, d).
Definition add_uc (t : totals) n : totals := let '(a, b, c, d) := t in (a, b + n, c, d).
Definition add_ds (t : totals) n : totals := let '(a, b, c, d) := t in (a, b, c + n, d).
Definition add_dc (t : totals) n : totals := let '(a, b, c, d) := t in (a, b, c, d + n).

Definition sz_step (v : version) (st : szstate) (o : opk * N) : szstate :=
  let '(k, n) := o in
  match k with
  | O_up => if z_iopen st then {| z_iopen := true; z_eclosed := z_eclosed st; z_haskey := z_haskey st; z_tot := add_us (z_tot st) n |} else st
  | O_down => if z_eclosed st then st else {| z_iopen := z_iopen st; z_eclosed := false; z_haskey := z_haskey st; z_tot := add_ds (z_tot st) n |}
  | O_close => {| z_iopen := false; z_eclosed := true; z_haskey := false; z_tot := z_tot st |}
  | O_late =>
      if z_eclosed st then
        match v with
        | Fixed => st
        | PreFix => {| z_iopen := z_iopen st; z_eclosed := true; z_haskey := z_haskey st; z_tot := add_dc (z_tot st) n |}
        end
      else st
  end.

Definition sz_dg_run (v : version) (ops : list (opk * N)) : totals :=
  z_tot (fold_left (sz_step v) ops {| z_iopen := true; z_eclosed := false; z_haskey := true; z_tot := (0, 0, 0, 0) |}).

(** stream exits: [(closed, totals)] *)
Definition sz_sx_step (pol : close_policy) (st : bool * totals) (o : opk * N) : bool * totals :=
  let '(closed, t) := st in
  let '(k, n) := o in
  match k with
  | O_down => if closed then st else (closed, add_ds t n)
  | O_close => (true, t)
  | O_late => if closed then (closed, match pol with KeepKey => add_ds t n | WipeKey => add_dc t n end) else st
  | O_up => st
  end.

Definition sz_sx_run (pol : close_policy) (ops : list (opk * N)) : totals :=
  snd (fold_left (sz_sx_step pol) ops (false, (0, 0, 0, 0))).

Definition sum_of (which : opk -> bool) (ops : list (opk * N)) : N :=
  fold_right (fun o acc => if which (fst o) then snd o + acc else acc) 0 ops.

Definition is_up (k : opk) : bool := match k with O_up => true | _ => false end.
Definition is_down (k : opk) : bool := match k with O_down => true | _ => false end.

(** case = (kind, script, observed totals, observed number of key derivations,
    observed number of keys reachable from transit state) *)
Definition c04_case := (kind * list (opk * N) * totals * N * N)%type.

Definition totals_eqb (x y : totals) : bool :=
  let '(a, b, c, d) := x in let '(a', b', c', d') := y in
  (a =? a') && (b =? b') && (c =? c') && (d =? d').

Definition c04_case_ok (c : c04_case) : bool :=
  let '(k, ops, obs, derived, tkeys) := c in
  (derived =? 2) && (tkeys =? 0) &&
  match k with
  | K_tcp | K_forward | K_udp | K_icmp | K_udp_race => totals_eqb (sz_dg_run Fixed ops) obs
  | K_stream_race => totals_eqb (sz_sx_run KeepKey ops) obs
  | K_file_race =>
      let '(us, uc, ds, dc) := obs in (uc =? 0) && (dc =? 0)
  | K_shell | K_file =>
      (* framing, metadata and compression add sealed bytes; nothing in the clear *)
      let '(us, uc, ds, dc) := obs in
      (uc =? 0) && (dc =? 0) && (sum_of is_up ops <=? us) && (sum_of is_down ops <=? ds)
  end.

Fixpoint c04_mismatches_from (i : N) (cs : list c04_case) : list N :=
  match cs with
  | [] => []
  | c :: cs' => if c04_case_ok c then c04_mismatches_from (i + 1) cs' else i :: c04_mismatches_from (i + 1) cs'
  end.

Definition c04_mismatches (cs : list c04_case) : list N := c04_mismatches_from 0 cs.
