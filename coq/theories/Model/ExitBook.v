(** Model of the connection bookkeeping shared by exit.Handler and
    forward.Handler (internal/exit/handler.go, internal/forward/handler.go):
    [connections map[uint64]*ActiveConnection] keyed by the BARE stream id and
    the separate counter [connCount] (properties C16 and C17).

    A tunnel endpoint is identified by the serial number of its destination
    connection (the order in which opens succeeded). *)
From Coq Require Import List NArith ZArith Bool.
From MM Require Import Model.Relay.
Import ListNotations.
Local Open Scope N_scope.

Record brec := mkbrec { b_peer : N; b_id : N; b_serial : N }.

Record book := mkbook {
  conns : amap brec;         (* connections *)
  count : Z;                 (* connCount *)
  opened : list brec;        (* every record ever created, by serial *)
  bclosed : list N;          (* serials whose connection object was Close()d by the handler *)
  loops : list N;            (* serials whose read loop is running *)
  maxc : Z;                  (* cfg.MaxConnections *)
}.

(** source facts the model relies on (tied to the code by Generated/C16.v) *)
Definition connections_key_bare : bool := true.            (* map[uint64]*ActiveConnection *)
Definition store_then_count_unconditional : bool := true.  (* connections[id] = ac; connCount.Add(1) *)

Definition book_init (maxc : Z) : book := mkbook [] 0 [] [] [] maxc.

Definition delN (x : N) (l : list N) : list N := filter (fun y => negb (y =? x)) l.

(** removeConnection + ac.Close() + WriteStreamClose(peer of the FRAME, id);
    result: new book, close frames written, serial closed (if any) *)
Definition close_conn1 (b : book) (id peer : N) : book * list (N * N) * option brec :=
  match mget id (conns b) with
  | None => (b, [], None)
  | Some r =>
      (mkbook (mdel id (conns b)) (count b - 1) (opened b)
              (if memN (b_serial r) (bclosed b) then bclosed b else bclosed b ++ [b_serial r])
              (loops b) (maxc b),
       [(peer, id)], Some r)
  end.

(** closeConnection followed by the end of the read loop of the connection it
    closed (conn.Read fails, the loop's deferred closeConnection(ac.StreamID,
    ac.RemoteID) runs); [fuel] bounds the chain *)
Fixpoint close_conn (fuel : nat) (b : book) (id peer : N) : book * list (N * N) :=
  match fuel with
  | O => (b, [])
  | S f =>
      let '(b1, w, r) := close_conn1 b id peer in
      match r with
      | None => (b1, w)
      | Some rc =>
          if memN (b_serial rc) (loops b1) then
            let b2 := mkbook (conns b1) (count b1) (opened b1) (bclosed b1) (delN (b_serial rc) (loops b1)) (maxc b1) in
            let '(b3, w') := close_conn f b2 (b_id rc) (b_peer rc) in
            (b3, w ++ w')
          else (b1, w)
      end
  end.

Inductive bop :=
| BOpen (peer id : N)
| BOpenBadKey (peer id : N)   (* the initiator's ephemeral key makes the ECDH fail *)
| BClose (peer id : N)
| BReset (peer id : N)
| BData (peer id serial tag : N)
| BDestClose (serial : N).

Record bobs := mkbobs {
  bo_res : N;                       (* open: 0 acked, 1 refused by the connection limit *)
  bo_closes : list (N * N);         (* STREAM_CLOSE frames written: (peer, id) *)
  bo_count : Z;
  bo_recs : list (N * (N * N * N)); (* key -> (peer, id, serial), sorted by key *)
  bo_closed : list N;               (* serials closed by the handler, ascending *)
  bo_got : list (N * N);            (* (serial, tag) delivered to destinations in this step *)
}.

Definition fuel0 : nat := 8.

Definition bstep (b : book) (o : bop) : book * N * list (N * N) * list (N * N) :=
  match o with
  | BOpen peer id =>
      if ((0 <? maxc b)%Z && (maxc b <=? count b)%Z)%bool then (b, 1, [], [])
      else
        let s := N.of_nat (length (opened b)) in
        let r := mkbrec peer id s in
        (* h.connections[streamID] = ac; h.connCount.Add(1) *)
        (mkbook (mset id r (conns b)) (count b + 1) (opened b ++ [r]) (bclosed b) (loops b ++ [s]) (maxc b), 0, [], [])
  | BOpenBadKey peer id =>
      (* limit check first; then resolve / allow / keygen / ECDH: the ECDH error
         path sends STREAM_OPEN_ERR and returns - nothing was registered or counted *)
      if ((0 <? maxc b)%Z && (maxc b <=? count b)%Z)%bool then (b, 1, [], [])
      else (b, 3, [], [])
  | BClose peer id | BReset peer id =>
      let '(b', w) := close_conn fuel0 b id peer in (b', 0, w, [])
  | BData peer id serial tag =>
      (* the sender encrypts with the key of its own tunnel [serial]; a tunnel
         that was never established has no key and nothing is sent *)
      if negb (N.to_nat serial <? length (opened b))%nat then (b, 0, [], []) else
      match mget id (conns b) with
      | None => (b, 0, [], [])
      | Some r =>
          if memN (b_serial r) (bclosed b) then (b, 0, [], [])
          else if b_serial r =? serial then (b, 0, [], [(serial, tag)])  (* right key: plaintext reaches that destination *)
          else let '(b', w) := close_conn fuel0 b id peer in (b', 0, w, [])  (* decrypt fails: closeConnection *)
      end
  | BDestClose serial =>
      if memN serial (loops b) then
        match nth_error (opened b) (N.to_nat serial) with
        | Some r =>
            let b1 := mkbook (conns b) (count b) (opened b) (bclosed b) (delN serial (loops b)) (maxc b) in
            let '(b', w) := close_conn fuel0 b1 (b_id r) (b_peer r) in (b', 0, w, [])
        | None => (b, 0, [], [])
        end
      else (b, 0, [], [])
  end.

Fixpoint insN (x : N) (l : list N) : list N :=
  match l with [] => [x] | y :: t => if x <=? y then x :: l else y :: insN x t end.
Definition sortN (l : list N) : list N := fold_right insN [] l.

Definition bobserve (b : book) (res : N) (w got : list (N * N)) : bobs :=
  mkbobs res w (count b)
    (map (fun p => (fst p, (b_peer (snd p), b_id (snd p), b_serial (snd p)))) (sorted (conns b)))
    (sortN (bclosed b)) got.

Fixpoint brun (b : book) (ops : list bop) : book :=
  match ops with [] => b | o :: r => let '(b', _, _, _) := bstep b o in brun b' r end.

(* ---- comparison ---------------------------------------------------------- *)

Definition pair_eqb (a b : N * N) : bool := (fst a =? fst b) && (snd a =? snd b).

Definition bobs_eqb (a b : bobs) : bool :=
  (bo_res a =? bo_res b) && list_eqb pair_eqb (bo_closes a) (bo_closes b) && (bo_count a =? bo_count b)%Z &&
  list_eqb (fun x y => (fst x =? fst y) &&
                       (let '(p, i, s) := snd x in let '(p', i', s') := snd y in (p =? p') && (i =? i') && (s =? s')))
           (bo_recs a) (bo_recs b) &&
  list_eqb N.eqb (bo_closed a) (bo_closed b) && list_eqb pair_eqb (bo_got a) (bo_got b).

Definition bcase := (Z * list (bop * bobs))%type.

Fixpoint bcase_ok_from (b : book) (c : list (bop * bobs)) : bool :=
  match c with
  | [] => true
  | (o, ob) :: rest =>
      let '(b', res, w, got) := bstep b o in
      bobs_eqb ob (bobserve b' res w got) && bcase_ok_from b' rest
  end.

Definition bcase_ok (c : bcase) : bool := bcase_ok_from (book_init (fst c)) (snd c).

Fixpoint bmismatches_from (i : N) (cs : list bcase) : list N :=
  match cs with
  | [] => []
  | c :: cs' => if bcase_ok c then bmismatches_from (i + 1) cs' else i :: bmismatches_from (i + 1) cs'
  end.
Definition bmismatches (cs : list bcase) : list N := bmismatches_from 0 cs.
