(** Model of config.expandEnvVars (internal/config/config.go).

    The Go code is one call

      envVarRegex.ReplaceAllStringFunc(s, func(match string) string {...})

    where envVarRegex is: dollar, opening brace, one or more characters other
    than the closing brace (captured), closing brace; OR dollar followed by a
    letter or underscore and then any number of letters, digits, underscores
    (the source text is [model_regex_source] below).
    Go's regexp finds successive non-overlapping leftmost matches; at a given
    start the two alternatives exclude each other (after the dollar the first
    needs an opening brace, the second a letter or underscore), [^}]+ followed
    by a closing brace can only end at the first closing brace, and the name
    class is greedy.  All special characters are ASCII, so matching on bytes
    and on runes agree (a negated class also matches the replacement rune of
    an invalid byte, one byte wide).  The model is therefore a byte scanner.

    The closure: for the braced form the text between the braces is split at
    the first ":-" if there is one (variable name, default); a variable that
    is set (os.LookupEnv ok) yields its value, even the empty one; an unset
    one yields the default, or the matched text itself when there is no
    default.  The environment is an association list, first binding wins. *)
From Coq Require Import List NArith Bool.
From Coq Require String.
From MM Require Import Lib.HStr.
Import ListNotations.
Local Open Scope N_scope.

Definition DOLLAR : N := 36.
Definition LBRACE : N := 123.
Definition RBRACE : N := 125.
Definition COLON : N := 58.
Definition MINUS : N := 45.

Definition is_name_start (c : N) : bool :=
  ((65 <=? c) && (c <=? 90)) || ((97 <=? c) && (c <=? 122)) || (c =? 95).
Definition is_name_char (c : N) : bool :=
  is_name_start c || ((48 <=? c) && (c <=? 57)).

(** longest prefix whose characters satisfy [p], and the rest *)
Fixpoint span (p : N -> bool) (s : str) : str * str :=
  match s with
  | [] => ([], [])
  | c :: r => if p c then let '(a, b) := span p r in (c :: a, b) else ([], s)
  end.

Inductive ref :=
| RBraced (body : str)    (* ${body}, body non-empty and free of the closing brace *)
| RSimple (name : str).   (* $name *)

(** source text of a reference *)
Definition ref_src (r : ref) : str :=
  match r with
  | RBraced body => DOLLAR :: LBRACE :: body ++ [RBRACE]
  | RSimple name => DOLLAR :: name
  end.

(** the regex anchored at the head of [s]: the reference matched there and
    the text after it *)
Definition match_here (s : str) : option (ref * str) :=
  match s with
  | d :: c :: r =>
      if negb (d =? DOLLAR) then None
      else if c =? LBRACE then
        match span (fun x => negb (x =? RBRACE)) r with
        | (b :: body, e :: r') => Some (RBraced (b :: body), r')   (* e is the closing brace *)
        | _ => None
        end
      else if is_name_start c then
        let '(nm, r') := span is_name_char r in Some (RSimple (c :: nm), r')
      else None
  | _ => None
  end.

(** first occurrence of ":-" *)
Fixpoint split_default (s : str) : option (str * str) :=
  match s with
  | [] => None
  | c :: r =>
      match r with
      | m :: r' => if (c =? COLON) && (m =? MINUS) then Some ([], r')
                   else match split_default r with
                        | Some (a, b) => Some (c :: a, b)
                        | None => None
                        end
      | [] => None
      end
  end.

Definition env := list (str * str).

Fixpoint lookup (e : env) (k : str) : option str :=
  match e with
  | [] => None
  | (k', v) :: e' => if str_eqb k k' then Some v else lookup e' k
  end.

(** the replacement closure *)
Definition resolve (e : env) (r : ref) : str :=
  match r with
  | RSimple name =>
      match lookup e name with Some v => v | None => ref_src r end
  | RBraced body =>
      match split_default body with
      | Some (var, def) =>
          match lookup e var with Some v => v | None => def end
      | None =>
          match lookup e body with Some v => v | None => ref_src r end
      end
  end.

(** Tokenisation: the input as a sequence of literal characters and
    references.  Structural recursion on the text; [skip] counts the
    characters of the current match still to be passed over. *)
Inductive piece := PLit (c : N) | PRef (r : ref).

Fixpoint tokens_from (skip : nat) (s : str) : list piece :=
  match s with
  | [] => []
  | c :: rest =>
      match skip with
      | S k => tokens_from k rest
      | O =>
          match match_here s with
          | Some (r, _) => PRef r :: tokens_from (pred (length (ref_src r))) rest
          | None => PLit c :: tokens_from O rest
          end
      end
  end.

Definition tokens (s : str) : list piece := tokens_from O s.

Definition piece_src (p : piece) : str :=
  match p with PLit c => [c] | PRef r => ref_src r end.

Definition render (e : env) (p : piece) : str :=
  match p with PLit c => [c] | PRef r => resolve e r end.

(** expandEnvVars *)
Definition expand (e : env) (s : str) : str := concat (map (render e) (tokens s)).

(** * Specification vocabulary (used by the theorem statements) *)

(** well-formed references: what the two regex alternatives can match *)
Definition wf_ref (r : ref) : Prop :=
  match r with
  | RBraced body => body <> [] /\ ~ In RBRACE body
  | RSimple name => exists c nm, name = c :: nm /\ is_name_start c = true /\ forallb is_name_char nm = true
  end.

(** a variable name as the simple form accepts it *)
Definition is_name (nm : str) : Prop :=
  exists c r, nm = c :: r /\ is_name_start c = true /\ forallb is_name_char r = true.

(** The specification of one replacement in the words of the property:
    what a reference stands for under environment [e]. *)
Inductive stands_for (e : env) : ref -> str -> Prop :=
| sf_simple_set : forall name v, lookup e name = Some v -> stands_for e (RSimple name) v
| sf_simple_unset : forall name, lookup e name = None -> stands_for e (RSimple name) (ref_src (RSimple name))
| sf_braced_set : forall body v,
    split_default body = None -> lookup e body = Some v -> stands_for e (RBraced body) v
| sf_braced_unset : forall body,
    split_default body = None -> lookup e body = None -> stands_for e (RBraced body) (ref_src (RBraced body))
| sf_default_set : forall body var def v,
    split_default body = Some (var, def) -> lookup e var = Some v -> stands_for e (RBraced body) v
| sf_default_unset : forall body var def,
    split_default body = Some (var, def) -> lookup e var = None -> stands_for e (RBraced body) def.

(** What one piece of the text turns into. *)
Inductive piece_out (e : env) : piece -> str -> Prop :=
| po_lit : forall c, piece_out e (PLit c) [c]
| po_ref : forall r v, stands_for e r v -> piece_out e (PRef r) v.

(** the modelled pattern, as source text (compared with the regenerated one) *)
Module EnvExpandText.
Import Coq.Strings.String.
Local Open Scope string_scope.
Definition model_regex_source : string :=
  "\$\{([^}]+)\}|\$([A-Za-z_][A-Za-z0-9_]*)".
Definition model_default_separator : string := ":-".
Definition model_brace_prefix : string := "${".
End EnvExpandText.
Export EnvExpandText.

(** Correspondence oracle: (environment, text, output observed from the Go
    function). *)
Definition case := (env * str * str)%type.

Definition case_ok (c : case) : bool :=
  let '(e, s, obs) := c in str_eqb (expand e s) obs.

Definition mismatches (cs : list case) : list N := mismatches_from case_ok 0 cs.

(** decoder of the harness's token stream (strings by index into a table) *)
Definition d_case (t : list str) : dec case :=
  d_pair (d_pair (d_list (d_pair (d_ref t) (d_ref t))) (d_ref t)) (d_ref t).
