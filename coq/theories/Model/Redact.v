(** Model of config.Config.Redacted / String (internal/config/config.go).

    A configuration is observed through its string-typed leaves: every field
    of kind string reachable from config.Config through struct fields and
    slice elements (including the elements of []string fields).  A leaf is
    identified by its field path (Go field names from the root, slice indices
    kept apart) and carries a value.  Non-string fields (numbers, durations,
    booleans) cannot hold a secret string and are not modelled.

    Redacted() makes a deep copy by a YAML marshal/unmarshal round trip and
    then overwrites every non-empty value at a fixed list of field paths with
    the placeholder.  The YAML library is an oracle [rt]: [None] = marshal or
    unmarshal returned an error, [Some c'] = the copy it produced (not assumed
    equal to the input: the library normalises some characters).

    The code as found ([redacted_pre_fix]): on a round-trip error it returned
    the receiver itself, so String() printed every secret.  The repaired code
    ([redacted]) redacts a structural copy instead. *)
From Coq Require Import List NArith Bool.
From MM Require Import Lib.HStr.
Import ListNotations.
Local Open Scope N_scope.

Definition path := list str.

Record leaf := mkLeaf { l_path : path; l_idx : list N; l_val : str }.

Definition config := list leaf.

Module RedactText.
Import Coq.Strings.String.
Local Open Scope string_scope.
Definition placeholder : str := lit "[REDACTED]".
(** the field paths overwritten by Redacted(), in source order *)
Definition redact_paths : list path :=
  [ [lit "TLS"; lit "Key"];
    [lit "TLS"; lit "KeyPEM"];
    [lit "Peers"; lit "ProxyAuth"; lit "Password"];
    [lit "Peers"; lit "TLS"; lit "Key"];
    [lit "Peers"; lit "TLS"; lit "KeyPEM"];
    [lit "Listeners"; lit "TLS"; lit "Key"];
    [lit "Listeners"; lit "TLS"; lit "KeyPEM"];
    [lit "SOCKS5"; lit "Auth"; lit "Users"; lit "Password"];
    [lit "SOCKS5"; lit "Auth"; lit "Users"; lit "PasswordHash"];
    [lit "Agent"; lit "PrivateKey"];
    [lit "FileTransfer"; lit "PasswordHash"];
    [lit "Shell"; lit "PasswordHash"];
    [lit "Management"; lit "PrivateKey"];
    [lit "Management"; lit "SigningPrivateKey"] ].
(** Which leaves are secrets, in the words of the property: TLS private keys
    (path and inline PEM, wherever a TLS block occurs), proxy passwords,
    SOCKS5 passwords and password hashes, the agent private key, shell and
    file-transfer password hashes, the management and signing private keys.
    As a rule on field names (the last name ends in Password, PasswordHash,
    PrivateKey or KeyPEM, or is Key inside a TLS block), so that a field
    added later is classified too. *)
Definition secret_name_suffixes : list str :=
  [lit "Password"; lit "PasswordHash"; lit "PrivateKey"; lit "KeyPEM"].
Definition tls_segment : str := lit "TLS".
Definition key_name : str := lit "Key".
End RedactText.
Export RedactText.

Fixpoint last_seg (p : path) : str :=
  match p with
  | [] => []
  | [x] => x
  | _ :: r => last_seg r
  end.

Definition ends_with (s suffix : str) : bool := prefixb (rev suffix) (rev s).

Definition is_secret_path (p : path) : bool :=
  existsb (ends_with (last_seg p)) secret_name_suffixes ||
  (str_eqb (last_seg p) key_name && mem_s tls_segment p).

Definition path_eqb (a b : path) : bool := strs_eqb a b.

Fixpoint mem_path (p : path) (l : list path) : bool :=
  match l with [] => false | q :: r => strs_eqb p q || mem_path p r end.

(** redact(&s): non-empty strings become the placeholder *)
Definition redact_val (v : str) : str :=
  match v with [] => [] | _ :: _ => placeholder end.

Definition redact_leaf (ps : list path) (l : leaf) : leaf :=
  if mem_path (l_path l) ps then mkLeaf (l_path l) (l_idx l) (redact_val (l_val l)) else l.

Definition redact_with (ps : list path) (c : config) : config := map (redact_leaf ps) c.
Definition redact_fields : config -> config := redact_with redact_paths.

(** the code as found *)
Definition redacted_pre_fix (rt : config -> option config) (c : config) : config :=
  match rt c with
  | Some c' => redact_fields c'
  | None => c                         (* return c: the receiver, unredacted *)
  end.

(** the repaired code *)
Definition redacted (rt : config -> option config) (c : config) : config :=
  match rt c with
  | Some c' => redact_fields c'
  | None => redact_fields c           (* redact a structural copy *)
  end.

(** * Aliasing model for "the original is never changed"

    Go slices share their backing array when a struct is copied by value.
    A configuration value is a set of top-level words plus slices named by
    the identifier of their backing array; redaction writes through
    (array, index).  A copy is described by the arrays its slices use. *)
Inductive slice_name := SPeers | SListeners | SUsers | SOther (n : N).

Definition slice_name_eqb (a b : slice_name) : bool :=
  match a, b with
  | SPeers, SPeers | SListeners, SListeners | SUsers, SUsers => true
  | SOther x, SOther y => N.eqb x y
  | _, _ => false
  end.

(** which backing array (identifier) each slice field of a value uses *)
Definition arrays := slice_name -> N.

(** slices whose elements Redacted() writes to *)
Definition written_slices : list slice_name := [SPeers; SListeners; SUsers].

(** copyForRedaction: struct copy (all slices shared) followed by cloning
    [cloned] into fresh arrays (fresh = not used by the original; identifiers
    [fresh s] are supplied by the allocator) *)
Definition copy_arrays (cloned : list slice_name) (fresh : slice_name -> N) (orig : arrays) : arrays :=
  fun s => if existsb (slice_name_eqb s) cloned then fresh s else orig s.

(** the arrays written by redaction on a value *)
Definition written_arrays (a : arrays) : list N := map a written_slices.

(** * Correspondence oracle.  A case is: the input leaves (non-empty ones),
    the result of the YAML round trip as performed by the harness with the
    same library (None = error), and the leaves of the value returned by the
    real Redacted(). *)
Definition leaf_eqb (a b : leaf) : bool :=
  strs_eqb (l_path a) (l_path b) &&
  (fix eqb (x y : list N) : bool :=
     match x, y with
     | [], [] => true
     | p :: x', q :: y' => N.eqb p q && eqb x' y'
     | _, _ => false
     end) (l_idx a) (l_idx b) &&
  str_eqb (l_val a) (l_val b).

Fixpoint config_eqb (a b : config) : bool :=
  match a, b with
  | [], [] => true
  | x :: a', y :: b' => leaf_eqb x y && config_eqb a' b'
  | _, _ => false
  end.

Definition case := (config * option config * config)%type.

Definition nonempty (c : config) : config :=
  filter (fun l => match l_val l with [] => false | _ => true end) c.

Definition case_ok (k : case) : bool :=
  let '(c, rtres, obs) := k in
  config_eqb (nonempty (redacted (fun _ => rtres) c)) obs.

Definition mismatches (cs : list case) : list N := mismatches_from case_ok 0 cs.

(** decoder of the harness's token stream: a table of paths, a table of
    values, then the cases; a leaf = path index, indices, value index; the
    round-trip result = 0 (error) | 1 (a copy equal to the input) | 2 leaves *)
Definition d_leaf (table : list path) (vals : list str) : dec leaf :=
  d_map (fun '(p, idx, v) => mkLeaf (nth p table []) idx v)
        (d_pair (d_pair d_nat (d_list d_N)) (d_ref vals)).

Definition d_case (table : list path) (vals : list str) : dec case :=
  fun s =>
    match d_list (d_leaf table vals) s with
    | Some (c, tag :: r) =>
        let rt_dec : option (option config * list N) :=
          if tag =? 0 then Some (None, r)
          else if tag =? 1 then Some (Some c, r)
          else d_map Some (d_list (d_leaf table vals)) r in
        match rt_dec with
        | Some (rtres, r') =>
            match d_list (d_leaf table vals) r' with
            | Some (obs, r'') => Some ((c, rtres, obs), r'')
            | None => None
            end
        | None => None
        end
    | _ => None
    end.

Definition decode (s : list N) : option (list case) :=
  match d_list (d_list d_str) s with
  | Some (table, r) =>
      match d_list d_str r with
      | Some (vals, r') => decode_cases (d_case table vals) r'
      | None => None
      end
  | None => None
  end.
