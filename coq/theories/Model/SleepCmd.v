(** Model of the signed sleep / wake command handling (C28, C29):

    - flood.Flooder.HandleSleepCommand / HandleWakeCommand, verifySleepCommand /
      verifyWakeCommand, markSleepCmdSeen, cleanupSleepCmdCache
      (internal/flood/flood.go),
    - agent.handleSleepCommand / handleWakeCommand / handleQueuedState
      (internal/agent/agent.go),
    - the refusals of sleep.Manager.Sleep / Wake (internal/sleep/sleep.go).

    Agent identifiers are opaque numbers.  Instants are [Z] nanoseconds since
    the Unix epoch, command timestamps are the wire's uint64 seconds.  The
    Ed25519 verdict on a command is the field [c_sigok]: the signature scheme
    is an oracle (in the correspondence check the harness fills the field with
    what crypto/ed25519 says about the bytes it put on the wire).

    [time.Since(time.Unix(int64(ts),0))] is modelled with the wrap-around of
    [time.Unix] and the saturation of [Time.Sub], because the timestamp check
    depends on both. *)
From Coq Require Import List NArith ZArith Bool.
Import ListNotations.
Local Open Scope Z_scope.

Inductive kind := KSleep | KWake.

Record cmd := mkcmd {
  c_origin : N; c_id : N; c_ts : N;
  c_sigzero : bool;   (* Signature is all zero bytes *)
  c_sigok : bool;     (* Ed25519 verdict over origin||id||timestamp under the configured key *)
  c_seenby : list N }.

Record entry := mkentry { e_origin : N; e_id : N; e_at : Z; e_from : N }.

Record fcfg := mkfcfg {
  f_local : N;
  f_signing : bool;   (* a signing public key is configured *)
  f_window : Z;       (* timestampWindow, ns *)
  f_ttl : Z;          (* cfg.SeenCacheTTL, ns *)
  f_max : Z }.        (* cfg.MaxSeenCacheSize *)

(** ** Timestamp check *)

Definition two63 : Z := 9223372036854775808.
Definition two64 : Z := 18446744073709551616.
Definition unix_to_internal : Z := 62135596800.
Definition second : Z := 1000000000.

(** int64(x) of a uint64, and int64 wrap-around of an integer *)
Definition wrap64 (z : Z) : Z := let m := z mod two64 in if m <? two63 then m else m - two64.
Definition to_int64 (n : N) : Z := wrap64 (Z.of_N n).

(** seconds field of time.Unix(int64(ts), 0): sec + unixToInternal, wrapping *)
Definition cmd_internal_sec (ts : N) : Z := wrap64 (to_int64 ts + unix_to_internal).

(** saturation of Time.Sub *)
Definition sat64 (d : Z) : Z := if d <? - two63 then - two63 else if two63 - 1 <? d then two63 - 1 else d.

(** time.Since(cmdTime) at instant [now] (ns since the Unix epoch) *)
Definition since_ns (now : Z) (ts : N) : Z :=
  sat64 (now + unix_to_internal * second - cmd_internal_sec ts * second).

(** if timeDiff < 0 { timeDiff = -timeDiff }   (int64 negation wraps) *)
Definition abs_wrap (d : Z) : Z := if d <? 0 then wrap64 (- d) else d.

(** before the repair: reject iff timeDiff > window *)
Definition ts_ok_pre_fix (cfg : fcfg) (now : Z) (ts : N) : bool :=
  negb (f_window cfg <? abs_wrap (since_ns now ts)).

(** repaired: reject iff timeDiff < 0 (negation overflowed) or timeDiff > window *)
Definition ts_ok (cfg : fcfg) (now : Z) (ts : N) : bool :=
  let a := abs_wrap (since_ns now ts) in negb (a <? 0) && negb (f_window cfg <? a).

Section WithTsCheck.
  Variable tsok : fcfg -> Z -> N -> bool.

  (** verifySleepCommand / verifyWakeCommand (same text for both kinds) *)
  Definition verify_with (cfg : fcfg) (now : Z) (c : cmd) : bool :=
    if negb (f_signing cfg) then true
    else negb (c_sigzero c) && tsok cfg now (c_ts c) && c_sigok c.
End WithTsCheck.

Definition verify := verify_with ts_ok.
Definition verify_pre_fix := verify_with ts_ok_pre_fix.

(** ** Seen cache *)

Definition key_eqb (o i : N) (e : entry) : bool := (e_origin e =? o)%N && (e_id e =? i)%N.

(** markSleepCmdSeen: (cache', fresh) *)
Fixpoint mark (now : Z) (o i from : N) (ca : list entry) : list entry * bool :=
  match ca with
  | [] => ([mkentry o i now from], true)
  | e :: r =>
      if key_eqb o i e
      then ((if (e_from e =? from)%N then e else mkentry (e_origin e) (e_id e) now (e_from e)) :: r, false)
      else let '(r', b) := mark now o i from r in (e :: r', b)
  end.

Definition has_key (o i : N) (ca : list entry) : bool := existsb (key_eqb o i) ca.

(** cleanupSleepCmdCache, expiry part: drop entries with now - SeenAt > expiry *)
Definition expire (now expiry : Z) (ca : list entry) : list entry :=
  filter (fun e => negb (expiry <? now - e_at e)) ca.

(** size part: when more than [f_max] entries remain, [excess] entries are
    deleted in Go map iteration order, i.e. an arbitrary choice: the choice is
    an argument ([victims] = the keys' positions to delete, an oracle). *)
Fixpoint remove_nth (n : nat) (l : list entry) : list entry :=
  match l, n with
  | [], _ => []
  | _ :: r, O => r
  | e :: r, S n' => e :: remove_nth n' r
  end.

Fixpoint evict (victims : list nat) (excess : nat) (ca : list entry) : list entry :=
  match excess with
  | O => ca
  | S ex' =>
      match victims with
      | [] => evict [] ex' (remove_nth 0 ca)
      | v :: vs => evict vs ex' (remove_nth (Nat.modulo v (Nat.max 1 (length ca))) ca)
      end
  end.

(** the expiry used for the sleep command cache.
    before the repair: SeenCacheTTL.  repaired: at least twice the timestamp
    window (a command stays acceptable for up to 2*window after it was first
    accepted) plus a minute for a handler that is between its timestamp check
    and its marking. *)
Definition mark_slack : Z := 60 * second.
Definition sleep_expiry_pre_fix (cfg : fcfg) : Z := f_ttl cfg.
Definition sleep_expiry (cfg : fcfg) : Z := Z.max (f_ttl cfg) (2 * f_window cfg + mark_slack).

Definition cleanup_with (expiry : fcfg -> Z) (cfg : fcfg) (now : Z) (victims : list nat) (ca : list entry) : list entry :=
  let ca' := expire now (expiry cfg) ca in
  let excess := Z.of_nat (length ca') - f_max cfg in
  if excess <=? 0 then ca' else evict victims (Z.to_nat excess) ca'.

Definition cleanup := cleanup_with sleep_expiry.
Definition cleanup_pre_fix := cleanup_with sleep_expiry_pre_fix.

(** ** Flooder.HandleSleepCommand / HandleWakeCommand *)

Definition forward_targets (cfg : fcfg) (peers : list N) (from : N) (c : cmd) : list N :=
  filter (fun p => negb (p =? from)%N && negb (existsb (N.eqb p) (c_seenby c ++ [f_local cfg]))) peers.

(** repaired order: loop check, verification, then check-and-mark.
    The verification reads the clock at [vnow], the marking at [mnow] (the same
    goroutine, a moment later; other handlers and cleanup passes may run in
    between).  Result: new cache and [Some targets] when the command is
    accepted (the handler returns true and forwards to [targets]). *)
Definition handle_split (cfg : fcfg) (vnow mnow : Z) (peers : list N) (from : N) (c : cmd) (ca : list entry)
  : list entry * option (list N) :=
  if existsb (N.eqb (f_local cfg)) (c_seenby c) then (ca, None)
  else if negb (verify cfg vnow c) then (ca, None)
  else let '(ca', fresh) := mark mnow (c_origin c) (c_id c) from ca in
       if fresh then (ca', Some (forward_targets cfg peers from c)) else (ca', None).

(** a handler running without interruption *)
Definition handle (cfg : fcfg) (now : Z) (peers : list N) (from : N) (c : cmd) (ca : list entry)
  : list entry * option (list N) := handle_split cfg now now peers from c ca.

(** order before the repairs: mark first, then loop check, then verification
    (with the old timestamp test). *)
Definition handle_pre_fix (cfg : fcfg) (now : Z) (peers : list N) (from : N) (c : cmd) (ca : list entry)
  : list entry * option (list N) :=
  let '(ca', fresh) := mark now (c_origin c) (c_id c) from ca in
  if negb fresh then (ca', None)
  else if existsb (N.eqb (f_local cfg)) (c_seenby c) then (ca', None)
  else if negb (verify_pre_fix cfg now c) then (ca', None)
  else (ca', Some (forward_targets cfg peers from c)).

(** ** Agent level *)

Inductive sstate := Awake | Sleeping | Polling.

Definition sstate_eqb (a b : sstate) : bool :=
  match a, b with Awake, Awake | Sleeping, Sleeping | Polling, Polling => true | _, _ => false end.

(** [a_pending]: the flooder's pending wake command (storePendingWake) and the
    instant it was stored; it is re-sent to peers that connect later. *)
Record astate := mkastate { a_sleep : sstate; a_cache : list entry; a_pending : option (cmd * Z) }.

Inductive frame :=
| FSleep (c : cmd)
| FWake (c : cmd)
| FQueued (s : option cmd) (w : option cmd).

Inductive effect :=
| EForward (k : kind) (to : N) (c : cmd)   (* a SLEEP_COMMAND / WAKE_COMMAND frame sent to a peer *)
| ECallback (k : kind)                     (* OnSleep / OnWake ran *)
| EState (from to : sstate).               (* the sleep state changed *)

(** sleep.Manager.Sleep / Wake as seen from here (callbacks succeed) *)
Definition mgr_apply (k : kind) (s : sstate) : sstate * list effect :=
  match k, s with
  | KSleep, Awake => (Sleeping, [ECallback KSleep; EState Awake Sleeping])
  | KSleep, _ => (s, [])                       (* ErrAlreadySleeping *)
  | KWake, Awake => (s, [])                    (* ErrNotSleeping *)
  | KWake, _ => (Awake, [ECallback KWake; EState s Awake])
  end.

(** handleSleepCommand sleeps 100 ms between the flooder's verdict and
    sleepMgr.Sleep(); handleWakeCommand does not. *)
Definition settle_delay (k : kind) : Z := match k with KSleep => 100000000 | KWake => 0 end.

Section WithHandle.
  Variable hdl : fcfg -> Z -> list N -> N -> cmd -> list entry -> list entry * option (list N).

  (** handleSleepCommand / handleWakeCommand after decoding: (state, effects, instant afterwards) *)
  Definition on_cmd_with (cfg : fcfg) (now : Z) (peers : list N) (from : N) (k : kind) (c : cmd) (st : astate)
    : astate * list effect * Z :=
    let '(ca', r) := hdl cfg now peers from c (a_cache st) in
    match r with
    | None => (mkastate (a_sleep st) ca' (a_pending st), [], now)
    | Some tg =>
        let '(s', ef) := mgr_apply k (a_sleep st) in
        (mkastate s' ca' (match k with KWake => Some (c, now) | KSleep => a_pending st end),
         map (fun p => EForward k p c) tg ++ ef, now + settle_delay k)
    end.

  (** repaired handleQueuedState: each carried command takes the flooded path *)
  Definition on_frame_with (cfg : fcfg) (now : Z) (peers : list N) (from : N) (f : frame) (st : astate)
    : astate * list effect * Z :=
    match f with
    | FSleep c => on_cmd_with cfg now peers from KSleep c st
    | FWake c => on_cmd_with cfg now peers from KWake c st
    | FQueued s w =>
        let '(st1, ef1, now1) :=
          match s with Some c => on_cmd_with cfg now peers from KSleep c st | None => (st, [], now) end in
        let '(st2, ef2, now2) :=
          match w with Some c => on_cmd_with cfg now1 peers from KWake c st1 | None => (st1, [], now1) end in
        (st2, ef1 ++ ef2, now2)
    end.

  (** handleQueuedState before the repair: Sleep() / Wake() whenever a
      command is present - no verification, no dedup, no forwarding. *)
  Definition on_frame_pre_fix_with (cfg : fcfg) (now : Z) (peers : list N) (from : N) (f : frame) (st : astate)
    : astate * list effect * Z :=
    match f with
    | FQueued s w =>
        let '(s1, ef1) := match s with Some _ => mgr_apply KSleep (a_sleep st) | None => (a_sleep st, []) end in
        let '(s2, ef2) := match w with Some _ => mgr_apply KWake s1 | None => (s1, []) end in
        (mkastate s2 (a_cache st) (a_pending st), ef1 ++ ef2, now)
    | _ => on_frame_with cfg now peers from f st
    end.
End WithHandle.

(** Flooder.OnPeerConnected (called from the agent's peer-connected
    callback): a stored wake command younger than SeenCacheTTL is sent to the
    new peer unless that peer is its origin. *)
Definition on_peer_up (cfg : fcfg) (now : Z) (p : N) (st : astate) : astate * list effect :=
  match a_pending st with
  | None => (st, [])
  | Some (c, at_) =>
      if f_ttl cfg <? now - at_ then (mkastate (a_sleep st) (a_cache st) None, [])
      else if (p =? c_origin c)%N then (st, [])
      else (st, [EForward KWake p c])
  end.

Definition on_cmd := on_cmd_with handle.
Definition on_frame := on_frame_with handle.
Definition on_frame_pre_fix := on_frame_pre_fix_with handle_pre_fix.

(** the commands a frame carries, with the instant at which each is examined
    is determined by [on_frame]; here only the contents *)
Definition carried (f : frame) : list (kind * cmd) :=
  match f with
  | FSleep c => [(KSleep, c)]
  | FWake c => [(KWake, c)]
  | FQueued s w =>
      (match s with Some c => [(KSleep, c)] | None => [] end) ++
      (match w with Some c => [(KWake, c)] | None => [] end)
  end.

(** ** Correspondence oracle for C28 (agent level) *)

Definition sstate_code (s : sstate) : N := match s with Awake => 0 | Sleeping => 1 | Polling => 2 end%N.

Fixpoint list_N_eqb (a b : list N) : bool :=
  match a, b with
  | [], [] => true
  | x :: a', y :: b' => N.eqb x y && list_N_eqb a' b'
  | _, _ => false
  end.

Fixpoint insert_N (x : N) (l : list N) : list N :=
  match l with [] => [x] | y :: r => if (x <=? y)%N then x :: l else y :: insert_N x r end.
Definition sort_N (l : list N) : list N := fold_right insert_N [] l.

Definition key_leb (a b : N * N) : bool :=
  (fst a <? fst b)%N || ((fst a =? fst b)%N && (snd a <=? snd b)%N).
Fixpoint insert_key (x : N * N) (l : list (N * N)) : list (N * N) :=
  match l with [] => [x] | y :: r => if key_leb x y then x :: l else y :: insert_key x r end.
Definition sorted_keys (ca : list entry) : list (N * N) :=
  fold_right insert_key [] (map (fun e => (e_origin e, e_id e)) ca).
Fixpoint keys_eqb (a b : list (N * N)) : bool :=
  match a, b with
  | [], [] => true
  | (x1, x2) :: a', (y1, y2) :: b' => N.eqb x1 y1 && N.eqb x2 y2 && keys_eqb a' b'
  | _, _ => false
  end.

(** observed after handing one frame in *)
Record obs := mkobs {
  ob_state : N; ob_sleep_cb : N; ob_wake_cb : N;
  ob_fwd_sleep : list N;   (* peers that were sent a SLEEP_COMMAND, ascending *)
  ob_fwd_wake : list N;
  ob_keys : list (N * N) }.

(** what the harness hands in: a frame from a peer, or a peer that connects *)
Inductive event := EvFrame (f : frame) | EvPeerUp.

Record step := mkstep { s_now : Z; s_from : N; s_event : event; s_obs : obs }.

(** [k_init]: sleep state when the first event arrives (0 awake, 1 sleeping, 2
    polling: inside a poll window, the agent's doPoll running; 3: sleep mode
    disabled in the configuration - no sleep manager at all) *)
Record acase := mkacase { k_start : Z; k_signing : bool; k_init : N; k_steps : list step }.

Definition count_cb (k : kind) (ef : list effect) : N :=
  N.of_nat (length (filter (fun e => match e, k with ECallback KSleep, KSleep | ECallback KWake, KWake => true | _, _ => false end) ef)).

Definition fwd_of (k : kind) (ef : list effect) : list N :=
  sort_N (flat_map (fun e => match e, k with
                             | EForward KSleep p _, KSleep | EForward KWake p _, KWake => [p]
                             | _, _ => [] end) ef).

Definition default_cfg (signing : bool) : fcfg :=
  mkfcfg 0%N signing (300 * second) (300 * second) 10000.

Definition model_peers : list N := [1; 2; 3]%N.

(** The flooder's own cleanup loop runs every SeenCacheTTL/2 from the instant
    the flooder was created ([start]).  Passes only remove entries and a later
    pass removes whatever an earlier one did, so the passes that fell into
    the interval (prev, now] amount to the last of them. *)
Definition cleanup_interval (cfg : fcfg) : Z := Z.quot (f_ttl cfg) 2.

Definition ticks_between (cfg : fcfg) (start prev now : Z) (ca : list entry) : list entry :=
  let iv := cleanup_interval cfg in
  if iv <=? 0 then ca else
  let last := start + ((now - start) / iv) * iv in
  if (prev <? last) && (start <? last) then cleanup cfg last [] ca else ca.

(** one step: cleanup passes since the previous step, the event, cleanup
    passes during the event (handleSleepCommand pauses 100 ms) *)
Definition step_ok (nosleep : bool) (cfg : fcfg) (start prev : Z) (st : astate) (s : step) : astate * Z * bool :=
  let st0 := mkastate (a_sleep st) (ticks_between cfg start prev (s_now s) (a_cache st)) (a_pending st) in
  let '(st1, ef, now') :=
    match s_event s with
    | EvFrame (FQueued _ _) =>
        (* handleQueuedState looks at the carried commands only when a sleep manager exists *)
        if nosleep then (st0, [], s_now s) else on_frame cfg (s_now s) model_peers (s_from s) (match s_event s with EvFrame f => f | _ => FQueued None None end) st0
    | EvFrame f => on_frame cfg (s_now s) model_peers (s_from s) f st0
    | EvPeerUp => let '(st', ef) := on_peer_up cfg (s_now s) (s_from s) st0 in (st', ef, s_now s)
    end in
  (* an agent whose sleep mode is disabled has no sleep manager: the flooder handles and
     forwards the commands all the same, nothing is acted on *)
  let st' := mkastate (if nosleep then Awake else a_sleep st1)
                      (ticks_between cfg start (s_now s) now' (a_cache st1)) (a_pending st1) in
  let o := s_obs s in
  (st', now',
   N.eqb (sstate_code (a_sleep st')) (ob_state o) &&
   N.eqb (if nosleep then 0%N else count_cb KSleep ef) (ob_sleep_cb o) &&
   N.eqb (if nosleep then 0%N else count_cb KWake ef) (ob_wake_cb o) &&
   list_N_eqb (fwd_of KSleep ef) (ob_fwd_sleep o) && list_N_eqb (fwd_of KWake ef) (ob_fwd_wake o) &&
   keys_eqb (sorted_keys (a_cache st')) (ob_keys o)).

Fixpoint steps_ok (nosleep : bool) (cfg : fcfg) (start prev : Z) (st : astate) (ss : list step) : bool :=
  match ss with
  | [] => true
  | s :: r => let '(st', prev', ok) := step_ok nosleep cfg start prev st s in ok && steps_ok nosleep cfg start prev' st' r
  end.

Definition acase_ok (k : acase) : bool :=
  steps_ok (N.eqb (k_init k) 3) (default_cfg (k_signing k)) (k_start k) (k_start k)
           (mkastate (match k_init k with 1%N => Sleeping | 2%N => Polling | _ => Awake end) [] None) (k_steps k).

Fixpoint amismatches_from (i : N) (cs : list acase) : list N :=
  match cs with
  | [] => []
  | c :: cs' => if acase_ok c then amismatches_from (i + 1) cs' else (i :: amismatches_from (i + 1) cs')%list
  end.

Definition mismatches (cs : list acase) : list N := amismatches_from 0%N cs.
