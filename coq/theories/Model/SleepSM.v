(** Model of sleep.Manager's state machine under concurrency
    (internal/sleep/sleep.go: Sleep, Wake, Poll, schedulePollLocked,
    persistState).

    Threads are the goroutines that call Sleep() / Wake() and the goroutines
    the poll timer spawns to run Poll().  Atomic steps are the code's critical
    sections (everything between stateMu.Lock and Unlock that is not
    interrupted by a callback) and the entry into a callback that runs without
    the lock.  A callback that runs while the lock is held (OnSleep, OnWake)
    splits its critical section into a first half (check, timer stop, callback
    entry) and a second half (state store, timer arming, persist, unlock);
    in between the lock stays held.  OnPollEnd is taken as not blocking (the
    agent does not install one).

    [gen_check] selects between the code before the repair (Poll re-locks and
    only asks "am I awake?") and the repaired code (Poll also compares the
    wake generation it saw when it started). *)
From Coq Require Import List NArith Bool.
Import ListNotations.

Inductive mstate := MAwake | MSleeping | MPolling.

Definition mstate_eqb (a b : mstate) : bool :=
  match a, b with MAwake, MAwake | MSleeping, MSleeping | MPolling, MPolling => true | _, _ => false end.

Inductive cb := OnSleep | OnWake | OnPoll | OnPollEnd.

Inductive res := ROk | RAlreadySleeping | RNotSleeping | RSkipped | RFailed.

Inductive pc :=
| SleepInit                (* Sleep() called, lock not yet taken *)
| SleepInCb                (* inside OnSleep, lock held *)
| WakeInit
| WakeInCb                 (* inside OnWake, lock held, timer already stopped *)
| PollWaitLock             (* timer fired, Poll() before its first critical section *)
| PollBeforeCb (g : N)     (* first critical section done (state = POLLING), OnPoll not yet entered *)
| PollInCb (g : N)         (* inside OnPoll / waiting PollDuration, no lock *)
| Done (r : res).

Record sys := mksys {
  s_state : mstate;
  s_persist : mstate;            (* state in sleep_state.json (absent file = AWAKE) *)
  s_timer : bool;                (* the poll timer is armed *)
  s_gen : N;                     (* wake generation *)
  s_lock : option nat;           (* thread holding stateMu across a callback *)
  s_threads : list pc;           (* thread id = position *)
  s_log : list (nat * cb);       (* callback entries, oldest first *)
  s_writes : N }.                (* number of persistState calls *)

Definition init : sys := mksys MAwake MAwake false 0 None [] [] 0.

Inductive step :=
| NewSleep            (* some goroutine calls Sleep() *)
| NewWake             (* some goroutine calls Wake() *)
| Fire                (* the armed poll timer fires *)
| Run (tid : nat)     (* thread [tid] performs its next atomic step *)
| FailCb (tid : nat)  (* the OnSleep / OnWake callback thread [tid] sits in returns an error: Sleep() / Wake()
                         return it without storing a state (Wake has already stopped the poll timer) *)
| CallPoll            (* some goroutine calls the public Poll() (the timer's goroutine that was already
                         running when the timer was stopped, or anyone else) *)
| Restart (graceful start : bool).
                      (* the process ends - gracefully (Stop() writes the current state) or not - and a new
                         Manager over the same data directory loads the state file; with [start] through
                         Manager.Start (which re-arms the poll timer for a sleeping/polling state), otherwise
                         through LoadState alone (what agent.Start does).  All goroutines of the old process
                         are gone; the state file survives. *)

Fixpoint set_nth (n : nat) (x : pc) (l : list pc) : list pc :=
  match l, n with
  | [], _ => []
  | _ :: r, O => x :: r
  | y :: r, S n' => y :: set_nth n' x r
  end.

Definition lock_free (s : sys) : bool := match s_lock s with None => true | Some _ => false end.

(** a goroutine of a process that has ended *)
Definition kill (p : pc) : pc := match p with Done r => Done r | _ => Done RSkipped end.

Definition upd_thread (s : sys) (tid : nat) (p : pc) : sys :=
  mksys (s_state s) (s_persist s) (s_timer s) (s_gen s) (s_lock s) (set_nth tid p (s_threads s)) (s_log s) (s_writes s).

Section WithGen.
  Variable gen_check : bool.

  Definition exec (s : sys) (st : step) : option sys :=
    match st with
    | NewSleep => Some (mksys (s_state s) (s_persist s) (s_timer s) (s_gen s) (s_lock s) (s_threads s ++ [SleepInit]) (s_log s) (s_writes s))
    | NewWake => Some (mksys (s_state s) (s_persist s) (s_timer s) (s_gen s) (s_lock s) (s_threads s ++ [WakeInit]) (s_log s) (s_writes s))
    | Fire =>
        if s_timer s
        then Some (mksys (s_state s) (s_persist s) false (s_gen s) (s_lock s) (s_threads s ++ [PollWaitLock]) (s_log s) (s_writes s))
        else None
    | Run tid =>
        match nth_error (s_threads s) tid with
        | None => None
        | Some SleepInit =>
            if lock_free s then
              match s_state s with
              | MAwake => Some (mksys (s_state s) (s_persist s) (s_timer s) (s_gen s) (Some tid)
                                      (set_nth tid SleepInCb (s_threads s)) (s_log s ++ [(tid, OnSleep)]) (s_writes s))
              | _ => Some (upd_thread s tid (Done RAlreadySleeping))
              end
            else None
        | Some SleepInCb =>
            Some (mksys MSleeping MSleeping true (s_gen s) None
                        (set_nth tid (Done ROk) (s_threads s)) (s_log s) (s_writes s + 1))
        | Some WakeInit =>
            if lock_free s then
              match s_state s with
              | MAwake => Some (upd_thread s tid (Done RNotSleeping))
              | _ => Some (mksys (s_state s) (s_persist s) false (s_gen s) (Some tid)
                                 (set_nth tid WakeInCb (s_threads s)) (s_log s ++ [(tid, OnWake)]) (s_writes s))
              end
            else None
        | Some WakeInCb =>
            Some (mksys MAwake MAwake (s_timer s) (s_gen s + 1) None
                        (set_nth tid (Done ROk) (s_threads s)) (s_log s) (s_writes s + 1))
        | Some PollWaitLock =>
            if lock_free s then
              match s_state s with
              | MSleeping => Some (mksys MPolling (s_persist s) (s_timer s) (s_gen s) None
                                         (set_nth tid (PollBeforeCb (s_gen s)) (s_threads s)) (s_log s) (s_writes s))
              | _ => Some (upd_thread s tid (Done RSkipped))
              end
            else None
        | Some (PollBeforeCb g) =>
            Some (mksys (s_state s) (s_persist s) (s_timer s) (s_gen s) (s_lock s)
                        (set_nth tid (PollInCb g) (s_threads s)) (s_log s ++ [(tid, OnPoll)]) (s_writes s))
        | Some (PollInCb g) =>
            if lock_free s then
              if mstate_eqb (s_state s) MAwake || (gen_check && negb (N.eqb g (s_gen s)))
              then Some (upd_thread s tid (Done ROk))
              else Some (mksys MSleeping MSleeping true (s_gen s) None
                               (set_nth tid (Done ROk) (s_threads s)) (s_log s ++ [(tid, OnPollEnd)]) (s_writes s + 1))
            else None
        | Some (Done _) => None
        end
    | FailCb tid =>
        match nth_error (s_threads s) tid with
        | Some SleepInCb | Some WakeInCb =>
            Some (mksys (s_state s) (s_persist s) (s_timer s) (s_gen s) None
                        (set_nth tid (Done RFailed) (s_threads s)) (s_log s) (s_writes s))
        | _ => None
        end
    | CallPoll =>
        Some (mksys (s_state s) (s_persist s) (s_timer s) (s_gen s) (s_lock s) (s_threads s ++ [PollWaitLock]) (s_log s) (s_writes s))
    | Restart graceful start =>
        (* the wake generation lives in memory and restarts at 0 in the code; every goroutine
           that could hold an old value is gone, so keeping the counter is indistinguishable *)
        let p := if graceful then s_state s else s_persist s in
        Some (mksys p p (start && negb (mstate_eqb p MAwake)) (s_gen s) None (map kill (s_threads s)) (s_log s)
                    (if graceful then s_writes s + 1 else s_writes s))
    end.

  Fixpoint run (s : sys) (tr : list step) : option sys :=
    match tr with
    | [] => Some s
    | st :: r => match exec s st with Some s' => run s' r | None => None end
    end.
End WithGen.

(** the repaired code / the code before the repair *)
Definition exec_fixed := exec true.
Definition run_fixed := run true.
Definition exec_pre_fix := exec false.
Definition run_pre_fix := run false.

(** the documented edges *)
Definition edge_ok (a b : mstate) : bool :=
  match a, b with
  | MAwake, MSleeping | MSleeping, MPolling | MPolling, MSleeping | MSleeping, MAwake | MPolling, MAwake => true
  | _, _ => mstate_eqb a b
  end.

(** POLLING is persisted as SLEEPING (the SLEEPING -> POLLING edge is not written) *)
Definition collapse (m : mstate) : mstate := match m with MPolling => MSleeping | _ => m end.

(** ------------------------------------------------------------------ *)
(** Correspondence oracle.  The harness drives a real Manager with actions it
    can force deterministically; after each action the goroutines run until
    they block, which in model terms means: a poller waiting for the lock
    takes it as soon as it is free (it then stops at the scheduling point
    before OnPoll, where the harness holds it). *)
Inductive action :=
| ASleep                (* start a goroutine calling Sleep(); the lock is free *)
| AWake
| AFinish (j : nat)     (* let the callback of the j-th requester (in start order) return *)
| AFinishFail (j : nat) (* ... return an error *)
| AFire                 (* advance virtual time by the poll interval *)
| AEnter (k : nat)      (* let the k-th poll that passed its first critical section enter OnPoll *)
| APollEnd (k : nat)    (* let the k-th entered OnPoll callback return (PollDuration elapses) *)
| ACallPoll             (* a goroutine calls Poll() while the lock is free *)
| ARestart (graceful start : bool).  (* end the process (Stop() or not) and bring up a new Manager (Start() or LoadState()) *)

Fixpoint find_index {A} (p : A -> bool) (l : list A) (i : nat) : option nat :=
  match l with
  | [] => None
  | x :: r => if p x then Some i else find_index p r (S i)
  end.

Definition is_poll_wait (p : pc) : bool := match p with PollWaitLock => true | _ => false end.

(** requesters are the threads created by ASleep / AWake, in order; polls are
    identified by the order in which they passed their first critical section
    ([r_started]) and, once inside OnPoll, by the order of their OnPoll entry *)
Record rstate := mkr { r_sys : sys; r_req : list nat; r_started : list nat }.

(** eager continuation of pollers waiting for the lock (bounded by fuel) *)
Fixpoint settle (gc : bool) (fuel : nat) (s : sys) (started : list nat) : sys * list nat :=
  match fuel with
  | O => (s, started)
  | S f =>
      if lock_free s then
        match find_index is_poll_wait (s_threads s) 0 with
        | Some t =>
            match exec gc s (Run t) with
            | Some s' =>
                settle gc f s' (match nth_error (s_threads s') t with Some (PollBeforeCb _) => started ++ [t] | _ => started end)
            | None => (s, started)
            end
        | None => (s, started)
        end
      else (s, started)
  end.

Definition settled (gc : bool) (s : sys) (r : rstate) (req : list nat) : rstate :=
  let '(s', st) := settle gc 8 s (r_started r) in mkr s' req st.

Definition nth_poll_cb (s : sys) (k : nat) : option nat :=
  nth_error (map fst (filter (fun e => match snd e with OnPoll => true | _ => false end) (s_log s))) k.

Definition act (gc : bool) (r : rstate) (a : action) : option rstate :=
  let s := r_sys r in
  match a with
  | ASleep =>
      match exec gc s NewSleep with
      | Some s1 => let tid := length (s_threads s) in
                   match exec gc s1 (Run tid) with
                   | Some s2 => Some (settled gc s2 r (r_req r ++ [tid]))
                   | None => None end
      | None => None end
  | AWake =>
      match exec gc s NewWake with
      | Some s1 => let tid := length (s_threads s) in
                   match exec gc s1 (Run tid) with
                   | Some s2 => Some (settled gc s2 r (r_req r ++ [tid]))
                   | None => None end
      | None => None end
  | AFinish j =>
      match nth_error (r_req r) j with
      | Some tid =>
          match nth_error (s_threads s) tid with
          | Some SleepInCb | Some WakeInCb =>
              match exec gc s (Run tid) with Some s1 => Some (settled gc s1 r (r_req r)) | None => None end
          | _ => None
          end
      | None => None end
  | AFinishFail j =>
      match nth_error (r_req r) j with
      | Some tid =>
          match exec gc s (FailCb tid) with Some s1 => Some (settled gc s1 r (r_req r)) | None => None end
      | None => None end
  | AFire =>
      match exec gc s Fire with
      | Some s1 => Some (settled gc s1 r (r_req r))
      | None => Some r     (* no timer armed: advancing time does nothing *)
      end
  | AEnter k =>
      match nth_error (r_started r) k with
      | Some tid =>
          match nth_error (s_threads s) tid with
          | Some (PollBeforeCb _) =>
              match exec gc s (Run tid) with Some s1 => Some (settled gc s1 r (r_req r)) | None => None end
          | _ => None
          end
      | None => None end
  | APollEnd k =>
      match nth_poll_cb s k with
      | Some tid =>
          match nth_error (s_threads s) tid with
          | Some (PollInCb _) =>
              match exec gc s (Run tid) with Some s1 => Some (settled gc s1 r (r_req r)) | None => None end
          | _ => None
          end
      | None => None end
  | ACallPoll =>
      match exec gc s CallPoll with
      | Some s1 => Some (settled gc s1 r (r_req r))
      | None => None end
  | ARestart g st =>
      match exec gc s (Restart g st) with
      | Some s1 => Some (settled gc s1 r (r_req r))
      | None => None end
  end.

Definition cb_code (c : cb) : N := match c with OnSleep => 0 | OnWake => 1 | OnPoll => 2 | OnPollEnd => 3 end%N.
Definition mstate_code (m : mstate) : N := match m with MAwake => 0 | MSleeping => 1 | MPolling => 2 end%N.
Definition res_code (p : pc) : N :=
  match p with
  | Done ROk => 1 | Done RAlreadySleeping => 2 | Done RNotSleeping => 3 | Done RSkipped => 4 | Done RFailed => 5
  | _ => 0     (* still running *)
  end%N.

(** observed after an action: GetState(), state in the file, callback log,
    results of the requesters (0 = still inside its callback), file writes,
    number of polls that have passed their first critical section *)
Record mobs := mkmobs { mo_state : N; mo_persist : N; mo_log : list N; mo_results : list N; mo_writes : N; mo_started : N }.

Fixpoint list_N_eqb (a b : list N) : bool :=
  match a, b with
  | [], [] => true
  | x :: a', y :: b' => N.eqb x y && list_N_eqb a' b'
  | _, _ => false
  end.

Definition obs_ok (r : rstate) (o : mobs) : bool :=
  let s := r_sys r in
  N.eqb (mstate_code (s_state s)) (mo_state o) &&
  N.eqb (mstate_code (s_persist s)) (mo_persist o) &&
  list_N_eqb (map (fun e => cb_code (snd e)) (s_log s)) (mo_log o) &&
  list_N_eqb (map (fun tid => match nth_error (s_threads s) tid with Some p => res_code p | None => 9%N end) (r_req r)) (mo_results o) &&
  N.eqb (s_writes s) (mo_writes o) &&
  N.eqb (N.of_nat (length (r_started r))) (mo_started o).

Fixpoint replay_ok (gc : bool) (r : rstate) (l : list (action * mobs)) : bool :=
  match l with
  | [] => true
  | (a, o) :: rest =>
      match act gc r a with
      | Some r' => obs_ok r' o && replay_ok gc r' rest
      | None => false
      end
  end.

Definition mcase := list (action * mobs).

Definition mcase_ok (c : mcase) : bool := replay_ok true (mkr init [] []) c.

Fixpoint mmismatches_from (i : N) (cs : list mcase) : list N :=
  match cs with
  | [] => []
  | c :: cs' => if mcase_ok c then mmismatches_from (i + 1) cs' else i :: mmismatches_from (i + 1) cs'
  end.

Definition mismatches (cs : list mcase) : list N := mmismatches_from 0%N cs.

(** ------------------------------------------------------------------ *)
(** Agent level: agent.doPoll, the OnPoll callback, ends with
      if sleepMgr.GetState() == AWAKE { return }     (no lock)
      peerMgr.DisconnectAll()
    Two atomic steps of the callback's goroutine against a Wake that is one
    atomic step here (its two halves hold the lock, which doPoll does not take). *)
Inductive dstep := DReadState | DDisconnect | DWakeCompletes.
Inductive devent := EvWakeCompleted | EvDisconnectAll.

Record dsys := mkd { d_state : mstate; d_saw_asleep : option bool; d_events : list devent }.

Definition dexec (s : dsys) (st : dstep) : option dsys :=
  match st with
  | DReadState =>
      match d_saw_asleep s with
      | None => Some (mkd (d_state s) (Some (negb (mstate_eqb (d_state s) MAwake))) (d_events s))
      | Some _ => None
      end
  | DDisconnect =>
      match d_saw_asleep s with
      | Some true => Some (mkd (d_state s) (Some false) (d_events s ++ [EvDisconnectAll]))
      | _ => None
      end
  | DWakeCompletes =>
      if mstate_eqb (d_state s) MAwake then None
      else Some (mkd MAwake (d_saw_asleep s) (d_events s ++ [EvWakeCompleted]))
  end.

Fixpoint drun (s : dsys) (tr : list dstep) : option dsys :=
  match tr with
  | [] => Some s
  | st :: r => match dexec s st with Some s' => drun s' r | None => None end
  end.
