(** Model of the remote shell's authorisation and session accounting
    (internal/shell/executor.go: validateAndAcquire, ValidateAuth,
    IsCommandAllowed, ValidateArgs, AcquireSession, ReleaseSession) and of
    the handler's release discipline (internal/shell/handler.go:
    releaseSession with the Released flag).

    bcrypt is an oracle: [pw_ok] says whether the presented password matches
    the configured hash.  Strings are byte strings; the argument filter is a
    regular expression character class of ASCII characters, so matching on
    bytes and on runes agree (an invalid byte decodes to U+FFFD, which is not
    in the class; multi-byte runes contain no ASCII byte). *)
From Coq Require Import List NArith ZArith Bool.
From MM Require Import Lib.HStr.
Import ListNotations.
Local Open Scope N_scope.

Record config := mkCfg {
  c_enabled : bool;
  c_whitelist : list str;
  c_has_hash : bool;          (* PasswordHash != "" *)
  c_max : Z                   (* MaxSessions (int) *)
}.

Record meta := mkMeta { m_command : str; m_args : list str; m_password : str }.

Inductive verdict :=
| VGranted
| VDisabled            (* shell is disabled *)
| VAuthRequired        (* hash configured, empty password *)
| VInvalidCreds        (* bcrypt mismatch *)
| VNotAllowed          (* command not allowed *)
| VDangerousArg (i : nat)
| VAbsoluteArg (i : nat)
| VMaxSessions.

Module ShellText.
Import Coq.Strings.String.
Local Open Scope string_scope.
(** the characters of dangerousArgPattern, sorted by code:
    ! $ & ( ) * ; < > ? [ \ ] ` { | } ~ *)
Definition dangerous_chars : str := [33; 36; 38; 40; 41; 42; 59; 60; 62; 63; 91; 92; 93; 96; 123; 124; 125; 126].
Definition wildcard : str := lit "*".
(** strings.ContainsAny(command, "/\\") *)
Definition path_separators : str := [47; 92].
End ShellText.
Export ShellText.

Definition has_wildcard (c : config) : bool := mem_s wildcard (c_whitelist c).

Definition contains_any (s chars : str) : bool := existsb (fun ch => mem_c ch chars) s.

(** IsCommandAllowed *)
Definition command_allowed (c : config) (cmd : str) : bool :=
  match c_whitelist c with
  | [] => false
  | _ => if has_wildcard c then true
         else if contains_any cmd path_separators then false
         else mem_s cmd (c_whitelist c)
  end.

Definition dangerous (arg : str) : bool := contains_any arg dangerous_chars.
(** filepath.IsAbs on unix *)
Definition is_abs (arg : str) : bool := match arg with c :: _ => c =? 47 | [] => false end.

(** ValidateArgs: first offending argument, dangerous characters checked
    before the absolute-path test *)
Fixpoint check_args (i : nat) (args : list str) : option verdict :=
  match args with
  | [] => None
  | a :: r => if dangerous a then Some (VDangerousArg i)
              else if is_abs a then Some (VAbsoluteArg i)
              else check_args (S i) r
  end.

Definition validate_args (c : config) (args : list str) : option verdict :=
  if has_wildcard c then None else check_args O args.

(** ValidateAuth *)
Definition validate_auth (pw_ok : bool) (c : config) (password : str) : option verdict :=
  if negb (c_has_hash c) then None
  else match password with
       | [] => Some VAuthRequired
       | _ => if pw_ok then None else Some VInvalidCreds
       end.

(** AcquireSession: the check and the increment are one critical section *)
Definition acquire (max : Z) (sessions : Z) : bool * Z :=
  if ((max >? 0) && (sessions >=? max))%Z then (false, sessions) else (true, (sessions + 1)%Z).

(** ReleaseSession *)
Definition release (sessions : Z) : Z := if (sessions >? 0)%Z then (sessions - 1)%Z else sessions.

(** validateAndAcquire: verdict and the new session count *)
Definition authorize (pw_ok : bool) (c : config) (m : meta) (sessions : Z) : verdict * Z :=
  if negb (c_enabled c) then (VDisabled, sessions)
  else match validate_auth pw_ok c (m_password m) with
       | Some v => (v, sessions)
       | None =>
           if negb (command_allowed c (m_command m)) then (VNotAllowed, sessions)
           else match validate_args c (m_args m) with
                | Some v => (v, sessions)
                | None => let '(ok, s') := acquire (c_max c) sessions in
                          if ok then (VGranted, s') else (VMaxSessions, s')
                end
       end.

(** * Interleavings of the critical sections

    Each AcquireSession / ReleaseSession call is one atomic step (mutex held
    for the whole body).  A schedule is the list of steps in the order the
    mutex was taken, each tagged with the stream (client) that made it. *)
Inductive op := OAcquire | ORelease.

Definition step (max : Z) (s : Z) (o : op) : Z * bool :=
  match o with
  | OAcquire => let '(ok, s') := acquire max s in (s', ok)
  | ORelease => (release s, true)
  end.

(** counter after each step, and whether the step was granted *)
Fixpoint run (max : Z) (s : Z) (ops : list op) : list (Z * bool) :=
  match ops with
  | [] => []
  | o :: r => let '(s', ok) := step max s o in (s', ok) :: run max s' r
  end.

(** The handler's discipline: a stream holds at most one session; it
    releases only what it holds, once (ShellStream.Released), and a failed
    start releases before the session is ever recorded. *)
Inductive sstate := SIdle | SHeld | SDone.

(** events of one stream *)
Inductive event :=
| EMeta            (* metadata frame: validateAndAcquire, then start *)
| EMetaStartFails  (* metadata frame, acquired, process failed to start: immediate release *)
| EClose.          (* HandleStreamClose / exit / closeStream: releaseSession *)

(** streams are numbered 0 .. K-1 (any K); the table holds the state of each *)
Definition streams := list sstate.

(** a number outside the table behaves like a finished stream *)
Definition get (st : streams) (i : nat) : sstate := nth i st SDone.

Fixpoint set (st : streams) (i : nat) (s : sstate) : streams :=
  match st, i with
  | [], _ => []
  | _ :: r, O => s :: r
  | x :: r, S k => x :: set r k s
  end.

(** one event of stream [i] under session counter [n]: new counter, new
    table.  [passes] = the request passes the checks that precede
    AcquireSession in validateAndAcquire. *)
Definition hstep (max : Z) (n : Z) (st : streams) (i : nat) (e : event) (passes : bool) : Z * streams :=
  match e, get st i with
  | EMeta, SIdle =>
      if passes then let '(ok, n') := acquire max n in
                     if ok then (n', set st i SHeld) else (n', set st i SDone)
      else (n, set st i SDone)
  | EMetaStartFails, SIdle =>
      if passes then let '(ok, n') := acquire max n in
                     if ok then (release n', set st i SDone) else (n', set st i SDone)
      else (n, set st i SDone)
  | EClose, SHeld => (release n, set st i SDone)
  | EClose, SIdle => (n, set st i SDone)
  | _, _ => (n, st)          (* a later frame is not metadata; a repeated close does nothing *)
  end.

Fixpoint hrun (max : Z) (n : Z) (st : streams) (evs : list (nat * event * bool)) : Z * streams :=
  match evs with
  | [] => (n, st)
  | (i, e, p) :: r => let '(n', st') := hstep max n st i e p in hrun max n' st' r
  end.

(** number of streams currently holding a session *)
Fixpoint held (st : streams) : Z :=
  match st with
  | [] => 0%Z
  | s :: r => ((match s with SHeld => 1 | _ => 0 end) + held r)%Z
  end.

(** * Correspondence oracle *)
Definition verdict_code (v : verdict) : N * N :=
  match v with
  | VGranted => (0, 0)
  | VDisabled => (1, 0)
  | VAuthRequired => (2, 0)
  | VInvalidCreds => (3, 0)
  | VNotAllowed => (4, 0)
  | VDangerousArg i => (5, N.of_nat i)
  | VAbsoluteArg i => (6, N.of_nat i)
  | VMaxSessions => (7, 0)
  end.

Inductive case :=
| CAuth (c : config) (m : meta) (pw_ok : bool) (before : N) (code arg after : N)
| CSeq (max : N) (start : N) (ops : list op) (obs : list (Z * bool)).

Fixpoint obs_eqb (a : list (Z * bool)) (b : list (Z * bool)) : bool :=
  match a, b with
  | [], [] => true
  | (s, ok) :: a', (s', ok') :: b' => Z.eqb s s' && Bool.eqb ok ok' && obs_eqb a' b'
  | _, _ => false
  end.

Definition case_ok (k : case) : bool :=
  match k with
  | CAuth c m pw before code arg after =>
      let '(v, s') := authorize pw c m (Z.of_N before) in
      let '(vc, va) := verdict_code v in
      (vc =? code) && (va =? arg) && Z.eqb s' (Z.of_N after)
  | CSeq max start ops obs => obs_eqb (run (Z.of_N max) (Z.of_N start) ops) obs
  end.

Definition mismatches (cs : list case) : list N := mismatches_from case_ok 0 cs.

(** MaxSessions and observed counters travel as value+1000 so that negative values fit in N *)
Definition d_case (t : list str) : dec case :=
  fun s =>
    match s with
    | 0 :: r =>
        d_map (fun '(en, wl, hh, mx, cmd, args, pw, ok, before, code, arg, after) =>
                 CAuth (mkCfg en wl hh (Z.of_N mx - 1000)%Z) (mkMeta cmd args pw) ok before code arg after)
              (d_pair (d_pair (d_pair (d_pair (d_pair (d_pair (d_pair (d_pair (d_pair (d_pair (d_pair
                 d_bool (d_list (d_ref t))) d_bool) d_N) (d_ref t)) (d_list (d_ref t))) (d_ref t)) d_bool) d_N) d_N) d_N) d_N) r
    | 1 :: r =>
        d_map (fun '(mx, st, ops, obs) => CSeq mx st ops obs)
              (d_pair (d_pair (d_pair d_N d_N)
                 (d_list (d_map (fun b : bool => if b then OAcquire else ORelease) d_bool)))
                 (d_list (d_pair (d_map (fun n => (Z.of_N n - 1000)%Z) d_N) d_bool))) r
    | _ => None
    end.
