(** Model of internal/agent/relay_table.go and of the relay part of the frame
    dispatcher in internal/agent/{agent,udp,icmp}.go (properties C16, C17),
    following the code after fix commits c4b0fba and 1a293bf.

    A [table] is the pair of Go maps byUpstream / byDownstream, keyed by
    (peer, stream id).  Maps are association lists with map semantics
    ([mset]/[pset] replace, [mdel]/[pdel] remove every binding of the key) and
    are observed through [sorted]/[psorted].  Peers and ids are [N]. *)
From Coq Require Import List NArith Bool.
Import ListNotations.
Local Open Scope N_scope.

Section Map.
  Context {V : Type}.
  Definition amap := list (N * V).
  Fixpoint mget (k : N) (m : amap) : option V :=
    match m with
    | [] => None
    | (k', v) :: t => if k' =? k then Some v else mget k t
    end.
  Definition mdel (k : N) (m : amap) : amap := filter (fun p => negb (fst p =? k)) m.
  Definition mset (k : N) (v : V) (m : amap) : amap := (k, v) :: mdel k m.
  Fixpoint ins_sorted (p : N * V) (l : amap) : amap :=
    match l with
    | [] => [p]
    | q :: t => if fst p <=? fst q then p :: l else q :: ins_sorted p t
    end.
  Definition sorted (m : amap) : amap := fold_right ins_sorted [] m.
End Map.
Arguments amap : clear implicits.

(** maps keyed by (peer, id) *)
Definition key := (N * N)%type.
Definition keqb (a b : key) : bool := (fst a =? fst b) && (snd a =? snd b).
Definition kleb (a b : key) : bool := (fst a <? fst b) || ((fst a =? fst b) && (snd a <=? snd b)).

Section PMap.
  Context {V : Type}.
  Definition pmap := list (key * V).
  Fixpoint pget (k : key) (m : pmap) : option V :=
    match m with
    | [] => None
    | (k', v) :: t => if keqb k' k then Some v else pget k t
    end.
  Definition pdel (k : key) (m : pmap) : pmap := filter (fun p => negb (keqb (fst p) k)) m.
  Definition pset (k : key) (v : V) (m : pmap) : pmap := (k, v) :: pdel k m.
  Fixpoint pins_sorted (p : key * V) (l : pmap) : pmap :=
    match l with
    | [] => [p]
    | q :: t => if kleb (fst p) (fst q) then p :: l else q :: pins_sorted p t
    end.
  Definition psorted (m : pmap) : pmap := fold_right pins_sorted [] m.
End PMap.
Arguments pmap : clear implicits.

Record entry := mkentry { up_peer : N; up_id : N; down_peer : N; down_id : N }.

Definition entry_eqb (a b : entry) : bool :=
  (up_peer a =? up_peer b) && (up_id a =? up_id b) && (down_peer a =? down_peer b) && (down_id a =? down_id b).

Definition up_key (e : entry) : key := (up_peer e, up_id e).
Definition down_key (e : entry) : key := (down_peer e, down_id e).

Record table := mktable { by_up : pmap entry; by_down : pmap entry }.

Definition empty_table : table := {| by_up := []; by_down := [] |}.

(** relayTable.Insert *)
Definition insert (t : table) (e : entry) : table :=
  {| by_up := pset (up_key e) e (by_up t); by_down := pset (down_key e) e (by_down t) |}.

(** relayTable.Delete: removes whatever sits under the entry's two keys *)
Definition delete (t : table) (e : entry) : table :=
  {| by_up := pdel (up_key e) (by_up t); by_down := pdel (down_key e) (by_down t) |}.

(** relayTable.LookupBoth(streamID, peer) *)
Definition lookup_both (t : table) (id peer : N) : option entry * option entry :=
  (pget (peer, id) (by_up t), pget (peer, id) (by_down t)).

(** relayTable.LookupDownstreamFrom(streamID, peer) *)
Definition lookup_down_from (t : table) (id peer : N) : option entry := pget (peer, id) (by_down t).

Definition pop_down_from_peer (t : table) (id peer : N) : table * option entry :=
  match pget (peer, id) (by_down t) with
  | Some e => (delete t e, Some e)
  | None => (t, None)
  end.

(** result: entry and the fromUpstream flag *)
Definition pop_matching (t : table) (id peer : N) : table * option (entry * bool) :=
  match pget (peer, id) (by_up t) with
  | Some u => (delete t u, Some (u, true))
  | None =>
      match pget (peer, id) (by_down t) with
      | Some d => (delete t d, Some (d, false))
      | None => (t, None)
      end
  end.

Definition involves (peer : N) (e : entry) : bool := (up_peer e =? peer) || (down_peer e =? peer).

(** relayTable.DeleteByPeer: ranges over byUpstream; for every entry found
    there that involves the peer it deletes the current upstream key and the
    entry's downstream key.  (Deleting the current key while ranging is well
    defined in Go and the result does not depend on the order.) *)
Definition delete_by_peer (t : table) (peer : N) : table * N :=
  let hit := filter (fun p => involves peer (snd p)) (by_up t) in
  ({| by_up := filter (fun p => negb (involves peer (snd p))) (by_up t);
      by_down := fold_left (fun m p => pdel (down_key (snd p)) m) hit (by_down t) |},
   N.of_nat (length hit)).

(** source facts the model relies on (tied to the code by Generated/C16.v) *)
Definition relay_keys_carry_peer : bool := true.     (* both indices keyed by (peer, id) *)
Definition lookups_pass_source_peer : bool := true.  (* handlers look up (frame.StreamID, peerID) *)
(** order in which handleStreamData tries the endpoints: 1 relay table, 2 exit
    handler, 3 forward handler, 4 file transfer, 5 shell server, 6 shell
    client, 7 stream manager.  The modelled transit has only 1 and 7. *)
Definition stream_data_dispatch_order : list N := [1; 2; 3; 4; 5; 6; 7].
(** every handler that dispatches by stream id (STREAM_{OPEN_ACK,OPEN_ERR,DATA,
    CLOSE,RESET}, UDP_{OPEN_ACK,OPEN_ERR,DATAGRAM,CLOSE}, ICMP_{OPEN_ACK,
    OPEN_ERR,ECHO,CLOSE}) consults the relay table - keyed by (peer, id) -
    before any local endpoint - keyed by the bare id - and returns when the
    relay matched: [on_frame] only falls through to local effects when no
    relay entry has the frame's (peer, id) as an end *)
Definition relay_consulted_first : bool := true.

Definition snapshot (t : table) : pmap entry * pmap entry := (psorted (by_up t), psorted (by_down t)).

(* ------------------------------------------------------------------------- *)
(** * Table-level operation sequences (facade correspondence) *)

Inductive top :=
| TInsert (e : entry)
| TDelete (e : entry)
| TLookupBoth (id peer : N)
| TLookupDownFrom (id peer : N)
| TPopDown (id peer : N)
| TPopMatching (id peer : N)
| TDeleteByPeer (peer : N).

(** result of one operation, canonical: up to two entries, a flag, a count *)
Record tres := mktres { r_e1 : option entry; r_e2 : option entry; r_flag : bool; r_n : N }.

Definition tstep (t : table) (o : top) : table * tres :=
  match o with
  | TInsert e => (insert t e, mktres None None false 0)
  | TDelete e => (delete t e, mktres None None false 0)
  | TLookupBoth id p => let '(u, d) := lookup_both t id p in (t, mktres u d false 0)
  | TLookupDownFrom id p => (t, mktres (lookup_down_from t id p) None false 0)
  | TPopDown id p => let '(t', r) := pop_down_from_peer t id p in (t', mktres r None false 0)
  | TPopMatching id p =>
      let '(t', r) := pop_matching t id p in
      (t', match r with Some (e, f) => mktres (Some e) None f 0 | None => mktres None None false 0 end)
  | TDeleteByPeer p => let '(t', n) := delete_by_peer t p in (t', mktres None None false n)
  end.

Fixpoint trun (t : table) (ops : list top) : table :=
  match ops with
  | [] => t
  | o :: r => trun (fst (tstep t o)) r
  end.

(* ------------------------------------------------------------------------- *)
(** * The relay part of the agent's frame dispatcher *)

Inductive fam := TCP | UDP | ICMP.
Inductive kind := KOpen | KAck | KErr | KData | KClose | KReset.

Record frame := mkframe {
  f_fam : fam; f_kind : kind; f_id : N;
  f_path : list N;   (* remaining path, OPEN only *)
  f_tag : N;         (* request id / payload tag, carried opaquely *)
  f_fin : bool;      (* FIN_WRITE flag of STREAM_DATA *)
}.

(** what the agent (as a transit) knows *)
Record astate := mkastate {
  a_me : N;
  a_tcp : table; a_udp : table; a_icmp : table;
  a_conns : amap N;          (* connected peer -> next stream id of OUR end of that connection *)
  a_failing : list N;        (* peers towards which a send currently fails *)
  a_locals : amap (list N);  (* the agent's own stream-manager streams: id -> data tags received *)
}.

Definition tbl (s : astate) (f : fam) : table :=
  match f with TCP => a_tcp s | UDP => a_udp s | ICMP => a_icmp s end.

Definition with_tbl (s : astate) (f : fam) (t : table) : astate :=
  match f with
  | TCP => mkastate (a_me s) t (a_udp s) (a_icmp s) (a_conns s) (a_failing s) (a_locals s)
  | UDP => mkastate (a_me s) (a_tcp s) t (a_icmp s) (a_conns s) (a_failing s) (a_locals s)
  | ICMP => mkastate (a_me s) (a_tcp s) (a_udp s) t (a_conns s) (a_failing s) (a_locals s)
  end.

Definition with_conns (s : astate) (c : amap N) : astate :=
  mkastate (a_me s) (a_tcp s) (a_udp s) (a_icmp s) c (a_failing s) (a_locals s).
Definition with_failing (s : astate) (l : list N) : astate :=
  mkastate (a_me s) (a_tcp s) (a_udp s) (a_icmp s) (a_conns s) l (a_locals s).
Definition with_locals (s : astate) (l : amap (list N)) : astate :=
  mkastate (a_me s) (a_tcp s) (a_udp s) (a_icmp s) (a_conns s) (a_failing s) l.

Definition memN (x : N) (l : list N) : bool := existsb (N.eqb x) l.

(** peerMgr.SendToPeer: fails when the peer is not connected or the write
    fails; successful sends are what the neighbour receives *)
Definition send_ok (s : astate) (to : N) : bool :=
  match mget to (a_conns s) with Some _ => negb (memN to (a_failing s)) | None => false end.

Definition out := list (N * frame).

Definition emit (s : astate) (to : N) (f : frame) : out := if send_ok s to then [(to, f)] else [].

Definition two64 : N := 18446744073709551616.

(** "we are the exit": empty path, or (TCP only) the path is just ourselves *)
Definition open_is_local (s : astate) (f : frame) : bool :=
  match f_path f with
  | [] => true
  | [p] => match f_fam f with TCP => p =? a_me s | _ => false end
  | _ => false
  end.

(** STREAM_OPEN / UDP_OPEN / ICMP_OPEN *)
Definition on_open (s : astate) (from : N) (f : frame) : astate * out :=
  let fm := f_fam f in
  if open_is_local s f then
    (* we are the exit: the TCP exit handler / UDP / ICMP handlers are not
       configured on the modelled transit; UDP and ICMP answer with an error *)
    match fm with
    | TCP => (s, [])
    | _ => (s, emit s from (mkframe fm KErr (f_id f) [] (f_tag f) false))
    end
  else
    match f_path f with
    | [] => (s, [])
    | hop :: rest =>
        match mget hop (a_conns s) with
        | None => (s, emit s from (mkframe fm KErr (f_id f) [] (f_tag f) false))
        | Some next =>
            let e := mkentry from (f_id f) hop next in
            let s1 := with_conns (with_tbl s fm (insert (tbl s fm) e)) (mset hop ((next + 2) mod two64) (a_conns s)) in
            if send_ok s1 hop then (s1, [(hop, mkframe fm KOpen next rest (f_tag f) false)])
            else (with_tbl s1 fm (delete (tbl s1 fm) e), emit s1 from (mkframe fm KErr (f_id f) [] (f_tag f) false))
        end
    end.

Definition local_data (s : astate) (f : frame) : astate :=
  match mget (f_id f) (a_locals s) with
  | Some l => with_locals s (mset (f_id f) (l ++ [f_tag f]) (a_locals s))
  | None => s
  end.

Definition local_close (s : astate) (f : frame) : astate := with_locals s (mdel (f_id f) (a_locals s)).

Definition on_frame (s : astate) (from : N) (f : frame) : astate * out :=
  let fm := f_fam f in
  let t := tbl s fm in
  match f_kind f with
  | KOpen => on_open s from f
  | KAck =>
      match lookup_down_from t (f_id f) from with
      | Some e => if from =? down_peer e
                  then (s, emit s (up_peer e) (mkframe fm KAck (up_id e) [] (f_tag f) false))
                  else (s, [])
      | None => (s, [])
      end
  | KErr =>
      let '(t', r) := pop_down_from_peer t (f_id f) from in
      match r with
      | Some e => (with_tbl s fm t', emit s (up_peer e) (mkframe fm KErr (up_id e) [] (f_tag f) false))
      | None => (s, [])
      end
  | KData =>
      let '(u, d) := lookup_both t (f_id f) from in
      match u with
      | Some e =>
          if from =? up_peer e then (s, emit s (down_peer e) (mkframe fm KData (down_id e) [] (f_tag f) (f_fin f)))
          else match d with
               | Some e' => if from =? down_peer e' then (s, emit s (up_peer e') (mkframe fm KData (up_id e') [] (f_tag f) (f_fin f)))
                            else (match fm with TCP => local_data s f | _ => s end, [])
               | None => (match fm with TCP => local_data s f | _ => s end, [])
               end
      | None =>
          match d with
          | Some e' => if from =? down_peer e' then (s, emit s (up_peer e') (mkframe fm KData (up_id e') [] (f_tag f) (f_fin f)))
                       else (match fm with TCP => local_data s f | _ => s end, [])
          | None => (match fm with TCP => local_data s f | _ => s end, [])
          end
      end
  | KClose | KReset =>
      match fm, f_kind f with
      | UDP, KReset | ICMP, KReset => (s, [])   (* no such frame type *)
      | _, _ =>
        let '(t', r) := pop_matching t (f_id f) from in
        match r with
        | Some (e, fromUp) =>
            let '(dp, did) := if fromUp then (down_peer e, down_id e) else (up_peer e, up_id e) in
            (with_tbl s fm t', emit s dp (mkframe fm (f_kind f) did [] (f_tag f) false))
        | None => (match fm with TCP => local_close s f | _ => s end, [])
        end
      end
  end.

Inductive event :=
| EFrame (from : N) (f : frame)
| EConnect (peer : N) (dialer : bool)   (* new connection; our allocator starts at 1 (we dialled) or 2 *)
| EDisconnect (peer : N)                (* peer manager drops the connection, then handlePeerDisconnect *)
| ESetFail (peer : N) (b : bool).

(** handlePeerDisconnect -> cleanupRelaysForPeer runs DeleteByPeer on the TCP,
    UDP and ICMP relay tables *)
Definition cleanup_all_tables : bool := true.

Definition astep (s : astate) (ev : event) : astate * out :=
  match ev with
  | EFrame from f => on_frame s from f
  | EConnect p dialer =>
      (* a fresh connection: fresh allocator, and its writes work again *)
      (with_failing (with_conns s (mset p (if dialer then 1 else 2) (a_conns s)))
                    (filter (fun x => negb (x =? p)) (a_failing s)), [])
  | EDisconnect p =>
      match mget p (a_conns s) with
      | None => (s, [])   (* no connection, no disconnect notification *)
      | Some _ =>
      let s1 := with_conns s (mdel p (a_conns s)) in
      let s2 := with_tbl s1 TCP (fst (delete_by_peer (a_tcp s1) p)) in
      if cleanup_all_tables
      then (with_tbl (with_tbl s2 UDP (fst (delete_by_peer (a_udp s2) p))) ICMP
                     (fst (delete_by_peer (a_icmp (with_tbl s2 UDP (fst (delete_by_peer (a_udp s2) p)))) p)), [])
      else (s2, [])
      end
  | ESetFail p b =>
      (with_failing s (if b then p :: a_failing s else filter (fun x => negb (x =? p)) (a_failing s)), [])
  end.

Fixpoint arun (s : astate) (evs : list event) : astate * list out :=
  match evs with
  | [] => (s, [])
  | e :: r => let '(s1, o) := astep s e in let '(s2, os) := arun s1 r in (s2, o :: os)
  end.

Definition ainit (me : N) (locals : list N) : astate :=
  mkastate me empty_table empty_table empty_table [] [] (map (fun id => (id, [])) locals).

(* ------------------------------------------------------------------------- *)
(** * Comparison with the implementation (cases.v) *)

Definition opt_eqb {A} (f : A -> A -> bool) (a b : option A) : bool :=
  match a, b with Some x, Some y => f x y | None, None => true | _, _ => false end.

Fixpoint list_eqb {A} (f : A -> A -> bool) (a b : list A) : bool :=
  match a, b with
  | [], [] => true
  | x :: a', y :: b' => f x y && list_eqb f a' b'
  | _, _ => false
  end.

Definition idx_eqb (a b : key * entry) : bool := keqb (fst a) (fst b) && entry_eqb (snd a) (snd b).
Definition snap_eqb (a b : pmap entry * pmap entry) : bool :=
  list_eqb idx_eqb (fst a) (fst b) && list_eqb idx_eqb (snd a) (snd b).

Definition tres_eqb (a b : tres) : bool :=
  opt_eqb entry_eqb (r_e1 a) (r_e1 b) && opt_eqb entry_eqb (r_e2 a) (r_e2 b) &&
  Bool.eqb (r_flag a) (r_flag b) && (r_n a =? r_n b).

(** facade case: list of (operation, observed result, observed snapshot after) *)
Definition tcase := list (top * tres * (pmap entry * pmap entry)).

Fixpoint tcase_ok_from (t : table) (c : tcase) : bool :=
  match c with
  | [] => true
  | (o, r, sn) :: rest =>
      let '(t', r') := tstep t o in
      tres_eqb r r' && snap_eqb sn (snapshot t') && tcase_ok_from t' rest
  end.
Definition tcase_ok (c : tcase) : bool := tcase_ok_from empty_table c.

Definition fam_code (f : fam) : N := match f with TCP => 0 | UDP => 1 | ICMP => 2 end.
Definition kind_code (k : kind) : N :=
  match k with KOpen => 0 | KAck => 1 | KErr => 2 | KData => 3 | KClose => 4 | KReset => 5 end.

Definition frame_eqb (a b : frame) : bool :=
  (fam_code (f_fam a) =? fam_code (f_fam b)) && (kind_code (f_kind a) =? kind_code (f_kind b)) &&
  (f_id a =? f_id b) && list_eqb N.eqb (f_path a) (f_path b) && (f_tag a =? f_tag b) && Bool.eqb (f_fin a) (f_fin b).

Definition out_eqb (a b : out) : bool :=
  list_eqb (fun x y => (fst x =? fst y) && frame_eqb (snd x) (snd y)) a b.

(** agent case: our id, local stream ids, then per event: observed output
    frames, observed snapshots of the three tables, observed local streams
    (id, number of buffered data frames) *)
Record aobs := mkaobs {
  ao_out : out;
  ao_tcp : pmap entry * pmap entry; ao_udp : pmap entry * pmap entry; ao_icmp : pmap entry * pmap entry;
  ao_locals : list (N * N);
}.

Definition locals_obs (s : astate) : list (N * N) :=
  map (fun p => (fst p, N.of_nat (length (snd p)))) (sorted (a_locals s)).

Definition aobs_ok (s : astate) (o : out) (ob : aobs) : bool :=
  out_eqb (ao_out ob) o && snap_eqb (ao_tcp ob) (snapshot (a_tcp s)) && snap_eqb (ao_udp ob) (snapshot (a_udp s)) &&
  snap_eqb (ao_icmp ob) (snapshot (a_icmp s)) &&
  list_eqb (fun x y => (fst x =? fst y) && (snd x =? snd y)) (ao_locals ob) (locals_obs s).

Definition acase := (N * list N * list (event * aobs))%type.

Fixpoint acase_ok_from (s : astate) (c : list (event * aobs)) : bool :=
  match c with
  | [] => true
  | (ev, ob) :: rest => let '(s', o) := astep s ev in aobs_ok s' o ob && acase_ok_from s' rest
  end.
Definition acase_ok (c : acase) : bool :=
  let '(me, locals, evs) := c in acase_ok_from (ainit me locals) evs.

Inductive case := CTable (c : tcase) | CAgent (c : acase).

Definition case_ok (c : case) : bool := match c with CTable t => tcase_ok t | CAgent a => acase_ok a end.

Fixpoint mismatches_from (i : N) (cs : list case) : list N :=
  match cs with
  | [] => []
  | c :: cs' => if case_ok c then mismatches_from (i + 1) cs' else i :: mismatches_from (i + 1) cs'
  end.
Definition mismatches (cs : list case) : list N := mismatches_from 0 cs.
