(** Model of the exit agent's destination policy (C19).

    Go code followed (internal/agent/agent.go ManageRoute, ensureExitHandler,
    initComponents; internal/routing/manager.go AddDynamicRoute /
    RemoveDynamicRoute / GetDynamicRoutes; internal/exit/handler.go isAllowed,
    AddAllowedRoute, RemoveAllowedRoute, isDomainAllowed, HandleStreamOpen;
    internal/routing/domain.go ParseDomainPattern).

    Outside the model (Go's net package, supplied by the harness as data):
    turning CIDR text into (family of the text, address, prefix length),
    turning an address string into an IP, and DNS.  Inside the model:
    masking, the collapse of IPv4-mapped IPv6 networks / addresses into
    IPv4 (net.IPNet.String, net.IPNet.Contains, net.IP.To4), map keys, the
    allow list as a list with duplicates, the domain pattern matcher.

    No proofs in this file. *)
From Coq Require Import List NArith Bool.
From MM Require Import Lib.Bytes.
Import ListNotations.
Local Open Scope N_scope.

(** * Addresses and networks *)

Inductive ip := V4 (a : N) | V6 (a : N).

(** canonical network: what net.IPNet.String() prints *)
Record net := mkNet { n_is6 : bool; n_base : N; n_plen : N }.

Definition ip_eqb (x y : ip) : bool :=
  match x, y with
  | V4 a, V4 b => a =? b
  | V6 a, V6 b => a =? b
  | _, _ => false
  end.

Definition net_eqb (x y : net) : bool :=
  Bool.eqb (n_is6 x) (n_is6 y) && (n_base x =? n_base y) && (n_plen x =? n_plen y).

(** keep the top [p] bits of a [w]-bit number *)
Definition mask (w a p : N) : N := (a / 2 ^ (w - p)) * 2 ^ (w - p).

(** ::ffff:0:0/96 *)
Definition is_mapped (a : N) : bool := a / 2 ^ 32 =? 65535.

(** result of ParseCIDR as the harness hands it over: (the text was an IPv6
    text, unmasked address, prefix length) *)
Definition cidr := (bool * N * N)%type.

(** the network a parsed CIDR denotes for String() / Contains():
    networkNumberAndMask turns a 16-byte network whose (masked) address is
    IPv4-mapped into the 4-byte network with the last four mask bytes *)
Definition canon_net (c : cidr) : net :=
  let '(is6, a, p) := c in
  if is6 then
    let b := mask 128 a p in
    if is_mapped b && (96 <=? p) then mkNet false (b mod 2 ^ 32) (p - 96)
    else mkNet true b p
  else mkNet false (mask 32 a p) p.

(** net.IP.To4: an IPv4-mapped 16-byte address is an IPv4 address *)
Definition norm_ip (d : ip) : ip :=
  match d with
  | V4 a => V4 a
  | V6 a => if is_mapped a then V4 (a mod 2 ^ 32) else V6 a
  end.

(** net.IPNet.Contains *)
Definition contains (n : net) (d : ip) : bool :=
  match norm_ip d with
  | V4 a => negb (n_is6 n) && (a / 2 ^ (32 - n_plen n) =? n_base n / 2 ^ (32 - n_plen n))
  | V6 a => n_is6 n && (a / 2 ^ (128 - n_plen n) =? n_base n / 2 ^ (128 - n_plen n))
  end.

(** * Byte-string helpers for the domain matcher (ASCII) *)

Definition lower_byte (b : Byte.byte) : Byte.byte :=
  let n := b2n b in if (65 <=? n) && (n <=? 90) then n2b (n + 32) else b.

Definition lower (s : bytes) : bytes := map lower_byte s.

(** strings.TrimSpace restricted to ASCII white space *)
Definition is_space (b : Byte.byte) : bool :=
  let n := b2n b in ((9 <=? n) && (n <=? 13)) || (n =? 32).

Fixpoint trim_left (s : bytes) : bytes :=
  match s with
  | b :: s' => if is_space b then trim_left s' else s
  | [] => []
  end.

Definition trim_space (s : bytes) : bytes := rev (trim_left (rev (trim_left s))).

Fixpoint has_prefix (p s : bytes) : bool :=
  match p, s with
  | [], _ => true
  | x :: p', y :: s' => byte_eqb x y && has_prefix p' s'
  | _ :: _, [] => false
  end.

Definition has_suffix (suf s : bytes) : bool :=
  Nat.leb (length suf) (length s) && bytes_eqb (skipn (length s - length suf) s) suf.

Definition dot : Byte.byte := Byte.x2e.
Definition star : Byte.byte := Byte.x2a.

Definition has_dot (s : bytes) : bool := existsb (byte_eqb dot) s.

(** routing.ParseDomainPattern *)
Definition parse_pattern (p : bytes) : bool * bytes :=
  let t := trim_space p in
  if has_prefix [star; dot] t then (true, skipn 2 t) else (false, t).

(** one pattern of exit.Handler.isDomainAllowed; [d] is already lower case *)
Definition pattern_matches (d : bytes) (p : bytes) : bool :=
  let '(wild, base) := parse_pattern p in
  if wild then
    let suffix := dot :: lower base in
    if has_suffix suffix d then
      let prefix := firstn (length d - length suffix) d in
      negb (has_dot prefix) && negb (Nat.eqb (length prefix) 0)
    else false
  else bytes_eqb d (lower p).

Definition domain_allowed (pats : list bytes) (name : bytes) : bool :=
  match pats with
  | [] => false
  | _ => existsb (pattern_matches (lower name)) pats
  end.

(** * State *)

Record cfg := mkCfg {
  c_enabled : bool;          (* exit.enabled *)
  c_routes : list cidr;      (* exit.routes (valid CIDRs) *)
  c_domains : list bytes     (* exit.domain_routes *)
}.

Record state := mkState {
  s_local : list net;            (* keys of routing.Manager.localRoutes *)
  s_dyn : list (net * N);        (* routing.Manager.dynamicRoutes: key -> metric *)
  s_allow : option (list net);   (* exit handler's AllowedRoutes; None = no exit handler *)
  s_domains : list bytes         (* exit handler's AllowedDomains *)
}.

Definition mem_net (n : net) (l : list net) : bool := existsb (net_eqb n) l.
Definition mem_dyn (n : net) (l : list (net * N)) : bool := existsb (fun e => net_eqb n (fst e)) l.

Fixpoint dyn_upsert (n : net) (m : N) (l : list (net * N)) : list (net * N) :=
  match l with
  | [] => [(n, m)]
  | e :: l' => if net_eqb n (fst e) then (n, m) :: l' else e :: dyn_upsert n m l'
  end.

Definition dyn_remove (n : net) (l : list (net * N)) : list (net * N) :=
  filter (fun e => negb (net_eqb n (fst e))) l.

Definition init (c : cfg) : state :=
  let nets := map canon_net (c_routes c) in
  mkState nets []
          (if c_enabled c then Some nets else None)
          (if c_enabled c then c_domains c else []).

(** exit.Handler.AddAllowedRoute: the code before the fix (plain append) and
    the repaired code (an entry with the same String() is not added again) *)
Definition allow_add_pre_fix (n : net) (l : list net) : list net := l ++ [n].

Definition allow_add (n : net) (l : list net) : list net :=
  if mem_net n l then l else l ++ [n].

(** exit.Handler.RemoveAllowedRoute: removes the first entry with that String() *)
Fixpoint allow_remove (n : net) (l : list net) : list net :=
  match l with
  | [] => []
  | x :: l' => if net_eqb x n then l' else x :: allow_remove n l'
  end.

Inductive mres := ROk | RBadCIDR | RConfigRoute | RNotFound | ROther.

(** ManageRoute "add"; [adder] is the AddAllowedRoute in force *)
Definition manage_add_with (adder : net -> list net -> list net)
           (st : state) (c : option cidr) (metric : N) : state * mres :=
  match c with
  | None => (st, RBadCIDR)
  | Some c =>
    let k := canon_net c in
    if mem_net k (s_local st) && negb (mem_dyn k (s_dyn st)) then (st, RConfigRoute)
    else
      let local' := if mem_net k (s_local st) then s_local st else k :: s_local st in
      let allow := match s_allow st with Some l => l | None => [] end in  (* ensureExitHandler *)
      (mkState local' (dyn_upsert k metric (s_dyn st)) (Some (adder k allow)) (s_domains st), ROk)
  end.

Definition manage_add := manage_add_with allow_add.
Definition manage_add_pre_fix := manage_add_with allow_add_pre_fix.

Definition manage_remove (st : state) (c : option cidr) : state * mres :=
  match c with
  | None => (st, RBadCIDR)
  | Some c =>
    let k := canon_net c in
    if negb (mem_dyn k (s_dyn st)) then
      (st, if mem_net k (s_local st) then RConfigRoute else RNotFound)
    else
      (mkState (filter (fun x => negb (net_eqb k x)) (s_local st))
               (dyn_remove k (s_dyn st))
               (match s_allow st with Some l => Some (allow_remove k l) | None => None end)
               (s_domains st), ROk)
  end.

(** * Open requests *)

(** destination of a STREAM_OPEN as the exit handler sees it.  For a name the
    harness supplies what net.ParseIP says about the string and what the
    resolver answers (DNS is an oracle). *)
Inductive dest :=
| DIp4 (a : N)
| DIp6 (a : N)
| DName (name : bytes) (parsed : option ip) (resolved : option ip).

(** destAddr is an IP literal? (net.ParseIP(destAddr) != nil) *)
Definition dest_literal (d : dest) : option ip :=
  match d with
  | DIp4 a => Some (V4 a)
  | DIp6 a => Some (norm_ip (V6 a))
  | DName _ parsed _ => option_map norm_ip parsed
  end.

(** Resolver.Resolve *)
Definition dest_ip (d : dest) : option ip :=
  match dest_literal d with
  | Some i => Some i
  | None => match d with DName _ _ r => option_map norm_ip r | _ => None end
  end.

Definition dest_name_allowed (st : state) (d : dest) : bool :=
  match d with
  | DName nm None _ => domain_allowed (s_domains st) nm
  | _ => false
  end.

(** exit.Handler.isAllowed *)
Definition is_allowed (allow : list net) (i : ip) : bool := existsb (fun n => contains n i) allow.

Inductive decision := MNoHandler | MDenied | MUnresolved | MPermitted (target : ip).

Definition open (st : state) (d : dest) : decision :=
  match s_allow st with
  | None => MNoHandler
  | Some allow =>
    match dest_ip d with
    | None => MUnresolved
    | Some i => if dest_name_allowed st d || is_allowed allow i then MPermitted i else MDenied
    end
  end.

(** the two checks separately (what the harness's decision probes observe) *)
Definition probe (st : state) (d : dest) : bool * bool :=
  match s_allow st with
  | None => (false, false)
  | Some allow =>
    (match dest_ip d with Some i => is_allowed allow i | None => false end,
     dest_name_allowed st d)
  end.

(** * Histories *)

Inductive op :=
| OpAdd (c : option cidr) (metric : N)
| OpRemove (c : option cidr)
| OpList
| OpOpen (d : dest)
| OpProbe (d : dest).

Definition step_with (adder : net -> list net -> list net) (st : state) (o : op) : state :=
  match o with
  | OpAdd c m => fst (manage_add_with adder st c m)
  | OpRemove c => fst (manage_remove st c)
  | _ => st
  end.

Definition step := step_with allow_add.
Definition step_pre_fix := step_with allow_add_pre_fix.

Definition run (c : cfg) (h : list op) : state := fold_left step h (init c).
Definition run_pre_fix (c : cfg) (h : list op) : state := fold_left step_pre_fix h (init c).

(** * Correspondence oracle *)

Inductive outcome := ONoHandler | ODenied | OUnresolved | OPermitted (t : option (ip * N)) | OOther (code : N).
Inductive obs := ObsManage (r : mres) | ObsNone | ObsOpen (o : outcome) | ObsProbe (ipok nameok : bool).

Definition mres_eqb (a b : mres) : bool :=
  match a, b with
  | ROk, ROk | RBadCIDR, RBadCIDR | RConfigRoute, RConfigRoute | RNotFound, RNotFound | ROther, ROther => true
  | _, _ => false
  end.

Definition outcome_ok (m : decision) (o : outcome) : bool :=
  match m, o with
  | MNoHandler, ONoHandler => true
  | MDenied, ODenied => true
  | MUnresolved, OUnresolved => true
  | MPermitted i, OPermitted None => true      (* permitted, connect itself failed *)
  | MPermitted i, OPermitted (Some (j, _)) => ip_eqb i (norm_ip j)
  | _, _ => false
  end.

Fixpoint nets_eqb (a b : list net) : bool :=
  match a, b with
  | [], [] => true
  | x :: a', y :: b' => net_eqb x y && nets_eqb a' b'
  | _, _ => false
  end.

Definition allow_same (a b : option (list net)) : bool :=
  match a, b with
  | None, None => true
  | Some x, Some y => nets_eqb x y
  | _, _ => false
  end.

(** the dynamic table is a map: compare as sets of (key, metric) *)
Definition dyn_same (a b : list (net * N)) : bool :=
  Nat.eqb (length a) (length b) &&
  forallb (fun e => existsb (fun f => net_eqb (fst e) (fst f) && (snd e =? snd f)) b) a.

Definition observed_step := (op * obs * option (list net) * list (net * N))%type.

Definition step_ok (st : state) (s : observed_step) : state * bool :=
  let '(o, ob, allow, dyn) := s in
  let '(st', okobs) :=
    match o, ob with
    | OpAdd c m, ObsManage r => let '(st', r') := manage_add st c m in (st', mres_eqb r r')
    | OpRemove c, ObsManage r => let '(st', r') := manage_remove st c in (st', mres_eqb r r')
    | OpList, ObsNone => (st, true)
    | OpOpen d, ObsOpen oc => (st, outcome_ok (open st d) oc)
    | OpProbe d, ObsProbe a b => (st, let '(a', b') := probe st d in Bool.eqb a a' && Bool.eqb b b')
    | _, _ => (st, false)
    end in
  (st', okobs && allow_same (s_allow st') allow && dyn_same (s_dyn st') dyn).

Fixpoint steps_ok (st : state) (l : list observed_step) : bool :=
  match l with
  | [] => true
  | s :: l' => let '(st', ok) := step_ok st s in ok && steps_ok st' l'
  end.

Definition case := (cfg * list observed_step)%type.

Definition case_ok (c : case) : bool := steps_ok (init (fst c)) (snd c).

Fixpoint mismatches_from (i : N) (cs : list case) : list N :=
  match cs with
  | [] => []
  | c :: cs' => if case_ok c then mismatches_from (i + 1) cs' else i :: mismatches_from (i + 1) cs'
  end.

Definition mismatches (cs : list case) : list N := mismatches_from 0 cs.
