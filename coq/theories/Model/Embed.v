(** Model of internal/embed/embed.go (embedded configuration trailer).

    Binary format:  [executable][XOR'd config][8-byte length, little endian][8-byte magic]

    A file is its content, [bytes].  File sizes and offsets are [Z] (Go
    [int64]); the length field of the footer is an [N] below 2^64 (Go
    [uint64]); [to_int64] is the two's complement reinterpretation
    [int64(x)].  Every reader returns, next to its result, the list of
    positional reads [(offset, length)] it issued against the file and the
    list of buffer sizes it allocated with [make]; the property "without
    reading outside the file" is a statement about those two lists.

    The functions follow the code as it is after the two repairs
      fix: embed: compare the footer length unsigned in ReadEmbeddedConfig
      fix: embed: reject a footer length larger than the file in GetOriginalBinarySize
    The behaviour before the repairs is kept as [read_embedded_pre_fix] /
    [orig_size_pre_fix] / [copy_without_config_pre_fix]. *)
From Coq Require Import List NArith ZArith Bool.
From Coq Require String.
From Coq.Strings Require Import Byte.
From MM Require Import Lib.Bytes.
Import ListNotations.
Local Open Scope Z_scope.

(** ** Constants (checked against the source by Generated/C36.v) *)
Definition footer_size : Z := 16.
Definition magic : bytes := [x4d; x55; x54; x49; x43; x46; x47; x00].   (* "MUTICFG\0" *)
Definition xor_key : bytes :=
  [x4d; x55; x54; x49; x4d; x45; x54; x52;  x4f; x4f; x5f; x43; x4f; x4e; x46; x49;
   x47; x5f; x4b; x45; x59; x5f; x32; x30;  x32; x36; x5f; x56; x31; x5f; x30; x30].

(** ** XOR *)
Definition bxor (a b : byte) : byte := n2b (N.lxor (b2n a) (b2n b)).

(** [xor_from i data]: data[j] ^ key[(i+j) mod 32], i < 32 is the key phase *)
Fixpoint xor_from (i : nat) (data : bytes) : bytes :=
  match data with
  | [] => []
  | b :: rest => bxor b (nth (i mod 32) xor_key x00) :: xor_from (S i mod 32) rest
  end.

Definition xor (data : bytes) : bytes := xor_from 0 data.

(** ** Machine integers *)
Definition two63 : Z := 9223372036854775808.
Definition two64 : Z := 18446744073709551616.

(** int64(x) for a uint64 x *)
Definition to_int64 (x : N) : Z :=
  let z := Z.of_N x in if z <? two63 then z else z - two64.

(** wrap-around of int64 arithmetic *)
Definition wrap64 (z : Z) : Z :=
  let m := z mod two64 in if m <? two63 then m else m - two64.

(** ** File access *)
Definition fsize (f : bytes) : Z := Z.of_nat (length f).

(** [read_at f off len]: the bytes [off, off+len) when that range lies inside the file *)
Definition read_at (f : bytes) (off len : Z) : option bytes :=
  if (0 <=? off) && (0 <=? len) && (off + len <=? fsize f)
  then Some (firstn (Z.to_nat len) (skipn (Z.to_nat off) f))
  else None.

(** Result classes, numbered as the harness numbers them. *)
Inductive err := ENoConfig | ETooLarge | EAlready | EReadFail | EPanic.

Definition err_code (e : err) : N :=
  match e with ENoConfig => 1 | ETooLarge => 2 | EAlready => 3 | EReadFail => 4 | EPanic => 7 end%N.

Inductive res (A : Type) := Ok (a : A) | Err (e : err).
Arguments Ok {A} a.
Arguments Err {A} e.

(** what a call did to the file and the heap *)
Record effects := { reads : list (Z * Z); allocs : list Z }.
Definition no_eff : effects := {| reads := []; allocs := [] |}.

(** Go's make([]byte, n) panics when n is negative or above the runtime's
    allocation limit (2^48 on linux/amd64); below that limit it allocates. *)
Definition max_alloc : Z := 281474976710656.
Definition make_ok (n : Z) : bool := (0 <=? n) && (n <=? max_alloc).

(** ** HasEmbeddedConfig *)
Definition has_embedded (f : bytes) : effects * res bool :=
  let size := fsize f in
  if size <? footer_size then (no_eff, Ok false)
  else
    let eff := {| reads := [(size - 8, 8)]; allocs := [] |} in
    match read_at f (size - 8) 8 with
    | Some m => (eff, Ok (bytes_eqb m magic))
    | None => (eff, Err EReadFail)
    end.

(** the footer of a file of at least 16 bytes: (length field, magic field) *)
Definition footer_fields (f : bytes) : option (N * bytes) :=
  match read_at f (fsize f - footer_size) footer_size with
  | Some ft => Some (le_get (firstn 8 ft), skipn 8 ft)
  | None => None
  end.

(** ** ReadEmbeddedConfig (repaired) *)
Definition read_embedded (f : bytes) : effects * res bytes :=
  let size := fsize f in
  if size <? footer_size then (no_eff, Err ENoConfig)
  else
    let r1 := (size - footer_size, footer_size) in
    match footer_fields f with
    | None => ({| reads := [r1]; allocs := [footer_size] |}, Err EReadFail)
    | Some (clen, m) =>
      let eff1 := {| reads := [r1]; allocs := [footer_size] |} in
      if negb (bytes_eqb m magic) then (eff1, Err ENoConfig)
      else if (clen =? 0)%N then (eff1, Err ENoConfig)
      else if Z.of_N clen >? size - footer_size then (eff1, Err ETooLarge)   (* configLen > uint64(fileSize-FooterSize) *)
      else
        let start := size - footer_size - to_int64 clen in
        let n := Z.of_N clen in
        let eff2 := {| reads := [r1; (start, n)]; allocs := [footer_size; n] |} in
        if negb (make_ok n) then ({| reads := [r1]; allocs := [footer_size; n] |}, Err EPanic)
        else match read_at f start n with
             | Some c => (eff2, Ok (xor c))
             | None => (eff2, Err EReadFail)
             end
    end.

(** ** GetOriginalBinarySize (repaired) *)
Definition orig_size (f : bytes) : effects * res Z :=
  let size := fsize f in
  if size <? footer_size then (no_eff, Ok size)
  else
    let eff1 := {| reads := [(size - footer_size, footer_size)]; allocs := [footer_size] |} in
    match footer_fields f with
    | None => (eff1, Ok size)
    | Some (clen, m) =>
      if negb (bytes_eqb m magic) then (eff1, Ok size)
      else if Z.of_N clen >? size - footer_size then (eff1, Err ETooLarge)
      else (eff1, Ok (wrap64 (size - footer_size - to_int64 clen)))
    end.

Definition eff_app (a b : effects) : effects :=
  {| reads := reads a ++ reads b; allocs := allocs a ++ allocs b |}.

(** ** CopyBinaryWithoutConfig: result = the content written to the destination *)
Definition copy_with (osz : bytes -> effects * res Z) (f : bytes) : effects * res bytes :=
  match osz f with
  | (e1, Err e) => (e1, Err e)
  | (e1, Ok n) =>
    if negb (make_ok n) then (eff_app e1 {| reads := []; allocs := [n] |}, Err EPanic)
    else
      let e2 := eff_app e1 {| reads := [(0, Z.min n (fsize f))]; allocs := [n] |} in
      (* io.ReadFull from offset 0: short file -> unexpected EOF *)
      match read_at f 0 n with
      | Some d => (e2, Ok d)
      | None => (e2, Err EReadFail)
      end
  end.

Definition copy_without_config : bytes -> effects * res bytes := copy_with orig_size.

(** ** AppendConfig: result = the content written to the destination *)
Definition already_embedded (bin : bytes) : bool :=
  (footer_size <=? fsize bin) && bytes_eqb (skipn (length bin - 8) bin) magic.

Definition make_footer (n : N) : bytes := le_put 8 (n mod 18446744073709551616)%N ++ magic.

Definition append_config (bin cfg : bytes) : res bytes :=
  if already_embedded bin then Err EAlready
  else Ok (bin ++ xor cfg ++ make_footer (N.of_nat (length cfg))).

(** ** Files by identity: source and destination may be the same file
    (the same path, a symbolic or hard link to it, another spelling of the
    path).  AppendConfig reads the complete source (os.ReadFile) BEFORE it
    opens the destination with O_TRUNC, and CopyBinaryWithoutConfig reads the
    original part before os.WriteFile truncates the destination, so both
    work in place: the new content is computed from the old state. *)
Definition fstate := list (N * bytes).

Fixpoint fget (st : fstate) (i : N) : bytes :=
  match st with [] => [] | (j, c) :: st' => if N.eqb i j then c else fget st' i end.

Definition fset (st : fstate) (i : N) (c : bytes) : fstate := (i, c) :: st.

Definition append_config_at (st : fstate) (src dst : N) (cfg : bytes) : fstate * res unit :=
  match append_config (fget st src) cfg with
  | Ok f => (fset st dst f, Ok tt)
  | Err e => (st, Err e)
  end.

Definition strip_at (st : fstate) (src dst : N) : fstate * res unit :=
  match snd (copy_without_config (fget st src)) with
  | Ok d => (fset st dst d, Ok tt)
  | Err e => (st, Err e)
  end.

(** what a streaming implementation would do when source and destination are
    one file: the destination is truncated first, the source is then empty *)
Definition append_config_streaming_at (st : fstate) (src dst : N) (cfg : bytes) : fstate * res unit :=
  if already_embedded (fget st src) then (st, Err EAlready)
  else let st1 := fset st dst [] in
       (fset st1 dst (fget st1 src ++ xor cfg ++ make_footer (N.of_nat (length cfg))), Ok tt).

(** ** Behaviour before the repairs *)
Definition read_embedded_pre_fix (f : bytes) : effects * res bytes :=
  let size := fsize f in
  if size <? footer_size then (no_eff, Err ENoConfig)
  else
    let r1 := (size - footer_size, footer_size) in
    match footer_fields f with
    | None => ({| reads := [r1]; allocs := [footer_size] |}, Err EReadFail)
    | Some (clen, m) =>
      let eff1 := {| reads := [r1]; allocs := [footer_size] |} in
      if negb (bytes_eqb m magic) then (eff1, Err ENoConfig)
      else if (clen =? 0)%N then (eff1, Err ENoConfig)
      else if to_int64 clen >? size - footer_size then (eff1, Err ETooLarge)   (* int64(configLen) > fileSize-FooterSize *)
      else
        let start := wrap64 (size - footer_size - to_int64 clen) in
        let n := Z.of_N clen in            (* make([]byte, configLen) takes the uint64 *)
        let eff2 := {| reads := [r1; (start, n)]; allocs := [footer_size; n] |} in
        if negb (make_ok n) then ({| reads := [r1]; allocs := [footer_size; n] |}, Err EPanic)
        else match read_at f start n with
             | Some c => (eff2, Ok (xor c))
             | None => (eff2, Err EReadFail)
             end
    end.

Definition orig_size_pre_fix (f : bytes) : effects * res Z :=
  let size := fsize f in
  if size <? footer_size then (no_eff, Ok size)
  else
    let eff1 := {| reads := [(size - footer_size, footer_size)]; allocs := [footer_size] |} in
    match footer_fields f with
    | None => (eff1, Ok size)
    | Some (clen, m) =>
      if negb (bytes_eqb m magic) then (eff1, Ok size)
      else (eff1, Ok (wrap64 (size - footer_size - to_int64 clen)))
    end.

Definition copy_without_config_pre_fix : bytes -> effects * res bytes := copy_with orig_size_pre_fix.

(** ** What the property asks of one call: no crash, every read inside the
    file, every allocation at most the file size (and at least 0). *)
Definition read_inside (size : Z) (r : Z * Z) : Prop :=
  0 <= fst r /\ 0 <= snd r /\ fst r + snd r <= size.
Definition alloc_bounded (size : Z) (n : Z) : Prop := 0 <= n <= size.

Definition safe_call {A} (f : bytes) (out : effects * res A) : Prop :=
  snd out <> Err EPanic /\
  Forall (read_inside (fsize f)) (reads (fst out)) /\
  Forall (alloc_bounded (fsize f)) (allocs (fst out)).

(** ** Correspondence oracle *)
Definition hexs (s : String.string) : bytes := bytes_of_hex s.

(** observed outcome = (code, payload) *)
Definition obs_bytes := (N * String.string)%type.
Definition obs_bool := (N * bool)%type.
Definition obs_int := (N * Z)%type.

Inductive ecase :=
| CXor (input output : String.string)
| CReader (file : String.string) (has : N * bool) (rd : obs_bytes) (sz : obs_int) (cp : obs_bytes)
| CRound (same_file : bool) (bin cfg : String.string) (ap : obs_bytes) (has : N * bool) (rd : obs_bytes) (sz : obs_int) (cp : obs_bytes)
         (src_after : String.string) (strip_in_place : obs_bytes).

Definition agree_bytes (m : res bytes) (o : obs_bytes) : bool :=
  match m with
  | Ok d => N.eqb (fst o) 0 && bytes_eqb d (hexs (snd o))
  | Err e => N.eqb (fst o) (err_code e)
  end.
Definition agree_bool (m : res bool) (o : obs_bool) : bool :=
  match m with
  | Ok b => N.eqb (fst o) 0 && Bool.eqb b (snd o)
  | Err e => N.eqb (fst o) (err_code e)
  end.
Definition agree_int (m : res Z) (o : obs_int) : bool :=
  match m with
  | Ok z => N.eqb (fst o) 0 && Z.eqb z (snd o)
  | Err e => N.eqb (fst o) (err_code e)
  end.

Definition readers_agree (f : bytes) (has : obs_bool) (rd : obs_bytes) (sz : obs_int) (cp : obs_bytes) : bool :=
  agree_bool (snd (has_embedded f)) has && agree_bytes (snd (read_embedded f)) rd &&
  agree_int (snd (orig_size f)) sz && agree_bytes (snd (copy_without_config f)) cp.

Definition case_ok (c : ecase) : bool :=
  match c with
  | CXor i o => bytes_eqb (xor (hexs i)) (hexs o)
  | CReader file has rd sz cp => readers_agree (hexs file) has rd sz cp
  | CRound same bin cfg ap has rd sz cp src_after sip =>
    (* file 1 holds the binary; the destination is file 1 itself or the (absent) file 2 *)
    let st0 : fstate := [(1%N, hexs bin)] in
    let dst := if same then 1%N else 2%N in
    match append_config_at st0 1%N dst (hexs cfg) with
    | (_, Err e) => N.eqb (fst ap) (err_code e) && bytes_eqb (fget st0 1%N) (hexs src_after)
    | (st1, Ok _) =>
      let f := fget st1 dst in
      N.eqb (fst ap) 0 && bytes_eqb f (hexs (snd ap)) && readers_agree f has rd sz cp &&
      bytes_eqb (fget st1 1%N) (hexs src_after) &&
      match strip_at st1 dst dst with
      | (st2, Ok _) => N.eqb (fst sip) 0 && bytes_eqb (fget st2 dst) (hexs (snd sip))
      | (_, Err e) => N.eqb (fst sip) (err_code e)
      end
    end
  end.

Fixpoint mismatches_from (i : N) (cs : list ecase) : list N :=
  match cs with
  | [] => []
  | c :: cs' => if case_ok c then mismatches_from (i + 1) cs' else i :: mismatches_from (i + 1) cs'
  end.

Definition mismatches (cs : list ecase) : list N := mismatches_from 0 cs.
