(** Model of the tunnel data paths (C07; the symbolic payload terms are shared
    with C04).

    Go code followed here:
    - [internal/agent/agent.go] [meshConn.Write]: chunks of
      [MaxPayloadSize - EncryptionOverhead] plaintext bytes, one
      [SessionKey.Encrypt] per chunk, one frame per chunk handed to
      [SendToPeer] directly ([Frame.Encode] rejects payloads above
      [MaxPayloadSize], the write then stops with an error);
    - [internal/exit/handler.go], [internal/forward/handler.go] [readLoop]:
      [Read] into a buffer of [MaxPayloadSize - EncryptionOverhead] bytes, one
      [Encrypt] per read, [WriteStreamData];
    - [internal/shell/handler.go] [pumpOutput] / [pumpPTYOutput]: [Read] into
      the output buffer, prefix one message-type byte, one [Encrypt] per read
      ([writeEncrypted]), [WriteStreamData];
    - [internal/agent/agent.go] [streamFileContent] / [sendFileDownload]:
      buffer [MaxPayloadSize - 100 - EncryptionOverhead], one [Encrypt] per
      read, [WriteStreamData];
    - [Agent.WriteStreamData]: cuts anything longer than [MaxPayloadSize] into
      several frames;
    - every receiver ([meshConn.Read], [exit/forward.Handler.HandleStreamData],
      [handleShellClientData], [shell.Handler.HandleStreamData],
      [receiveEncryptedStreamData], ...) calls [SessionKey.Decrypt] once PER
      FRAME and gives up on the stream at the first failure.

    Ciphertexts are symbolic: [Whole k ctr p] stands for the bytes
    nonce || ChaCha20-Poly1305(k, nonce(ctr), p) || tag, which is
    [length p + 28] bytes long; [Slice k ctr p off len] stands for a strict
    part of those bytes.  A slice never authenticates (trusted: AEAD
    integrity), a whole ciphertext opens under its own key when its counter is
    not below the receiver's expectation ([SessionKey.Decrypt]).  The
    correspondence harness runs the real ChaCha20-Poly1305 and observes
    exactly this on every case.

    No proofs in this file. *)
From Coq Require Import List NArith Bool.
From Coq.Strings Require Import Byte.
From MM Require Import Lib.Bytes.
Import ListNotations.
Local Open Scope N_scope.

Definition max_payload : N := 16384.   (* protocol.MaxPayloadSize *)
Definition overhead : N := 28.         (* crypto.EncryptionOverhead = NonceSize 12 + TagSize 16 *)

Definition blen (b : bytes) : N := N.of_nat (length b).

(** [protocol.Frame.Encode] / [FrameWriter.Write]: the only way any frame of any
    type reaches a peer.  Result: number of bytes written, [None] = refused
    (ErrFrameTooLarge, nothing is written). *)
Definition header_size : N := 14.
Definition frame_write (payload_len : N) : option N :=
  if max_payload <? payload_len then None else Some (header_size + payload_len).

(** * Cutting a length into consecutive ranges of at most [m] *)

(** [ranges_fuel fuel m off rem]: the [(offset, length)] ranges that the Go
    loops [for offset < len(b) { end := offset + m; if end > len(b) {end = len(b)} ... }]
    and "read into a buffer of m bytes until the block is consumed" produce. *)
Fixpoint ranges_fuel (fuel : nat) (m off rem : N) : list (N * N) :=
  match fuel with
  | O => []
  | S f =>
      if rem =? 0 then []
      else if rem <=? m then [(off, rem)]
      else (off, m) :: ranges_fuel f m (off + m) (rem - m)
  end.

(** [None] = the loop never terminates (chunk size 0 with bytes left). *)
Definition ranges (m size : N) : option (list (N * N)) :=
  if size =? 0 then Some []
  else if m =? 0 then None
  else Some (ranges_fuel (S (N.to_nat (size / m))) m 0 size).

Definition slice (b : bytes) (r : N * N) : bytes :=
  firstn (N.to_nat (snd r)) (skipn (N.to_nat (fst r)) b).

(** [chunk m b]: the pieces of at most [m] bytes, in order. *)
Definition chunk (m : N) (b : bytes) : option (list bytes) :=
  option_map (map (slice b)) (ranges m (blen b)).

(** * Symbolic frame payloads *)

Definition key := N.

Inductive blob :=
| Whole (k : key) (ctr : N) (p : bytes)
| Slice (k : key) (ctr : N) (p : bytes) (off len : N)
| Clear (b : bytes).

Definition blob_size (x : blob) : N :=
  match x with
  | Whole _ _ p => blen p + overhead
  | Slice _ _ _ _ len => len
  | Clear b => blen b
  end.

(** [Agent.WriteStreamData] on a sealed message: the message itself when it
    fits, otherwise consecutive slices of [max_payload] bytes.  (Only sealed
    messages are ever passed; the other cases are there for totality: data
    that is already a slice or clear bytes is cut the same way.) *)
Definition split_blob (x : blob) : list blob :=
  if blob_size x <=? max_payload then
    (if blob_size x =? 0 then [] else [x])
  else
    match ranges max_payload (blob_size x) with
    | None => []
    | Some rs =>
        match x with
        | Whole k c p => map (fun r => Slice k c p (fst r) (snd r)) rs
        | Slice k c p off _ => map (fun r => Slice k c p (off + fst r) (snd r)) rs
        | Clear b => map (fun r => Clear (slice b r)) rs
        end
    end.

(** [SessionKey.Decrypt]: whole ciphertext, right key, counter not below the
    expected one. *)
Definition open (k : key) (expect : N) (x : blob) : option (N * bytes) :=
  match x with
  | Whole k' c p => if (k' =? k) && (expect <=? c) then Some (c, p) else None
  | _ => None
  end.

(** * Data paths *)

Inductive sender :=
| Direct   (* one frame per sealed message, SendToPeer; Frame.Encode refuses oversize *)
| Split.   (* Agent.WriteStreamData *)

Inductive trailer :=
| TrNone
| TrFinEmpty         (* FIN_WRITE frame with nil payload (exit / forward readLoop on EOF) *)
| TrFinSealedEmpty   (* sealed empty message with FIN_WRITE (streamFileContent when EOF came without data) *)
| TrExit.            (* shell EXIT message: type byte + 4-byte exit code, sealed *)

Record path := {
  p_buf : N;          (* plaintext bytes per sealed message: chunk / read buffer size *)
  p_prefix : bytes;   (* framing bytes put before the data ahead of encryption *)
  p_sender : sender;
  p_trailer : trailer
}.

Definition msg_stdin : byte := x03.
Definition msg_stdout : byte := x04.
Definition msg_exit : byte := x08.

Definition P_meshconn : path := {| p_buf := 16356; p_prefix := []; p_sender := Direct; p_trailer := TrNone |}.
Definition P_meshfwd : path := P_meshconn.
Definition P_exit : path := {| p_buf := 16356; p_prefix := []; p_sender := Split; p_trailer := TrFinEmpty |}.
Definition P_forward : path := P_exit.
Definition P_shellpty : path := {| p_buf := 16355; p_prefix := [msg_stdout]; p_sender := Split; p_trailer := TrExit |}.
Definition P_shellout : path := {| p_buf := 16355; p_prefix := [msg_stdout]; p_sender := Split; p_trailer := TrNone |}.
Definition P_file : path := {| p_buf := 16256; p_prefix := []; p_sender := Split; p_trailer := TrFinSealedEmpty |}.

(** Shell client -> server ([forwardShellClientData] with
    [splitShellClientMessage]): a STDIN message whose payload exceeds
    [MaxPayloadSize - EncryptionOverhead - 1] bytes is cut into STDIN messages
    of at most that many payload bytes; each message is sealed and sent as one
    frame with SendToPeer. *)
Definition P_shellin : path := {| p_buf := 16355; p_prefix := [msg_stdin]; p_sender := Direct; p_trailer := TrNone |}.

(** ... and before the repair: no chunking at all (the "buffer" is as large as
    the message). *)
Definition P_shellin_pre_fix : path := {| p_buf := 4294967296; p_prefix := [msg_stdin]; p_sender := Direct; p_trailer := TrNone |}.

(** The shell output paths as they were before the repair (16 KiB reads). *)
Definition P_shellpty_pre_fix : path := {| p_buf := 16384; p_prefix := [msg_stdout]; p_sender := Split; p_trailer := TrExit |}.
Definition P_shellout_pre_fix : path := {| p_buf := 16384; p_prefix := [msg_stdout]; p_sender := Split; p_trailer := TrNone |}.

Definition all_paths : list path := [P_meshconn; P_exit; P_shellpty; P_shellout; P_shellin; P_file].

(** The arithmetic condition under which a path is sound. *)
Definition path_fits (pa : path) : bool :=
  (1 <=? p_buf pa) && (p_buf pa + blen (p_prefix pa) + overhead <=? max_payload).

(** * Sender *)

Section Run.
  Variable pa : path.
  Variable k : key.

  (** one sealed message -> frames; [None] = Frame.Encode error *)
  Definition send_msg (ctr : N) (msg : bytes) : option (list blob) :=
    let s := Whole k ctr msg in
    match p_sender pa with
    | Direct => if blob_size s <=? max_payload then Some [s] else None
    | Split => Some (split_blob s)
    end.

  (** [(frames, next counter, stopped on an error)] *)
  Fixpoint send_pieces (ctr : N) (ps : list bytes) : list blob * N * bool :=
    match ps with
    | [] => ([], ctr, false)
    | p :: ps' =>
        match send_msg ctr (p_prefix pa ++ p) with
        | None => ([], ctr + 1, true)
        | Some fs =>
            let '(rest, c', e) := send_pieces (ctr + 1) ps' in (fs ++ rest, c', e)
        end
    end.

  (** the pieces taken out of the blocks that are available one after another *)
  Fixpoint pieces_of (blocks : list bytes) : option (list bytes) :=
    match blocks with
    | [] => Some []
    | b :: bs =>
        match chunk (p_buf pa) b, pieces_of bs with
        | Some c, Some r => Some (c ++ r)
        | _, _ => None
        end
    end.

  Definition exit_message : bytes := [msg_exit; x00; x00; x00; x00].

  (** [eofd]: the reader reported EOF together with its last bytes *)
  Definition trailer_frames (ctr : N) (had_data eofd : bool) : list blob :=
    match p_trailer pa with
    | TrNone => []
    | TrFinEmpty => [Clear []]
    | TrFinSealedEmpty => if had_data && eofd then [] else split_blob (Whole k ctr [])
    | TrExit => split_blob (Whole k ctr exit_message)
    end.

  Record outcome := { o_frames : list blob; o_error : bool }.

  (** [None]: the sender loop does not terminate (buffer size 0). *)
  Definition run (ctr : N) (blocks : list bytes) (eofd : bool) : option outcome :=
    match pieces_of blocks with
    | None => None
    | Some ps =>
        let '(fs, c', e) := send_pieces ctr ps in
        Some {| o_frames := if e then fs else fs ++ trailer_frames c' (negb (match ps with [] => true | _ => false end)) eofd;
                o_error := e |}
    end.

  (** * Receiver: one Decrypt per frame, stop at the first failure *)

  Record rstate := { r_expect : N; r_closed : bool; r_out : bytes }.

  Definition deliver (msg : bytes) : bytes :=
    let n := length (p_prefix pa) in
    if bytes_eqb (firstn n msg) (p_prefix pa) then skipn n msg else [].

  Definition recv_frame (st : rstate) (f : blob) : rstate :=
    if r_closed st then st
    else if blob_size f =? 0 then st
    else match open k (r_expect st) f with
         | Some (c, msg) => {| r_expect := c + 1; r_closed := false; r_out := r_out st ++ deliver msg |}
         | None => {| r_expect := r_expect st; r_closed := true; r_out := r_out st |}
         end.

  Definition receive (expect : N) (frames : list blob) : rstate :=
    fold_left recv_frame frames {| r_expect := expect; r_closed := false; r_out := [] |}.
End Run.

(** * Several senders sharing one session key

    [shell.Handler.writeEncrypted] is called by the stdout pump, the stderr
    pump and the exit notifier of one shell stream.  [SessionKey.Encrypt] takes
    the next counter; the frame then has to reach the single frame writer.
    The receiver ([SessionKey.Decrypt]) refuses a counter below the one it
    expects.  A sender's step is either the whole critical section (seal and
    write under [writeMu]) or, if the lock covered the seal only, two steps
    that other senders can interleave with. *)

Inductive sstep :=
| Both (s : N)      (* sender s seals and writes in one critical section *)
| SealOnly (s : N)  (* sender s takes a counter ... *)
| WriteOnly (s : N). (* ... and later hands its sealed frame to the writer *)

Record shstate := { sh_ctr : N; sh_pending : list (N * N) (* sender, counter *); sh_wire : list N }.

Fixpoint take_pending (s : N) (l : list (N * N)) : option (N * list (N * N)) :=
  match l with
  | [] => None
  | (s', c) :: r =>
      if s' =? s then Some (c, r)
      else match take_pending s r with
           | Some (c', r') => Some (c', (s', c) :: r')
           | None => None
           end
  end.

Definition sh_step (st : shstate) (x : sstep) : shstate :=
  match x with
  | Both _ => {| sh_ctr := sh_ctr st + 1; sh_pending := sh_pending st; sh_wire := sh_wire st ++ [sh_ctr st] |}
  | SealOnly s => {| sh_ctr := sh_ctr st + 1; sh_pending := sh_pending st ++ [(s, sh_ctr st)]; sh_wire := sh_wire st |}
  | WriteOnly s =>
      match take_pending s (sh_pending st) with
      | Some (c, r) => {| sh_ctr := sh_ctr st; sh_pending := r; sh_wire := sh_wire st ++ [c] |}
      | None => st
      end
  end.

Definition sh_run (steps : list sstep) : shstate :=
  fold_left sh_step steps {| sh_ctr := 0; sh_pending := []; sh_wire := [] |}.

(** the receiver: number of frames accepted, in arrival order *)
Fixpoint accept_all (expect : N) (wire : list N) : bool :=
  match wire with
  | [] => true
  | c :: r => (expect <=? c) && accept_all (c + 1) r
  end.

Fixpoint only_both (steps : list sstep) : bool :=
  match steps with
  | [] => true
  | Both _ :: r => only_both r
  | _ => false
  end.

(** * The shell client adapter

    [health.ShellStreamAdapter]: decrypted shell output is handed over through
    a channel of capacity 64 ([receive: make(chan []byte, 64)]).
    [PushReceive] - called from the peer connection's frame processor - waits
    at most 100 ms for room and then DROPS the message ("Buffer full after
    brief wait - drop data").  [APop] is the WebSocket writer taking one
    message. *)

Inductive aop := APush (m : bytes) | APop.

Record astate := { a_queue : list bytes; a_out : list bytes }.

Definition adapter_cap : N := 64.

Definition adapter_step (st : astate) (o : aop) : astate :=
  match o with
  | APush m =>
      if N.of_nat (length (a_queue st)) <? adapter_cap
      then {| a_queue := a_queue st ++ [m]; a_out := a_out st |}
      else st
  | APop =>
      match a_queue st with
      | [] => st
      | m :: q => {| a_queue := q; a_out := a_out st ++ [m] |}
      end
  end.

Definition adapter_run (ops : list aop) : astate :=
  fold_left adapter_step ops {| a_queue := []; a_out := [] |}.

Fixpoint pushed (ops : list aop) : list bytes :=
  match ops with
  | [] => []
  | APush m :: r => m :: pushed r
  | APop :: r => pushed r
  end.

(** the consumer keeps up: whenever a message arrives there is room *)
Fixpoint never_full (st : astate) (ops : list aop) : bool :=
  match ops with
  | [] => true
  | o :: r =>
      match o with
      | APush _ => (N.of_nat (length (a_queue st)) <? adapter_cap) && never_full (adapter_step st o) r
      | APop => never_full (adapter_step st o) r
      end
  end.

(** * The same on sizes only (oracle of the correspondence check) *)

Definition sz_ranges (m size : N) : option (list N) := option_map (map snd) (ranges m size).

Definition sz_split (s : N) : list N :=
  if s <=? max_payload then (if s =? 0 then [] else [s])
  else match sz_ranges max_payload s with Some l => l | None => [] end.

Section SzRun.
  Variable pa : path.

  (** frames of one sealed message of plaintext size [n]; [None] = Encode error *)
  Definition sz_send_msg (n : N) : option (list N) :=
    let s := n + overhead in
    match p_sender pa with
    | Direct => if s <=? max_payload then Some [s] else None
    | Split => Some (sz_split s)
    end.

  (** receiver outcome of one message: does it open? *)
  Definition sz_opens (n : N) : bool := n + overhead <=? max_payload.

  (** [(frames, error, delivered, closed)] *)
  Fixpoint sz_pieces (ps : list N) (closed : bool) : list N * bool * N * bool :=
    match ps with
    | [] => ([], false, 0, closed)
    | p :: ps' =>
        let n := blen (p_prefix pa) + p in
        match sz_send_msg n with
        | None => ([], true, 0, closed)
        | Some fs =>
            let ok := negb closed && sz_opens n in
            let '(rest, e, d, cl) := sz_pieces ps' (closed || negb (sz_opens n)) in
            (fs ++ rest, e, (if ok then p else 0) + d, cl)
        end
    end.

  Fixpoint sz_pieces_of (blocks : list N) : option (list N) :=
    match blocks with
    | [] => Some []
    | b :: bs =>
        match sz_ranges (p_buf pa) b, sz_pieces_of bs with
        | Some c, Some r => Some (c ++ r)
        | _, _ => None
        end
    end.

  Definition sz_trailer (had_data eofd : bool) : list N :=
    match p_trailer pa with
    | TrNone => []
    | TrFinEmpty => [0]
    | TrFinSealedEmpty => if had_data && eofd then [] else sz_split overhead
    | TrExit => sz_split (5 + overhead)
    end.

  (** [(frame payload sizes, bytes delivered, everything delivered and no error)] *)
  Definition sz_run (blocks : list N) (eofd : bool) : option (list N * N * bool) :=
    match sz_pieces_of blocks with
    | None => None
    | Some ps =>
        let '(fs, e, d, cl) := sz_pieces ps false in
        let fs' := if e then fs else fs ++ sz_trailer (negb (match ps with [] => true | _ => false end)) eofd in
        Some (fs', d, negb e && negb cl)
    end.
End SzRun.

(** * Correspondence oracle *)

Fixpoint list_N_eqb (a b : list N) : bool :=
  match a, b with
  | [], [] => true
  | x :: a', y :: b' => N.eqb x y && list_N_eqb a' b'
  | _, _ => false
  end.

(** case = (path, block sizes, eof-with-data, observed frame payload sizes,
    observed delivered byte count, observed "far end equals input") *)
Definition c07_case := (path * list N * bool * list N * N * bool)%type.

(** placeholder for cases that are decided by the monitors alone (layer 2) *)
Definition P_none : path := {| p_buf := 1; p_prefix := []; p_sender := Split; p_trailer := TrNone |}.
Definition c07_skip : c07_case := (P_none, [], false, [], 0, true).

Definition c07_case_ok (c : c07_case) : bool :=
  let '(pa, blocks, eofd, frames, got, ok) := c in
  match sz_run pa blocks eofd with
  | None => false
  | Some (fs, d, o) => list_N_eqb fs frames && (d =? got) && Bool.eqb o ok
  end.

Fixpoint c07_mismatches_from (i : N) (cs : list c07_case) : list N :=
  match cs with
  | [] => []
  | c :: cs' => if c07_case_ok c then c07_mismatches_from (i + 1) cs' else i :: c07_mismatches_from (i + 1) cs'
  end.

Definition c07_mismatches (cs : list c07_case) : list N := c07_mismatches_from 0 cs.
