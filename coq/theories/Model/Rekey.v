(** Model of the ingress end of ONE tunnel session while *_OPEN_ACK frames
    arrive (possibly duplicated or replayed: they travel in clear) and
    payloads are sealed (C02, class "the SessionKey object of a session is
    created exactly once and its counters never move backwards").

    agent.handleUDPOpenAck / handleICMPOpenAck after the fix: an ACK for a
    session whose open handshake has completed is ignored; the first ACK
    installs a fresh SessionKey (send counter 0) holding the key that
    DeriveSessionKey yields for it.  [ack_unguarded] is the handler without
    that test (the code before the fix, and the shape of seeded change C02_3):
    every ACK installs a fresh SessionKey. *)
From Coq Require Import List Bool NArith.
From MM Require Import Lib.Bytes Model.Session.
Import ListNotations.
Local Open Scope N_scope.

Record ingress := { established : bool; cur : option (bytes * N) }.   (* key bytes, send counter *)

Definition ingress0 : ingress := {| established := false; cur := None |}.

Inductive iev :=
| IAck (k : bytes)    (* an ACK arrives; k = the key DeriveSessionKey yields for it *)
| ISeal.              (* one payload is sealed with the current SessionKey *)

Definition ack_guarded (st : ingress) (k : bytes) : ingress :=
  if established st then st else {| established := true; cur := Some (k, 0) |}.

Definition ack_unguarded (st : ingress) (k : bytes) : ingress :=
  {| established := true; cur := Some (k, 0) |}.

(** sealing uses (key, counter) and increments (SessionKey.Encrypt) *)
Definition seal_step (st : ingress) : ingress * option (bytes * N) :=
  match cur st with
  | Some (k, n) => ({| established := established st; cur := Some (k, (n + 1) mod two64) |}, Some (k, n))
  | None => (st, None)     (* no key yet: nothing is sealed *)
  end.

Section Run.
  Variable ack : ingress -> bytes -> ingress.

  Fixpoint irun (st : ingress) (evs : list iev) : ingress * list (bytes * N) :=
    match evs with
    | [] => (st, [])
    | IAck k :: rest => irun (ack st k) rest
    | ISeal :: rest =>
        let '(st', o) := seal_step st in
        let '(fin, out) := irun st' rest in
        (fin, match o with Some p => p :: out | None => out end)
    end.
End Run.

Fixpoint seal_count (evs : list iev) : N :=
  match evs with
  | [] => 0
  | ISeal :: rest => 1 + seal_count rest
  | IAck _ :: rest => seal_count rest
  end.

(** the key of the first ACK of a trace *)
Fixpoint first_ack (evs : list iev) : option bytes :=
  match evs with
  | [] => None
  | IAck k :: _ => Some k
  | ISeal :: rest => first_ack rest
  end.

(** ** The per-tunnel wrapper around SessionKey (udp.Association, icmp.Session)

    Encrypt/Decrypt of the wrapper: closed -> error; no key -> the input is
    passed through unchanged (plaintext mode); otherwise SessionKey.  Close
    marks the wrapper closed AND drops the key, so the order of the two tests
    matters: [wrap_use_swapped] is the wrapper with the tests the other way
    round (seeded change C01_r2_2). *)
Record wrap := { w_closed : bool; w_has_key : bool }.

Inductive wres := WErr | WPassThrough | WSessionKey.

Definition wrap_use (w : wrap) : wres :=
  if w_closed w then WErr else if negb (w_has_key w) then WPassThrough else WSessionKey.

Definition wrap_use_swapped (w : wrap) : wres :=
  if negb (w_has_key w) then WPassThrough else if w_closed w then WErr else WSessionKey.

Definition wrap_close (w : wrap) : wrap := {| w_closed := true; w_has_key := false |}.
