(** Model of route flooding: internal/flood/flood.go (HandleRouteAdvertise,
    floodAdvertisementEncrypted, floodFrame, AnnounceLocalRoutes,
    SendFullTable, cleanupSeenCache), the four route tables of
    internal/routing (AddRoute / RemoveRoutesFromPeer / CleanupStaleRoutes,
    identical up to their key), routing.Manager's sequence counter and
    AddLocal*Route, and the wiring in internal/agent/agent.go
    (handleRouteAdvertise, handlePeerConnected, handlePeerDisconnect,
    routing.max_hops -> FloodConfig.MaxHops).

    The model follows the code AS REPAIRED by the four "fix:" commits of
    branch fam-flood (metric incremented on re-flood; full-table replays keep
    the origin's sequence and are grouped by (origin, sequence, path); replays
    carry seen-by = path; max_hops enforced).  The behaviour before the
    repairs is modelled separately in Model/FloodPreFix.v.

    A network is a list of nodes (index = agent), a set of links, a bag of
    in-flight ROUTE_ADVERTISE frames and a clock (seconds).  All behaviours =
    all lists of atomic steps [op].  Each step is one critical region of the
    real code as driven by the harness (one handler call, one announce, one
    SendFullTable pair, ...); frames in flight may be delivered in any order
    and any number of times.

    Executable definitions only; proofs are in Proofs/Flood*.v. *)
From Coq Require Import List NArith Bool.
Import ListNotations.
Local Open Scope N_scope.

Notation node := N (only parsing).

(** route kinds: the three tables keyed by (key, origin) and the agent
    presence table keyed by (agent, origin, next hop) *)
Inductive kind := KCidr | KDomain | KForward | KAgent.

Definition kind_code (k : kind) : N :=
  match k with KCidr => 0 | KDomain => 1 | KForward => 2 | KAgent => 3 end.
Definition kind_eqb (a b : kind) : bool := kind_code a =? kind_code b.

(** a route on the wire; [r_base] is a ghost: the metric the origin
    configured (never read by any function below, not compared with the
    implementation) *)
Record route := { r_kind : kind; r_id : N; r_metric : N; r_base : N }.

Record advert := {
  a_origin : node; a_seq : N; a_routes : list route;
  a_path : list node; a_seenby : list node }.

Record msg := { m_from : node; m_to : node; m_adv : advert }.

(** a table entry (routing.Route / DomainRoute / ForwardRoute / AgentRoute) *)
Record entry := {
  e_kind : kind; e_id : N; e_origin : node; e_nexthop : node;
  e_metric : N; e_path : list node; e_seq : N; e_upd : N;
  e_base : N (* ghost *) }.

(** a seen-cache entry (flood.SeenAdvertisement) *)
Record seen := { s_origin : node; s_seq : N; s_at : N; s_from : node }.

Record nstate := {
  ns_seq : N;                 (* routing.Manager.sequence *)
  ns_entries : list entry;    (* the four tables *)
  ns_seen : list seen;        (* Flooder.seenCache *)
  ns_locals : list route      (* localRoutes / localDomains / localForwards, sorted *)
}.

Record state := {
  st_nodes : list nstate;
  st_links : list (node * node);
  st_flight : list msg;
  st_now : N }.

(** configuration: hop limit per node (FloodConfig.MaxHops; 0 = none) *)
Definition config := list N.

Definition limit_of (cf : config) (n : node) : N := nth (N.to_nat n) cf 0.

Definition two16 : N := 65536.
Definition seen_ttl : N := 300.        (* DefaultFloodConfig().SeenCacheTTL, seconds *)
Definition cleanup_period : N := 150.  (* SeenCacheTTL / 2 *)

Definition inc16 (m : N) : N := (m + 1) mod two16.

(* ------------------------------------------------------------------ *)
(** ** small list helpers *)

Definition memN (x : N) (l : list N) : bool := existsb (N.eqb x) l.

Fixpoint list_eqb (a b : list N) : bool :=
  match a, b with
  | [], [] => true
  | x :: a', y :: b' => (x =? y) && list_eqb a' b'
  | _, _ => false
  end.

(** lexicographic order on lists of N *)
Fixpoint list_ltb (a b : list N) : bool :=
  match a, b with
  | [], [] => false
  | [], _ :: _ => true
  | _ :: _, [] => false
  | x :: a', y :: b' => if x <? y then true else if y <? x then false else list_ltb a' b'
  end.

Definition get (ns : list nstate) (n : node) : option nstate := nth_error ns (N.to_nat n).

Fixpoint set_nth {A} (l : list A) (i : nat) (x : A) : list A :=
  match l, i with
  | [], _ => []
  | _ :: t, O => x :: t
  | h :: t, S i' => h :: set_nth t i' x
  end.

Definition set (ns : list nstate) (n : node) (x : nstate) : list nstate := set_nth ns (N.to_nat n) x.

Fixpoint remove_nth {A} (l : list A) (i : nat) : list A :=
  match l, i with
  | [], _ => []
  | _ :: t, O => t
  | h :: t, S i' => h :: remove_nth t i'
  end.

Fixpoint insert_by {A} (lt : A -> A -> bool) (x : A) (l : list A) : list A :=
  match l with
  | [] => [x]
  | y :: t => if lt x y then x :: l else y :: insert_by lt x t
  end.

Definition sort_by {A} (lt : A -> A -> bool) (l : list A) : list A :=
  fold_right (insert_by lt) [] l.

Fixpoint nodes_from (k : nat) (start : N) : list node :=
  match k with O => [] | S k' => start :: nodes_from k' (start + 1) end.

(* ------------------------------------------------------------------ *)
(** ** links *)

Definition link_eqb (a b : node) (l : node * node) : bool :=
  ((fst l =? a) && (snd l =? b)) || ((fst l =? b) && (snd l =? a)).

Definition linked (ls : list (node * node)) (a b : node) : bool := existsb (link_eqb a b) ls.

Definition num_nodes (s : state) : nat := length (st_nodes s).

(** PeerSender.GetPeerIDs as the harness implements it: ascending *)
Definition neighbours (s : state) (n : node) : list node :=
  filter (linked (st_links s) n) (nodes_from (num_nodes s) 0).

(* ------------------------------------------------------------------ *)
(** ** route tables *)

(** Table.AddRoute's "same origin" test; the agent table additionally keys on
    the next hop *)
Definition same_key (a b : entry) : bool :=
  kind_eqb (e_kind a) (e_kind b) && (e_id a =? e_id b) && (e_origin a =? e_origin b) &&
  match e_kind a with KAgent => e_nexthop a =? e_nexthop b | _ => true end.

(** "newer sequence, or same sequence and better metric" *)
Definition better (new old : entry) : bool :=
  (e_seq old <? e_seq new) || ((e_seq new =? e_seq old) && (e_metric new <? e_metric old)).

Fixpoint upsert (e : entry) (es : list entry) : list entry :=
  match es with
  | [] => [e]
  | x :: t => if same_key e x then (if better e x then e :: t else x :: t) else x :: upsert e t
  end.

(** AddRoute: loop check on the local id, then update / append *)
Definition add_entry (self : node) (e : entry) (es : list entry) : list entry :=
  if memN self (e_path e) then es else upsert e es.

(* ------------------------------------------------------------------ *)
(** ** seen cache *)

Definition seen_key (o sq : N) (x : seen) : bool := (s_origin x =? o) && (s_seq x =? sq).

Definition seen_has (o sq : N) (l : list seen) : bool := existsb (seen_key o sq) l.

(** already seen: refresh SeenAt only if it arrives from a different peer *)
Definition seen_touch (o sq now from : N) (l : list seen) : list seen :=
  map (fun x => if seen_key o sq x then
                  (if s_from x =? from then x
                   else {| s_origin := s_origin x; s_seq := s_seq x; s_at := now; s_from := s_from x |})
                else x) l.

(* ------------------------------------------------------------------ *)
(** ** HandleRouteAdvertise *)

Definition entry_of (from : node) (now : N) (a : advert) (r : route) : entry :=
  {| e_kind := r_kind r; e_id := r_id r; e_origin := a_origin a; e_nexthop := from;
     e_metric := inc16 (r_metric r); e_path := a_path a; e_seq := a_seq a; e_upd := now;
     e_base := r_base r |}.

Definition store_routes (self from now : N) (a : advert) (es : list entry) : list entry :=
  fold_left (fun acc r => add_entry self (entry_of from now a r) acc) (a_routes a) es.

Definition bump (r : route) : route :=
  {| r_kind := r_kind r; r_id := r_id r; r_metric := inc16 (r_metric r); r_base := r_base r |}.

Definition forward_adv (self : node) (a : advert) : advert :=
  {| a_origin := a_origin a; a_seq := a_seq a; a_routes := map bump (a_routes a);
     a_path := self :: a_path a; a_seenby := a_seenby a ++ [self] |}.

(** floodFrame: every peer except the sender and those in seen-by *)
Definition flood_targets (s : state) (self from : node) (seenby : list node) : list node :=
  filter (fun p => negb (p =? from) && negb (memN p seenby)) (neighbours s self).

Definition over_limit (lim len : N) : bool := (0 <? lim) && (lim <? len).
Definition at_limit (lim len : N) : bool := (0 <? lim) && (lim <=? len).

Definition lenN {A} (l : list A) : N := N.of_nat (length l).

(** result codes: 0 = returned false, 1 = returned true *)
Definition handle (cf : config) (s : state) (self from : node) (a : advert)
  : state * list msg * N :=
  match get (st_nodes s) self with
  | None => (s, [], 0)
  | Some ns =>
    let o := a_origin a in let sq := a_seq a in
    if seen_has o sq (ns_seen ns) then
      let ns' := {| ns_seq := ns_seq ns; ns_entries := ns_entries ns;
                    ns_seen := seen_touch o sq (st_now s) from (ns_seen ns); ns_locals := ns_locals ns |} in
      ({| st_nodes := set (st_nodes s) self ns'; st_links := st_links s; st_flight := st_flight s; st_now := st_now s |}, [], 0)
    else
      let sn := ns_seen ns ++ [{| s_origin := o; s_seq := sq; s_at := st_now s; s_from := from |}] in
      let marked es := {| ns_seq := ns_seq ns; ns_entries := es; ns_seen := sn; ns_locals := ns_locals ns |} in
      let with_nodes es := {| st_nodes := set (st_nodes s) self (marked es); st_links := st_links s;
                              st_flight := st_flight s; st_now := st_now s |} in
      if memN self (a_seenby a) then (with_nodes (ns_entries ns), [], 0)
      else if over_limit (limit_of cf self) (lenN (a_path a)) then (with_nodes (ns_entries ns), [], 0)
      else
        let es := store_routes self from (st_now s) a (ns_entries ns) in
        if at_limit (limit_of cf self) (lenN (a_path a)) then (with_nodes es, [], 1)
        else
          let fa := forward_adv self a in
          let out := map (fun p => {| m_from := self; m_to := p; m_adv := fa |})
                         (flood_targets s self from (a_seenby fa)) in
          (with_nodes es, out, 1)
  end.

(* ------------------------------------------------------------------ *)
(** ** ROUTE_WITHDRAW: WithdrawLocalRoutes, HandleRouteWithdraw, floodWithdrawal

    A withdrawal has no path on the wire; in the bag of in-flight frames it is
    an [advert] whose path is empty (no advertisement ever has an empty path).
    It shares the seen cache (same key: origin and sequence) and the origin's
    sequence counter with advertisements, is not subject to the hop limit,
    removes the origin's CIDR routes for the listed prefixes, and is flooded
    like an advertisement (seen-by extended, sender and seen-by skipped). *)

Definition is_w (a : advert) : bool := match a_path a with [] => true | _ => false end.

Definition is_cidr_route (r : route) : bool := kind_eqb (r_kind r) KCidr.

Definition withdrawn (o : node) (ids : list N) (e : entry) : bool :=
  kind_eqb (e_kind e) KCidr && (e_origin e =? o) && memN (e_id e) ids.

Definition forward_w (self : node) (a : advert) : advert :=
  {| a_origin := a_origin a; a_seq := a_seq a; a_routes := a_routes a;
     a_path := []; a_seenby := a_seenby a ++ [self] |}.

Definition handle_w (s : state) (self from : node) (a : advert) : state * list msg * N :=
  match get (st_nodes s) self with
  | None => (s, [], 0)
  | Some ns =>
    let o := a_origin a in let sq := a_seq a in
    if seen_has o sq (ns_seen ns) then (s, [], 0)   (* no touch of SeenAt here *)
    else
      let sn := ns_seen ns ++ [{| s_origin := o; s_seq := sq; s_at := st_now s; s_from := from |}] in
      let with_nodes es := {| st_nodes := set (st_nodes s) self
                                {| ns_seq := ns_seq ns; ns_entries := es; ns_seen := sn; ns_locals := ns_locals ns |};
                              st_links := st_links s; st_flight := st_flight s; st_now := st_now s |} in
      if memN self (a_seenby a) then (with_nodes (ns_entries ns), [], 0)
      else
        let es := filter (fun e => negb (withdrawn o (map r_id (a_routes a)) e)) (ns_entries ns) in
        let fa := forward_w self a in
        (with_nodes es,
         map (fun p => {| m_from := self; m_to := p; m_adv := fa |}) (flood_targets s self from (a_seenby fa)), 1)
  end.

(** WithdrawLocalRoutes: nothing if there is no local CIDR route; the local
    routes themselves stay configured *)
Definition withdraw (s : state) (n : node) : state * list msg :=
  match get (st_nodes s) n with
  | None => (s, [])
  | Some ns =>
    match filter is_cidr_route (ns_locals ns) with
    | [] => (s, [])
    | rs =>
      let sq := ns_seq ns + 1 in
      let a := {| a_origin := n; a_seq := sq; a_routes := rs; a_path := []; a_seenby := [n] |} in
      let ns' := {| ns_seq := sq; ns_entries := ns_entries ns; ns_seen := ns_seen ns; ns_locals := ns_locals ns |} in
      ({| st_nodes := set (st_nodes s) n ns'; st_links := st_links s; st_flight := st_flight s; st_now := st_now s |},
       map (fun p => {| m_from := n; m_to := p; m_adv := a |}) (neighbours s n))
    end
  end.

(* ------------------------------------------------------------------ *)
(** ** AnnounceLocalRoutes *)

Definition route_ltb (a b : route) : bool :=
  if kind_code (r_kind a) <? kind_code (r_kind b) then true
  else if kind_code (r_kind b) <? kind_code (r_kind a) then false
  else if r_id a <? r_id b then true
  else if r_id b <? r_id a then false
  else r_metric a <? r_metric b.

Definition presence (n : node) : route := {| r_kind := KAgent; r_id := n; r_metric := 0; r_base := 0 |}.

Definition announce (s : state) (n : node) : state * list msg :=
  match get (st_nodes s) n with
  | None => (s, [])
  | Some ns =>
    let sq := ns_seq ns + 1 in
    let a := {| a_origin := n; a_seq := sq; a_routes := sort_by route_ltb (ns_locals ns ++ [presence n]);
                a_path := [n]; a_seenby := [n] |} in
    let ns' := {| ns_seq := sq; ns_entries := ns_entries ns; ns_seen := ns_seen ns; ns_locals := ns_locals ns |} in
    ({| st_nodes := set (st_nodes s) n ns'; st_links := st_links s; st_flight := st_flight s; st_now := st_now s |},
     map (fun p => {| m_from := n; m_to := p; m_adv := a |}) (neighbours s n))
  end.

(* ------------------------------------------------------------------ *)
(** ** SendFullTable (repaired) *)

(** replayKeyFor: own routes form one group; foreign routes are grouped by
    (origin, sequence, path).  (Route sets are assumed to fit one
    advertisement -- fewer than 256 routes within the byte budget of
    splitRoutes -- so AnnounceLocalRoutes and each replay group are one frame.) *)
Definition gkey := (N * N * list N)%type.

Definition gkey_of (self : node) (e : entry) : gkey :=
  if e_origin e =? self then (self, 0, []) else (e_origin e, e_seq e, e_path e).

Definition gkey_eqb (a b : gkey) : bool :=
  let '(o1, s1, p1) := a in let '(o2, s2, p2) := b in
  (o1 =? o2) && (s1 =? s2) && list_eqb p1 p2.

Fixpoint dedup_keys (l : list gkey) : list gkey :=
  match l with
  | [] => []
  | k :: t => if existsb (gkey_eqb k) t then dedup_keys t else k :: dedup_keys t
  end.

Definition route_of_entry (e : entry) : route :=
  {| r_kind := e_kind e; r_id := e_id e; r_metric := e_metric e; r_base := e_base e |}.

Definition adv_ltb (a b : advert) : bool :=
  if a_origin a <? a_origin b then true
  else if a_origin b <? a_origin a then false
  else if a_seq a <? a_seq b then true
  else if a_seq b <? a_seq a then false
  else list_ltb (a_path a) (a_path b).

(** one group -> at most one advertisement; [fresh] is the sequence the own
    group is sent under *)
Definition replay_group (cf : config) (self peer fresh : N) (cands : list entry) (k : gkey) : list advert :=
  let '(o, sq, p) := k in
  let path := self :: p in
  if memN peer path then []
  else if over_limit (limit_of cf self) (lenN path) then []
  else [{| a_origin := o; a_seq := (if o =? self then fresh else sq);
           a_routes := sort_by route_ltb (map route_of_entry (filter (fun e => gkey_eqb (gkey_of self e) k) cands));
           a_path := path; a_seenby := path |}].

(** A receiver accepts one advertisement per (origin, sequence), so of the
    foreign groups with the same origin and sequence (the agent table keeps
    one presence route per next hop, so one advertisement learned over two
    paths leaves two groups) only the best one is replayed: most routes, then
    the shorter path, then the smaller path (bestGroup in SendFullTable; a
    strict total order on the groups of one (origin, sequence), so Go's map
    iteration order does not matter).  The selection is made BEFORE the
    peer-on-path and hop-limit tests. *)
Definition gsize (self : node) (cands : list entry) (k : gkey) : N :=
  lenN (filter (fun e => gkey_eqb (gkey_of self e) k) cands).

Definition same_adv (k c : gkey) : bool :=
  let '(o1, s1, _) := k in let '(o2, s2, _) := c in (o1 =? o2) && (s1 =? s2).

(** [gbetter k c]: group k is strictly preferred to group c *)
Definition gbetter (self : node) (cands : list entry) (k c : gkey) : bool :=
  let '(_, _, pk) := k in let '(_, _, pc) := c in
  (gsize self cands c <? gsize self cands k) ||
  ((gsize self cands k =? gsize self cands c) &&
   ((lenN pk <? lenN pc) || ((lenN pk =? lenN pc) && list_ltb pk pc))).

Definition keep_group (self : node) (cands : list entry) (keys : list gkey) (k : gkey) : bool :=
  (fst (fst k) =? self) ||
  forallb (fun c => negb (same_adv k c && gbetter self cands c k)) keys.

Definition replay_keys (self : node) (cands : list entry) : list gkey :=
  let keys := dedup_keys (map (gkey_of self) cands) in
  filter (keep_group self cands keys) keys.

Definition has_own (self : node) (cands : list entry) : bool :=
  existsb (fun e => e_origin e =? self) cands.

Definition replay (cf : config) (s : state) (self peer : node) : state * list msg :=
  match get (st_nodes s) self with
  | None => (s, [])
  | Some ns =>
    let cands := filter (fun e => negb (e_nexthop e =? peer)) (ns_entries ns) in
    let fresh := ns_seq ns + 1 in
    let advs := flat_map (replay_group cf self peer fresh cands) (replay_keys self cands) in
    let ns' := {| ns_seq := (if has_own self cands then fresh else ns_seq ns);
                  ns_entries := ns_entries ns; ns_seen := ns_seen ns; ns_locals := ns_locals ns |} in
    ({| st_nodes := set (st_nodes s) self ns'; st_links := st_links s; st_flight := st_flight s; st_now := st_now s |},
     map (fun a => {| m_from := self; m_to := peer; m_adv := a |}) (sort_by adv_ltb advs))
  end.

(* ------------------------------------------------------------------ *)
(** ** steps *)

Inductive op :=
| Announce (n : node)
| Withdraw (n : node)                    (* WithdrawLocalRoutes (graceful stop of an exit) *)
| Deliver (i : nat) (dup : bool)
| Forget (n : node) (o sq : N)           (* seen-cache expiry / eviction of one key, at any point *)
| Advance (d : N)                        (* time passes; seen-cache cleanup ticks fire *)
| Connect (a b : node)                   (* handlePeerConnected on both ends *)
| Disconnect (a b : node)                (* handlePeerDisconnect on both ends *)
| AddLocal (n : node) (k : kind) (id metric : N)
| Cleanup (n : node) (maxage : N).       (* CleanupStale*Routes(maxage) *)

Definition with_flight (s : state) (f : list msg) : state :=
  {| st_nodes := st_nodes s; st_links := st_links s; st_flight := f; st_now := st_now s |}.

Definition valid_node (s : state) (n : node) : bool := Nat.ltb (N.to_nat n) (num_nodes s).

Definition upsert_local (r : route) (l : list route) : list route :=
  insert_by route_ltb r
    (filter (fun x => negb (kind_eqb (r_kind x) (r_kind r) && (r_id x =? r_id r))) l).

Definition expire_seen (tick : N) (l : list seen) : list seen :=
  filter (fun x => negb (seen_ttl <? tick - s_at x)) l.

Definition map_nodes (f : nstate -> nstate) (s : state) : state :=
  {| st_nodes := map f (st_nodes s); st_links := st_links s; st_flight := st_flight s; st_now := st_now s |}.

Definition update_node (s : state) (n : node) (f : nstate -> nstate) : state :=
  match get (st_nodes s) n with
  | None => s
  | Some ns => {| st_nodes := set (st_nodes s) n (f ns); st_links := st_links s;
                  st_flight := st_flight s; st_now := st_now s |}
  end.

Definition drop_peer (peer : node) (ns : nstate) : nstate :=
  {| ns_seq := ns_seq ns; ns_entries := filter (fun e => negb (e_nexthop e =? peer)) (ns_entries ns);
     ns_seen := ns_seen ns; ns_locals := ns_locals ns |}.

(** [step] returns the new state, the frames sent during the step (already
    appended to the in-flight bag) and the handler verdict (2 = not a handler
    step / not applicable) *)
Definition step (cf : config) (s : state) (o : op) : state * list msg * N :=
  match o with
  | Announce n =>
      let '(s', out) := announce s n in (with_flight s' (st_flight s' ++ out), out, 2)
  | Deliver i dup =>
      match nth_error (st_flight s) i with
      | None => (s, [], 2)
      | Some m =>
          let s1 := with_flight s (if dup then st_flight s else remove_nth (st_flight s) i) in
          let '(s2, out, res) := (if is_w (m_adv m) then handle_w s1 (m_to m) (m_from m) (m_adv m)
                                   else handle cf s1 (m_to m) (m_from m) (m_adv m)) in
          (with_flight s2 (st_flight s2 ++ out), out, res)
      end
  | Withdraw n =>
      let '(s', out) := withdraw s n in (with_flight s' (st_flight s' ++ out), out, 2)
  | Forget n o sq =>
      (update_node s n (fun ns => {| ns_seq := ns_seq ns; ns_entries := ns_entries ns;
                                     ns_seen := filter (fun x => negb (seen_key o sq x)) (ns_seen ns);
                                     ns_locals := ns_locals ns |}), [], 2)
  | Advance d =>
      let now' := st_now s + d in
      let tick := (now' / cleanup_period) * cleanup_period in
      let s1 := {| st_nodes := st_nodes s; st_links := st_links s; st_flight := st_flight s; st_now := now' |} in
      if st_now s <? tick then
        (map_nodes (fun ns => {| ns_seq := ns_seq ns; ns_entries := ns_entries ns;
                                 ns_seen := expire_seen tick (ns_seen ns); ns_locals := ns_locals ns |}) s1, [], 2)
      else (s1, [], 2)
  | Connect a b =>
      if valid_node s a && valid_node s b && negb (a =? b) && negb (linked (st_links s) a b) then
        let s1 := {| st_nodes := st_nodes s; st_links := st_links s ++ [(a, b)]; st_flight := st_flight s; st_now := st_now s |} in
        let '(s2, out1) := replay cf s1 a b in
        let '(s3, out2) := replay cf s2 b a in
        (with_flight s3 (st_flight s3 ++ out1 ++ out2), out1 ++ out2, 2)
      else (s, [], 2)
  | Disconnect a b =>
      if valid_node s a && valid_node s b && negb (a =? b) && linked (st_links s) a b then
        let s1 := {| st_nodes := st_nodes s; st_links := filter (fun l => negb (link_eqb a b l)) (st_links s);
                     st_flight := filter (fun m => negb (link_eqb a b (m_from m, m_to m))) (st_flight s);
                     st_now := st_now s |} in
        (update_node (update_node s1 a (drop_peer b)) b (drop_peer a), [], 2)
      else (s, [], 2)
  | AddLocal n k id metric =>
      match k with
      | KAgent => (s, [], 2)
      | _ =>
        (* the metric parameter of AddLocal*Route is a uint16 *)
        let mt := metric mod two16 in
        (update_node s n (fun ns =>
           let sq := ns_seq ns + 1 in
           {| ns_seq := sq;
              ns_entries := add_entry n {| e_kind := k; e_id := id; e_origin := n; e_nexthop := n; e_metric := mt;
                                           e_path := []; e_seq := sq; e_upd := st_now s; e_base := mt |} (ns_entries ns);
              ns_seen := ns_seen ns;
              ns_locals := upsert_local {| r_kind := k; r_id := id; r_metric := mt; r_base := mt |} (ns_locals ns) |}), [], 2)
      end
  | Cleanup n maxage =>
      (update_node s n (fun ns => {| ns_seq := ns_seq ns;
                                     ns_entries := filter (fun e => (e_origin e =? n) || negb (maxage <? st_now s - e_upd e)) (ns_entries ns);
                                     ns_seen := ns_seen ns; ns_locals := ns_locals ns |}), [], 2)
  end.

Definition empty_node : nstate := {| ns_seq := 0; ns_entries := []; ns_seen := []; ns_locals := [] |}.

Definition init (n : nat) : state :=
  {| st_nodes := repeat empty_node n; st_links := []; st_flight := []; st_now := 0 |}.

Fixpoint run (cf : config) (s : state) (ops : list op) : state :=
  match ops with
  | [] => s
  | o :: t => run cf (fst (fst (step cf s o))) t
  end.

(** the best (lowest metric, first on ties) entry for a key: what
    Table.Lookup returns for an address inside the prefix when no longer
    prefix matches (entries of one key are kept sorted by metric) *)
Fixpoint best_metric (k : kind) (id : N) (es : list entry) : option N :=
  match es with
  | [] => None
  | e :: t =>
      let rest := best_metric k id t in
      if kind_eqb (e_kind e) k && (e_id e =? id) then
        match rest with
        | Some m => Some (if m <? e_metric e then m else e_metric e)
        | None => Some (e_metric e)
        end
      else rest
  end.

(* ------------------------------------------------------------------ *)
(** ** correspondence oracle *)

(** observed wire route: (kind code, id, metric) *)
Definition oroute := (N * N * N)%type.
(** observed frame: (step, from, to, origin, seq, routes, path, seen-by) *)
Definition omsg := (N * N * N * N * N * list oroute * list N * list N)%type.
(** observed table entry: (kind, id, origin, next hop, metric, path, seq, upd) *)
Definition oentry := (N * N * N * N * N * list N * N * N)%type.
(** observed seen entry: (origin, seq, at, from) *)
Definition oseen := (N * N * N * N)%type.
(** observed node: (sequence, entries, seen, lookups (cidr id, metric)) *)
Definition onode := (N * list oentry * list oseen * list (N * N))%type.
(** observed step: (verdict, frames sent, in-flight after) *)
Definition ostep := (N * N * N)%type.

(** monomorphic constructors (cases.v is machine-written and large; applying
    these elaborates much faster than nested polymorphic pairs) *)
Definition OR (k i m : N) : oroute := (k, i, m).
Definition OM (i f t o s : N) (r : list oroute) (p sb : list N) : omsg := (i, f, t, o, s, r, p, sb).
Definition OE (k i o h m : N) (p : list N) (s u : N) : oentry := (k, i, o, h, m, p, s, u).
Definition OS (o s t f : N) : oseen := (o, s, t, f).
Definition OL (i m : N) : N * N := (i, m).
Definition ON (sq : N) (es : list oentry) (sn : list oseen) (lk : list (N * N)) : onode := (sq, es, sn, lk).
Definition OT (r n f : N) : ostep := (r, n, f).

Record case := {
  k_nodes : nat;
  k_limits : list N;
  k_ops : list op;
  k_steps : list ostep;
  k_log : list omsg;
  k_final : list onode }.

Definition oroute_of (r : route) : oroute := (kind_code (r_kind r), r_id r, r_metric r).

Definition omsg_of (i : N) (m : msg) : omsg :=
  let a := m_adv m in
  (i, m_from m, m_to m, a_origin a, a_seq a, map oroute_of (a_routes a), a_path a, a_seenby a).

Definition oentry_of (e : entry) : oentry :=
  (kind_code (e_kind e), e_id e, e_origin e, e_nexthop e, e_metric e, e_path e, e_seq e, e_upd e).

Definition oseen_of (x : seen) : oseen := (s_origin x, s_seq x, s_at x, s_from x).

Definition oroute_eqb (a b : oroute) : bool :=
  let '(k1, i1, m1) := a in let '(k2, i2, m2) := b in (k1 =? k2) && (i1 =? i2) && (m1 =? m2).

Fixpoint all2 {A B} (f : A -> B -> bool) (a : list A) (b : list B) : bool :=
  match a, b with
  | [], [] => true
  | x :: a', y :: b' => f x y && all2 f a' b'
  | _, _ => false
  end.

Definition omsg_eqb (a b : omsg) : bool :=
  let '(i1, f1, t1, o1, s1, r1, p1, sb1) := a in
  let '(i2, f2, t2, o2, s2, r2, p2, sb2) := b in
  (i1 =? i2) && (f1 =? f2) && (t1 =? t2) && (o1 =? o2) && (s1 =? s2) &&
  all2 oroute_eqb r1 r2 && list_eqb p1 p2 && list_eqb sb1 sb2.

Definition oentry_eqb (a b : oentry) : bool :=
  let '(k1, i1, o1, h1, m1, p1, s1, u1) := a in
  let '(k2, i2, o2, h2, m2, p2, s2, u2) := b in
  (k1 =? k2) && (i1 =? i2) && (o1 =? o2) && (h1 =? h2) && (m1 =? m2) && list_eqb p1 p2 && (s1 =? s2) && (u1 =? u2).

Definition oseen_eqb (a b : oseen) : bool :=
  let '(o1, s1, t1, f1) := a in let '(o2, s2, t2, f2) := b in
  (o1 =? o2) && (s1 =? s2) && (t1 =? t2) && (f1 =? f2).

(** same multiset size and mutual inclusion (tables and caches are maps in
    the implementation: order is not observable) *)
Definition same_set {A} (eqb : A -> A -> bool) (a b : list A) : bool :=
  Nat.eqb (length a) (length b) && forallb (fun x => existsb (eqb x) b) a && forallb (fun y => existsb (eqb y) a) b.

Definition lookup_ok (es : list entry) (l : N * N) : bool :=
  match best_metric KCidr (fst l) es with Some m => m =? snd l | None => false end.

Definition onode_ok (ns : nstate) (o : onode) : bool :=
  let '(sq, es, sn, lk) := o in
  (ns_seq ns =? sq) && same_set oentry_eqb (map oentry_of (ns_entries ns)) es &&
  same_set oseen_eqb (map oseen_of (ns_seen ns)) sn && forallb (lookup_ok (ns_entries ns)) lk.

(** run with a record of every step *)
Fixpoint run_obs (cf : config) (s : state) (i : N) (ops : list op) : state * list ostep * list omsg :=
  match ops with
  | [] => (s, [], [])
  | o :: t =>
      let '(s', out, res) := step cf s o in
      let '(sf, steps, log) := run_obs cf s' (i + 1) t in
      (sf, (res, lenN out, lenN (st_flight s')) :: steps, map (omsg_of i) out ++ log)
  end.

Definition ostep_ok (model obs : ostep) : bool :=
  let '(r1, n1, f1) := model in let '(r2, n2, f2) := obs in
  ((r2 =? 2) || (r1 =? r2)) && (n1 =? n2) && (f1 =? f2).

Definition case_ok (c : case) : bool :=
  let '(sf, steps, log) := run_obs (k_limits c) (init (k_nodes c)) 0 (k_ops c) in
  all2 ostep_ok steps (k_steps c) && all2 omsg_eqb log (k_log c) && all2 onode_ok (st_nodes sf) (k_final c).

Fixpoint mismatches_from (i : N) (cs : list case) : list N :=
  match cs with
  | [] => []
  | c :: t => if case_ok c then mismatches_from (i + 1) t else i :: mismatches_from (i + 1) t
  end.

Definition mismatches (cs : list case) : list N := mismatches_from 0 cs.

(* ------------------------------------------------------------------ *)
(** ** digest oracle (the one bin/check uses)

    cases.v would be too large to elaborate with every frame and table entry
    written out, so harness and model both fold everything observable (per
    step: verdict, frames sent with all their fields, in-flight count; at the
    end: every node's counter, sorted tables, sorted seen cache and best CIDR
    metrics) into one 61-bit polynomial digest (multiplier 1000003, modulus 2^61) and the digests are compared.
    [case_ok] above is the same comparison on written-out observations (used
    for debugging a mismatch). *)

Definition dig_mask : N := 2305843009213693951.   (* 2^61 - 1 *)
Definition dig_k : N := 1000003.
(** (k*h + x + 1) mod 2^61; written with the small factor first and a mask
    because that is what evaluates fast on binary [N] *)
Definition mix (h x : N) : N := N.land (dig_k * h + x + 1) dig_mask.
Definition mix_list (h : N) (l : list N) : N := fold_left mix l (mix h (lenN l)).

Definition mix_route (h : N) (r : route) : N := mix (mix (mix h (kind_code (r_kind r))) (r_id r)) (r_metric r).

Definition mix_msg (h : N) (m : msg) : N :=
  let a := m_adv m in
  let h := mix (mix (mix (mix h (m_from m)) (m_to m)) (a_origin a)) (a_seq a) in
  let h := fold_left mix_route (a_routes a) (mix h (lenN (a_routes a))) in
  mix_list (mix_list h (a_path a)) (a_seenby a).

Definition entry_ltb (a b : entry) : bool :=
  list_ltb [kind_code (e_kind a); e_id a; e_origin a; e_nexthop a]
           [kind_code (e_kind b); e_id b; e_origin b; e_nexthop b].

Definition mix_entry (h : N) (e : entry) : N :=
  let h := mix (mix (mix (mix (mix h (kind_code (e_kind e))) (e_id e)) (e_origin e)) (e_nexthop e)) (e_metric e) in
  mix (mix (mix_list h (e_path e)) (e_seq e)) (e_upd e).

Definition seen_ltb (a b : seen) : bool := list_ltb [s_origin a; s_seq a] [s_origin b; s_seq b].

Definition mix_seen (h : N) (x : seen) : N := mix (mix (mix (mix h (s_origin x)) (s_seq x)) (s_at x)) (s_from x).

Fixpoint dedupN (l : list N) : list N :=
  match l with
  | [] => []
  | x :: t => if memN x t then dedupN t else x :: dedupN t
  end.

Definition cidr_ids (es : list entry) : list N :=
  sort_by N.ltb (dedupN (map e_id (filter (fun e => kind_eqb (e_kind e) KCidr) es))).

Definition mix_lookup (es : list entry) (h id : N) : N :=
  mix (mix h id) (match best_metric KCidr id es with Some m => m | None => 70000 end).

Definition mix_node (h : N) (ns : nstate) : N :=
  let es := sort_by entry_ltb (ns_entries ns) in
  let h := fold_left mix_entry es (mix (mix h (ns_seq ns)) (lenN es)) in
  let sn := sort_by seen_ltb (ns_seen ns) in
  let h := fold_left mix_seen sn (mix h (lenN sn)) in
  let ids := cidr_ids (ns_entries ns) in
  fold_left (mix_lookup (ns_entries ns)) ids (mix h (lenN ids)).

(** [agent]: the nodes are real agents, whose handler does not report the
    flooder's verdict (the harness records 2) *)
Fixpoint run_dig (cf : config) (agent : bool) (s : state) (h : N) (ops : list op) : state * N :=
  match ops with
  | [] => (s, h)
  | o :: t =>
      let '(s', out, res) := step cf s o in
      let h := mix (mix (mix h (if agent then 2 else res)) (lenN out)) (lenN (st_flight s')) in
      run_dig cf agent s' (fold_left mix_msg out h) t
  end.

Definition digest (n : nat) (cf : config) (agent : bool) (ops : list op) : N :=
  let '(s, h) := run_dig cf agent (init n) 0 ops in
  fold_left mix_node (st_nodes s) h.

(** short constructors for machine-written schedules *)
Definition A (n : N) := Announce n.
Definition W (n : N) := Withdraw n.
Definition D (i : N) := Deliver (N.to_nat i) false.
Definition DD (i : N) := Deliver (N.to_nat i) true.
Definition F (n o sq : N) := Forget n o sq.
Definition V (d : N) := Advance d.
Definition C (a b : N) := Connect a b.
Definition X (a b : N) := Disconnect a b.
Definition L0 (n id m : N) := AddLocal n KCidr id m.
Definition L1 (n id m : N) := AddLocal n KDomain id m.
Definition L2 (n id m : N) := AddLocal n KForward id m.
Definition U (n age : N) := Cleanup n age.

Record dcase := { d_nodes : N; d_limits : list N; d_agent : bool; d_ops : list op; d_digest : N }.

Definition dcase_ok (c : dcase) : bool :=
  digest (N.to_nat (d_nodes c)) (d_limits c) (d_agent c) (d_ops c) =? d_digest c.

Fixpoint dmismatches_from (i : N) (cs : list dcase) : list N :=
  match cs with
  | [] => []
  | c :: t => if dcase_ok c then dmismatches_from (i + 1) t else i :: dmismatches_from (i + 1) t
  end.

Definition dmismatches (cs : list dcase) : list N := dmismatches_from 0 cs.
