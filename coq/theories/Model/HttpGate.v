(** Model of the HTTP API gate (internal/health/server.go): the bearer-token
    middleware requireAuth composed with net/http.ServeMux routing over the
    registrations made by health.NewServer.

    A request is what the Go handler sees after net/http parsed it:
    the method (only CONNECT matters to the mux), URL.Path (decoded),
    URL.EscapedPath() (what the mux routes on), the Authorization header and
    the value of the "token" query parameter.  The relation between the two
    path spellings (EscapedPath percent-decodes to Path) is a fact about
    net/url stated where a theorem needs it.

    ServeMux (Go >= 1.22) for the patterns used here (no method, no host, no
    wildcard; a pattern either names one path or, ending in a slash, a
    subtree): the escaped path is cleaned (path.Clean plus the trailing
    slash) unless the method is CONNECT, split at slashes, every segment
    percent-decoded on its own; the most specific pattern wins (an exact
    pattern, else the subtree pattern with the longest prefix); a path that
    only matches after appending a slash is redirected; a path that differs
    from its cleaned form is redirected.

    The handlers themselves are not modelled: a dispatch is reported as the
    pattern it went to, and the table says whether that pattern is served by
    the disabled handler (404, nothing else) in the given configuration. *)
From Coq Require Import List NArith Bool.
From MM Require Import Lib.HStr.
Import ListNotations.
Local Open Scope N_scope.

Definition SLASH : N := 47.
Definition PERCENT : N := 37.
Definition DOT : N := 46.

(** * Percent decoding (net/url unescape in path mode) *)

Definition hexdigit (c : N) : option N :=
  if (48 <=? c) && (c <=? 57) then Some (c - 48)
  else if (97 <=? c) && (c <=? 102) then Some (c - 87)
  else if (65 <=? c) && (c <=? 70) then Some (c - 55)
  else None.

(** None = malformed escape *)
Fixpoint unescape (s : str) : option str :=
  match s with
  | [] => Some []
  | c :: r =>
      if c =? PERCENT then
        match r with
        | h :: l :: r' =>
            match hexdigit h, hexdigit l, unescape r' with
            | Some a, Some b, Some t => Some (16 * a + b :: t)
            | _, _, _ => None
            end
        | _ => None
        end
      else match unescape r with Some t => Some (c :: t) | None => None end
  end.

(** pathUnescape of the mux: on error the segment is used as written *)
Definition seg_unescape (s : str) : str :=
  match unescape s with Some t => t | None => s end.

(** * Splitting and cleaning *)

(** split at slashes: "a/b/" = ["a";"b";""], "" = [""] *)
Fixpoint split_slash_acc (acc : str) (s : str) : list str :=
  match s with
  | [] => [rev acc]
  | c :: r => if c =? SLASH then rev acc :: split_slash_acc [] r else split_slash_acc (c :: acc) r
  end.
Definition split_slash (s : str) : list str := split_slash_acc [] s.

Fixpoint join_slash (segs : list str) : str :=
  match segs with
  | [] => []
  | x :: r => SLASH :: x ++ join_slash r
  end.

Definition is_dot (s : str) : bool := str_eqb s [DOT].
Definition is_dotdot (s : str) : bool := str_eqb s [DOT; DOT].

(** path.Clean on the segments of a rooted path; [stack] is reversed *)
Fixpoint clean_segs (stack : list str) (segs : list str) : list str :=
  match segs with
  | [] => rev stack
  | x :: r =>
      match x with
      | [] => clean_segs stack r
      | _ => if is_dot x then clean_segs stack r
             else if is_dotdot x then clean_segs (tl stack) r
             else clean_segs (x :: stack) r
      end
  end.

Definition ends_with_slash (s : str) : bool :=
  match rev s with c :: _ => c =? SLASH | [] => false end.

(** net/http cleanPath *)
Definition clean_path (p : str) : str :=
  match p with
  | [] => [SLASH]
  | c :: r =>
      let p' := if c =? SLASH then p else SLASH :: p in
      let body := match p' with _ :: b => b | [] => [] end in
      let segs := clean_segs [] (split_slash body) in
      match segs with
      | [] => [SLASH]
      | _ => if ends_with_slash p' then join_slash segs ++ [SLASH] else join_slash segs
      end
  end.

(** the segments the routing tree walks over, and whether the path ends in a
    slash: "/a/b" = (["a";"b"], false), "/a/" = (["a"], true), "/" = ([], true).
    None = the path does not start with a slash (matches nothing). *)
Fixpoint drop_last (l : list str) : list str * option str :=
  match l with
  | [] => ([], None)
  | [x] => ([], Some x)
  | x :: r => let '(a, b) := drop_last r in (x :: a, b)
  end.

Definition route_segs (p : str) : option (list str * bool) :=
  match p with
  | c :: body =>
      if c =? SLASH then
        let '(init, last) := drop_last (split_slash body) in
        match last with
        | Some [] => Some (map seg_unescape init, true)
        | Some x => Some (map seg_unescape (init ++ [x]), false)
        | None => None
        end
      else None
  | [] => None
  end.

(** * Patterns and the registration table *)

Record pattern := mkPat { p_text : str; p_segs : list str; p_subtree : bool }.

(** pattern from its registration string *)
Definition pat_of (text : str) : pattern :=
  match route_segs text with
  | Some (segs, sub) => mkPat text segs sub
  | None => mkPat text [] false
  end.

Inductive group := GAlways | GRemote | GDashboard | GPprof.

Record flags := mkFlags { f_remote : bool; f_dashboard : bool; f_pprof : bool }.

Definition group_on (f : flags) (g : group) : bool :=
  match g with
  | GAlways => true
  | GRemote => f_remote f
  | GDashboard => f_dashboard f
  | GPprof => f_pprof f
  end.

(** one mux.HandleFunc line of NewServer: the group whose flag guards it,
    the flag value under which it is registered, the pattern, the handler
    expression, and whether that handler is disabledHandler(...) *)
Record registration := mkReg {
  r_group : group; r_when : bool; r_pattern : str; r_handler : str; r_disabled : bool }.

Definition active (f : flags) (r : registration) : bool :=
  match r_group r with
  | GAlways => true
  | g => Bool.eqb (group_on f g) (r_when r)
  end.

(** a registration together with its parsed pattern *)
Definition entry := (registration * pattern)%type.
Definition entries_of (regs : list registration) : list entry :=
  map (fun r => (r, pat_of (r_pattern r))) regs.

Definition table_of (ents : list entry) (f : flags) : list entry :=
  filter (fun e => active f (fst e)) ents.

(** * Matching *)

Fixpoint strs_prefixb (p s : list str) : bool :=
  match p, s with
  | [], _ => true
  | x :: p', y :: s' => str_eqb x y && strs_prefixb p' s'
  | _ :: _, [] => false
  end.

Definition matches (pt : pattern) (segs : list str) (trailing : bool) : bool :=
  if p_subtree pt then
    strs_prefixb (p_segs pt) segs &&
    (Nat.ltb (length (p_segs pt)) (length segs) || trailing)
  else
    strs_eqb (p_segs pt) segs && negb trailing.

(** more specific = longer list of literal segments (an exact pattern that
    matches has all of them) *)
Definition more_specific (pt best : pattern) : bool :=
  Nat.ltb (length (p_segs best)) (length (p_segs pt))
  || (Nat.eqb (length (p_segs best)) (length (p_segs pt)) && negb (p_subtree pt) && p_subtree best).

Fixpoint best_match (tbl : list entry) (segs : list str) (trailing : bool)
         (best : option entry) : option entry :=
  match tbl with
  | [] => best
  | e :: rest =>
      if matches (snd e) segs trailing then
        match best with
        | Some b =>
            if more_specific (snd e) (snd b)
            then best_match rest segs trailing (Some e)
            else best_match rest segs trailing best
        | None => best_match rest segs trailing (Some e)
        end
      else best_match rest segs trailing best
  end.

Definition route (tbl : list entry) (p : str) : option entry :=
  match route_segs p with
  | Some (segs, trailing) => best_match tbl segs trailing None
  | None => None
  end.

(** exactMatch of the mux: the node found is the path itself, not merely a
    subtree that contains it *)
Definition exact_match (r : option entry) (p : str) : bool :=
  match r, route_segs p with
  | Some e, Some (segs, trailing) =>
      let pt := snd e in
      if p_subtree pt then trailing && Nat.eqb (length (p_segs pt)) (length segs) else true
  | _, _ => false
  end.

Inductive mux_result :=
| MRedirect                     (* 301: add the trailing slash, or go to the cleaned path *)
| MNotFound                     (* no pattern matches: the mux's own 404 *)
| MDispatch (r : registration). (* handler of this registration runs *)

(** matchOrRedirect *)
Definition match_or_redirect (tbl : list entry) (p : str) (allow_redirect : bool)
  : option entry * bool :=
  let n := route tbl p in
  if negb (exact_match n p) && allow_redirect && negb (ends_with_slash p)
     && match p with [] => false | _ => true end then
    let p2 := p ++ [SLASH] in
    let n2 := route tbl p2 in
    if exact_match n2 p2 then (None, true) else (n, false)
  else (n, false).

(** ServeMux.findHandler *)
Definition mux (tbl : list entry) (is_connect : bool) (epath : str) : mux_result :=
  if is_connect then
    let '(_, redir) := match_or_redirect tbl epath true in
    if redir then MRedirect
    else match fst (match_or_redirect tbl epath false) with
         | Some e => MDispatch (fst e)
         | None => MNotFound
         end
  else
    let p := clean_path epath in
    let '(n, redir) := match_or_redirect tbl p true in
    if redir then MRedirect
    else if negb (str_eqb p epath) then MRedirect
    else match n with Some e => MDispatch (fst e) | None => MNotFound end.

(** * The middleware *)

Record request := mkReq {
  q_connect : bool;            (* method is CONNECT *)
  q_path : str;                (* URL.Path *)
  q_epath : str;               (* URL.EscapedPath() *)
  q_auth : option str;         (* Authorization header, if present *)
  q_query_token : str          (* URL.Query().Get("token") *)
}.

Module HttpGateText.
Import Coq.Strings.String.
Local Open Scope string_scope.
Definition bearer_prefix : str := lit "Bearer ".
Definition exempt_paths : list str :=
  [lit "/health"; lit "/healthz"; lit "/ready"; lit "/"; lit "/logo.png"].
(** the registrations of health.NewServer, in source order *)
Definition registrations : list registration :=
  [ mkReg GAlways true (lit "/health") (lit "s.handleHealth") false;
    mkReg GAlways true (lit "/healthz") (lit "s.handleHealthz") false;
    mkReg GAlways true (lit "/ready") (lit "s.handleReady") false;
    mkReg GRemote true (lit "/agents") (lit "s.handleListAgents") false;
    mkReg GRemote true (lit "/agents/") (lit "s.handleAgentInfo") false;
    mkReg GRemote true (lit "/routes/advertise") (lit "s.handleTriggerAdvertise") false;
    mkReg GRemote true (lit "/routes/manage") (lit "s.handleRouteManage") false;
    mkReg GRemote true (lit "/forward/manage") (lit "s.handleForwardManage") false;
    mkReg GRemote true (lit "/display-name/manage") (lit "s.handleDisplayNameManage") false;
    mkReg GRemote true (lit "/sleep") (lit "s.handleSleep") false;
    mkReg GRemote true (lit "/sleep/status") (lit "s.handleSleepStatus") false;
    mkReg GRemote true (lit "/wake") (lit "s.handleWake") false;
    mkReg GRemote false (lit "/agents") (lit "disabledHandler") true;
    mkReg GRemote false (lit "/agents/") (lit "disabledHandler") true;
    mkReg GRemote false (lit "/routes/advertise") (lit "disabledHandler") true;
    mkReg GRemote false (lit "/routes/manage") (lit "disabledHandler") true;
    mkReg GRemote false (lit "/forward/manage") (lit "disabledHandler") true;
    mkReg GRemote false (lit "/display-name/manage") (lit "disabledHandler") true;
    mkReg GRemote false (lit "/sleep") (lit "disabledHandler") true;
    mkReg GRemote false (lit "/sleep/status") (lit "disabledHandler") true;
    mkReg GRemote false (lit "/wake") (lit "disabledHandler") true;
    mkReg GDashboard true (lit "/api/topology") (lit "s.handleTopology") false;
    mkReg GDashboard true (lit "/api/dashboard") (lit "s.handleDashboard") false;
    mkReg GDashboard true (lit "/api/nodes") (lit "s.handleNodes") false;
    mkReg GDashboard true (lit "/api/mesh-test") (lit "s.handleMeshTest") false;
    mkReg GDashboard false (lit "/api/") (lit "disabledHandler") true;
    mkReg GPprof true (lit "/debug/pprof/") (lit "pprof.Index") false;
    mkReg GPprof true (lit "/debug/pprof/cmdline") (lit "pprof.Cmdline") false;
    mkReg GPprof true (lit "/debug/pprof/profile") (lit "pprof.Profile") false;
    mkReg GPprof true (lit "/debug/pprof/symbol") (lit "pprof.Symbol") false;
    mkReg GPprof true (lit "/debug/pprof/trace") (lit "pprof.Trace") false;
    mkReg GPprof false (lit "/debug/") (lit "disabledHandler") true;
    mkReg GAlways true (lit "/logo.png") (lit "handleLogo") false;
    mkReg GAlways true (lit "/") (lit "s.handleSplash") false ].
End HttpGateText.
Export HttpGateText.

(** the registrations with their patterns parsed once *)
Definition entries : list entry := Eval vm_compute in entries_of registrations.

(** extractBearerToken *)
Definition extract_token (q : request) : str :=
  match q_auth q with
  | Some a => if prefixb bearer_prefix a then skipn 7 a else q_query_token q
  | None => q_query_token q
  end.

Inductive response :=
| R401                      (* unauthorized; the mux is never entered *)
| RMux (m : mux_result).

(** requireAuth around the mux.  [valid] is the token check (bcrypt compare
    against the configured hash, possibly answered by the SHA-256 cache). *)
Definition gate (exempt : list str) (tbl : list entry) (token_configured : bool)
           (valid : str -> bool) (q : request) : response :=
  if token_configured then
    if mem_s (q_path q) exempt then RMux (mux tbl (q_connect q) (q_epath q))
    else
      let tok := extract_token q in
      if match tok with [] => true | _ => false end || negb (valid tok) then R401
      else RMux (mux tbl (q_connect q) (q_epath q))
  else RMux (mux tbl (q_connect q) (q_epath q)).

Definition serve (f : flags) (token_configured : bool) (valid : str -> bool) (q : request) : response :=
  gate exempt_paths (table_of entries f) token_configured valid q.

(** * validateToken with its SHA-256 cache, over a history of requests *)

Section TokenCache.
  Variable sha : str -> str.
  Variable bcrypt_ok : str -> bool.

  (** cache = the token whose digest is stored (None = cache invalid) *)
  Definition validate (cache : option str) (tok : str) : bool * option str :=
    match cache with
    | Some t => if str_eqb (sha tok) (sha t) then (true, cache)
                else if bcrypt_ok tok then (true, Some tok) else (false, cache)
    | None => if bcrypt_ok tok then (true, Some tok) else (false, cache)
    end.

  (** one request through requireAuth with the stateful validator: response
      and the new cache *)
  Definition gate_step (exempt : list str) (tbl : list entry) (cache : option str) (q : request)
    : response * option str :=
    if mem_s (q_path q) exempt then (RMux (mux tbl (q_connect q) (q_epath q)), cache)
    else
      let tok := extract_token q in
      match tok with
      | [] => (R401, cache)
      | _ => let '(ok, cache') := validate cache tok in
             if ok then (RMux (mux tbl (q_connect q) (q_epath q)), cache') else (R401, cache')
      end.

  Fixpoint gate_run (exempt : list str) (tbl : list entry) (cache : option str) (qs : list request)
    : list response :=
    match qs with
    | [] => []
    | q :: rest => let '(r, cache') := gate_step exempt tbl cache q in r :: gate_run exempt tbl cache' rest
    end.
End TokenCache.

(** * From the configuration file to the server flags

    config.HTTPConfig.{Pprof,Dashboard,RemoteAPI}Enabled(): minimal mode
    switches every group off whatever the group's own toggle says; otherwise
    a group is on unless its toggle is explicitly false.  The agent passes
    these three results (and http.token_hash) to health.NewServer. *)
Definition group_enabled (minimal : bool) (toggle : option bool) : bool :=
  if minimal then false else match toggle with None => true | Some b => b end.

Definition flags_of_config (minimal : bool) (remote dashboard pprof : option bool) : flags :=
  mkFlags (group_enabled minimal remote) (group_enabled minimal dashboard) (group_enabled minimal pprof).

(** * Correspondence oracle *)

(** observed: class 0 = 401, 1 = redirect (301), 2 = mux's own not-found,
    3 = dispatched; for class 3 the pattern reported by the mux
    (Request.Pattern) and whether the answer was "404 and no provider call" *)
Record observed := mkObs { o_class : N; o_pattern : str; o_404_noaction : bool }.

Record case := mkCase {
  c_flags : flags; c_token_configured : bool; c_right_token : str;
  c_req : request; c_obs : observed }.

Definition case_ok (c : case) : bool :=
  match serve (c_flags c) (c_token_configured c) (str_eqb (c_right_token c)) (c_req c) with
  | R401 => o_class (c_obs c) =? 0
  | RMux MRedirect => o_class (c_obs c) =? 1
  | RMux MNotFound => o_class (c_obs c) =? 2
  | RMux (MDispatch r) =>
      (o_class (c_obs c) =? 3) && str_eqb (o_pattern (c_obs c)) (r_pattern r) &&
      (negb (r_disabled r) || o_404_noaction (c_obs c))
  end.

Definition mismatches (cs : list case) : list N := mismatches_from case_ok 0 cs.

Definition d_request (t : list str) : dec request :=
  d_map (fun '(cn, p, ep, au, qt) => mkReq cn p ep au qt)
        (d_pair (d_pair (d_pair (d_pair d_bool (d_ref t)) (d_ref t)) (d_option (d_ref t))) (d_ref t)).

(** the flags travel either directly (tag 0: a health.ServerConfig built by
    the harness) or as the http section of a configuration file (tag 1:
    minimal, remote_api, dashboard, pprof; the server was built by the agent
    from the parsed file) *)
Definition d_flags : dec flags :=
  fun s =>
    match s with
    | 0 :: r => d_map (fun '(a, b, c) => mkFlags a b c) (d_pair (d_pair d_bool d_bool) d_bool) r
    | 1 :: r => d_map (fun '(m, a, b, c) => flags_of_config m a b c)
                      (d_pair (d_pair (d_pair d_bool (d_option d_bool)) (d_option d_bool)) (d_option d_bool)) r
    | _ => None
    end.

Definition d_case (t : list str) : dec case :=
  d_map (fun '(f, tc, rt, q, oc, op, on) => mkCase f tc rt q (mkObs oc op on))
        (d_pair (d_pair (d_pair (d_pair (d_pair (d_pair d_flags d_bool) (d_ref t))
                 (d_request t)) d_N) (d_ref t)) d_bool).
