(** PRE-FIX model (kept for the refutation lemmas only): relay_table.go and the
    relay dispatcher as they were before fix commits c4b0fba (UDP/ICMP cleanup
    on disconnect) and 1a293bf (indices keyed by (peer, id)).

    A [table] is the pair of Go maps byUpstream / byDownstream, keyed by the
    BARE stream id as in the code.  Maps are association lists with map
    semantics ([mset] replaces, [mdel] removes every binding of the key) and
    are observed through [sorted].  Peers and ids are [N]. *)
From Coq Require Import List NArith Bool.
Import ListNotations.
Local Open Scope N_scope.

Module PreFix.


Section Map.
  Context {V : Type}.
  Definition amap := list (N * V).
  Fixpoint mget (k : N) (m : amap) : option V :=
    match m with
    | [] => None
    | (k', v) :: t => if k' =? k then Some v else mget k t
    end.
  Definition mdel (k : N) (m : amap) : amap := filter (fun p => negb (fst p =? k)) m.
  Definition mset (k : N) (v : V) (m : amap) : amap := (k, v) :: mdel k m.
  Fixpoint ins_sorted (p : N * V) (l : amap) : amap :=
    match l with
    | [] => [p]
    | q :: t => if fst p <=? fst q then p :: l else q :: ins_sorted p t
    end.
  Definition sorted (m : amap) : amap := fold_right ins_sorted [] m.
End Map.
Arguments amap : clear implicits.

Record entry := mkentry { up_peer : N; up_id : N; down_peer : N; down_id : N }.

Definition entry_eqb (a b : entry) : bool :=
  (up_peer a =? up_peer b) && (up_id a =? up_id b) && (down_peer a =? down_peer b) && (down_id a =? down_id b).

Record table := mktable { by_up : amap entry; by_down : amap entry }.

Definition empty_table : table := {| by_up := []; by_down := [] |}.

(** relayTable.Insert *)
Definition insert (t : table) (e : entry) : table :=
  {| by_up := mset (up_id e) e (by_up t); by_down := mset (down_id e) e (by_down t) |}.

(** relayTable.Delete: removes whatever sits under the entry's two keys *)
Definition delete (t : table) (e : entry) : table :=
  {| by_up := mdel (up_id e) (by_up t); by_down := mdel (down_id e) (by_down t) |}.

Definition lookup_both (t : table) (id : N) : option entry * option entry :=
  (mget id (by_up t), mget id (by_down t)).

Definition lookup_down (t : table) (id : N) : option entry := mget id (by_down t).

Definition pop_down_from_peer (t : table) (id peer : N) : table * option entry :=
  match mget id (by_down t) with
  | Some e => if down_peer e =? peer then (delete t e, Some e) else (t, None)
  | None => (t, None)
  end.

(** result: entry and the fromUpstream flag *)
Definition pop_matching (t : table) (id peer : N) : table * option (entry * bool) :=
  match mget id (by_up t) with
  | Some u =>
      if up_peer u =? peer then (delete t u, Some (u, true))
      else match mget id (by_down t) with
           | Some d => if down_peer d =? peer then (delete t d, Some (d, false)) else (t, None)
           | None => (t, None)
           end
  | None =>
      match mget id (by_down t) with
      | Some d => if down_peer d =? peer then (delete t d, Some (d, false)) else (t, None)
      | None => (t, None)
      end
  end.

Definition involves (peer : N) (e : entry) : bool := (up_peer e =? peer) || (down_peer e =? peer).

(** relayTable.DeleteByPeer: ranges over byUpstream ONLY; for every entry
    found there that involves the peer it deletes the current upstream key
    and the entry's downstream key.  (Deleting the current key while ranging
    is well defined in Go and the result does not depend on the order.) *)
Definition delete_by_peer (t : table) (peer : N) : table * N :=
  let hit := filter (fun p => involves peer (snd p)) (by_up t) in
  ({| by_up := filter (fun p => negb (involves peer (snd p))) (by_up t);
      by_down := fold_left (fun m p => mdel (down_id (snd p)) m) hit (by_down t) |},
   N.of_nat (length hit)).

Definition snapshot (t : table) : amap entry * amap entry := (sorted (by_up t), sorted (by_down t)).

(* ------------------------------------------------------------------------- *)
(** * Table-level operation sequences (facade correspondence) *)

Inductive top :=
| TInsert (e : entry)
| TDelete (e : entry)
| TLookupBoth (id : N)
| TLookupDown (id : N)
| TPopDown (id peer : N)
| TPopMatching (id peer : N)
| TDeleteByPeer (peer : N).

(** result of one operation, canonical: up to two entries, a flag, a count *)
Record tres := mktres { r_e1 : option entry; r_e2 : option entry; r_flag : bool; r_n : N }.

Definition tstep (t : table) (o : top) : table * tres :=
  match o with
  | TInsert e => (insert t e, mktres None None false 0)
  | TDelete e => (delete t e, mktres None None false 0)
  | TLookupBoth id => let '(u, d) := lookup_both t id in (t, mktres u d false 0)
  | TLookupDown id => (t, mktres (lookup_down t id) None false 0)
  | TPopDown id p => let '(t', r) := pop_down_from_peer t id p in (t', mktres r None false 0)
  | TPopMatching id p =>
      let '(t', r) := pop_matching t id p in
      (t', match r with Some (e, f) => mktres (Some e) None f 0 | None => mktres None None false 0 end)
  | TDeleteByPeer p => let '(t', n) := delete_by_peer t p in (t', mktres None None false n)
  end.

Fixpoint trun (t : table) (ops : list top) : table :=
  match ops with
  | [] => t
  | o :: r => trun (fst (tstep t o)) r
  end.

(* ------------------------------------------------------------------------- *)
(** * The relay part of the agent's frame dispatcher *)

Inductive fam := TCP | UDP | ICMP.
Inductive kind := KOpen | KAck | KErr | KData | KClose | KReset.

Record frame := mkframe {
  f_fam : fam; f_kind : kind; f_id : N;
  f_path : list N;   (* remaining path, OPEN only *)
  f_tag : N;         (* request id / payload tag, carried opaquely *)
  f_fin : bool;      (* FIN_WRITE flag of STREAM_DATA *)
}.

(** what the agent (as a transit) knows *)
Record astate := mkastate {
  a_me : N;
  a_tcp : table; a_udp : table; a_icmp : table;
  a_conns : amap N;          (* connected peer -> next stream id of OUR end of that connection *)
  a_failing : list N;        (* peers towards which a send currently fails *)
  a_locals : amap (list N);  (* the agent's own stream-manager streams: id -> data tags received *)
}.

Definition tbl (s : astate) (f : fam) : table :=
  match f with TCP => a_tcp s | UDP => a_udp s | ICMP => a_icmp s end.

Definition with_tbl (s : astate) (f : fam) (t : table) : astate :=
  match f with
  | TCP => mkastate (a_me s) t (a_udp s) (a_icmp s) (a_conns s) (a_failing s) (a_locals s)
  | UDP => mkastate (a_me s) (a_tcp s) t (a_icmp s) (a_conns s) (a_failing s) (a_locals s)
  | ICMP => mkastate (a_me s) (a_tcp s) (a_udp s) t (a_conns s) (a_failing s) (a_locals s)
  end.

Definition with_conns (s : astate) (c : amap N) : astate :=
  mkastate (a_me s) (a_tcp s) (a_udp s) (a_icmp s) c (a_failing s) (a_locals s).
Definition with_failing (s : astate) (l : list N) : astate :=
  mkastate (a_me s) (a_tcp s) (a_udp s) (a_icmp s) (a_conns s) l (a_locals s).
Definition with_locals (s : astate) (l : amap (list N)) : astate :=
  mkastate (a_me s) (a_tcp s) (a_udp s) (a_icmp s) (a_conns s) (a_failing s) l.

Definition memN (x : N) (l : list N) : bool := existsb (N.eqb x) l.

(** peerMgr.SendToPeer: fails when the peer is not connected or the write
    fails; successful sends are what the neighbour receives *)
Definition send_ok (s : astate) (to : N) : bool :=
  match mget to (a_conns s) with Some _ => negb (memN to (a_failing s)) | None => false end.

Definition out := list (N * frame).

Definition emit (s : astate) (to : N) (f : frame) : out := if send_ok s to then [(to, f)] else [].

Definition two64 : N := 18446744073709551616.

(** STREAM_OPEN / UDP_OPEN / ICMP_OPEN *)
Definition on_open (s : astate) (from : N) (f : frame) : astate * out :=
  let fm := f_fam f in
  let local :=
    match f_path f with
    | [] => true
    | [p] => match fm with TCP => p =? a_me s | _ => false end
    | _ => false
    end in
  if local then
    (* we are the exit: the TCP exit handler / UDP / ICMP handlers are not
       configured on the modelled transit; UDP and ICMP answer with an error *)
    match fm with
    | TCP => (s, [])
    | _ => (s, emit s from (mkframe fm KErr (f_id f) [] (f_tag f) false))
    end
  else
    match f_path f with
    | [] => (s, [])
    | hop :: rest =>
        match mget hop (a_conns s) with
        | None => (s, emit s from (mkframe fm KErr (f_id f) [] (f_tag f) false))
        | Some next =>
            let e := mkentry from (f_id f) hop next in
            let s1 := with_conns (with_tbl s fm (insert (tbl s fm) e)) (mset hop ((next + 2) mod two64) (a_conns s)) in
            if send_ok s1 hop then (s1, [(hop, mkframe fm KOpen next rest (f_tag f) false)])
            else (with_tbl s1 fm (delete (tbl s1 fm) e), emit s1 from (mkframe fm KErr (f_id f) [] (f_tag f) false))
        end
    end.

Definition local_data (s : astate) (f : frame) : astate :=
  match mget (f_id f) (a_locals s) with
  | Some l => with_locals s (mset (f_id f) (l ++ [f_tag f]) (a_locals s))
  | None => s
  end.

Definition local_close (s : astate) (f : frame) : astate := with_locals s (mdel (f_id f) (a_locals s)).

Definition on_frame (s : astate) (from : N) (f : frame) : astate * out :=
  let fm := f_fam f in
  let t := tbl s fm in
  match f_kind f with
  | KOpen => on_open s from f
  | KAck =>
      match lookup_down t (f_id f) with
      | Some e => if from =? down_peer e
                  then (s, emit s (up_peer e) (mkframe fm KAck (up_id e) [] (f_tag f) false))
                  else (s, [])
      | None => (s, [])
      end
  | KErr =>
      let '(t', r) := pop_down_from_peer t (f_id f) from in
      match r with
      | Some e => (with_tbl s fm t', emit s (up_peer e) (mkframe fm KErr (up_id e) [] (f_tag f) false))
      | None => (s, [])
      end
  | KData =>
      let '(u, d) := lookup_both t (f_id f) in
      match u with
      | Some e =>
          if from =? up_peer e then (s, emit s (down_peer e) (mkframe fm KData (down_id e) [] (f_tag f) (f_fin f)))
          else match d with
               | Some e' => if from =? down_peer e' then (s, emit s (up_peer e') (mkframe fm KData (up_id e') [] (f_tag f) (f_fin f)))
                            else (match fm with TCP => local_data s f | _ => s end, [])
               | None => (match fm with TCP => local_data s f | _ => s end, [])
               end
      | None =>
          match d with
          | Some e' => if from =? down_peer e' then (s, emit s (up_peer e') (mkframe fm KData (up_id e') [] (f_tag f) (f_fin f)))
                       else (match fm with TCP => local_data s f | _ => s end, [])
          | None => (match fm with TCP => local_data s f | _ => s end, [])
          end
      end
  | KClose | KReset =>
      match fm, f_kind f with
      | UDP, KReset | ICMP, KReset => (s, [])   (* no such frame type *)
      | _, _ =>
        let '(t', r) := pop_matching t (f_id f) from in
        match r with
        | Some (e, fromUp) =>
            let '(dp, did) := if fromUp then (down_peer e, down_id e) else (up_peer e, up_id e) in
            (with_tbl s fm t', emit s dp (mkframe fm (f_kind f) did [] (f_tag f) false))
        | None => (match fm with TCP => local_close s f | _ => s end, [])
        end
      end
  end.

Inductive event :=
| EFrame (from : N) (f : frame)
| EConnect (peer : N) (dialer : bool)   (* new connection; our allocator starts at 1 (we dialled) or 2 *)
| EDisconnect (peer : N)                (* peer manager drops the connection, then handlePeerDisconnect *)
| ESetFail (peer : N) (b : bool).

(** [tcp_only_cleanup]: handlePeerDisconnect -> cleanupRelaysForPeer touches
    the TCP relay table only (the code under verification) *)
Definition cleanup_all_tables : bool := false.

Definition astep (s : astate) (ev : event) : astate * out :=
  match ev with
  | EFrame from f => on_frame s from f
  | EConnect p dialer =>
      (* a fresh connection: fresh allocator, and its writes work again *)
      (with_failing (with_conns s (mset p (if dialer then 1 else 2) (a_conns s)))
                    (filter (fun x => negb (x =? p)) (a_failing s)), [])
  | EDisconnect p =>
      match mget p (a_conns s) with
      | None => (s, [])   (* no connection, no disconnect notification *)
      | Some _ =>
      let s1 := with_conns s (mdel p (a_conns s)) in
      let s2 := with_tbl s1 TCP (fst (delete_by_peer (a_tcp s1) p)) in
      if cleanup_all_tables
      then (with_tbl (with_tbl s2 UDP (fst (delete_by_peer (a_udp s2) p))) ICMP
                     (fst (delete_by_peer (a_icmp (with_tbl s2 UDP (fst (delete_by_peer (a_udp s2) p)))) p)), [])
      else (s2, [])
      end
  | ESetFail p b =>
      (with_failing s (if b then p :: a_failing s else filter (fun x => negb (x =? p)) (a_failing s)), [])
  end.

Fixpoint arun (s : astate) (evs : list event) : astate * list out :=
  match evs with
  | [] => (s, [])
  | e :: r => let '(s1, o) := astep s e in let '(s2, os) := arun s1 r in (s2, o :: os)
  end.

Definition ainit (me : N) (locals : list N) : astate :=
  mkastate me empty_table empty_table empty_table [] [] (map (fun id => (id, [])) locals).


End PreFix.
