(** The behaviour of flood.go BEFORE the four "fix:" commits of branch
    fam-flood, modelled only as far as it differs from Model/Flood.v, so that
    the defects can be stated as lemmas about the old behaviour:

    - HandleRouteAdvertise re-flooded the routes with the metric it received
      (no increment) and knew no hop limit;
    - SendFullTable grouped the stored routes by origin only, sent each group
      under a FRESH sequence number from the replaying agent's own counter,
      with seen-by = [replaying agent], with the path of the "first available"
      route of the group, and also to a peer that is on that path.

    Go iterates a map over the origins there; the model takes them in
    ascending order of origin, which is one of the orders the old code could
    take (the lemmas are existential, so one legal order suffices).
    Executable definitions only. *)
From Coq Require Import List NArith Bool.
From MM Require Import Model.Flood.
Import ListNotations.
Local Open Scope N_scope.

Definition forward_adv_pre (self : node) (a : advert) : advert :=
  {| a_origin := a_origin a; a_seq := a_seq a; a_routes := a_routes a;
     a_path := self :: a_path a; a_seenby := a_seenby a ++ [self] |}.

Definition handle_pre (s : state) (self from : node) (a : advert) : state * list msg * N :=
  match get (st_nodes s) self with
  | None => (s, [], 0)
  | Some ns =>
    let o := a_origin a in let sq := a_seq a in
    if seen_has o sq (ns_seen ns) then
      let ns' := {| ns_seq := ns_seq ns; ns_entries := ns_entries ns;
                    ns_seen := seen_touch o sq (st_now s) from (ns_seen ns); ns_locals := ns_locals ns |} in
      ({| st_nodes := set (st_nodes s) self ns'; st_links := st_links s; st_flight := st_flight s; st_now := st_now s |}, [], 0)
    else
      let sn := ns_seen ns ++ [{| s_origin := o; s_seq := sq; s_at := st_now s; s_from := from |}] in
      let with_nodes es := {| st_nodes := set (st_nodes s) self {| ns_seq := ns_seq ns; ns_entries := es; ns_seen := sn; ns_locals := ns_locals ns |};
                              st_links := st_links s; st_flight := st_flight s; st_now := st_now s |} in
      if memN self (a_seenby a) then (with_nodes (ns_entries ns), [], 0)
      else
        let es := store_routes self from (st_now s) a (ns_entries ns) in
        let fa := forward_adv_pre self a in
        (with_nodes es, map (fun p => {| m_from := self; m_to := p; m_adv := fa |})
                            (flood_targets s self from (a_seenby fa)), 1)
  end.

(** "use the path from the first available route": CIDR, then agent, then
    forward, then domain routes, the first one with a non-empty path *)
Definition first_path (grp : list entry) : list node :=
  let pick k := find (fun e => kind_eqb (e_kind e) k && negb (match e_path e with [] => true | _ => false end)) grp in
  match pick KCidr, pick KAgent, pick KForward, pick KDomain with
  | Some e, _, _, _ => e_path e
  | None, Some e, _, _ => e_path e
  | None, None, Some e, _ => e_path e
  | None, None, None, Some e => e_path e
  | _, _, _, _ => []
  end.

Fixpoint replay_groups_pre (self peer seq : N) (cands : list entry) (origins : list N) : list advert * N :=
  match origins with
  | [] => ([], seq)
  | o :: t =>
      let grp := filter (fun e => e_origin e =? o) cands in
      let '(rest, seq') := replay_groups_pre self peer (seq + 1) cands t in
      ({| a_origin := o; a_seq := seq + 1;
          a_routes := sort_by route_ltb (map route_of_entry grp);
          a_path := self :: first_path grp; a_seenby := [self] |} :: rest, seq')
  end.

Definition replay_pre (s : state) (self peer : node) : state * list msg :=
  match get (st_nodes s) self with
  | None => (s, [])
  | Some ns =>
    let cands := filter (fun e => negb (e_nexthop e =? peer)) (ns_entries ns) in
    let origins := sort_by N.ltb (dedupN (map e_origin cands)) in
    let '(advs, seq') := replay_groups_pre self peer (ns_seq ns) cands origins in
    let ns' := {| ns_seq := seq'; ns_entries := ns_entries ns; ns_seen := ns_seen ns; ns_locals := ns_locals ns |} in
    ({| st_nodes := set (st_nodes s) self ns'; st_links := st_links s; st_flight := st_flight s; st_now := st_now s |},
     map (fun a => {| m_from := self; m_to := peer; m_adv := a |}) advs)
  end.

(** the old step: Deliver and Connect differ, everything else is [step] *)
Definition step_pre (cf : config) (s : state) (o : op) : state * list msg * N :=
  match o with
  | Deliver i dup =>
      match nth_error (st_flight s) i with
      | None => (s, [], 2)
      | Some m =>
          let s1 := with_flight s (if dup then st_flight s else remove_nth (st_flight s) i) in
          let '(s2, out, res) := handle_pre s1 (m_to m) (m_from m) (m_adv m) in
          (with_flight s2 (st_flight s2 ++ out), out, res)
      end
  | Connect a b =>
      if valid_node s a && valid_node s b && negb (a =? b) && negb (linked (st_links s) a b) then
        let s1 := {| st_nodes := st_nodes s; st_links := st_links s ++ [(a, b)]; st_flight := st_flight s; st_now := st_now s |} in
        let '(s2, out1) := replay_pre s1 a b in
        let '(s3, out2) := replay_pre s2 b a in
        (with_flight s3 (st_flight s3 ++ out1 ++ out2), out1 ++ out2, 2)
      else (s, [], 2)
  | _ => step cf s o
  end.

Fixpoint run_pre (cf : config) (s : state) (ops : list op) : state :=
  match ops with
  | [] => s
  | o :: t => run_pre cf (fst (fst (step_pre cf s o))) t
  end.
