(** Model of the persistent agent state and of process death (C34).

    Code modelled: internal/identity/identity.go (AgentID.Store, Load,
    LoadOrCreate), internal/identity/keypair.go (Keypair.Store, LoadKeypair,
    LoadOrCreateKeypair and, after the repair, restorePublicKey) and
    internal/sleep/sleep.go (persistState, LoadState as used by Start).

    The data directory is a flat directory: [fs] says whether it exists and
    which files it holds.  A routine is modelled by the list of *mutating*
    system calls it issues (mkdir, open with O_TRUNC|O_CREAT, write, rename)
    — all of its reads happen before its first write, so the list is a
    function of the file system state at the start — together with the value
    it returns when it runs to completion.  The process may die before any
    of these calls, or in the middle of a write (any prefix of the data
    written): [crash_of].  Process death only: what a completed system call
    wrote is what the next process reads (no power-loss / page-cache model).

    External things are parameters: [K] raw identifiers/keys, [enc]/[dec] the
    hex file encoding (KeyToString+"\n" / TrimSpace+ParseKey), [base] the
    X25519 base-point multiplication, [parse] the JSON decoding of the sleep
    state.  The correspondence oracle at the end instantiates them with
    tables observed on the real code. *)
From Coq Require Import List NArith Bool.
From Coq Require Import String.
From MM Require Import Lib.Bytes.
Import ListNotations.
Local Open Scope string_scope.
Local Open Scope list_scope.

Definition name := string.

Record fs := { dir : bool; files : list (name * bytes) }.

Definition no_dir : fs := {| dir := false; files := [] |}.

Fixpoint lookup (n : name) (l : list (name * bytes)) : option bytes :=
  match l with
  | [] => None
  | (m, c) :: l' => if String.eqb n m then Some c else lookup n l'
  end.

Fixpoint remove (n : name) (l : list (name * bytes)) : list (name * bytes) :=
  match l with
  | [] => []
  | (m, c) :: l' => if String.eqb n m then remove n l' else (m, c) :: remove n l'
  end.

Definition set (n : name) (c : bytes) (l : list (name * bytes)) : list (name * bytes) :=
  (n, c) :: remove n l.

Definition get (s : fs) (n : name) : option bytes := if dir s then lookup n (files s) else None.

(** mutating system calls *)
Inductive op :=
| OMkdir                              (* mkdirat(dataDir) *)
| OTrunc (n : name)                   (* openat(n, O_WRONLY|O_CREAT|O_TRUNC) *)
| OWrite (n : name) (d : bytes)       (* write(fd of n, d): appends (the file was just truncated) *)
| ORename (a b : name).               (* renameat(a, b) *)

Definition apply_op (s : fs) (o : op) : fs :=
  match o with
  | OMkdir => if dir s then s else {| dir := true; files := [] |}
  | OTrunc n => if dir s then {| dir := true; files := set n [] (files s) |} else s
  | OWrite n d =>
    match get s n with
    | Some c => {| dir := true; files := set n (c ++ d) (files s) |}
    | None => s
    end
  | ORename a b =>
    match get s a with
    | Some c => {| dir := true; files := set b c (remove a (files s)) |}
    | None => s
    end
  end.

Definition run (ops : list op) (s : fs) : fs := fold_left apply_op ops s.

(** The states a dying process can leave behind: after any prefix of the
    script, or after a prefix followed by part of the next write. *)
Inductive crash_of (script : list op) (s : fs) : fs -> Prop :=
| crash_between : forall k, crash_of script s (run (firstn k script) s)
| crash_in_write : forall pre n d post j,
    script = pre ++ OWrite n d :: post ->
    crash_of script s (apply_op (run pre s) (OWrite n (firstn j d))).

(** computable enumeration of the same set (used by examples and the oracle) *)
Fixpoint seq_nat (n : nat) : list nat := match n with O => [O] | S m => seq_nat m ++ [n] end.

Inductive lerr := NotFound | PubNotFound | BadContent | Mismatch.

(** strings.Contains(err.Error(), "not found") *)
Definition says_not_found (e : lerr) : bool :=
  match e with NotFound | PubNotFound => true | _ => false end.

Inductive res (A : Type) := Ok (a : A) | Err (e : lerr).
Arguments Ok {A} a.
Arguments Err {A} e.

Definition id_file := "agent_id".
Definition id_tmp := "agent_id.tmp".
Definition key_file := "agent_key".
Definition key_tmp := "agent_key.tmp".
Definition pub_file := "agent_key.pub".
Definition pub_tmp := "agent_key.pub.tmp".
Definition sleep_file := "sleep_state.json".
Definition sleep_tmp := "sleep_state.json.tmp".

Section Routines.
  Variable K : Type.
  Variable K_eqb : K -> K -> bool.
  Variable enc : K -> bytes.
  Variable dec : bytes -> option K.
  Variable base : K -> K.

  (** os.MkdirAll(dataDir) issues mkdirat only when the directory is missing *)
  Definition mkdir_if_missing (s : fs) : list op := if dir s then [] else [OMkdir].

  (** os.WriteFile(tmp, data) ; os.Rename(tmp, final) *)
  Definition write_rename (tmp final : name) (data : bytes) : list op :=
    [OTrunc tmp; OWrite tmp data; ORename tmp final].

  (** *** Agent ID *)
  Definition load_id (s : fs) : res K :=
    match get s id_file with
    | None => Err NotFound
    | Some c => match dec c with Some k => Ok k | None => Err BadContent end
    end.

  Definition store_id (s : fs) (k : K) : list op :=
    mkdir_if_missing s ++ write_rename id_tmp id_file (enc k).

  (** LoadOrCreate: (script, (id, created)) *)
  Definition id_routine (s : fs) (fresh : K) : list op * res (K * bool) :=
    match load_id s with
    | Ok k => ([], Ok (k, false))
    | Err e => if says_not_found e then (store_id s fresh, Ok (fresh, true)) else ([], Err e)
    end.

  (** *** Keypair *)
  Definition load_kp (s : fs) : res (K * K) :=
    match get s key_file with
    | None => Err NotFound
    | Some c =>
      match dec c with
      | None => Err BadContent
      | Some k =>
        match get s pub_file with
        | None => Err PubNotFound
        | Some c' =>
          match dec c' with
          | None => Err BadContent
          | Some p => if K_eqb (base k) p then Ok (k, p) else Err Mismatch
          end
        end
      end
    end.

  (** Keypair.Store: private key first, then public key *)
  Definition store_kp (s : fs) (k : K) : list op :=
    mkdir_if_missing s ++ write_rename key_tmp key_file (enc k) ++ write_rename pub_tmp pub_file (enc (base k)).

  (** LoadOrCreateKeypair before the repair: any "not found" regenerates *)
  Definition kp_routine_pre_fix (s : fs) (fresh : K) : list op * res (K * K * bool) :=
    match load_kp s with
    | Ok (k, p) => ([], Ok (k, p, false))
    | Err e => if says_not_found e then (store_kp s fresh, Ok (fresh, base fresh, true)) else ([], Err e)
    end.

  (** restorePublicKey: re-read and parse the private key, write the derived public key *)
  Definition restore_pub (s : fs) : list op * res (K * K * bool) :=
    match get s key_file with
    | None => ([], Err NotFound)
    | Some c =>
      match dec c with
      | None => ([], Err BadContent)
      | Some k => (write_rename pub_tmp pub_file (enc (base k)), Ok (k, base k, false))
      end
    end.

  (** LoadOrCreateKeypair after the repair: a missing public key file next to
      a private key is rewritten from the private key *)
  Definition kp_routine (s : fs) (fresh : K) : list op * res (K * K * bool) :=
    match load_kp s with
    | Ok (k, p) => ([], Ok (k, p, false))
    | Err e =>
      if says_not_found e then
        match get s key_file with                 (* os.Stat(agent_key) succeeds *)
        | Some _ => restore_pub s
        | None => (store_kp s fresh, Ok (fresh, base fresh, true))
        end
      else ([], Err e)
    end.

  (** *** Sleep state *)
  Variable P : Type.              (* decoded PersistedState *)
  Variable parse : bytes -> option P.
  Variable default_state : P.      (* AWAKE, zero times, command sequence 0 *)

  (** persistState before the repair: os.WriteFile(stateFile) in place; the
      data directory is not created here, a missing directory makes the open
      fail and the error is only logged *)
  Definition sleep_save_pre_fix (s : fs) (data : bytes) : list op :=
    if dir s then [OTrunc sleep_file; OWrite sleep_file data] else [].

  (** after the repair: temporary file, then rename *)
  Definition sleep_save (s : fs) (data : bytes) : list op :=
    if dir s then write_rename sleep_tmp sleep_file data else [].

  (** Manager.Start: LoadState errors (missing file, invalid JSON) are logged and ignored *)
  Definition sleep_load (s : fs) : P :=
    match get s sleep_file with
    | None => default_state
    | Some c => match parse c with Some p => p | None => default_state end
    end.
End Routines.

Arguments Ok {A} a.
Arguments Err {A} e.

(** ** Correspondence oracle.

    Identifiers and keys are represented by their file content (hex text and
    newline); [valid] lists the contents the real ParseAgentID/ParseKey
    accept, [basetab] maps a private key content to the content of the
    public key the real DerivePublicKey gives, [parsetab] maps a sleep state
    content to what the real JSON decoding + Start() report
    (state, command sequence, sleep start, last poll). *)
Definition content := bytes.

Fixpoint mem_bytes (c : bytes) (l : list bytes) : bool :=
  match l with [] => false | x :: l' => bytes_eqb c x || mem_bytes c l' end.

Fixpoint assoc_bytes {A} (c : bytes) (l : list (bytes * A)) : option A :=
  match l with [] => None | (x, a) :: l' => if bytes_eqb c x then Some a else assoc_bytes c l' end.

Definition pstate := (N * N * string * string)%type.
Definition pstate_eqb (a b : pstate) : bool :=
  let '(s1, q1, t1, u1) := a in let '(s2, q2, t2, u2) := b in
  N.eqb s1 s2 && N.eqb q1 q2 && String.eqb t1 t2 && String.eqb u1 u2.
Definition default_pstate : pstate := (0%N, 0%N, "", "").

Record tables := { valid : list bytes; basetab : list (bytes * bytes); parsetab : list (bytes * pstate) }.

Definition t_dec (t : tables) (c : bytes) : option content := if mem_bytes c (valid t) then Some c else None.
Definition t_base (t : tables) (c : content) : content := match assoc_bytes c (basetab t) with Some p => p | None => [] end.
Definition t_parse (t : tables) (c : bytes) : option pstate := assoc_bytes c (parsetab t).

(** sorted insertion by name so that two file systems compare as maps *)
Fixpoint insert_sorted (x : name * bytes) (l : list (name * bytes)) : list (name * bytes) :=
  match l with
  | [] => [x]
  | y :: l' => if String.leb (fst x) (fst y) then x :: l else y :: insert_sorted x l'
  end.
Definition sort_files (l : list (name * bytes)) : list (name * bytes) := fold_right insert_sorted [] l.

Fixpoint files_eqb (a b : list (name * bytes)) : bool :=
  match a, b with
  | [], [] => true
  | (n, c) :: a', (m, d) :: b' => String.eqb n m && bytes_eqb c d && files_eqb a' b'
  | _, _ => false
  end.

Definition fs_eqb (a b : fs) : bool :=
  Bool.eqb (dir a) (dir b) && files_eqb (sort_files (files a)) (sort_files (files b)).

Definition op_eqb (a b : op) : bool :=
  match a, b with
  | OMkdir, OMkdir => true
  | OTrunc n, OTrunc m => String.eqb n m
  | OWrite n d, OWrite m e => String.eqb n m && bytes_eqb d e
  | ORename a1 b1, ORename a2 b2 => String.eqb a1 a2 && String.eqb b1 b2
  | _, _ => false
  end.

Fixpoint ops_eqb (a b : list op) : bool :=
  match a, b with
  | [], [] => true
  | x :: a', y :: b' => op_eqb x y && ops_eqb a' b'
  | _, _ => false
  end.

Inductive routine := RId | RKeypair | RSleep.

(** observed result of a run: code 0 = ok, 1 = error; payload per routine *)
Record observed := {
  o_ok : bool;
  o_created : bool;
  o_a : bytes;          (* id content / private key content *)
  o_b : bytes;          (* public key content *)
  o_state : pstate      (* sleep: what the restarted manager reports *)
}.

Definition hexf (l : list (name * string)) : list (name * bytes) := map (fun p => (fst p, bytes_of_hex (snd p))) l.
Definition mkfs (d : bool) (l : list (name * string)) : fs := {| dir := d; files := hexf l |}.

(** the model's script and completed-run result for a routine *)
Definition model_script (t : tables) (r : routine) (s : fs) (fresh : bytes) : list op :=
  match r with
  | RId => fst (id_routine content (fun c => c) (t_dec t) s fresh)
  | RKeypair => fst (kp_routine content bytes_eqb (fun c => c) (t_dec t) (t_base t) s fresh)
  | RSleep => sleep_save s fresh
  end.

Definition result_agrees (t : tables) (r : routine) (s : fs) (fresh : bytes) (o : observed) : bool :=
  match r with
  | RId =>
    match snd (id_routine content (fun c => c) (t_dec t) s fresh) with
    | Ok (k, c) => o_ok o && Bool.eqb c (o_created o) && bytes_eqb k (o_a o)
    | Err _ => negb (o_ok o)
    end
  | RKeypair =>
    match snd (kp_routine content bytes_eqb (fun c => c) (t_dec t) (t_base t) s fresh) with
    | Ok (k, p, c) => o_ok o && Bool.eqb c (o_created o) && bytes_eqb k (o_a o) && bytes_eqb p (o_b o)
    | Err _ => negb (o_ok o)
    end
  | RSleep => true
  end.

Inductive pcase :=
(** a complete run: the mutating system calls observed under strace, the
    reported result and the final directory *)
| PRun (t : tables) (r : routine) (init : fs) (fresh : string) (script : list op) (o : observed) (final : fs)
(** a run killed after [k] mutating system calls, then a clean restart;
    for RSleep the restart only loads ([o_state]) *)
| PCrash (t : tables) (r : routine) (init : fs) (fresh1 : string) (k : nat) (after_crash : fs)
         (fresh2 : string) (o : observed) (after_restart : fs).

Definition case_ok (c : pcase) : bool :=
  match c with
  | PRun t r init fresh script o final =>
    let f := bytes_of_hex fresh in
    let ms := model_script t r init f in
    ops_eqb ms script && result_agrees t r init f o && fs_eqb (run ms init) final
  | PCrash t r init fresh1 k s1 fresh2 o s2 =>
    let ms := model_script t r init (bytes_of_hex fresh1) in
    let m1 := run (firstn k ms) init in
    fs_eqb m1 s1 &&
    match r with
    | RSleep => pstate_eqb (sleep_load pstate (t_parse t) default_pstate m1) (o_state o) && fs_eqb m1 s2
    | _ =>
      let f2 := bytes_of_hex fresh2 in
      result_agrees t r m1 f2 o && fs_eqb (run (model_script t r m1 f2) m1) s2
    end
  end.

Fixpoint mismatches_from (i : N) (cs : list pcase) : list N :=
  match cs with
  | [] => []
  | c :: cs' => if case_ok c then mismatches_from (i + 1) cs' else i :: mismatches_from (i + 1) cs'
  end.

Definition mismatches (cs : list pcase) : list N := mismatches_from 0 cs.

(** ** Shape of a script at the level of the Go calls (for the source facts):
    os.WriteFile = open-truncate + write, os.Rename; arguments are numbered
    by first appearance like the translator does. *)
Fixpoint index_of (n : name) (l : list name) : option nat :=
  match l with
  | [] => None
  | m :: l' => if String.eqb n m then Some O else match index_of n l' with Some i => Some (S i) | None => None end
  end.

Definition arg_name (i : nat) : string :=
  ("a" ++ String (Ascii.ascii_of_nat (48 + i)) EmptyString)%string.

(** [seen] = names already numbered (the directory is always a0) *)
Fixpoint call_shape (seen : list name) (ops : list op) : list string :=
  match ops with
  | [] => []
  | OMkdir :: r => call_shape seen r
  | OTrunc n :: r =>
    let seen' := match index_of n seen with Some _ => seen | None => seen ++ [n] end in
    match index_of n seen' with
    | Some i => ("write(" ++ arg_name i ++ ")")%string :: call_shape seen' r
    | None => call_shape seen' r
    end
  | OWrite _ _ :: r => call_shape seen r
  | ORename a b :: r =>
    let seen1 := match index_of a seen with Some _ => seen | None => seen ++ [a] end in
    let seen2 := match index_of b seen1 with Some _ => seen1 | None => seen1 ++ [b] end in
    match index_of a seen2, index_of b seen2 with
    | Some i, Some j => ("rename(" ++ arg_name i ++ "," ++ arg_name j ++ ")")%string :: call_shape seen2 r
    | _, _ => call_shape seen2 r
    end
  end.
