(** Model of the peer registry of peer.Manager (internal/peer/manager.go:
    registerConnection, handleDisconnect, readLoop, keepaliveLoop, Disconnect,
    DisconnectAll) together with the agent's disconnect callback
    (internal/agent/agent.go: handlePeerDisconnect), which cleans routes and
    relays BY PEER IDENTITY.

    Connections are numbered in creation order (the index in [conns]).  Every
    registered connection has two threads, the read loop and the keepalive
    loop; each of them can tear the connection down:

        conn.Close()                          (step EKaFail / ERdErr)
        handleDisconnect: locked bookkeeping  (step ETdLock)
        handleDisconnect: callback            (step ETdNotify)

    The [variant] selects the code that is modelled:
      v_once   = handleDisconnect skips the callback when the teardown of this
                 connection was already handled or when ANOTHER connection is
                 registered for the peer          (repo commit "fix: peer
                 disconnect callback runs once per connection ...")
      v_serial = lifecycleMu: bookkeeping + callback of a teardown are atomic
                 with respect to registerConnection's insertion (repo commit
                 "fix: serialize peer registration with disconnect handling")
    [pre_fix] (both false) is the code before the two repairs. *)
From Coq Require Import List NArith ZArith Bool.
Import ListNotations.

Record variant := { v_once : bool; v_serial : bool }.
Definition fixed : variant := {| v_once := true; v_serial := true |}.
Definition once_only : variant := {| v_once := true; v_serial := false |}.
Definition pre_fix : variant := {| v_once := false; v_serial := false |}.

(** program counter of a teardown-capable thread *)
Inductive pc := PIdle | PSend | PClosed | PHeld | PDone.

Definition pc_eqb (a b : pc) : bool :=
  match a, b with
  | PIdle, PIdle | PSend, PSend | PClosed, PClosed | PHeld, PHeld | PDone, PDone => true
  | _, _ => false
  end.

Inductive thread := TKa | TRd.

Record conn := {
  c_peer : N;
  c_closed : bool;
  c_accepted : bool;   (* registerConnection inserted it (loops were started) *)
  c_rd : pc;
  c_ka : pc;
  c_handled : bool     (* Connection.disconnectHandled *)
}.

Record st := {
  conns : list conn;
  reg : list (N * nat);       (* Manager.peers: peer -> connection index; at most one entry per peer *)
  routes : list (N * nat);    (* one entry per learned route: (next hop peer, connection it arrived on) *)
  relays : list N;            (* one entry per transit stream: the peer involved *)
  cblog : list (N * nat);     (* disconnect callbacks, newest first: (peer, connection) *)
  blocked : bool;             (* a script asked for a registration while lifecycleMu was held *)
  closing : list nat          (* connections that Disconnect / DisconnectAll has unregistered and is about to Close *)
}.

Definition init : st :=
  {| conns := []; reg := []; routes := []; relays := []; cblog := []; blocked := false; closing := [] |}.

Fixpoint lookup (p : N) (r : list (N * nat)) : option nat :=
  match r with
  | [] => None
  | (q, c) :: r' => if N.eqb p q then Some c else lookup p r'
  end.

Definition remove_peer (p : N) (r : list (N * nat)) : list (N * nat) :=
  filter (fun e => negb (N.eqb p (fst e))) r.

Definition get (s : st) (c : nat) : option conn := nth_error (conns s) c.

Fixpoint set_nth {A} (l : list A) (n : nat) (x : A) : list A :=
  match l, n with
  | [], _ => []
  | _ :: l', O => x :: l'
  | y :: l', S n' => y :: set_nth l' n' x
  end.

Definition upd (s : st) (c : nat) (x : conn) : st :=
  {| conns := set_nth (conns s) c x; reg := reg s; routes := routes s; relays := relays s;
     cblog := cblog s; blocked := blocked s; closing := closing s |}.

Definition th_pc (x : conn) (t : thread) : pc := match t with TKa => c_ka x | TRd => c_rd x end.

Definition set_pc (x : conn) (t : thread) (v : pc) : conn :=
  match t with
  | TKa => {| c_peer := c_peer x; c_closed := c_closed x; c_accepted := c_accepted x; c_rd := c_rd x; c_ka := v; c_handled := c_handled x |}
  | TRd => {| c_peer := c_peer x; c_closed := c_closed x; c_accepted := c_accepted x; c_rd := v; c_ka := c_ka x; c_handled := c_handled x |}
  end.

(** conn.Close(): the keepalive loop, if it is waiting in its select, leaves
    through conn.Done() without reporting anything. *)
Definition close_conn (x : conn) : conn :=
  {| c_peer := c_peer x; c_closed := true; c_accepted := c_accepted x; c_rd := c_rd x;
     c_ka := (if pc_eqb (c_ka x) PIdle then PDone else c_ka x); c_handled := c_handled x |}.

Definition conn_held (x : conn) : bool := pc_eqb (c_ka x) PHeld || pc_eqb (c_rd x) PHeld.

(** lifecycleMu is held exactly while some teardown thread is between its
    bookkeeping and the end of its callback *)
Definition lifecycle_held (s : st) : bool := existsb conn_held (conns s).

Inductive estep :=
| EReg (p : N)                  (* a new connection to p finished its handshake: registerConnection *)
| EKaFail (c : nat)             (* keepalive loop: timeout or send error -> conn.Close() *)
| ERdErr (c : nat)              (* read loop: Read returned an error -> conn.Close() *)
| ETdLock (c : nat) (t : thread)   (* handleDisconnect, section under Manager.mu *)
| ETdNotify (c : nat) (t : thread) (* handleDisconnect, OnPeerDisconnect callback *)
| EFrame (c : nat)              (* a route advertisement arrives on c *)
| EKaTick (c : nat)             (* keepalive loop: tick, enters conn.SendKeepalive(); the write may hang *)
| EKaWake (c : nat) (fail : bool) (* the keepalive write returns (an error if the stream is closed or [fail]) *)
| EUnregister (p : N)           (* Manager.Disconnect, section under Manager.mu: entry deleted, Close pending *)
| EUnregisterAll                (* Manager.DisconnectAll, section under Manager.mu: map replaced, Closes pending *)
| EClosePending (c : nat)       (* Disconnect / DisconnectAll close one of the connections they unregistered *)
| ERelay (p : N).               (* a transit stream through p is set up *)

Definition wipe_routes (p : N) (l : list (N * nat)) := filter (fun e => negb (N.eqb p (fst e))) l.
Definition wipe_relays (p : N) (l : list N) := filter (fun q => negb (N.eqb p q)) l.

(** [step v s e] = [Some s'] when the step is enabled. *)
Definition step (v : variant) (s : st) (e : estep) : option st :=
  match e with
  | EReg p =>
      if v_serial v && lifecycle_held s then None else
      let c := length (conns s) in
      match lookup p (reg s) with
      | Some _ =>
          (* keep the existing connection, close the new one; no loops are started *)
          Some {| conns := conns s ++ [{| c_peer := p; c_closed := true; c_accepted := false; c_rd := PDone; c_ka := PDone; c_handled := false |}];
                  reg := reg s; routes := routes s; relays := relays s; cblog := cblog s; blocked := blocked s; closing := closing s |}
      | None =>
          Some {| conns := conns s ++ [{| c_peer := p; c_closed := false; c_accepted := true; c_rd := PIdle; c_ka := PIdle; c_handled := false |}];
                  reg := (p, c) :: reg s; routes := routes s; relays := relays s; cblog := cblog s; blocked := blocked s; closing := closing s |}
      end
  | EKaFail c =>
      match get s c with
      | Some x => if pc_eqb (c_ka x) PIdle && negb (c_closed x)
                  then Some (upd s c (set_pc (close_conn x) TKa PClosed)) else None
      | None => None
      end
  | ERdErr c =>
      match get s c with
      | Some x => if pc_eqb (c_rd x) PIdle
                  then Some (upd s c (set_pc (close_conn x) TRd PClosed)) else None
      | None => None
      end
  | ETdLock c t =>
      match get s c with
      | Some x =>
          if negb (pc_eqb (th_pc x t) PClosed) then None else
          if v_serial v && lifecycle_held s then None else
          let existing := lookup (c_peer x) (reg s) in
          let mine := match existing with Some c' => Nat.eqb c' c | None => false end in
          let other := match existing with Some c' => negb (Nat.eqb c' c) | None => false end in
          let reg' := if mine then remove_peer (c_peer x) (reg s) else reg s in
          let stale := v_once v && (c_handled x || other) in
          let x1 := {| c_peer := c_peer x; c_closed := c_closed x; c_accepted := c_accepted x; c_rd := c_rd x; c_ka := c_ka x;
                       c_handled := (if v_once v then true else c_handled x) |} in
          let x2 := set_pc x1 t (if stale then PDone else PHeld) in
          Some {| conns := set_nth (conns s) c x2; reg := reg'; routes := routes s; relays := relays s;
                  cblog := cblog s; blocked := blocked s; closing := closing s |}
      | None => None
      end
  | ETdNotify c t =>
      match get s c with
      | Some x =>
          if negb (pc_eqb (th_pc x t) PHeld) then None else
          let p := c_peer x in
          Some {| conns := set_nth (conns s) c (set_pc x t PDone); reg := reg s;
                  routes := wipe_routes p (routes s); relays := wipe_relays p (relays s);
                  cblog := (p, c) :: cblog s; blocked := blocked s; closing := closing s |}
      | None => None
      end
  | EFrame c =>
      match get s c with
      | Some x =>
          if negb (pc_eqb (c_rd x) PIdle) then None else
          if c_closed x
          then Some (upd s c (set_pc x TRd PDone))   (* the loop notices conn.Done() and leaves silently *)
          else Some {| conns := conns s; reg := reg s; routes := (c_peer x, c) :: routes s; relays := relays s;
                       cblog := cblog s; blocked := blocked s; closing := closing s |}
      | None => None
      end
  | EKaTick c =>
      match get s c with
      | Some x => if pc_eqb (c_ka x) PIdle && negb (c_closed x)
                  then Some (upd s c (set_pc x TKa PSend)) else None
      | None => None
      end
  | EKaWake c fail =>
      match get s c with
      | Some x =>
          if negb (pc_eqb (c_ka x) PSend) then None else
          if fail || c_closed x
          then Some (upd s c (set_pc (close_conn x) TKa PClosed))   (* conn.Close(); then handleDisconnect *)
          else Some (upd s c (set_pc x TKa PIdle))                  (* timer.Reset, back to the select *)
      | None => None
      end
  | EUnregister p =>
      match lookup p (reg s) with
      | Some c => Some {| conns := conns s; reg := remove_peer p (reg s); routes := routes s; relays := relays s;
                          cblog := cblog s; blocked := blocked s; closing := closing s ++ [c] |}
      | None => None
      end
  | EUnregisterAll =>
      Some {| conns := conns s; reg := []; routes := routes s; relays := relays s; cblog := cblog s;
              blocked := blocked s; closing := closing s ++ map snd (reg s) |}
  | EClosePending c =>
      if negb (existsb (Nat.eqb c) (closing s)) then None else
      match get s c with
      | Some x => Some {| conns := set_nth (conns s) c (close_conn x); reg := reg s; routes := routes s; relays := relays s;
                          cblog := cblog s; blocked := blocked s;
                          closing := filter (fun d => negb (Nat.eqb c d)) (closing s) |}
      | None => None
      end
  | ERelay p =>
      Some {| conns := conns s; reg := reg s; routes := routes s; relays := p :: relays s;
              cblog := cblog s; blocked := blocked s; closing := closing s |}
  end.

(** [run v s tr]: all steps must be enabled *)
Fixpoint run (v : variant) (s : st) (tr : list estep) : option st :=
  match tr with
  | [] => Some s
  | e :: tr' => match step v s e with Some s' => run v s' tr' | None => None end
  end.

(* ------------------------------------------------------------------ *)
(** Script operations of the harness (macro steps): each is a fixed
    sequence of atomic steps; a step that is not enabled is skipped. *)

Inductive op :=
| Connect (p : N)
| KaFail (c : nat) (hold : bool)
| ReadErr (c : nat) (hold : bool)
| Notify (c : nat)
| Frame (c : nat)
| Disconnect (p : N)
| DisconnectAll
| Relay (p : N)
| KaHang (c : nat)                      (* the keepalive write of c hangs *)
| KaWake (c : nat) (fail hold : bool)   (* ... and returns *)
| Storm (p : N) (n : nat)               (* n registrations for p race; the winner is numbered first *)
| DABegin                               (* DisconnectAll has replaced the map, its Close calls are still to come *)
| DAClose (c : nat).                    (* ... one of them happens *)

Definition try (v : variant) (s : st) (e : estep) : st :=
  match step v s e with Some s' => s' | None => s end.

Definition set_blocked (s : st) : st :=
  {| conns := conns s; reg := reg s; routes := routes s; relays := relays s; cblog := cblog s; blocked := true; closing := closing s |}.

Definition held_thread (s : st) (c : nat) : option thread :=
  match get s c with
  | Some x => if pc_eqb (c_ka x) PHeld then Some TKa else if pc_eqb (c_rd x) PHeld then Some TRd else None
  | None => None
  end.

Fixpoint close_pending (v : variant) (cs : list nat) (s : st) : st :=
  match cs with
  | [] => s
  | c :: cs' => close_pending v cs' (try v s (EClosePending c))
  end.

Definition connect1 (v : variant) (p : N) (s : st) : st :=
  match step v s (EReg p) with
  | Some s' => s'
  | None => set_blocked s   (* the harness observed a registration that the model says must wait *)
  end.

Fixpoint connect_n (v : variant) (p : N) (n : nat) (s : st) : st :=
  match n with O => s | S n' => connect_n v p n' (connect1 v p s) end.

Definition apply (v : variant) (s : st) (o : op) : st :=
  match o with
  | Connect p => connect1 v p s
  | KaFail c hold =>
      match step v s (EKaFail c) with
      | Some s1 => let s2 := try v s1 (ETdLock c TKa) in if hold then s2 else try v s2 (ETdNotify c TKa)
      | None => s
      end
  | ReadErr c hold =>
      match step v s (ERdErr c) with
      | Some s1 => let s2 := try v s1 (ETdLock c TRd) in if hold then s2 else try v s2 (ETdNotify c TRd)
      | None => s
      end
  | Notify c =>
      match held_thread s c with
      | Some t => try v s (ETdNotify c t)
      | None => s
      end
  | Frame c => try v s (EFrame c)
  | Disconnect p =>
      match lookup p (reg s) with
      | Some c => try v (try v s (EUnregister p)) (EClosePending c)
      | None => s
      end
  | DisconnectAll => close_pending v (map snd (reg s)) (try v s EUnregisterAll)
  | Relay p => try v s (ERelay p)
  | KaHang c => try v s (EKaTick c)
  | KaWake c fail hold =>
      match step v s (EKaWake c fail) with
      | Some s1 => let s2 := try v s1 (ETdLock c TKa) in if hold then s2 else try v s2 (ETdNotify c TKa)
      | None => s
      end
  | Storm p n => connect_n v p n s
  | DABegin => try v s EUnregisterAll
  | DAClose c => try v s (EClosePending c)
  end.

(* ------------------------------------------------------------------ *)
(** Observation compared with the implementation after every step. *)

Definition count_routes (p : N) (s : st) : Z := Z.of_nat (length (filter (fun e => N.eqb p (fst e)) (routes s))).
Definition count_relays (p : N) (s : st) : Z := Z.of_nat (length (filter (N.eqb p) (relays s))).

Fixpoint peers_upto (n : nat) : list N :=
  match n with O => [] | S n' => peers_upto n' ++ [N.of_nat n'] end.

Definition snapshot := (list Z * list bool * list Z * list Z * list Z)%type.

Definition observe (np : nat) (s : st) : snapshot :=
  let ps := peers_upto np in
  (map (fun p => match lookup p (reg s) with Some c => Z.of_nat c | None => (-1)%Z end) ps,
   map c_closed (conns s),
   map (fun p => count_routes p s) ps,
   map (fun p => count_relays p s) ps,
   rev (map (fun e => Z.of_N (fst e)) (cblog s))).

Fixpoint list_eqb {A} (eqb : A -> A -> bool) (a b : list A) : bool :=
  match a, b with
  | [], [] => true
  | x :: a', y :: b' => eqb x y && list_eqb eqb a' b'
  | _, _ => false
  end.

Definition snapshot_eqb (a b : snapshot) : bool :=
  let '(r1, c1, ro1, re1, l1) := a in
  let '(r2, c2, ro2, re2, l2) := b in
  list_eqb Z.eqb r1 r2 && list_eqb Bool.eqb c1 c2 && list_eqb Z.eqb ro1 ro2 && list_eqb Z.eqb re1 re2 && list_eqb Z.eqb l1 l2.

Record case := mkCase { k_np : nat; k_ops : list op; k_obs : list (option snapshot) }.

Fixpoint agree (v : variant) (np : nat) (s : st) (ops : list op) (obs : list (option snapshot)) : bool :=
  match ops, obs with
  | [], [] => true
  | o :: ops', ob :: obs' =>
      let s' := apply v s o in
      negb (blocked s') &&
      match ob with Some x => snapshot_eqb (observe np s') x | None => true end &&
      agree v np s' ops' obs'
  | _, _ => false
  end.

Definition case_ok (v : variant) (k : case) : bool := agree v (k_np k) init (k_ops k) (k_obs k).

Fixpoint mismatches_from (v : variant) (i : N) (cs : list case) : list N :=
  match cs with
  | [] => []
  | c :: cs' => if case_ok v c then mismatches_from v (i + 1) cs' else i :: mismatches_from v (i + 1) cs'
  end.

(** the tree that is checked is the repaired one *)
Definition mismatches (cs : list case) : list N := mismatches_from fixed 0%N cs.
Definition mismatches_pre_fix (cs : list case) : list N := mismatches_from pre_fix 0%N cs.
