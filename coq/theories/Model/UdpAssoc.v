(** Model of a SOCKS5 UDP association's relay socket (C22).

    Go code followed: internal/socks5/handler.go handleUDPAssociate (the
    expected client address is set only when the request's DST.ADDR is a
    specified address), internal/socks5/udp.go ReadLoop (adoption of the
    client address, source filter, header check, relay) and WriteToClient
    (replies go to the recorded client address).

    ReadLoop handles one datagram at a time, so an arrival order is a list of
    events; replies are calls of WriteToClient in between.  Addresses are
    (IPv4 address as a number, port).  No proofs in this file. *)
From Coq Require Import List NArith Bool.
Import ListNotations.
Local Open Scope N_scope.

Definition addr := (N * N)%type.     (* ip, port *)

Record assoc := mkAssoc {
  a_expected : option N;   (* ExpectedClientAddr.IP: DST.ADDR of the request when it was a specified address *)
  a_control : option N     (* IP of the TCP control connection's peer (None: not a TCP connection, e.g. WebSocket) *)
}.

(** state: ActualClientAddr *)
Definition state := option addr.

Inductive event :=
| EvDgram (from : addr) (header_ok : bool)   (* a datagram arrives at the relay socket *)
| EvReply.                                   (* the mesh side has a datagram for the client *)

Inductive obs :=
| ObsRelayed (r : bool)            (* was the datagram handed to RelayUDPDatagram *)
| ObsReplyTo (dst : option addr).  (* where WriteToClient sent it (None: "no client address") *)

(** ** the code before the fix: the first sender is recorded before any
    filtering; the filter exists only when the request named an address *)
Definition step_pre_fix (a : assoc) (st : state) (e : event) : state * obs :=
  match e with
  | EvDgram from hok =>
    let st' := match st with None => Some from | Some _ => st end in
    let pass := match a_expected a with Some ip => fst from =? ip | None => true end in
    (st', ObsRelayed (pass && hok))
  | EvReply => (st, ObsReplyTo st)
  end.

(** ** the repaired code: the owner is the address named in the request, else
    the control connection's peer, else (unknown) the first sender; only a
    sender with the owner's IP is recorded and relayed *)
Definition owner_ip (a : assoc) (st : state) : option N :=
  match a_expected a with
  | Some ip => Some ip
  | None =>
    match a_control a with
    | Some ip => Some ip
    | None => match st with Some c => Some (fst c) | None => None end
    end
  end.

Definition step (a : assoc) (st : state) (e : event) : state * obs :=
  match e with
  | EvDgram from hok =>
    let pass := match owner_ip a st with Some ip => fst from =? ip | None => true end in
    if pass then (match st with None => Some from | Some _ => st end, ObsRelayed hok)
    else (st, ObsRelayed false)
  | EvReply => (st, ObsReplyTo st)
  end.

Fixpoint run_with (stp : assoc -> state -> event -> state * obs) (a : assoc) (st : state) (evs : list event) : list obs :=
  match evs with
  | [] => []
  | e :: evs' => let '(st', o) := stp a st e in o :: run_with stp a st' evs'
  end.

Definition run (a : assoc) (evs : list event) : list obs := run_with step a None evs.
Definition run_pre_fix (a : assoc) (evs : list event) : list obs := run_with step_pre_fix a None evs.

(** ** correspondence oracle *)
Definition addr_eqb (x y : addr) : bool := (fst x =? fst y) && (snd x =? snd y).

Definition obs_eqb (x y : obs) : bool :=
  match x, y with
  | ObsRelayed a, ObsRelayed b => Bool.eqb a b
  | ObsReplyTo None, ObsReplyTo None => true
  | ObsReplyTo (Some a), ObsReplyTo (Some b) => addr_eqb a b
  | _, _ => false
  end.

Fixpoint obs_list_eqb (a b : list obs) : bool :=
  match a, b with
  | [], [] => true
  | x :: a', y :: b' => obs_eqb x y && obs_list_eqb a' b'
  | _, _ => false
  end.

Definition case := (assoc * list (event * obs))%type.

Definition case_ok (c : case) : bool :=
  obs_list_eqb (run (fst c) (map fst (snd c))) (map snd (snd c)).

Fixpoint mismatches_from (i : N) (cs : list case) : list N :=
  match cs with
  | [] => []
  | c :: cs' => if case_ok c then mismatches_from (i + 1) cs' else i :: mismatches_from (i + 1) cs'
  end.

Definition mismatches (cs : list case) : list N := mismatches_from 0 cs.

(** the same oracle for the code before the fix (used to validate the
    [_pre_fix] model against the unrepaired tree) *)
Definition case_ok_pre_fix (c : case) : bool :=
  obs_list_eqb (run_pre_fix (fst c) (map fst (snd c))) (map snd (snd c)).

Fixpoint mismatches_pre_fix_from (i : N) (cs : list case) : list N :=
  match cs with
  | [] => []
  | c :: cs' => if case_ok_pre_fix c then mismatches_pre_fix_from (i + 1) cs' else i :: mismatches_pre_fix_from (i + 1) cs'
  end.

Definition mismatches_pre_fix (cs : list case) : list N := mismatches_pre_fix_from 0 cs.
