(** Correspondence oracle for C29: histories of deliveries and cleanup passes
    on one flood.Flooder, compared step by step (verdict, forward targets,
    seen cache with SeenAt and SeenFrom). *)
From Coq Require Import List NArith ZArith Bool.
From MM Require Import Model.SleepCmd.
Import ListNotations.
Local Open Scope Z_scope.

Inductive fstep :=
| FRecv (now : Z) (k : kind) (from : N) (c : cmd) (accepted : bool) (fwd : list N) (cache : list entry)
| FCleanup (now : Z) (cache : option (list entry))    (* None: cache not observed after this pass *)
| FIssue (now : Z) (k : kind) (c : cmd) (sent : list N) (cache : list entry).
    (* FloodSleepCommand / FloodWakeCommand called on the flooder: peers the frame went to, cache afterwards *)

Record fcase := mkfcase { fc_steps : list fstep }.

Definition entry_leb (a b : entry) : bool := key_leb (e_origin a, e_id a) (e_origin b, e_id b).
Fixpoint insert_entry (x : entry) (l : list entry) : list entry :=
  match l with [] => [x] | y :: r => if entry_leb x y then x :: l else y :: insert_entry x r end.
Definition sort_entries (l : list entry) : list entry := fold_right insert_entry [] l.

Definition entry_eqb (a b : entry) : bool :=
  (e_origin a =? e_origin b)%N && (e_id a =? e_id b)%N && (e_at a =? e_at b) && (e_from a =? e_from b)%N.
Fixpoint entries_eqb (a b : list entry) : bool :=
  match a, b with
  | [], [] => true
  | x :: a', y :: b' => entry_eqb x y && entries_eqb a' b'
  | _, _ => false
  end.

Definition fcfg_default : fcfg := default_cfg true.

Definition fstep_ok (ca : list entry) (s : fstep) : list entry * bool :=
  match s with
  | FRecv now k from c accepted fwd cache =>
      let '(ca', r) := handle fcfg_default now model_peers from c ca in
      (ca',
       Bool.eqb (match r with Some _ => true | None => false end) accepted &&
       list_N_eqb (sort_N (match r with Some t => t | None => [] end)) fwd &&
       entries_eqb (sort_entries ca') cache)
  | FCleanup now cache =>
      let ca' := cleanup fcfg_default now [] ca in
      (ca', match cache with Some o => entries_eqb (sort_entries ca') o | None => true end)
  | FIssue now k c sent cache =>
      let ca' := fst (mark now (c_origin c) (c_id c) (f_local fcfg_default) ca) in
      (ca', list_N_eqb (sort_N model_peers) sent && entries_eqb (sort_entries ca') cache)
  end.

Fixpoint fsteps_ok (ca : list entry) (ss : list fstep) : bool :=
  match ss with
  | [] => true
  | s :: r => let '(ca', ok) := fstep_ok ca s in ok && fsteps_ok ca' r
  end.

Definition fcase_ok (k : fcase) : bool := fsteps_ok [] (fc_steps k).

Fixpoint fmismatches_from (i : N) (cs : list fcase) : list N :=
  match cs with
  | [] => []
  | c :: cs' => if fcase_ok c then fmismatches_from (i + 1) cs' else (i :: fmismatches_from (i + 1) cs')%list
  end.

Definition fmismatches (cs : list fcase) : list N := fmismatches_from 0%N cs.

(** ------------------------------------------------------------------ *)
(** Histories for the at-most-once theorem (C29): timed deliveries and
    cleanup passes on one flooder.  A delivery is the pair (timestamp check,
    check-and-mark) of one handler; its place in the history is that of its
    marking (one critical section), its timestamp check happened [d] earlier,
    so that handlers overlapping each other and cleanup passes are covered.  The victims of the size-based eviction
    (Go map iteration order) are an oracle carried by the cleanup step. *)
Inductive fop :=
| ORecv (from : N) (c : cmd) (d : Z)   (* marked at the step's instant, timestamp checked [d] earlier *)
| OCleanup (victims : list nat)
| OIssue (k : kind) (c : cmd) (first : bool).
    (* the agent itself issues the command (Agent.TriggerSleep / TriggerWake ->
       Flooder.FloodSleepCommand / FloodWakeCommand): it is marked as seen from the
       local identity and broadcast; [first = false] for TriggerWake's repeated
       floods of the command it issued before *)

(** would the size-based eviction run at this cleanup pass? *)
Definition overflows_with (expiry : fcfg -> Z) (cfg : fcfg) (now : Z) (ca : list entry) : bool :=
  f_max cfg <? Z.of_nat (length (expire now (expiry cfg) ca)).

(** FloodSleepCommand / FloodWakeCommand on the cache: mark, result ignored *)
Definition issue_mark (cfg : fcfg) (now : Z) (c : cmd) (ca : list entry) : list entry :=
  fst (mark now (c_origin c) (c_id c) (f_local cfg) ca).

Section Run.
  Variable hdl : fcfg -> Z -> Z -> list N -> N -> cmd -> list entry -> list entry * option (list N).
  Variable expiry : fcfg -> Z.

  (** the commands the agent acted on, in order: accepted deliveries
      (instant, command, false) and commands it issued itself (instant,
      command, true); and whether the size-based eviction ever ran (or a
      first issue found its key still cached) *)
  Fixpoint run_with (cfg : fcfg) (peers : list N) (ca : list entry) (h : list (Z * fop))
    : list (Z * cmd * bool) * bool :=
    match h with
    | [] => ([], false)
    | (now, ORecv from c d) :: r =>
        let '(ca', res) := hdl cfg (now - d) now peers from c ca in
        let '(acc, ov) := run_with cfg peers ca' r in
        (match res with Some _ => (now, c, false) :: acc | None => acc end, ov)
    | (now, OCleanup v) :: r =>
        let ov0 := overflows_with expiry cfg now ca in
        let '(acc, ov) := run_with cfg peers (cleanup_with expiry cfg now v ca) r in
        (acc, ov0 || ov)
    | (now, OIssue k c first) :: r =>
        (* a command issued for the first time whose (origin, id) key is still in the
           cache: excluded like an overflow (command ids are the nanosecond clock) *)
        let clash := first && has_key (c_origin c) (c_id c) ca in
        let '(acc, ov) := run_with cfg peers (issue_mark cfg now c ca) r in
        (if first then (now, c, true) :: acc else acc, clash || ov)
    end.
End Run.

Definition run := run_with handle_split sleep_expiry.
Definition run_pre_fix := run_with (fun cfg _ now => handle_pre_fix cfg now) sleep_expiry_pre_fix.

(** identity of a command: what is signed *)
Definition cmd_id (c : cmd) : N * N * N := (c_origin c, c_id c, c_ts c).

(** "at most once": an accepted delivery is never of a command the agent has
    acted on before - neither accepted from a peer nor issued by itself
    ([seen] = identities acted on so far). *)
Fixpoint fresh_acc (seen : list (N * N * N)) (acc : list (Z * cmd * bool)) : Prop :=
  match acc with
  | [] => True
  | (_, c, issued) :: r => (issued = false -> ~ In (cmd_id c) seen) /\ fresh_acc (cmd_id c :: seen) r
  end.

(** the accepted deliveries of a run *)
Definition accepted (acc : list (Z * cmd * bool)) : list (Z * cmd) :=
  map fst (filter (fun x => negb (snd x)) acc).
