(** Executable model of internal/protocol/frame.go: the 14-byte frame header
    and every payload codec.  Messages are right-nested tuples of their fields
    in wire order.  Regular messages are terms of the combinators in
    Lib/Codec.v; the irregular decoders (DecodeRouteAdvertise's path handling,
    DecodeNodeInfo with its clamps and tolerated truncated tails,
    DecodeQueuedState with its skipped entries, offset arithmetic and
    pre-allocations) are transliterated.

    A Go decoder that keeps reading after a sticky reader error and returns
    [r.err] at the end is modelled in the option monad (fail at the first
    error): nothing between the error and the final check is observable.
    Where the Go code does look at the reader between errors (DecodeNodeInfo)
    the reader state with its sticky error flag is modelled explicitly.

    No proofs in this file. *)
From Coq Require Import List Bool NArith.
From Coq.Strings Require Import Byte.
From MM Require Import Lib.Bytes Lib.Codec.
Import ListNotations.
Local Open Scope N_scope.

(** * Constants (types.go); compared with the source by Generated/C05.v *)
Definition header_size : N := 14.
Definition max_payload : N := 16384.
Definition signature_size : N := 64.
Definition key_size : N := 32.
Definition max_peers : N := 50.
Definition max_fwd_listeners : N := 20.
Definition max_shells : N := 10.
Definition addr_ipv4 : N := 1.
Definition addr_domain : N := 3.
Definition addr_ipv6 : N := 4.
Definition fam_ipv4 : N := 1.
Definition fam_ipv6 : N := 2.
Definition fam_domain : N := 3.
Definition fam_forward : N := 4.
Definition fam_agent : N := 5.

(** * Field codecs *)
Definition id16 : codec bytes := fixed 16.
Definition key32 : codec bytes := fixed key_size.
Definition sig64 : codec bytes := fixed signature_size.
Definition str8 : codec bytes := lpbytes 1.
Definition idlist : codec (list bytes) := listc 1 id16.

(** [1-byte length][name]: the address/prefix keeps its length byte *)
Definition plen_domain (bs : bytes) : option N :=
  match bs with [] => None | n :: _ => Some (1 + b2n n) end.

(** [klen][key][tlen][target] *)
Definition plen_forward (bs : bytes) : option N :=
  match bs with
  | [] => None
  | k :: t =>
      match takeN (b2n k) t with
      | Some (_, tl :: _) => Some (1 + b2n k + 1 + b2n tl)
      | _ => None
      end
  end.

(** addressLength / the AddrTypeDomain branch of DecodeStreamOpen, DecodeUDPOpen, DecodeUDPDatagram *)
Definition addr_body (t : N) : codec bytes :=
  if t =? addr_domain then rawc plen_domain 1
  else if t =? addr_ipv4 then fixed 4
  else if t =? addr_ipv6 then fixed 16
  else failc.

(** bound addresses of the *Ack messages: IPv4, IPv6, otherwise no address bytes *)
Definition bound_len (t : N) : N :=
  if t =? addr_ipv4 then 4 else if t =? addr_ipv6 then 16 else 0.

(** prefixLength(family, 0) *)
Definition prefix_length0 (fam : N) : N :=
  if fam =? fam_ipv4 then 4 else if fam =? fam_domain then 1 else 16.

(** prefix of a route inside ROUTE_ADVERTISE *)
Definition prefix_body (fam : N) : codec bytes :=
  if fam =? fam_domain then rawc plen_domain 1
  else if fam =? fam_forward then rawc plen_forward 2
  else fixed (prefix_length0 fam).

(** * Message types and codecs *)

Definition PeerHello := (N * (bytes * (N * (bytes * list bytes))))%type.
Definition PeerHello_c : codec PeerHello := u16 ** id16 ** u64 ** str8 ** listc 1 str8.
Definition encode_PeerHello (m : PeerHello) : option bytes := Some (enc PeerHello_c m).
Definition decode_PeerHello : bytes -> option PeerHello := decode_top 28 PeerHello_c.

(** StreamOpen and UDPOpen: (request id, (address type, (address, (port, (ttl, (path, key)))))) *)
Definition Open := (N * (N * (bytes * (N * (N * (list bytes * bytes))))))%type.
Definition Open_c : codec Open :=
  u64 ** depc u8 (fun t => addr_body t ** u16 ** u8 ** idlist ** key32) 37.
Definition encode_Open (m : Open) : option bytes := Some (enc Open_c m).
Definition decode_Open : bytes -> option Open := decode_top 45 Open_c.

(** StreamOpenAck and UDPOpenAck *)
Definition Ack := (N * (N * (bytes * (N * bytes))))%type.
Definition Ack_c : codec Ack :=
  u64 ** depc u8 (fun t => fixed (bound_len t) ** u16 ** key32) 34.
Definition encode_Ack (m : Ack) : option bytes := Some (enc Ack_c m).
Definition ack_min : N := 43.
Definition decode_Ack : bytes -> option Ack := decode_top ack_min Ack_c.
(** before the fix the guard was 44 although the minimum encoding has 43 bytes *)
Definition decode_Ack_pre_fix : bytes -> option Ack := decode_top 44 Ack_c.

(** StreamOpenErr, UDPOpenErr, ICMPOpenErr; Encode cuts the message at 255 bytes *)
Definition Err := (N * (N * bytes))%type.
Definition Err_c : codec Err := u64 ** u16 ** str8.
Definition encode_Err (m : Err) : option bytes :=
  let '(r, (c, msg)) := m in Some (enc Err_c (r, (c, firstN 255 msg))).
Definition decode_Err : bytes -> option Err := decode_top 11 Err_c.

Definition encode_StreamReset (m : N) : option bytes := Some (enc u16 m).
Definition decode_StreamReset : bytes -> option N := decode_top 2 u16.
Definition encode_Keepalive (m : N) : option bytes := Some (enc u64 m).
Definition decode_Keepalive : bytes -> option N := decode_top 8 u64.
(** UDPClose / ICMPClose *)
Definition encode_Close (m : N) : option bytes := Some (enc u8 m).
Definition decode_Close : bytes -> option N := decode_top 1 u8.

(** Route: (family, (prefix length, (prefix, metric))) *)
Definition Route := (N * (N * (bytes * N)))%type.
(** Route.Encode writes the prefix bytes as they are *)
Definition encode_Route (r : Route) : option bytes :=
  let '(f, (p, (pre, m))) := r in Some (enc u8 f ++ enc u8 p ++ pre ++ enc u16 m).
Definition Route_c : codec Route := depc u8 (fun fam => u8 ** prefix_body fam ** u16) 3.
(** routes inside ROUTE_WITHDRAW: always prefixLength(family, 0) bytes *)
Definition WRoute_c : codec Route := depc u8 (fun fam => u8 ** fixed (prefix_length0 fam) ** u16) 3.

Definition EncData := (bool * bytes)%type.
Definition EncData_c : codec EncData := boolc ** lpbytes 2.
Definition encode_EncData (m : EncData) : option bytes := Some (enc EncData_c m).
(** DecodeEncryptedData also returns the number of bytes consumed *)
Definition decode_EncData (b : bytes) : option (bool * (bytes * N)) :=
  if lenN b <? 3 then None else
  do '((e, d), _) <- dec EncData_c b ;; Some (e, (d, 3 + lenN d)).

Definition encode_Path (p : list bytes) : option bytes := Some (enc idlist p).
Definition decode_Path : bytes -> option (list bytes) := decode_top 1 idlist.

(** RouteAdvertise as the Go struct has it: both the [Path] field and the
    optional [EncPath]: (origin, (name, (seq, (routes, (path, (encpath, seenby)))))) *)
Definition RA := (bytes * (bytes * (N * (list Route * (list bytes * (option EncData * list bytes))))))%type.
(** what goes on the wire *)
Definition RAW := (bytes * (bytes * (N * (list Route * (EncData * list bytes)))))%type.
Definition RAW_c : codec RAW := id16 ** str8 ** u64 ** listc 1 Route_c ** EncData_c ** idlist.

Definition ra_encpath (path : list bytes) (e : option EncData) : EncData :=
  match e with Some d => d | None => (false, enc idlist path) end.
Definition ra_wire (m : RA) : RAW :=
  let '(o, (n, (s, (rs, (p, (e, sb)))))) := m in (o, (n, (s, (rs, (ra_encpath p e, sb))))).

(** the buffer size Encode computes by hand *)
Definition route_size (r : Route) : N :=
  let '(f, (_, (pre, _))) := r in
  if (f =? fam_domain) || (f =? fam_forward) then 4 + lenN pre else 4 + prefix_length0 f.
Definition ra_size (m : RA) : N :=
  let '(o, (n, (s, (rs, (p, (e, sb)))))) := m in
  16 + 1 + lenN n + 8 + 1 + fold_right (fun r a => route_size r + a) 0 rs
  + lenN (enc EncData_c (ra_encpath p e)) + 1 + 16 * lenN sb.
(** writing past the computed size panics *)
Definition encode_RA (m : RA) : option bytes :=
  let w := enc RAW_c (ra_wire m) in
  if ra_size m <? lenN w then None else Some w.
Definition decode_RA (b : bytes) : option RA :=
  if lenN b <? 28 then None else
  do '((o, (n, (s, (rs, (ed, sb))))), _) <- dec RAW_c b ;;
  do 'p <- (if fst ed then Some [] else decode_Path (snd ed)) ;;
  Some (o, (n, (s, (rs, (p, (Some ed, sb)))))).

(** RouteWithdraw: (origin, (seq, (routes, seenby))); Encode writes Prefix[:pLen] *)
Definition RW := (bytes * (N * (list Route * list bytes)))%type.
Definition RW_c : codec RW := id16 ** u64 ** listc 1 WRoute_c ** idlist.
Definition wroute_cut (r : Route) : Route :=
  let '(f, (p, (pre, m))) := r in (f, (p, (firstN (prefix_length0 f) pre, m))).
Definition wroute_long_enough (r : Route) : bool :=
  let '(f, (_, (pre, _))) := r in prefix_length0 f <=? lenN pre.
Definition encode_RW (m : RW) : option bytes :=
  let '(o, (s, (rs, sb))) := m in
  if forallb wroute_long_enough rs then Some (enc RW_c (o, (s, (map wroute_cut rs, sb)))) else None.
Definition decode_RW : bytes -> option RW := decode_top 26 RW_c.

(** NodeInfo *)
Definition Peer := (bytes * (bytes * (N * bool)))%type.
Definition Peer_c : codec Peer := id16 ** str8 ** u64 ** boolc.
Definition FL := (bytes * bytes)%type.
Definition FL_c : codec FL := str8 ** str8.
Definition NI := (bytes * (bytes * (bytes * (bytes * (bytes * (N * (list bytes * (list Peer *
                 (bytes * (bool * (list FL * (list bytes * (bool * (bool * bool))))))))))))))%type.
Definition NI_c : codec NI :=
  str8 ** str8 ** str8 ** str8 ** str8 ** u64 ** listc 1 str8 ** listc 1 Peer_c **
  key32 ** boolc ** listc 1 FL_c ** listc 1 str8 ** boolc ** boolc ** boolc.
(** EncodeNodeInfo cuts the three capped lists *)
Definition ni_clamp (m : NI) : NI :=
  let '(a, (b, (c, (d, (e, (st, (ips, (peers, (k, (u, (fls, (sh, fl3)))))))))))) := m in
  (a, (b, (c, (d, (e, (st, (ips, (firstN max_peers peers, (k, (u, (firstN max_fwd_listeners fls, (firstN max_shells sh, fl3)))))))))))).
Definition encode_NI (m : NI) : option bytes := Some (enc NI_c (ni_clamp m)).

(** bufferReader with its sticky error *)
Record rd := mkRd { r_rest : bytes; r_err : bool }.
Definition rd_fail (s : rd) : rd := mkRd (r_rest s) true.
Definition rd_rem (s : rd) : N := lenN (r_rest s).
Definition rd_u8 (s : rd) : N * rd :=
  if r_err s then (0, s) else
  match r_rest s with [] => (0, rd_fail s) | b :: t => (b2n b, mkRd t false) end.
Definition rd_take (n : N) (s : rd) : bytes * rd :=
  if r_err s then ([], s) else
  match takeN n (r_rest s) with Some (a, r) => (a, mkRd r false) | None => ([], rd_fail s) end.
Definition rd_u64 (s : rd) : N * rd := let '(a, s') := rd_take 8 s in (be_get a, s').
Definition rd_bool (s : rd) : bool * rd := let '(v, s') := rd_u8 s in (negb (v =? 0), s').
Definition rd_str (s : rd) : bytes * rd :=
  let '(n, s1) := rd_u8 s in if r_err s1 then ([], s1) else rd_take n s1.

Fixpoint rd_strs (n : nat) (s : rd) : list bytes * rd :=
  match n with
  | O => ([], s)
  | S n' => if r_err s then ([], s) else
            let '(x, s1) := rd_str s in let '(l, s2) := rd_strs n' s1 in (x :: l, s2)
  end.
Fixpoint rd_peers (n : nat) (s : rd) : list Peer * rd :=
  match n with
  | O => ([], s)
  | S n' =>
      if rd_rem s <? 16 then ([], s) else
      let '(pid, s1) := rd_take 16 s in
      let '(tr, s2) := rd_str s1 in
      if rd_rem s2 <? 9 then ([], s2) else
      let '(rtt, s3) := rd_u64 s2 in
      let '(d, s4) := rd_bool s3 in
      let '(l, s5) := rd_peers n' s4 in ((pid, (tr, (rtt, d))) :: l, s5)
  end.
Fixpoint rd_fls (n : nat) (s : rd) : list FL * rd :=
  match n with
  | O => ([], s)
  | S n' =>
      if rd_rem s =? 0 then ([], s) else
      let '(k, s1) := rd_str s in
      if rd_rem s1 <? 1 then ([], s1) else
      let '(a, s2) := rd_str s1 in
      if r_err s2 then ([], s2) else
      let '(l, s3) := rd_fls n' s2 in ((k, a) :: l, s3)
  end.
Fixpoint rd_shells (n : nat) (s : rd) : list bytes * rd :=
  match n with
  | O => ([], s)
  | S n' =>
      if rd_rem s =? 0 then ([], s) else
      let '(x, s1) := rd_str s in
      if r_err s1 then ([], s1) else
      let '(l, s2) := rd_shells n' s1 in (x :: l, s2)
  end.
Definition rd_opt_bool (s : rd) : bool * rd := if 0 <? rd_rem s then rd_bool s else (false, s).

Definition decode_NI (b : bytes) : option NI :=
  if lenN b <? 5 + key_size then None else
  let s := mkRd b false in
  let '(name, s) := rd_str s in
  let '(host, s) := rd_str s in
  let '(os, s) := rd_str s in
  let '(arch, s) := rd_str s in
  let '(ver, s) := rd_str s in
  let '(start, s) := rd_u64 s in
  if r_err s then None else
  let '(ipn, s) := rd_u8 s in
  let '(ips, s) := rd_strs (N.to_nat ipn) s in
  if r_err s then None else
  let '(pn, s) := rd_u8 s in
  let '(peers, s) := rd_peers (N.to_nat (N.min pn max_peers)) s in
  let '(key, s) := rd_take key_size s in
  if r_err s then None else
  let '(udp, s) := rd_opt_bool s in
  let '(fls, s) := if 0 <? rd_rem s
                   then let '(n, s1) := rd_u8 s in rd_fls (N.to_nat (N.min n max_fwd_listeners)) s1
                   else ([], s) in
  let '(shells, s) := if 0 <? rd_rem s
                      then let '(n, s1) := rd_u8 s in rd_shells (N.to_nat (N.min n max_shells)) s1
                      else ([], s) in
  let '(ft, s) := rd_opt_bool s in
  let '(she, s) := rd_opt_bool s in
  let '(icmp, s) := rd_opt_bool s in
  Some (name, (host, (os, (arch, (ver, (start, (ips, (peers, (key, (udp, (fls, (shells, (ft, (she, icmp)))))))))))))).

Definition zero32 : bytes := repeat x00 32.
Definition zero_NI : NI :=
  ([], ([], ([], ([], ([], (0, ([], ([], (zero32, (false, ([], ([], (false, (false, false)))))))))))))).

(** NodeInfoAdvertise: (origin, (seq, (info, (encinfo, seenby)))) *)
Definition NIA := (bytes * (N * (NI * (option EncData * list bytes))))%type.
Definition NIAW_c : codec (bytes * (N * (EncData * list bytes))) := id16 ** u64 ** EncData_c ** idlist.
Definition nia_encinfo (i : NI) (e : option EncData) : EncData :=
  match e with Some d => d | None => (false, enc NI_c (ni_clamp i)) end.
Definition encode_NIA (m : NIA) : option bytes :=
  let '(o, (s, (i, (e, sb)))) := m in Some (enc NIAW_c (o, (s, (nia_encinfo i e, sb)))).
Definition decode_NIA (b : bytes) : option NIA :=
  if lenN b <? 28 then None else
  do '((o, (s, (ed, sb))), _) <- dec NIAW_c b ;;
  do 'i <- (if fst ed then Some zero_NI else decode_NI (snd ed)) ;;
  Some (o, (s, (i, (Some ed, sb)))).

Definition CtlReq := (N * (N * (bytes * (list bytes * bytes))))%type.
Definition CtlReq_c : codec CtlReq := u64 ** u8 ** id16 ** idlist ** lpbytes 4.
Definition encode_CtlReq (m : CtlReq) : option bytes := Some (enc CtlReq_c m).
Definition decode_CtlReq : bytes -> option CtlReq := decode_top 30 CtlReq_c.

(** ControlResponse.Encode cuts the data at MaxPayloadSize-12 bytes *)
Definition CtlResp := (N * (N * (bool * bytes)))%type.
Definition CtlResp_c : codec CtlResp := u64 ** u8 ** boolc ** lpbytes 2.
Definition encode_CtlResp (m : CtlResp) : option bytes :=
  let '(r, (t, (ok, d))) := m in Some (enc CtlResp_c (r, (t, (ok, firstN (max_payload - 12) d)))).
Definition decode_CtlResp : bytes -> option CtlResp := decode_top 12 CtlResp_c.

Definition UDPDatagram := (N * (bytes * (N * bytes)))%type.
Definition UDPDatagram_c : codec UDPDatagram := depc u8 (fun t => addr_body t ** u16 ** lpbytes 2) 5.
Definition encode_UDPDatagram (m : UDPDatagram) : option bytes := Some (enc UDPDatagram_c m).
Definition decode_UDPDatagram : bytes -> option UDPDatagram := decode_top 6 UDPDatagram_c.

Definition ICMPOpen := (N * (bytes * (N * (list bytes * bytes))))%type.
Definition ICMPOpen_c : codec ICMPOpen := u64 ** lpbytes 1 ** u8 ** idlist ** key32.
Definition encode_ICMPOpen (m : ICMPOpen) : option bytes := Some (enc ICMPOpen_c m).
Definition decode_ICMPOpen : bytes -> option ICMPOpen := decode_top 43 ICMPOpen_c.

Definition ICMPOpenAck := (N * bytes)%type.
Definition ICMPOpenAck_c : codec ICMPOpenAck := u64 ** key32.
Definition encode_ICMPOpenAck (m : ICMPOpenAck) : option bytes := Some (enc ICMPOpenAck_c m).
Definition decode_ICMPOpenAck : bytes -> option ICMPOpenAck := decode_top 40 ICMPOpenAck_c.

Definition ICMPEcho := (N * (N * (bool * (bytes * bytes))))%type.
Definition ICMPEcho_c : codec ICMPEcho := u16 ** u16 ** boolc ** lpbytes 1 ** lpbytes 2.
Definition encode_ICMPEcho (m : ICMPEcho) : option bytes := Some (enc ICMPEcho_c m).
Definition decode_ICMPEcho : bytes -> option ICMPEcho := decode_top 8 ICMPEcho_c.

(** SleepCommand and WakeCommand: (origin, (command id, (timestamp, (signature, seenby)))) *)
Definition Cmd := (bytes * (N * (N * (bytes * list bytes))))%type.
Definition Cmd_c : codec Cmd := id16 ** u64 ** u64 ** sig64 ** idlist.
Definition cmd_min : N := 16 + 8 + 8 + signature_size + 1.
Definition encode_Cmd (m : Cmd) : option bytes := Some (enc Cmd_c m).
Definition decode_Cmd : bytes -> option Cmd := decode_top cmd_min Cmd_c.

(** QueuedState: (routes, (withdraws, (node infos, (sleep, wake)))) *)
Definition QS := (list RA * (list RW * (list NIA * (option Cmd * option Cmd))))%type.

Fixpoint enc_items {A} (e : A -> option bytes) (l : list A) : option bytes :=
  match l with
  | [] => Some []
  | x :: t => do 'b <- e x ;; do 'r <- enc_items e t ;; Some (enc (lpbytes 2) b ++ r)
  end.
Definition enc_optcmd (c : option Cmd) : bytes :=
  match c with None => [x00] | Some m => x01 :: enc Cmd_c m end.
Definition encode_QS (q : QS) : option bytes :=
  let '(ras, (rws, (nias, (sl, wk)))) := q in
  do 'b1 <- enc_items encode_RA ras ;;
  do 'b2 <- enc_items encode_RW rws ;;
  do 'b3 <- enc_items encode_NIA nias ;;
  Some (enc u16 (lenN ras) ++ b1 ++ enc u16 (lenN rws) ++ b2 ++ enc u16 (lenN nias) ++ b3
        ++ enc_optcmd sl ++ enc_optcmd wk).

(** [n] length-prefixed entries; an entry whose inner decode fails is skipped *)
Fixpoint dec_entries {A} (d : bytes -> option A) (n : nat) (bs : bytes) : option (list A * bytes) :=
  match n with
  | O => Some ([], bs)
  | S n' =>
      do '(data, r) <- dec (lpbytes 2) bs ;;
      do '(l, r') <- dec_entries d n' r ;;
      Some (match d data with Some a => a :: l | None => l end, r')
  end.
(** bufferReader.capFor (after the fix): pre-allocation bounded by what the rest can hold *)
Definition cap_for (count min : N) (rest : bytes) : N := N.min count (lenN rest / (2 + min)).
(** before the fix: make([]T, 0, count) *)
Definition cap_pre_fix (count min : N) (rest : bytes) : N := count.
Definition dropN (n : N) (bs : bytes) : bytes :=
  match takeN n bs with Some (_, r) => r | None => [] end.
(** bytes skipped after a decoded sleep command *)
Definition sleep_skip (seenby : N) : N := cmd_min + 16 * seenby.
Definition sleep_skip_pre_fix (seenby : N) : N := 33 + 16 * seenby.

Section QueuedStateDecoder.
  Variable capf : N -> N -> bytes -> N.
  Variable skipf : N -> N.
  (** result and the three capacities handed to make() *)
  Definition decode_QS_gen (b : bytes) : option (QS * (N * (N * N))) :=
    if lenN b <? 8 then None else
    do '(n1, r) <- dec u16 b ;;
    let c1 := capf n1 28 r in
    do '(ras, r) <- dec_entries decode_RA (N.to_nat n1) r ;;
    do '(n2, r) <- dec u16 r ;;
    let c2 := capf n2 26 r in
    do '(rws, r) <- dec_entries decode_RW (N.to_nat n2) r ;;
    do '(n3, r) <- dec u16 r ;;
    let c3 := capf n3 28 r in
    do '(nias, r) <- dec_entries decode_NIA (N.to_nat n3) r ;;
    do '(sf, r) <- dec boolc r ;;
    let '(sl, r) :=
      if sf then
        match decode_Cmd r with
        | Some c => (Some c, dropN (skipf (lenN (snd (snd (snd (snd c)))))) r)
        | None => (None, r)
        end
      else (None, r) in
    do '(wf, r) <- dec boolc r ;;
    let wk := if wf then decode_Cmd r else None in
    Some ((ras, (rws, (nias, (sl, wk)))), (c1, (c2, c3))).
End QueuedStateDecoder.
Definition decode_QS_caps := decode_QS_gen cap_for sleep_skip.
Definition decode_QS (b : bytes) : option QS := option_map fst (decode_QS_caps b).
(** the decoder as it was before the two repairs *)
Definition decode_QS_pre_fix_caps := decode_QS_gen cap_pre_fix sleep_skip_pre_fix.
Definition decode_QS_pre_fix (b : bytes) : option QS := option_map fst (decode_QS_pre_fix_caps b).

(** Go element sizes (64-bit): bytes reserved by the three make() calls *)
Definition sizeof_RA : N := 120.
Definition sizeof_RW : N := 72.
Definition sizeof_NIA : N := 288.
Definition qs_prealloc (caps : N * (N * N)) : N :=
  let '(c1, (c2, c3)) := caps in sizeof_RA * c1 + sizeof_RW * c2 + sizeof_NIA * c3.

(** bytes reserved by the make() calls DecodeQueuedState reaches on input [b],
    whether or not the decode succeeds in the end (after a reader error the
    remaining counts read as 0 and nothing more is reserved) *)
Definition qs_ledger (capf : N -> N -> bytes -> N) (b : bytes) : N :=
  if lenN b <? 8 then 0 else
  match dec u16 b with
  | None => 0
  | Some (n1, r) =>
      sizeof_RA * capf n1 28 r +
      match dec_entries decode_RA (N.to_nat n1) r with
      | None => 0
      | Some (_, r) =>
          match dec u16 r with
          | None => 0
          | Some (n2, r) =>
              sizeof_RW * capf n2 26 r +
              match dec_entries decode_RW (N.to_nat n2) r with
              | None => 0
              | Some (_, r) =>
                  match dec u16 r with
                  | None => 0
                  | Some (n3, r) => sizeof_NIA * capf n3 28 r
                  end
              end
          end
      end
  end.

(** * Frame *)
Definition Frame := (N * (N * (N * bytes)))%type.   (* type, flags, stream id, payload *)
Definition Header := (N * (N * (N * N)))%type.       (* type, flags, length, stream id *)
Definition Header_c : codec Header := u8 ** u8 ** u32 ** u64.

Inductive dres (T : Type) := DOk (v : T) | DErr (code : N) | DPanic.
Arguments DOk {T}.
Arguments DErr {T}.
Arguments DPanic {T}.
Definition err_invalid : N := 1.
Definition err_too_large : N := 2.

Definition encode_Frame (f : Frame) : option bytes :=
  let '(t, (fl, (sid, p))) := f in
  if max_payload <? lenN p then None
  else Some (enc Header_c (t, (fl, (lenN p, sid))) ++ p).
Definition decode_Header (b : bytes) : dres Header :=
  if lenN b <? header_size then DErr err_invalid else
  match dec Header_c b with
  | Some ((t, (fl, (len, sid))), _) => if max_payload <? len then DErr err_too_large else DOk (t, (fl, (len, sid)))
  | None => DErr err_invalid
  end.
Definition decode_Frame (b : bytes) : dres Frame :=
  match decode_Header b with
  | DOk (t, (fl, (len, sid))) =>
      if lenN b <? header_size + len then DErr err_invalid else
      match takeN len (dropN header_size b) with
      | Some (p, _) => DOk (t, (fl, (sid, p)))
      | None => DErr err_invalid
      end
  | DErr c => DErr c
  | DPanic => DPanic
  end.

(** FrameReader.Read: the streaming entry point.  io.ReadFull of the 14 header
    bytes, DecodeHeader, then make([]byte, length) and io.ReadFull of the
    payload; running out of stream is an io error (class 4), bytes after the
    frame stay in the stream *)
Definition err_io : N := 4.
Definition decode_FrameRead (b : bytes) : dres Frame :=
  if lenN b <? header_size then DErr err_io else
  match decode_Header b with
  | DOk (t, (fl, (len, sid))) =>
      match takeN len (dropN header_size b) with
      | Some (p, _) => DOk (t, (fl, (sid, p)))
      | None => DErr err_io
      end
  | DErr c => DErr c
  | DPanic => DPanic
  end.
(** bytes reserved for the payload before any of it has been read *)
Definition frame_read_alloc (b : bytes) : N :=
  if lenN b <? header_size then 0 else
  match decode_Header b with DOk (_, (_, (len, _))) => len | _ => 0 end.

(** * Route prefix helpers used by the flooder *)
Definition encode_DomainPrefix (s : bytes) : option bytes := Some (n2b (lenN s) :: s).
Definition decode_DomainPrefix (b : bytes) : bytes :=
  match b with
  | [] => []
  | n :: t => match takeN (b2n n) t with Some (s, _) => s | None => [] end
  end.
Definition encode_ForwardKeyTarget (p : bytes * bytes) : option bytes :=
  Some (n2b (lenN (fst p)) :: fst p ++ n2b (lenN (snd p)) :: snd p).
Definition decode_ForwardKeyTarget (b : bytes) : bytes * bytes :=
  match b with
  | [] => ([], [])
  | n :: t =>
      match takeN (b2n n) t with
      | None => ([], [])
      | Some (k, r) =>
          match r with
          | [] => (k, [])
          | m :: t' => match takeN (b2n m) t' with Some (tg, _) => (k, tg) | None => (k, []) end
          end
      end
  end.

(** * Correspondence oracle *)

Definition of_opt {T} (o : option T) : dres T :=
  match o with Some v => DOk v | None => DErr err_invalid end.

Record kind := mkKind {
  TE : Type;                        (* encoder input *)
  TD : Type;                        (* decoder output *)
  k_enc : TE -> option bytes;       (* None: Encode refuses (error or panic) *)
  k_dec : bytes -> dres TD;
  k_eqb : TD -> TD -> bool
}.

Notation "a *e b" := (pair_eqb a b) (at level 61, right associativity).
Definition beq := bytes_eqb.
Definition neq := N.eqb.
Definition bleq := list_eqb bytes_eqb.
Definition booleq := Bool.eqb.
Definition route_eqb : Route -> Route -> bool := neq *e neq *e beq *e neq.
Definition encdata_eqb : EncData -> EncData -> bool := booleq *e beq.
Definition ra_eqb : RA -> RA -> bool :=
  beq *e beq *e neq *e list_eqb route_eqb *e bleq *e option_eqb encdata_eqb *e bleq.
Definition rw_eqb : RW -> RW -> bool := beq *e neq *e list_eqb route_eqb *e bleq.
Definition peer_eqb : Peer -> Peer -> bool := beq *e beq *e neq *e booleq.
Definition ni_eqb : NI -> NI -> bool :=
  beq *e beq *e beq *e beq *e beq *e neq *e bleq *e list_eqb peer_eqb *e beq *e booleq *e
  list_eqb (beq *e beq) *e bleq *e booleq *e booleq *e booleq.
Definition nia_eqb : NIA -> NIA -> bool := beq *e neq *e ni_eqb *e option_eqb encdata_eqb *e bleq.
Definition cmd_eqb : Cmd -> Cmd -> bool := beq *e neq *e neq *e beq *e bleq.
Definition qs_eqb : QS -> QS -> bool :=
  list_eqb ra_eqb *e list_eqb rw_eqb *e list_eqb nia_eqb *e option_eqb cmd_eqb *e option_eqb cmd_eqb.
Definition open_eqb : Open -> Open -> bool := neq *e neq *e beq *e neq *e neq *e bleq *e beq.
Definition ack_eqb : Ack -> Ack -> bool := neq *e neq *e beq *e neq *e beq.
Definition err_eqb : Err -> Err -> bool := neq *e neq *e beq.

Definition no_dec {T} (_ : bytes) : dres T := DPanic.
Definition no_enc {T} (_ : T) : option bytes := None.

Definition K_Frame := mkKind Frame Frame encode_Frame decode_Frame (neq *e neq *e neq *e beq).
Definition K_Header := mkKind unit Header no_enc decode_Header (neq *e neq *e neq *e neq).
Definition K_FrameRead := mkKind unit Frame no_enc decode_FrameRead (neq *e neq *e neq *e beq).
Definition K_PeerHello := mkKind PeerHello PeerHello encode_PeerHello (fun b => of_opt (decode_PeerHello b))
  (neq *e beq *e neq *e beq *e bleq).
Definition K_StreamOpen := mkKind Open Open encode_Open (fun b => of_opt (decode_Open b)) open_eqb.
Definition K_UDPOpen := K_StreamOpen.
Definition K_StreamOpenAck := mkKind Ack Ack encode_Ack (fun b => of_opt (decode_Ack b)) ack_eqb.
Definition K_UDPOpenAck := K_StreamOpenAck.
Definition K_StreamOpenErr := mkKind Err Err encode_Err (fun b => of_opt (decode_Err b)) err_eqb.
Definition K_UDPOpenErr := K_StreamOpenErr.
Definition K_ICMPOpenErr := K_StreamOpenErr.
Definition K_StreamReset := mkKind N N encode_StreamReset (fun b => of_opt (decode_StreamReset b)) neq.
Definition K_Keepalive := mkKind N N encode_Keepalive (fun b => of_opt (decode_Keepalive b)) neq.
Definition K_UDPClose := mkKind N N encode_Close (fun b => of_opt (decode_Close b)) neq.
Definition K_ICMPClose := K_UDPClose.
Definition K_Route := mkKind Route unit encode_Route no_dec (fun _ _ => true).
Definition K_RouteAdvertise := mkKind RA RA encode_RA (fun b => of_opt (decode_RA b)) ra_eqb.
Definition K_RouteWithdraw := mkKind RW RW encode_RW (fun b => of_opt (decode_RW b)) rw_eqb.
Definition K_EncData := mkKind EncData (bool * (bytes * N)) encode_EncData (fun b => of_opt (decode_EncData b))
  (booleq *e beq *e neq).
Definition K_NodeInfo := mkKind NI NI encode_NI (fun b => of_opt (decode_NI b)) ni_eqb.
Definition K_Path := mkKind (list bytes) (list bytes) encode_Path (fun b => of_opt (decode_Path b)) bleq.
Definition K_NodeInfoAdvertise := mkKind NIA NIA encode_NIA (fun b => of_opt (decode_NIA b)) nia_eqb.
Definition K_ControlRequest := mkKind CtlReq CtlReq encode_CtlReq (fun b => of_opt (decode_CtlReq b))
  (neq *e neq *e beq *e bleq *e beq).
Definition K_ControlResponse := mkKind CtlResp CtlResp encode_CtlResp (fun b => of_opt (decode_CtlResp b))
  (neq *e neq *e booleq *e beq).
Definition K_UDPDatagram := mkKind UDPDatagram UDPDatagram encode_UDPDatagram (fun b => of_opt (decode_UDPDatagram b))
  (neq *e beq *e neq *e beq).
Definition K_ICMPOpen := mkKind ICMPOpen ICMPOpen encode_ICMPOpen (fun b => of_opt (decode_ICMPOpen b))
  (neq *e beq *e neq *e bleq *e beq).
Definition K_ICMPOpenAck := mkKind ICMPOpenAck ICMPOpenAck encode_ICMPOpenAck (fun b => of_opt (decode_ICMPOpenAck b))
  (neq *e beq).
Definition K_ICMPEcho := mkKind ICMPEcho ICMPEcho encode_ICMPEcho (fun b => of_opt (decode_ICMPEcho b))
  (neq *e neq *e booleq *e beq *e beq).
Definition K_SleepCommand := mkKind Cmd Cmd encode_Cmd (fun b => of_opt (decode_Cmd b)) cmd_eqb.
Definition K_WakeCommand := K_SleepCommand.
Definition K_QueuedState := mkKind QS (QS * (N * (N * N))) encode_QS (fun b => of_opt (decode_QS_caps b))
  (qs_eqb *e neq *e neq *e neq).
Definition K_DomainPrefix := mkKind bytes bytes encode_DomainPrefix (fun b => DOk (decode_DomainPrefix b)) beq.
Definition K_ForwardKeyTarget := mkKind (bytes * bytes) (bytes * bytes) encode_ForwardKeyTarget
  (fun b => DOk (decode_ForwardKeyTarget b)) (beq *e beq).

Inductive case :=
| CEnc (k : kind) (m : TE k) (obs : option bytes)
| CDec (k : kind) (b : bytes) (obs : dres (TD k))
(** every truncation of [b]: [obs] lists the decoder's result on the first n
    bytes, n = 0 .. length b, run-length encoded (count, result) *)
| CTrunc (k : kind) (b : bytes) (obs : list (nat * dres (TD k)))
(** every truncation of an embedded message with its length field kept
    consistent: input n = pre ++ (lenw-byte big-endian n) ++ first n bytes of
    inner ++ post, n = 0 .. length inner *)
| CWrap (k : kind) (pre : bytes) (lenw : nat) (inner post : bytes) (obs : list (nat * dres (TD k))).

Definition dres_eqb {T} (e : T -> T -> bool) (a b : dres T) : bool :=
  match a, b with
  | DOk x, DOk y => e x y
  | DErr c, DErr d => c =? d
  | _, _ => false     (* an observed panic never agrees with the model *)
  end.

Definition expand_runs {T} (l : list (nat * T)) : list T :=
  concat (map (fun p => repeat (snd p) (fst p)) l).

Definition case_ok (c : case) : bool :=
  match c with
  | CEnc k m obs => option_eqb bytes_eqb (k_enc k m) obs
  | CDec k b obs => dres_eqb (k_eqb k) (k_dec k b) obs
  | CTrunc k b obs =>
      list_eqb (dres_eqb (k_eqb k)) (map (fun n => k_dec k (firstn n b)) (seq 0 (S (length b)))) (expand_runs obs)
  | CWrap k pre lenw inner post obs =>
      list_eqb (dres_eqb (k_eqb k))
        (map (fun n => k_dec k (pre ++ be_put lenw (N.of_nat n) ++ firstn n inner ++ post)) (seq 0 (S (length inner)))) (expand_runs obs)
  end.

Fixpoint mismatches_from (i : N) (cs : list case) : list N :=
  match cs with
  | [] => []
  | c :: cs' => if case_ok c then mismatches_from (i + 1) cs' else i :: mismatches_from (i + 1) cs'
  end.
Definition mismatches (cs : list case) : list N := mismatches_from 0 cs.
