(** The shape of the Go source that Model/RouteTable.v was written against,
    as the translator renders it (harness/cmd/translator/routing.go). The
    property files state that the facts regenerated from the working tree
    equal these. *)
From Coq Require Import String List NArith Bool.
Import ListNotations.
Local Open Scope string_scope.

(** lookupUnlocked keeps a bucket when its mask is strictly longer than the
    best so far, starting from -1; the candidate of a bucket is its head *)
Definition src_lpm_compare : string := "ones > best".
(** equivalent alternative (no two buckets of equal length match one address) *)
Definition src_lpm_compare_ge : string := "ones >= best".
Definition lpm_compare_ok (s : string) : bool := String.eqb s src_lpm_compare || String.eqb s src_lpm_compare_ge.
Definition src_lpm_initial_best : string := "-1".
(** sortRoutes: ascending metric *)
Definition src_sort_less : string := "[i].Metric < [j].Metric".
(** AddRoute's update condition ([newer]) *)
Definition src_update_rule : string :=
  "((new.Sequence > old.Sequence) || ((new.Sequence == old.Sequence) && (new.Metric < old.Metric)))".
Definition src_loop_check : string := "path-checked-before-lock".
(** RemoveRoutesFromPeer ([keep_peer]) and CleanupStaleRoutes ([keep_fresh]) *)
Definition src_peer_filter : string := "keep NextHop != peer".
Definition src_cleanup_rule : string := "keep OriginAgent == localID or age <= maxAge".
(** the agent table's slot ([same_origin_nexthop]) *)
Definition src_agent_slot : string := "((old.OriginAgent == new.OriginAgent) && (old.NextHop == new.NextHop))".
(** the agent's disconnect handler and cleanup loop address all four tables *)
Definition src_disconnect_calls : list string :=
  ["HandlePeerDisconnect"; "HandlePeerDisconnectAgent"; "HandlePeerDisconnectDomain"; "HandlePeerDisconnectForward"].
Definition src_cleanup_calls : list string :=
  ["CleanupStaleAgentRoutes"; "CleanupStaleDomainRoutes"; "CleanupStaleForwardRoutes"; "CleanupStaleRoutes"].
Definition four (s : string) : list string := [s; s; s; s].
