(** Model of the SOCKS5 front end (C21, C23).

    Go code followed: internal/socks5/handler.go (NewHandler, Handle,
    authenticate, readRequest, handleConnect, handleUDPAssociate,
    handleICMPEcho, sendReply, mapErrorToReply), internal/socks5/auth.go
    (UserPassAuthenticator.Authenticate, StaticCredentials / HashedCredentials,
    CreateAuthenticators), internal/agent/agent.go (buildSOCKS5Auth,
    buildSOCKS5CredentialStore), internal/socks5/ws_listener.go
    (handleWebSocket's HTTP Basic Auth gate).

    A session is a function from the bytes the client sends (a finite byte
    string followed by end of stream) to the list of writes the handler
    performs, the command it executes (with the exact destination), and the
    reason it stopped.  io.ReadFull on a stream that ends early is the
    [EEof] stop.  External behaviour is a parameter: the bcrypt comparison,
    the dialer's answer, the UDP / ICMP back ends.

    No proofs in this file. *)
From Coq Require Import List NArith Bool.
From MM Require Import Lib.Bytes.
Import ListNotations.
Local Open Scope N_scope.

(** * Authentication configuration *)

Record user := mkUser { u_name : bytes; u_pass : bytes; u_hash : bytes }.
Record auth_cfg := mkAuthCfg { a_enabled : bool; a_users : list user }.

(** a Go map built by assignments in list order: the last entry for a key wins *)
Fixpoint assoc_last (m : list (bytes * bytes)) (k : bytes) : option bytes :=
  match m with
  | [] => None
  | (k', v) :: m' =>
    match assoc_last m' k with
    | Some v' => Some v'
    | None => if bytes_eqb k' k then Some v else None
    end
  end.

Inductive store :=
| Hashed (m : list (bytes * bytes))   (* HashedCredentials: user -> bcrypt hash *)
| Static (m : list (bytes * bytes)).  (* StaticCredentials: user -> password *)

(** CredentialStore.Valid; [bc hash password] is bcrypt.CompareHashAndPassword = nil *)
Definition store_valid (bc : bytes -> bytes -> bool) (s : store) (u p : bytes) : bool :=
  match s with
  | Hashed m => match assoc_last m u with Some h => bc h p | None => false end
  | Static m => match assoc_last m u with Some pw => bytes_eqb pw p | None => false end
  end.

Inductive authn := ANoAuth | AUserPass (s : store).

Definition method_of (a : authn) : N := match a with ANoAuth => 0 | AUserPass _ => 2 end.

Definition nonempty (b : bytes) : bool := match b with [] => false | _ => true end.

(** the two maps buildSOCKS5Auth / buildSOCKS5CredentialStore fill *)
Definition hashed_users (us : list user) : list (bytes * bytes) :=
  map (fun u => (u_name u, u_hash u)) (filter (fun u => nonempty (u_hash u)) us).
Definition plain_users (us : list user) : list (bytes * bytes) :=
  map (fun u => (u_name u, u_pass u))
      (filter (fun u => negb (nonempty (u_hash u)) && nonempty (u_pass u)) us).

(** socks5.CreateAuthenticators.  [fixed] selects the repaired code: with
    authentication enabled and no usable user it keeps a username/password
    authenticator over an empty store instead of returning nothing. *)
Definition create_authenticators (fixed : bool) (enabled required : bool)
           (plain hashed : list (bytes * bytes)) : list authn :=
  (if enabled then
     match hashed, plain with
     | _ :: _, _ => [AUserPass (Hashed hashed)]
     | [], _ :: _ => [AUserPass (Static plain)]
     | [], [] => if fixed then [AUserPass (Static [])] else []
     end
   else []) ++ (if required then [] else [ANoAuth]).

(** agent.buildSOCKS5Auth *)
Definition build_auth_with (fixed : bool) (c : auth_cfg) : list authn :=
  if a_enabled c then
    create_authenticators fixed true true (plain_users (a_users c)) (hashed_users (a_users c))
  else [ANoAuth].

(** socks5.NewServer / socks5.NewHandler: an empty list becomes no-auth *)
Definition handler_auths (l : list authn) : list authn :=
  match l with [] => [ANoAuth] | _ => l end.

Definition auths_of_cfg (c : auth_cfg) : list authn := handler_auths (build_auth_with true c).
Definition auths_of_cfg_pre_fix (c : auth_cfg) : list authn := handler_auths (build_auth_with false c).

(** agent.buildSOCKS5CredentialStore (HTTP Basic Auth store of the WebSocket listener) *)
Definition ws_store (c : auth_cfg) : store :=
  match hashed_users (a_users c) with
  | _ :: _ => Hashed (hashed_users (a_users c))
  | [] => Static (plain_users (a_users c))
  end.

(** handleWebSocket: with authentication enabled the upgrade is refused
    unless Basic credentials are present and valid *)
Definition ws_gate (bc : bytes -> bytes -> bool) (c : auth_cfg) (basic : option (bytes * bytes)) : bool :=
  if a_enabled c then
    match basic with
    | Some (u, p) => store_valid bc (ws_store c) u p
    | None => false
    end
  else true.

(** * Requests and replies *)

Inductive host :=
| HIp4 (b : bytes)      (* 4 bytes *)
| HIp6 (b : bytes)      (* 16 bytes *)
| HDomain (b : bytes).  (* 1..255 bytes *)

Inductive command := CConnect | CUdp | CIcmp.

(** net.IP.To4 on a byte string *)
Definition all_zero (b : bytes) : bool := forallb (fun x => b2n x =? 0) b.

Definition to4 (b : bytes) : option bytes :=
  match length b with
  | 4%nat => Some b
  | 16%nat =>
    if all_zero (firstn 10 b) && bytes_eqb (firstn 2 (skipn 10 b)) [Byte.xff; Byte.xff]
    then Some (skipn 12 b) else None
  | _ => None
  end.

(** Handler.sendReply; [bind = None] is a nil net.IP *)
Definition reply (rep : N) (bind : option bytes) (port : N) : bytes :=
  let hdr atyp := [Byte.x05; n2b rep; Byte.x00; n2b atyp] in
  match bind with
  | None => hdr 1 ++ [Byte.x00; Byte.x00; Byte.x00; Byte.x00] ++ be_put 2 port
  | Some b =>
    match to4 b with
    | Some v4 => hdr 1 ++ v4 ++ be_put 2 port
    | None => hdr 4 ++ b ++ be_put 2 port
    end
  end.

Definition rep_succeeded : N := 0.
Definition rep_server_failure : N := 1.
Definition rep_host_unreachable : N := 4.
Definition rep_ttl_expired : N := 6.
Definition rep_cmd_not_supported : N := 7.
Definition rep_addr_not_supported : N := 8.

(** what the dialer answers, classified the way mapErrorToReply looks at it *)
Inductive dial_error := KDns | KOpTimeout | KOpDial | KOpOther | KOther.
Inductive dial_result := DialOk (bind : option bytes) (port : N) | DialFail (k : dial_error).

Definition map_error_to_reply (k : dial_error) : N :=
  match k with
  | KDns => rep_host_unreachable
  | KOpTimeout => rep_ttl_expired
  | KOpDial => rep_host_unreachable
  | KOpOther => rep_server_failure
  | KOther => rep_server_failure
  end.

(** the UDP / ICMP back ends as this model needs them *)
Inductive backend := BackendOff | BackendCreateFails.

Record env := mkEnv {
  e_auths : list authn;
  e_bc : bytes -> bytes -> bool;
  e_dial : dial_result;
  e_udp : backend;
  e_icmp : backend
}.

(** * The session *)

Inductive stop :=
| EEof            (* the client's stream ended inside a field *)
| EBadVersion | ENoAcceptable
| EAuthVersion | EEmptyUser | EAuthFailed
| EBadReqVersion | EZeroDomain | EBadAtyp | EBadCmd
| EDone.          (* a command was executed *)

Record result := mkResult {
  r_writes : list bytes;                       (* writes to the client, in order *)
  r_creds : option (bytes * bytes);            (* credentials the client presented *)
  r_exec : option (command * host * N);        (* command executed, destination, port *)
  r_stop : stop;
  r_rest : bytes                               (* input not consumed by the handshake *)
}.

Definition byte_at (b : bytes) (i : nat) : N := b2n (nth i b Byte.x00).

(** authenticate: method selection. Server preference order: the first
    authenticator whose method the client offered. *)
Definition offered (methods : bytes) (m : N) : bool := existsb (fun x => b2n x =? m) methods.

Fixpoint select_auth (auths : list authn) (methods : bytes) : option authn :=
  match auths with
  | [] => None
  | a :: auths' => if offered methods (method_of a) then Some a else select_auth auths' methods
  end.

Definition is_unspecified (h : host) : bool :=
  match h with
  | HIp4 b => all_zero b
  | HIp6 b => all_zero b || match to4 b with Some v4 => all_zero v4 | None => false end
  | HDomain _ => true    (* DestIP == nil *)
  end.

(** command dispatch after a complete request *)
Definition execute (e : env) (ws : list bytes) (creds : option (bytes * bytes))
           (cmd : N) (h : host) (port : N) (rest : bytes) : result :=
  if cmd =? 1 then
    match e_dial e with
    | DialOk bind bport => mkResult (ws ++ [reply rep_succeeded bind bport]) creds (Some (CConnect, h, port)) EDone rest
    | DialFail k => mkResult (ws ++ [reply (map_error_to_reply k) None 0]) creds (Some (CConnect, h, port)) EDone rest
    end
  else if cmd =? 3 then
    match e_udp e with
    | BackendOff => mkResult (ws ++ [reply rep_cmd_not_supported None 0]) creds None EBadCmd rest
    | BackendCreateFails => mkResult (ws ++ [reply rep_server_failure None 0]) creds (Some (CUdp, h, port)) EDone rest
    end
  else if cmd =? 4 then
    match e_icmp e with
    | BackendOff => mkResult (ws ++ [reply rep_cmd_not_supported None 0]) creds None EBadCmd rest
    | BackendCreateFails =>
      if is_unspecified h then mkResult (ws ++ [reply rep_addr_not_supported None 0]) creds None EBadAtyp rest
      else mkResult (ws ++ [reply rep_server_failure None 0]) creds (Some (CIcmp, h, port)) EDone rest
    end
  else mkResult (ws ++ [reply rep_cmd_not_supported None 0]) creds None EBadCmd rest.

Definition stopped (ws : list bytes) (creds : option (bytes * bytes)) (s : stop) (rest : bytes) : result :=
  mkResult ws creds None s rest.

(** readRequest + dispatch *)
Definition request (e : env) (ws : list bytes) (creds : option (bytes * bytes)) (inp : bytes) : result :=
  match split_at 4 inp with
  | None => stopped ws creds EEof inp
  | Some (hdr, r1) =>
    if negb (byte_at hdr 0 =? 5) then stopped ws creds EBadReqVersion r1
    else
      let cmd := byte_at hdr 1 in
      let atyp := byte_at hdr 3 in
      let finish (h : host) (r : bytes) : result :=
        match split_at 2 r with
        | None => stopped ws creds EEof r
        | Some (pb, r') => execute e ws creds cmd h (be_get pb) r'
        end in
      if atyp =? 1 then
        match split_at 4 r1 with
        | None => stopped ws creds EEof r1
        | Some (a, r2) => finish (HIp4 a) r2
        end
      else if atyp =? 3 then
        match split_at 1 r1 with
        | None => stopped ws creds EEof r1
        | Some (lb, r2) =>
          let n := byte_at lb 0 in
          if n =? 0 then stopped (ws ++ [reply rep_server_failure None 0]) creds EZeroDomain r2
          else match split_at (N.to_nat n) r2 with
               | None => stopped ws creds EEof r2
               | Some (d, r3) => finish (HDomain d) r3
               end
        end
      else if atyp =? 4 then
        match split_at 16 r1 with
        | None => stopped ws creds EEof r1
        | Some (a, r2) => finish (HIp6 a) r2
        end
      else stopped (ws ++ [reply rep_addr_not_supported None 0]) creds EBadAtyp r1
  end.

(** UserPassAuthenticator.Authenticate followed by the request *)
Definition userpass (e : env) (s : store) (ws : list bytes) (inp : bytes) : result :=
  match split_at 2 inp with
  | None => stopped ws None EEof inp
  | Some (hdr, r1) =>
    if negb (byte_at hdr 0 =? 1) then stopped ws None EAuthVersion r1
    else
      let ulen := byte_at hdr 1 in
      if ulen =? 0 then stopped ws None EEmptyUser r1
      else match split_at (N.to_nat ulen) r1 with
           | None => stopped ws None EEof r1
           | Some (u, r2) =>
             match split_at 1 r2 with
             | None => stopped ws None EEof r2
             | Some (pl, r3) =>
               match split_at (N.to_nat (byte_at pl 0)) r3 with
               | None => stopped ws None EEof r3
               | Some (p, r4) =>
                 if store_valid (e_bc e) s u p
                 then request e (ws ++ [[Byte.x01; Byte.x00]]) (Some (u, p)) r4
                 else stopped (ws ++ [[Byte.x01; Byte.x01]]) (Some (u, p)) EAuthFailed r4
               end
             end
           end
  end.

(** Handler.Handle *)
Definition session (e : env) (inp : bytes) : result :=
  match split_at 2 inp with
  | None => stopped [] None EEof inp
  | Some (hdr, r1) =>
    if negb (byte_at hdr 0 =? 5) then stopped [] None EBadVersion r1
    else match split_at (N.to_nat (byte_at hdr 1)) r1 with
         | None => stopped [] None EEof r1
         | Some (methods, r2) =>
           match select_auth (e_auths e) methods with
           | None => stopped [[Byte.x05; Byte.xff]] None ENoAcceptable r2
           | Some ANoAuth => request e [[Byte.x05; Byte.x00]] None r2
           | Some (AUserPass s) => userpass e s [[Byte.x05; Byte.x02]] r2
           end
         end
  end.

(** * Correspondence oracle *)

(** the harness records: the user list and enabled flag, the method codes the
    real handler ended up with, the (hash, password) pairs its own bcrypt call
    accepts, the dialer's programmed answer, the back ends, the client
    bytes; and observes the writes, the dial (host string as bytes and, for
    address types 1 / 4, that string parsed back to an address) and the back
    end calls. *)

Definition table_bc (t : list (bytes * bytes)) (h p : bytes) : bool :=
  existsb (fun e => bytes_eqb (fst e) h && bytes_eqb (snd e) p) t.

Inductive obs_exec :=
| XNone
| XConnect (hostbytes : bytes) (parsed : option bytes) (port : N)
| XUdp
| XIcmp (ip : bytes).

Record scase := mkCase {
  k_cfg : auth_cfg;
  k_methods : list N;                     (* VerifAuthMethods of the real handler *)
  k_bcrypt : list (bytes * bytes);
  k_dial : dial_result;
  k_udp : backend;
  k_icmp : backend;
  k_input : bytes;
  k_writes : list bytes;
  k_exec : obs_exec
}.

(** canonical 16-byte / 4-byte normal form of an address for comparison:
    IPv4-mapped and IPv4 agree *)
Definition norm_addr (b : bytes) : bytes := match to4 b with Some v4 => v4 | None => b end.

Definition exec_ok (m : option (command * host * N)) (o : obs_exec) : bool :=
  match m, o with
  | None, XNone => true
  | Some (CConnect, HDomain d, port), XConnect hb _ p => bytes_eqb d hb && (port =? p)
  | Some (CConnect, HIp4 a, port), XConnect _ (Some ip) p => bytes_eqb (norm_addr a) (norm_addr ip) && (port =? p)
  | Some (CConnect, HIp6 a, port), XConnect _ (Some ip) p => bytes_eqb (norm_addr a) (norm_addr ip) && (port =? p)
  | Some (CUdp, _, _), XUdp => true
  | Some (CIcmp, HIp4 a, _), XIcmp ip => bytes_eqb (norm_addr a) (norm_addr ip)
  | Some (CIcmp, HIp6 a, _), XIcmp ip => bytes_eqb (norm_addr a) (norm_addr ip)
  | _, _ => false
  end.

Fixpoint writes_eqb (a b : list bytes) : bool :=
  match a, b with
  | [], [] => true
  | x :: a', y :: b' => bytes_eqb x y && writes_eqb a' b'
  | _, _ => false
  end.

Fixpoint list_N_eqb (a b : list N) : bool :=
  match a, b with
  | [], [] => true
  | x :: a', y :: b' => (x =? y) && list_N_eqb a' b'
  | _, _ => false
  end.

Definition case_ok (k : scase) : bool :=
  let auths := auths_of_cfg (k_cfg k) in
  let e := mkEnv auths (table_bc (k_bcrypt k)) (k_dial k) (k_udp k) (k_icmp k) in
  let r := session e (k_input k) in
  list_N_eqb (map method_of auths) (k_methods k) &&
  writes_eqb (r_writes r) (k_writes k) &&
  exec_ok (r_exec r) (k_exec k).

Fixpoint mismatches_from (i : N) (cs : list scase) : list N :=
  match cs with
  | [] => []
  | c :: cs' => if case_ok c then mismatches_from (i + 1) cs' else i :: mismatches_from (i + 1) cs'
  end.

Definition mismatches (cs : list scase) : list N := mismatches_from 0 cs.

(** WebSocket gate cases: (configuration, bcrypt table, Basic credentials, upgrade accepted) *)
Definition wcase := (auth_cfg * list (bytes * bytes) * option (bytes * bytes) * bool)%type.

Definition wcase_ok (k : wcase) : bool :=
  let '(c, t, basic, accepted) := k in Bool.eqb (ws_gate (table_bc t) c basic) accepted.

Fixpoint wmismatches_from (i : N) (cs : list wcase) : list N :=
  match cs with
  | [] => []
  | c :: cs' => if wcase_ok c then wmismatches_from (i + 1) cs' else i :: wmismatches_from (i + 1) cs'
  end.

Definition wmismatches (cs : list wcase) : list N := wmismatches_from 0 cs.
