(** Model of the control-request bookkeeping of internal/agent/agent.go
    (SendControlRequestWithData, handleControlRequest, handleControlResponse)
    for property C39, following the code after fix commit 8564431.  Request
    ids are the agent's own counter 1,2,3,...; a forwarded request travels on
    under an id taken from the forwarding agent's own counter (the same one
    that numbers its own requests); [forwardedControl] maps that id to the
    source peer and the id the requester used. *)
From Coq Require Import List NArith Bool.
From MM Require Import Model.Relay.
Import ListNotations.
Local Open Scope N_scope.

Inductive cmsg :=
| MReq (id target : N) (path : list N) (tag : N)
| MResp (id : N) (ok : bool) (tag : N).

(** failure texts of the agent, as codes *)
Definition code_no_route : N := 1.        (* "no route to target" *)
Definition code_not_connected : N := 2.   (* "next hop not connected" *)
Definition code_forward_failed : N := 3.  (* "failed to forward: ..." *)
Definition code_unknown_type : N := 4.    (* local answer to the control type the harness uses *)

Record cstate := mkcstate {
  c_me : N;
  c_conns : list N;       (* connected peers *)
  c_failing : list N;     (* peers towards which a write fails *)
  c_pending : list N;     (* pendingControl: ids of requests this agent originated *)
  c_fwd : amap (N * N);   (* forwardedControl: our id -> (source peer, requester's id) *)
  c_next : N;             (* nextControlID *)
}.

Definition cinit (me : N) : cstate := mkcstate me [] [] [] [] 0.

Definition csend_ok (s : cstate) (to : N) : bool := memN to (c_conns s) && negb (memN to (c_failing s)).
Definition cemit (s : cstate) (to : N) (m : cmsg) : list (N * cmsg) := if csend_ok s to then [(to, m)] else [].

Definition delN (x : N) (l : list N) : list N := filter (fun y => negb (y =? x)) l.

Inductive cevent :=
| CReq (from id target : N) (path : list N) (tag : N)
| CResp (from id tag : N)
| COriginate (target tag : N)
| CCancel (id : N)
| COriginateBlocked (target tag : N)   (* an own request whose write parks: id allocated and registered, nothing sent yet *)
| CSendFails (id : N)                  (* ... and whose send then fails: the pending entry is dropped *)
| CSleep                               (* enterSleep: every peer connection is closed; the control bookkeeping is untouched *)
| CConnect (p : N) | CDisconnect (p : N) | CSetFail (p : N) (b : bool).

(** result: state, frames sent, responses handed to local callers (request id, tag),
    and for COriginate the id assigned (0 = the call failed at once) *)
Definition cstep (s : cstate) (e : cevent) : cstate * list (N * cmsg) * list (N * N) * N :=
  match e with
  | CReq from id target path tag =>
      if (target =? 0) || (target =? c_me s) then
        (s, cemit s from (MResp id false code_unknown_type), [], 0)
      else
        let hop := match path with h :: _ => Some h | [] => if memN target (c_conns s) then Some target else None end in
        let rest := match path with _ :: r => r | [] => [] end in
        match hop with
        | None => (s, cemit s from (MResp id false code_no_route), [], 0)
        | Some h =>
            if negb (memN h (c_conns s)) then (s, cemit s from (MResp id false code_not_connected), [], 0)
            else
              (* nextControlID++; forwardedControl[fwdID] = (source, id) *)
              let fid := c_next s + 1 in
              let s1 := mkcstate (c_me s) (c_conns s) (c_failing s) (c_pending s) (mset fid (from, id) (c_fwd s)) fid in
              if csend_ok s1 h then (s1, [(h, MReq fid target rest tag)], [], 0)
              else (mkcstate (c_me s) (c_conns s) (c_failing s) (c_pending s) (mdel fid (c_fwd s1)) fid,
                    cemit s from (MResp id false code_forward_failed), [], 0)
        end
  | CResp from id tag =>
      let hasP := memN id (c_pending s) in
      let f := mget id (c_fwd s) in
      let s1 := mkcstate (c_me s) (c_conns s) (c_failing s) (delN id (c_pending s)) (mdel id (c_fwd s)) (c_next s) in
      if hasP then (s1, [], [(id, tag)], 0)
      else match f with
           | Some (src, oid) => (s1, cemit s1 src (MResp oid true tag), [], 0)   (* the requester's id is restored *)
           | None => (s1, [], [], 0)
           end
  | COriginate target tag =>
      (* findControlPath: the harness only targets direct peers *)
      if negb (memN target (c_conns s)) then (s, [], [], 0)
      else
        let id := c_next s + 1 in
        if csend_ok s target then
          (mkcstate (c_me s) (c_conns s) (c_failing s) (c_pending s ++ [id]) (c_fwd s) id, [(target, MReq id target [] tag)], [], id)
        else
          (mkcstate (c_me s) (c_conns s) (c_failing s) (c_pending s) (c_fwd s) id, [], [], 0)
  | CCancel id => (mkcstate (c_me s) (c_conns s) (c_failing s) (delN id (c_pending s)) (c_fwd s) (c_next s), [], [], 0)
  | COriginateBlocked target tag =>
      if negb (memN target (c_conns s)) then (s, [], [], 0)
      else let id := c_next s + 1 in
           (mkcstate (c_me s) (c_conns s) (c_failing s) (c_pending s ++ [id]) (c_fwd s) id, [], [], id)
  | CSendFails id =>
      (* delete(pendingControl, id); the counter is NOT handed back: other
         requests may have taken higher ids in the meantime *)
      (mkcstate (c_me s) (c_conns s) (c_failing s) (delN id (c_pending s)) (c_fwd s) (c_next s), [], [], id)
  | CSleep => (mkcstate (c_me s) [] (c_failing s) (c_pending s) (c_fwd s) (c_next s), [], [], 0)
  | CConnect p => (mkcstate (c_me s) (if memN p (c_conns s) then c_conns s else c_conns s ++ [p]) (delN p (c_failing s)) (c_pending s) (c_fwd s) (c_next s), [], [], 0)
  | CDisconnect p => (mkcstate (c_me s) (delN p (c_conns s)) (c_failing s) (c_pending s) (c_fwd s) (c_next s), [], [], 0)
  | CSetFail p b => (mkcstate (c_me s) (c_conns s) (if b then p :: c_failing s else delN p (c_failing s)) (c_pending s) (c_fwd s) (c_next s), [], [], 0)
  end.

Fixpoint crun (s : cstate) (evs : list cevent) : cstate * list (list (N * cmsg) * list (N * N)) :=
  match evs with
  | [] => (s, [])
  | e :: r =>
      let '(s1, o, d, _) := cstep s e in
      let '(s2, os) := crun s1 r in (s2, (o, d) :: os)
  end.

(* ---- comparison ---------------------------------------------------------- *)

Fixpoint insN (x : N) (l : list N) : list N :=
  match l with [] => [x] | y :: t => if x <=? y then x :: l else y :: insN x t end.
Definition sortN (l : list N) : list N := fold_right insN [] l.

Record cobs := mkcobs {
  co_out : list (N * cmsg);
  co_deliv : list (N * N);
  co_id : N;
  co_pending : list N;        (* sorted *)
  co_fwd : list (N * (N * N)); (* sorted by id: our id -> (source peer, requester's id) *)
  co_next : N;
}.

Definition cmsg_eqb (a b : cmsg) : bool :=
  match a, b with
  | MReq i t p g, MReq i' t' p' g' => (i =? i') && (t =? t') && list_eqb N.eqb p p' && (g =? g')
  | MResp i o g, MResp i' o' g' => (i =? i') && Bool.eqb o o' && (g =? g')
  | _, _ => false
  end.

Definition pairN_eqb (a b : N * N) : bool := (fst a =? fst b) && (snd a =? snd b).

Definition cobs_ok (s : cstate) (o : list (N * cmsg)) (d : list (N * N)) (id : N) (ob : cobs) : bool :=
  list_eqb (fun x y => (fst x =? fst y) && cmsg_eqb (snd x) (snd y)) (co_out ob) o &&
  list_eqb pairN_eqb (co_deliv ob) d && (co_id ob =? id) &&
  list_eqb N.eqb (co_pending ob) (sortN (c_pending s)) &&
  list_eqb (fun x y => (fst x =? fst y) && pairN_eqb (snd x) (snd y)) (co_fwd ob) (sorted (c_fwd s)) && (co_next ob =? c_next s).

Definition ccase := (N * list (cevent * cobs))%type.

Fixpoint ccase_ok_from (s : cstate) (c : list (cevent * cobs)) : bool :=
  match c with
  | [] => true
  | (e, ob) :: r => let '(s', o, d, id) := cstep s e in cobs_ok s' o d id ob && ccase_ok_from s' r
  end.
Definition ccase_ok (c : ccase) : bool := ccase_ok_from (cinit (fst c)) (snd c).

Fixpoint cmismatches_from (i : N) (cs : list ccase) : list N :=
  match cs with
  | [] => []
  | c :: cs' => if ccase_ok c then cmismatches_from (i + 1) cs' else i :: cmismatches_from (i + 1) cs'
  end.
Definition mismatches (cs : list ccase) : list N := cmismatches_from 0 cs.
