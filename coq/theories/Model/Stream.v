(** Model of stream.Stream and stream.Manager (internal/stream/manager.go)
    for property C18.

    One [sobj] is one *Stream object.  The atomic steps ([act]) are the steps
    the Go code performs under the stream mutex or as one channel operation:

    - [AFin]         Stream.HandleRemoteFinWrite (sets remoteFinWrite, closes
                     remoteFinCh, moves the state)
    - [APush d]      Stream.PushData (send on the buffered channel readBuffer,
                     capacity 64; refused with io.EOF when [closed]; not
                     enabled - the caller blocks - when the buffer is full)
    - [ACloseWrite]  Stream.CloseWrite
    - [AClose]       Stream.Close (closeOnce)
    - [ARFirst r]    reader r enters Stream.Read: the first, non-blocking select
    - [ARWake r a]   reader r, parked in the second select, is woken by arm a
                     (ctx.Done / closed / remoteFinCh / readBuffer); Go's select
                     picks any ready arm, so every enabled arm is a step
    - [ARDrain r]    the inner non-blocking select after the closed/remoteFin arm
    - [ACancel r]    the context of reader r's current Read is cancelled

    [handle_stream_data push_first] is the sequence Manager.HandleStreamData
    performs for one frame; [code_push_first] says which order the code under
    verification uses (tied to the source by Generated/C18.v). *)
From Coq Require Import List NArith Bool.
Import ListNotations.
Local Open Scope N_scope.

Inductive sstate := Opening | Open | HalfLocal | HalfRemote | Closed.

Definition sstate_code (s : sstate) : N :=
  match s with Opening => 0 | Open => 1 | HalfLocal => 2 | HalfRemote => 3 | Closed => 4 end.

Definition sstate_eqb (a b : sstate) : bool := sstate_code a =? sstate_code b.

Inductive rpc := RIdle | RWaiting | RDraining.
Inductive arm := ArmCtx | ArmClosed | ArmFin | ArmData.

(** what a Read call returned; [EvEof c]: io.EOF, c = the stream was closed
    (locally or by STREAM_CLOSE/RESET) at that moment *)
Inductive rev := EvData (d : N) | EvEof (c : bool) | EvCtx.

Record reader := { r_pc : rpc; r_cancelled : bool }.

Record sobj := {
  st : sstate;
  buf : list N;          (* readBuffer, FIFO *)
  lfin : bool;           (* localFinWrite *)
  rfin : bool;           (* remoteFinWrite / remoteFinCh closed *)
  closed : bool;         (* closed channel closed *)
  readers : list reader;
}.

Definition buf_cap : N := 64.

Inductive act :=
| AFin | APush (d : N) | ACloseWrite | AClose
| ARFirst (r : nat) | ARWake (r : nat) (a : arm) | ARDrain (r : nat) | ACancel (r : nat).

Inductive outcome := ONone | ORejected | ORet (r : nat) (e : rev).

Definition can_write (s : sobj) : bool :=
  match st s with Open | HalfRemote => true | _ => false end.
Definition can_read (s : sobj) : bool :=
  match st s with Open | HalfLocal => true | _ => false end.

Definition idle : reader := {| r_pc := RIdle; r_cancelled := false |}.

Definition new_stream (nreaders : nat) : sobj :=
  {| st := Open; buf := []; lfin := false; rfin := false; closed := false; readers := repeat idle nreaders |}.

Fixpoint set_nth {A} (n : nat) (x : A) (l : list A) : list A :=
  match l, n with
  | [], _ => []
  | _ :: t, O => x :: t
  | h :: t, S n' => h :: set_nth n' x t
  end.

Definition with_st s x := {| st := x; buf := buf s; lfin := lfin s; rfin := rfin s; closed := closed s; readers := readers s |}.
Definition with_buf s x := {| st := st s; buf := x; lfin := lfin s; rfin := rfin s; closed := closed s; readers := readers s |}.
Definition with_reader s r x := {| st := st s; buf := buf s; lfin := lfin s; rfin := rfin s; closed := closed s; readers := set_nth r x (readers s) |}.

Definition step (s : sobj) (a : act) : option (sobj * outcome) :=
  match a with
  | AFin =>
      if rfin s then Some (s, ONone)
      else Some ({| st := match st s with Open => HalfRemote | HalfLocal => Closed | x => x end;
                    buf := buf s; lfin := lfin s; rfin := true; closed := closed s; readers := readers s |}, ONone)
  | APush d =>
      if closed s then Some (s, ORejected)
      else if N.of_nat (length (buf s)) <? buf_cap then Some (with_buf s (buf s ++ [d]), ONone)
      else None
  | ACloseWrite =>
      if lfin s then Some (s, ONone)
      else Some ({| st := match st s with Open => HalfLocal | HalfRemote => Closed | x => x end;
                    buf := buf s; lfin := true; rfin := rfin s; closed := closed s; readers := readers s |}, ONone)
  | AClose =>
      if closed s then Some (s, ONone)
      else Some ({| st := Closed; buf := buf s; lfin := lfin s; rfin := rfin s; closed := true; readers := readers s |}, ONone)
  | ARFirst r =>
      match nth_error (readers s) r with
      | Some {| r_pc := RIdle; r_cancelled := _ |} =>
          match buf s with
          | d :: b => Some (with_reader (with_buf s b) r idle, ORet r (EvData d))
          | [] => Some (with_reader s r {| r_pc := RWaiting; r_cancelled := false |}, ONone)
          end
      | _ => None
      end
  | ARWake r a =>
      match nth_error (readers s) r with
      | Some {| r_pc := RWaiting; r_cancelled := c |} =>
          match a with
          | ArmCtx => if c then Some (with_reader s r idle, ORet r EvCtx) else None
          | ArmClosed => if closed s then Some (with_reader s r {| r_pc := RDraining; r_cancelled := c |}, ONone) else None
          | ArmFin => if rfin s then Some (with_reader s r {| r_pc := RDraining; r_cancelled := c |}, ONone) else None
          | ArmData => match buf s with
                       | d :: b => Some (with_reader (with_buf s b) r idle, ORet r (EvData d))
                       | [] => None
                       end
          end
      | _ => None
      end
  | ARDrain r =>
      match nth_error (readers s) r with
      | Some {| r_pc := RDraining; r_cancelled := _ |} =>
          match buf s with
          | d :: b => Some (with_reader (with_buf s b) r idle, ORet r (EvData d))
          | [] => Some (with_reader s r idle, ORet r (EvEof (closed s)))
          end
      | _ => None
      end
  | ACancel r =>
      match nth_error (readers s) r with
      | Some {| r_pc := RIdle; r_cancelled := _ |} => Some (s, ONone)
      | Some {| r_pc := p; r_cancelled := _ |} => Some (with_reader s r {| r_pc := p; r_cancelled := true |}, ONone)
      | None => None
      end
  end.

(** [run s tr] = final state and the outcomes, in trace order; [None] when some
    step of the trace is not enabled. *)
Fixpoint run (s : sobj) (tr : list act) : option (sobj * list outcome) :=
  match tr with
  | [] => Some (s, [])
  | a :: tr' =>
      match step s a with
      | None => None
      | Some (s', o) =>
          match run s' tr' with
          | None => None
          | Some (s'', os) => Some (s'', o :: os)
          end
      end
  end.

(** The frame-handling thread: the sequence of stream steps
    Manager.HandleStreamData performs for one STREAM_DATA frame
    (fin flag, payload; payload 0 = empty).  [push_first = false] is
    "FIN block, then data block", [true] is "data block, then FIN block". *)
Definition frame := (bool * N)%type.

Definition push_part (f : frame) : list act := if snd f =? 0 then [] else [APush (snd f)].
Definition fin_part (f : frame) : list act := if fst f then [AFin] else [].

Definition handle_stream_data (push_first : bool) (f : frame) : list act :=
  if push_first then push_part f ++ fin_part f else fin_part f ++ push_part f.

(** the order used by the code under verification *)
Definition code_push_first : bool := true.

Definition thread_prog (push_first : bool) (fs : list frame) : list act :=
  concat (map (handle_stream_data push_first) fs).

Definition is_thread_act (a : act) : bool := match a with AFin | APush _ => true | _ => false end.
Definition thread_proj (tr : list act) : list act := filter is_thread_act tr.

(** data returned by reads, in trace order *)
Fixpoint returned (os : list outcome) : list N :=
  match os with
  | ORet _ (EvData d) :: t => d :: returned t
  | _ :: t => returned t
  | [] => []
  end.

(** payloads of the frames up to and including the first FIN frame; [None]
    if no frame carries FIN *)
Fixpoint data_upto_fin (fs : list frame) : option (list N) :=
  match fs with
  | [] => None
  | (fin, d) :: t =>
      let here := if d =? 0 then [] else [d] in
      if fin then Some here
      else match data_upto_fin t with Some l => Some (here ++ l) | None => None end
  end.

(* ------------------------------------------------------------------------- *)
(** * Handler-granularity executable model of the manager (correspondence) *)

Record mgr := { mmap : list (N * nat); objs : list sobj }.

Definition mgr_init : mgr := {| mmap := []; objs := [] |}.

Fixpoint map_get (m : list (N * nat)) (id : N) : option nat :=
  match m with
  | [] => None
  | (k, v) :: t => if k =? id then Some v else map_get t id
  end.
Definition map_del (m : list (N * nat)) (id : N) : list (N * nat) :=
  filter (fun p => negb (fst p =? id)) m.
Definition map_set (m : list (N * nat)) (id : N) (v : nat) : list (N * nat) := (id, v) :: map_del m id.

Fixpoint insert_sorted (p : N * nat) (l : list (N * nat)) : list (N * nat) :=
  match l with
  | [] => [p]
  | q :: t => if fst p <=? fst q then p :: l else q :: insert_sorted p t
  end.
Definition map_sorted (m : list (N * nat)) : list (N * nat) := fold_right insert_sorted [] m.

Definition ev := (N * N * N)%type. (* object, kind 0 data / 1 eof / 2 ctx, value *)

Definition ev_of (k : nat) (o : outcome) : list ev :=
  match o with
  | ORet _ (EvData d) => [(N.of_nat k, 0, d)]
  | ORet _ (EvEof c) => [(N.of_nat k, 1, if c then 1 else 0)]
  | ORet _ EvCtx => [(N.of_nat k, 2, 0)]
  | _ => []
  end.

(** apply a step to a stream when enabled, otherwise leave it (the harness
    only issues enabled steps; a disabled one shows up as a mismatch) *)
Definition app (s : sobj) (a : act) : sobj * outcome :=
  match step s a with Some r => r | None => (s, ONone) end.

(** after a harness-visible step every goroutine runs until it blocks: a
    parked reader (reader 0) whose select has a ready arm completes. *)
Definition settle (k : nat) (s : sobj) : sobj * list ev :=
  match nth_error (readers s) 0 with
  | Some {| r_pc := RWaiting; r_cancelled := c |} =>
      match buf s with
      | _ :: _ => let '(s1, o) := app s (ARWake 0 ArmData) in (s1, ev_of k o)
      | [] =>
          if c then let '(s1, o) := app s (ARWake 0 ArmCtx) in (s1, ev_of k o)
          else if closed s then
            let '(s1, _) := app s (ARWake 0 ArmClosed) in
            let '(s2, o) := app s1 (ARDrain 0) in (s2, ev_of k o)
          else if rfin s then
            let '(s1, _) := app s (ARWake 0 ArmFin) in
            let '(s2, o) := app s1 (ARDrain 0) in (s2, ev_of k o)
          else (s, [])
      end
  | _ => (s, [])
  end.

Fixpoint settle_all (k : nat) (l : list sobj) : list sobj * list ev :=
  match l with
  | [] => ([], [])
  | s :: t =>
      let '(s', e) := settle k s in
      let '(t', e') := settle_all (S k) t in
      (s' :: t', e ++ e')
  end.

Definition upd_obj (m : mgr) (k : nat) (f : sobj -> sobj) : mgr :=
  match nth_error (objs m) k with
  | Some s => {| mmap := mmap m; objs := set_nth k (f s) (objs m) |}
  | None => m
  end.

Inductive mop :=
| MAccept (id : N) | MOpenAck (id : N)
| MFrame (id : N) (fin : bool) (d : N) (pause : bool)
| MRead (k : N) | MCancel (k : N) | MCloseWrite (k : N) | MSClose (k : N)
| MClose (id : N) | MReset (id : N) | MMgrClose.

Record mobs := mkobs {
  o_err : N;
  o_mid : list ev;
  o_end : list ev;
  o_objs : list (N * bool * N);
  o_map : list (N * N);
}.

Definition obj_obs (s : sobj) : N * bool * N := (sstate_code (st s), closed s, N.of_nat (length (buf s))).

Definition close_obj (s : sobj) : sobj := fst (app s AClose).

(** one harness step: new manager, error code, reads completed at the
    scheduling point inside HandleStreamData, reads completed at the end *)
Definition exec (push_first : bool) (m : mgr) (op : mop) : mgr * N * list ev * list ev :=
  match op with
  | MAccept id | MOpenAck id =>
      (* m.streams[id] = stream : an existing mapping is overwritten, the old
         object stays as it is *)
      let k := length (objs m) in
      ({| mmap := map_set (mmap m) id k; objs := objs m ++ [new_stream 1] |}, 0, [], [])
  | MFrame id fin d pause =>
      match map_get (mmap m) id with
      | None => (m, 1, [], [])
      | Some k =>
          match nth_error (objs m) k with
          | None => (m, 1, [], [])
          | Some s =>
              let first := if push_first then push_part (fin, d) else fin_part (fin, d) in
              let second := if push_first then fin_part (fin, d) else push_part (fin, d) in
              let do_acts := fun s l => fold_left (fun '(s, rej) a =>
                                 let '(s', o) := app s a in
                                 (s', match o with ORejected => true | _ => rej end)) l (s, false) in
              let '(s1, rej1) := do_acts s first in
              if rej1 then
                (* PushData failed: HandleStreamData returns the error at once *)
                ({| mmap := mmap m; objs := set_nth k s1 (objs m) |}, 2, [], [])
              else
              let '(objs1, mid) := if pause then settle_all 0 (set_nth k s1 (objs m)) else (set_nth k s1 (objs m), []) in
              match nth_error objs1 k with
              | None => (m, 1, [], [])
              | Some s1' =>
                  let '(s2, rej2) := do_acts s1' second in
                  ({| mmap := mmap m; objs := set_nth k s2 objs1 |}, if rej2 then 2 else 0, mid, [])
              end
          end
      end
  | MRead k => (upd_obj m (N.to_nat k) (fun s => fst (app s (ARFirst 0))), 0, [], [])
  | MCancel k => (upd_obj m (N.to_nat k) (fun s => fst (app s (ACancel 0))), 0, [], [])
  | MCloseWrite k => (upd_obj m (N.to_nat k) (fun s => fst (app s ACloseWrite)), 0, [], [])
  | MSClose k => (upd_obj m (N.to_nat k) close_obj, 0, [], [])
  | MClose id | MReset id =>
      match map_get (mmap m) id with
      | None => (m, 0, [], [])
      | Some k => ({| mmap := map_del (mmap m) id; objs := objs (upd_obj m k close_obj) |}, 0, [], [])
      end
  | MMgrClose =>
      ({| mmap := [];
          objs := fold_left (fun l p => match nth_error l (snd p) with
                                        | Some s => set_nth (snd p) (close_obj s) l
                                        | None => l end) (mmap m) (objs m) |}, 0, [], [])
  end.

(** the read started by MRead returns at once when data is buffered; that
    event belongs to the end-of-step events *)
Definition read_now (m : mgr) (op : mop) : list ev :=
  match op with
  | MRead k =>
      match nth_error (objs m) (N.to_nat k) with
      | Some s => ev_of (N.to_nat k) (snd (app s (ARFirst 0)))
      | None => []
      end
  | _ => []
  end.

Definition exec_obs (push_first : bool) (m : mgr) (op : mop) : mgr * mobs :=
  let now := read_now m op in
  let '(m1, err, mid, _) := exec push_first m op in
  let '(objs2, fin_evs) := settle_all 0 (objs m1) in
  let m2 := {| mmap := mmap m1; objs := objs2 |} in
  (m2, {| o_err := err; o_mid := mid; o_end := now ++ fin_evs;
          o_objs := map obj_obs objs2;
          o_map := map (fun p => (fst p, N.of_nat (snd p))) (map_sorted (mmap m2)) |}).

(* ------------------------------------------------------------------------- *)
(** * The receiving endpoints of STREAM_DATA (exit.Handler, forward.Handler,
      file upload, shell): what the destination behind them sees *)

(** [XGot d]: the destination received datum d; [XEof]: end of stream.
    HandleStreamData of the exit / forward handler opens the payload and writes
    it to the destination when it is non-empty - whatever the flags - and THEN
    half-closes the destination when FIN_WRITE is set.  Tag 0 stands for the
    sealed empty plaintext meshConn.CloseWrite sends. *)
Inductive xev := XGot (d : N) | XEof.

Definition endpoint_on_data (f : frame) : list xev :=
  (if snd f =? 0 then [] else [XGot (snd f)]) ++ (if fst f then [XEof] else []).

(** frames are handled one after the other (per-connection sequential drain);
    nothing is sent after the end-of-write signal *)
Fixpoint endpoint_receive (fs : list frame) : list xev :=
  match fs with
  | [] => []
  | f :: t => endpoint_on_data f ++ (if fst f then [] else endpoint_receive t)
  end.

Definition xev_eqb (a b : xev) : bool :=
  match a, b with
  | XGot x, XGot y => x =? y
  | XEof, XEof => true
  | _, _ => false
  end.

(* ---- comparison ---------------------------------------------------------- *)

Definition ev_eqb (a b : ev) : bool :=
  let '(a1, a2, a3) := a in let '(b1, b2, b3) := b in (a1 =? b1) && (a2 =? b2) && (a3 =? b3).

Fixpoint list_eqb {A} (f : A -> A -> bool) (a b : list A) : bool :=
  match a, b with
  | [], [] => true
  | x :: a', y :: b' => f x y && list_eqb f a' b'
  | _, _ => false
  end.

(** events of one settle pass are compared up to order by object (the harness
    sorts them by object index; the model emits them by object index) *)
Definition obs_eqb (a b : mobs) : bool :=
  (o_err a =? o_err b) && list_eqb ev_eqb (o_mid a) (o_mid b) && list_eqb ev_eqb (o_end a) (o_end b) &&
  list_eqb (fun x y => let '(x1, x2, x3) := x in let '(y1, y2, y3) := y in (x1 =? y1) && Bool.eqb x2 y2 && (x3 =? y3)) (o_objs a) (o_objs b) &&
  list_eqb (fun x y => (fst x =? fst y) && (snd x =? snd y)) (o_map a) (o_map b).

Definition case := list (mop * mobs).

Fixpoint case_ok_from (push_first : bool) (m : mgr) (c : case) : bool :=
  match c with
  | [] => true
  | (op, o) :: t =>
      let '(m', o') := exec_obs push_first m op in
      obs_eqb o o' && case_ok_from push_first m' t
  end.

Definition case_ok (c : case) : bool := case_ok_from code_push_first mgr_init c.

Fixpoint mismatches_from (i : N) (cs : list case) : list N :=
  match cs with
  | [] => []
  | c :: cs' => if case_ok c then mismatches_from (i + 1) cs' else i :: mismatches_from (i + 1) cs'
  end.

Definition mismatches (cs : list case) : list N := mismatches_from 0 cs.

(** endpoint case: frames delivered, destination's observation *)
Definition xcase := (list frame * list xev)%type.
Definition xcase_ok (c : xcase) : bool := list_eqb xev_eqb (endpoint_receive (fst c)) (snd c).
Fixpoint xmismatches_from (i : N) (cs : list xcase) : list N :=
  match cs with
  | [] => []
  | c :: cs' => if xcase_ok c then xmismatches_from (i + 1) cs' else i :: xmismatches_from (i + 1) cs'
  end.
