(** Model of transport.StreamIDAllocator (internal/transport/transport.go).

    The Go code keeps one [atomic.Uint64]; [Next] is the single atomic
    instruction [next.Add(2) - 2] on uint64, i.e. it returns the value before
    the add and stores (value + 2) mod 2^64.  Because the whole operation is
    one atomic read-modify-write, any concurrent execution of calls on one
    allocator is equivalent to some sequential order of those calls; a
    "schedule" is therefore a list saying which end of the connection
    performs the next allocation. *)
From Coq Require Import List NArith Bool.
Import ListNotations.
Local Open Scope N_scope.

Definition two64 : N := 18446744073709551616.

Inductive side := Dialer | Acceptor.

Definition side_eqb (a b : side) : bool :=
  match a, b with Dialer, Dialer | Acceptor, Acceptor => true | _, _ => false end.

(** start values written by NewStreamIDAllocator *)
Definition start (s : side) : N := match s with Dialer => 1 | Acceptor => 2 end.

(** the stride added by Next *)
Definition delta : N := 2.

(** [next st] = (identifier returned, new counter) *)
Definition next (st : N) : N * N := (st, (st + delta) mod two64).

(** Both ends of one connection. *)
Record conn := { c_dial : N; c_acc : N }.

Definition init : conn := {| c_dial := start Dialer; c_acc := start Acceptor |}.

Definition step (c : conn) (s : side) : conn * N :=
  match s with
  | Dialer => let '(id, st) := next (c_dial c) in ({| c_dial := st; c_acc := c_acc c |}, id)
  | Acceptor => let '(id, st) := next (c_acc c) in ({| c_dial := c_dial c; c_acc := st |}, id)
  end.

(** [run c tr] = the identifiers handed out, in schedule order, tagged by end *)
Fixpoint run (c : conn) (tr : list side) : list (side * N) :=
  match tr with
  | [] => []
  | s :: tr' => let '(c', id) := step c s in (s, id) :: run c' tr'
  end.

Definition ids_of (s : side) (out : list (side * N)) : list N :=
  map snd (filter (fun p => side_eqb (fst p) s) out).

Definition count_side (s : side) (tr : list side) : N :=
  N.of_nat (length (filter (side_eqb s) tr)).

(** n successive allocations from an arbitrary counter value (used by the
    correspondence check to cover counters near 2^64, reached in the
    implementation through the verif-only setter) *)
Fixpoint allocs (n : nat) (st : N) : list N :=
  match n with
  | O => []
  | S n' => let '(id, st') := next st in id :: allocs n' st'
  end.

(** Correspondence-check oracle: case = (counter before, number of
    allocations, identifiers observed sorted ascending by the harness *in
    allocation order of the model*, i.e. the harness sorts by distance from
    the start counter).  Returns the indices of disagreeing cases. *)
Fixpoint list_N_eqb (a b : list N) : bool :=
  match a, b with
  | [], [] => true
  | x :: a', y :: b' => N.eqb x y && list_N_eqb a' b'
  | _, _ => false
  end.

Definition case := (N * nat * list N)%type.

Definition case_ok (c : case) : bool :=
  let '(st, n, obs) := c in list_N_eqb (allocs n st) obs.

Fixpoint mismatches_from (i : N) (cs : list case) : list N :=
  match cs with
  | [] => []
  | c :: cs' => if case_ok c then mismatches_from (i + 1) cs' else i :: mismatches_from (i + 1) cs'
  end.

Definition mismatches (cs : list case) : list N := mismatches_from 0 cs.
