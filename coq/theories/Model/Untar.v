(** Model of filetransfer.UntarDirectory (internal/filetransfer/tar.go), over
    the file system model of Model/Fs.v.

    An archive is the list of its entries in order.  Entry names and link
    targets are the header texts; [raw_comps] splits them at "/" and
    [clean] is filepath.Clean on the component list.  [extract true] follows
    the code after the two repairs
      fix: filetransfer: refuse to extract tar entries through symbolic links
      fix: filetransfer: refuse link entries that name the extraction destination itself
    [extract false] is the code before them.  The destination [dest] is given
    as the canonical component list of destDir (filepath.Clean(destDir) with
    no symbolic link in it). *)
From Coq Require Import List NArith Bool Ascii.
From Coq Require Import String.
From MM Require Import Model.Fs.
Import ListNotations.
Local Open Scope string_scope.
Local Open Scope list_scope.

Inductive entry :=
| EDir (name : string)
| EReg (name : string) (data : string)
| ESym (name : string) (target : string)
| EHard (name : string) (linkname : string)
| EOther (name : string).            (* device, fifo, ...: skipped by the switch *)

(** all components, including empty ones and "." *)
Definition raw_comps (s : string) : list string := split_acc s "".

(** filepath.Clean on components: [acc] is the cleaned prefix, reversed *)
Fixpoint clean_acc (abs : bool) (acc : list string) (cs : list string) : list string :=
  match cs with
  | [] => rev acc
  | c :: rest =>
    if String.eqb c "" || String.eqb c "." then clean_acc abs acc rest
    else if String.eqb c ".." then
      match acc with
      | [] => if abs then clean_acc abs [] rest else clean_acc abs [".."] rest
      | a :: acc' => if String.eqb a ".." then clean_acc abs (".." :: acc) rest else clean_acc abs acc' rest
      end
    else clean_acc abs (c :: acc) rest
  end.

Definition clean (abs : bool) (cs : list string) : list string := clean_acc abs [] cs.

(** sanitizeTarPath: the cleaned components of the entry below destDir, or an error *)
Definition sanitize (name : string) : option (list comp) :=
  if is_abs name then None
  else
    let cs := clean false (raw_comps name) in
    match cs with
    | c :: _ => if String.eqb c ".." then None else Some cs
    | [] => Some []
    end.

(** validateSymlink: the target must be relative and, resolved lexically
    against the directory of the link, stay within destDir *)
Definition validate_symlink (dest : path) (linkpath : path) (target : string) : bool :=
  if is_abs target then false
  else is_prefix dest (clean true (parent linkpath ++ raw_comps target)).

(** ensureNoSymlinks: Lstat every existing component below destDir *)
Fixpoint ensure_loop (fs : fsys) (cur : path) (parts : list comp) : bool :=
  match parts with
  | [] => true
  | c :: rest =>
    match sys_lstat fs (cur ++ [c]) with
    | inr ENOENT => true
    | inr _ => false
    | inl (Some (LinkO _)) => false
    | inl _ => ensure_loop fs (cur ++ [c]) rest
    end
  end.

Definition ensure_no_symlinks (fs : fsys) (dest : path) (rel : list comp) (check_last : bool) : bool :=
  match rel with
  | [] => true
  | _ => ensure_loop fs dest (if check_last then rel else removelast rel)
  end.

Definition entry_name (e : entry) : string :=
  match e with EDir n | EReg n _ | ESym n _ | EHard n _ | EOther n => n end.

Definition is_dir_entry (e : entry) : bool := match e with EDir _ => true | _ => false end.
Definition checks_last (e : entry) : bool := match e with EDir _ | EReg _ _ => true | _ => false end.

(** sequencing of system calls: stop at the first error *)
Definition andthen (r : sysres) (k : fsys -> sysres) : sysres :=
  match r with (fs, None) => k fs | (fs, Some e) => (fs, Some e) end.

(** one iteration of the extraction loop; [Some EINVAL] stands for the
    validation errors the Go code returns itself *)
Definition extract_entry (fixed : bool) (dest : path) (fs : fsys) (e : entry) : sysres :=
  match sanitize (entry_name e) with
  | None => (fs, Some EINVAL)
  | Some rel =>
    let target := dest ++ rel in
    if fixed && (match rel with [] => negb (is_dir_entry e) | _ => false end) then (fs, Some EINVAL)
    else if fixed && negb (ensure_no_symlinks fs dest rel (checks_last e)) then (fs, Some EINVAL)
    else
      match e with
      | EDir _ => mkdir_all fs target
      | EReg _ data =>
        andthen (mkdir_all fs (parent target)) (fun fs1 => sys_create_write fs1 target data)
      | ESym _ t =>
        if negb (validate_symlink dest target t) then (fs, Some EINVAL)
        else andthen (mkdir_all fs (parent target))
                     (fun fs1 => let fs2 := fst (sys_remove fs1 target) in sys_symlink fs2 t target)
      | EHard _ l =>
        match sanitize l with
        | None => (fs, Some EINVAL)
        | Some rel2 =>
          if fixed && negb (ensure_no_symlinks fs dest rel2 true) then (fs, Some EINVAL)
          else andthen (mkdir_all fs (parent target))
                       (fun fs1 => let fs2 := fst (sys_remove fs1 target) in sys_link fs2 (dest ++ rel2) target)
        end
      | EOther _ => (fs, None)
      end
  end.

Fixpoint extract_loop (fixed : bool) (dest : path) (fs : fsys) (es : list entry) : sysres :=
  match es with
  | [] => (fs, None)
  | e :: rest => andthen (extract_entry fixed dest fs e) (fun fs1 => extract_loop fixed dest fs1 rest)
  end.

(** UntarDirectory: MkdirAll(destDir), then the loop *)
Definition extract (fixed : bool) (dest : path) (fs : fsys) (es : list entry) : sysres :=
  andthen (mkdir_all fs dest) (fun fs1 => extract_loop fixed dest fs1 es).

(** ** Correspondence oracle *)
Definition harness_dest : path := ["o2"; "o1"; "dest"].

Inductive ucase := UCase (init : list inode_spec) (entries : list entry) (err : bool) (final : list (string * oobj)).

Definition case_ok_gen (fixed : bool) (c : ucase) : bool :=
  match c with
  | UCase init es err final =>
    let '(fs, e) := extract fixed harness_dest (build_fs init) es in
    Bool.eqb (match e with Some _ => true | None => false end) err && obs_eqb (observe fs) final
  end.

Fixpoint mismatches_from (fixed : bool) (i : N) (cs : list ucase) : list N :=
  match cs with
  | [] => []
  | c :: cs' => if case_ok_gen fixed c then mismatches_from fixed (i + 1) cs' else i :: mismatches_from fixed (i + 1) cs'
  end.

Definition mismatches (cs : list ucase) : list N := mismatches_from true 0 cs.

(** the same comparison against the code before the repairs (used when the
    harness is run on an unrepaired tree to validate the link-following part
    of the model) *)
Definition mismatches_pre_fix (cs : list ucase) : list N := mismatches_from false 0 cs.
