(** The source facts Model/Frames.v was written against: the length guard of
    every Decode function, the prefixLength / addressLength tables, the cut
    limits of the encoders that truncate, and for every Encode / Decode
    function of internal/protocol/frame.go the sequence of bufferWriter /
    bufferReader primitives in source order with the struct field each one
    transfers, and the bounds-check expressions inside the decoders.  Generated/C05.v (regenerated from the working tree on every
    run) must equal these tables (Properties/C05.v, C05_source_facts).  No
    proofs in this file. *)
From Coq Require Import NArith List String.
Import ListNotations.
Local Open Scope N_scope.
Open Scope string_scope.

Definition model_guards : list (string * N) := [("DecodeControlRequest", 30); ("DecodeControlResponse", 12); ("DecodeDomainPrefix", 1); ("DecodeEncryptedData", 3); ("DecodeForwardKey", 1); ("DecodeForwardKeyAndTarget", 1); ("DecodeHeader", 14); ("DecodeICMPClose", 1); ("DecodeICMPEcho", 8); ("DecodeICMPOpen", 43); ("DecodeICMPOpenAck", 40); ("DecodeICMPOpenErr", 11); ("DecodeKeepalive", 8); ("DecodeNodeInfo", 37); ("DecodeNodeInfoAdvertise", 28); ("DecodePath", 1); ("DecodePeerHello", 28); ("DecodeQueuedState", 8); ("DecodeRouteAdvertise", 28); ("DecodeRouteWithdraw", 26); ("DecodeSleepCommand", 97); ("DecodeStreamOpen", 45); ("DecodeStreamOpenAck", 43); ("DecodeStreamOpenErr", 11); ("DecodeStreamReset", 2); ("DecodeUDPClose", 1); ("DecodeUDPDatagram", 6); ("DecodeUDPOpen", 45); ("DecodeUDPOpenAck", 43); ("DecodeUDPOpenErr", 11); ("DecodeWakeCommand", 97)].

Definition model_prefix_length : list (N * N) := [(1, 4); (2, 16); (3, 1); (5, 16); (256, 16)].

Definition model_address_length : list (N * N) := [(1, 4); (4, 16); (3, 1); (256, 0)].

Definition model_cuts : list (string * N) := [(".EncodeNodeInfo forwardListeners", 20); (".EncodeNodeInfo peers", 50); (".EncodeNodeInfo shells", 10); ("ControlResponse.Encode data", 16372); ("ICMPOpenErr.Encode msg", 255); ("StreamOpenErr.Encode msg", 255); ("UDPOpenErr.Encode msg", 255)].

Definition model_shapes : list (string * list string) := [
  ("ControlRequest.Encode", ["u64 RequestID"; "u8 ControlType"; "bytes TargetAgent"; "ids Path"; "u32 len Data"; "bytes Data"]);
  ("ControlResponse.Encode", ["u64 RequestID"; "u8 ControlType"; "bool Success"; "u16 len"; "bytes"]);
  ("Decode", ["call DecodeHeader"]);
  ("DecodeControlRequest", ["u64 RequestID"; "u8 ControlType"; "id TargetAgent"; "ids Path"; "u32"; "if["; "bytes Data"; "]"]);
  ("DecodeControlResponse", ["u64 RequestID"; "u8 ControlType"; "bool Success"; "u16"; "bytes Data"]);
  ("DecodeEncryptedData", ["bool Encrypted"; "u16"; "bytes Data"]);
  ("DecodeICMPEcho", ["u16 Identifier"; "u16 Sequence"; "bool IsReply"; "u8"; "if["; "bytes SrcIP"; "]"; "u16"; "bytes Data"]);
  ("DecodeICMPOpen", ["u64 RequestID"; "u8"; "bytes DestIP"; "u8 TTL"; "ids RemainingPath"; "key EphemeralPubKey"]);
  ("DecodeICMPOpenAck", ["u64 RequestID"; "key EphemeralPubKey"]);
  ("DecodeICMPOpenErr", ["u64 RequestID"; "u16 ErrorCode"; "str Message"]);
  ("DecodeKeepalive", ["u64 Timestamp"]);
  ("DecodeNodeInfo", ["str DisplayName"; "str Hostname"; "str OS"; "str Arch"; "str Version"; "u64 StartTime"; "u8"; "for["; "str IPAddresses"; "]"; "u8"; "for["; "bytes"; "str Transport"; "u64 RTTMs"; "bool IsDialer"; "]"; "key PublicKey"; "if["; "bool UDPEnabled"; "]"; "if["; "u8"; "for["; "str"; "str"; "]"; "]"; "if["; "u8"; "for["; "str"; "]"; "]"; "if["; "bool FileTransferEnabled"; "]"; "if["; "bool ShellEnabled"; "]"; "if["; "bool IcmpEnabled"; "]"]);
  ("DecodeNodeInfoAdvertise", ["id OriginAgent"; "u64 Sequence"; "call DecodeEncryptedData"; "if["; "call DecodeNodeInfo"; "]"; "ids SeenBy"]);
  ("DecodePath", ["ids"]);
  ("DecodePeerHello", ["u16 Version"; "id AgentID"; "u64 Timestamp"; "str DisplayName"; "u8"; "for["; "str Capabilities"; "]"]);
  ("DecodeQueuedState", ["u16"; "for["; "u16"; "bytes"; "call DecodeRouteAdvertise"; "]"; "u16"; "for["; "u16"; "bytes"; "call DecodeRouteWithdraw"; "]"; "u16"; "for["; "u16"; "bytes"; "call DecodeNodeInfoAdvertise"; "]"; "bool"; "if["; "call DecodeSleepCommand"; "]"; "bool"; "if["; "call DecodeWakeCommand"; "]"]);
  ("DecodeRouteAdvertise", ["id OriginAgent"; "str OriginDisplayName"; "u64 Sequence"; "u8"; "for["; "u8 AddressFamily"; "u8 PrefixLength"; "bytes Prefix"; "u16 Metric"; "]"; "call DecodeEncryptedData"; "if["; "call DecodePath"; "]"; "ids SeenBy"]);
  ("DecodeRouteWithdraw", ["id OriginAgent"; "u64 Sequence"; "u8"; "for["; "u8 AddressFamily"; "u8 PrefixLength"; "bytes Prefix"; "u16 Metric"; "]"; "ids SeenBy"]);
  ("DecodeSleepCommand", ["id OriginAgent"; "u64 CommandID"; "u64 Timestamp"; "bytes"; "ids SeenBy"]);
  ("DecodeStreamOpen", ["u64 RequestID"; "u8 AddressType"; "if["; "else"; "]"; "bytes Address"; "u16 Port"; "u8 TTL"; "ids RemainingPath"; "key EphemeralPubKey"]);
  ("DecodeStreamOpenAck", ["u64 RequestID"; "u8 BoundAddrType"; "bytes BoundAddr"; "u16 BoundPort"; "key EphemeralPubKey"]);
  ("DecodeStreamOpenErr", ["u64 RequestID"; "u16 ErrorCode"; "str Message"]);
  ("DecodeStreamReset", ["u16 ErrorCode"]);
  ("DecodeUDPDatagram", ["u8 AddressType"; "if["; "else"; "]"; "bytes Address"; "u16 Port"; "u16"; "bytes Data"]);
  ("DecodeUDPOpen", ["u64 RequestID"; "u8 AddressType"; "if["; "else"; "]"; "bytes Address"; "u16 Port"; "u8 TTL"; "ids RemainingPath"; "key EphemeralPubKey"]);
  ("DecodeUDPOpenAck", ["u64 RequestID"; "u8 BoundAddrType"; "bytes BoundAddr"; "u16 BoundPort"; "key EphemeralPubKey"]);
  ("DecodeUDPOpenErr", ["u64 RequestID"; "u16 ErrorCode"; "str Message"]);
  ("DecodeWakeCommand", ["id OriginAgent"; "u64 CommandID"; "u64 Timestamp"; "bytes"; "ids SeenBy"]);
  ("EncodeEncryptedData", ["bool Encrypted"; "u16 len Data"; "bytes Data"]);
  ("EncodeNodeInfo", ["str DisplayName"; "str Hostname"; "str OS"; "str Arch"; "str Version"; "u64 StartTime"; "u8 len IPAddresses"; "for["; "str"; "]"; "u8 len"; "for["; "bytes PeerID"; "str Transport"; "u64 RTTMs"; "bool IsDialer"; "]"; "bytes PublicKey"; "bool UDPEnabled"; "u8 len"; "for["; "str Key"; "str Address"; "]"; "u8 len"; "for["; "str"; "]"; "bool FileTransferEnabled"; "bool ShellEnabled"; "bool IcmpEnabled"]);
  ("EncodePath", ["ids"]);
  ("ICMPEcho.Encode", ["u16 Identifier"; "u16 Sequence"; "bool IsReply"; "u8 len SrcIP"; "bytes SrcIP"; "u16 len Data"; "bytes Data"]);
  ("ICMPOpen.Encode", ["u64 RequestID"; "u8 len DestIP"; "bytes DestIP"; "u8 TTL"; "ids RemainingPath"; "bytes EphemeralPubKey"]);
  ("ICMPOpenAck.Encode", ["u64 RequestID"; "bytes EphemeralPubKey"]);
  ("ICMPOpenErr.Encode", ["u64 RequestID"; "u16 ErrorCode"; "str"]);
  ("Keepalive.Encode", ["u64 Timestamp"]);
  ("NodeInfoAdvertise.Encode", ["if["; "call EncodeNodeInfo"; "]"; "call EncodeEncryptedData"; "bytes OriginAgent"; "u64 Sequence"; "bytes"; "ids SeenBy"]);
  ("PeerHello.Encode", ["u16 Version"; "bytes AgentID"; "u64 Timestamp"; "str DisplayName"; "u8 len Capabilities"; "for["; "str"; "]"]);
  ("QueuedState.Encode", ["for["; "call .Encode"; "]"; "for["; "call .Encode"; "]"; "for["; "call .Encode"; "]"; "if["; "call SleepCmd.Encode"; "]"; "if["; "call WakeCmd.Encode"; "]"; "u16 len Routes"; "for["; "u16 len"; "bytes"; "]"; "u16 len Withdraws"; "for["; "u16 len"; "bytes"; "]"; "u16 len NodeInfos"; "for["; "u16 len"; "bytes"; "]"; "if["; "bool"; "bytes"; "else"; "bool"; "]"; "if["; "bool"; "bytes"; "else"; "bool"; "]"]);
  ("Route.Encode", ["u8 AddressFamily"; "u8 PrefixLength"; "bytes Prefix"; "u16 Metric"]);
  ("RouteAdvertise.Encode", ["if["; "call EncodePath"; "]"; "call EncodeEncryptedData"; "bytes OriginAgent"; "str OriginDisplayName"; "u64 Sequence"; "u8 len Routes"; "for["; "u8 AddressFamily"; "u8 PrefixLength"; "bytes Prefix"; "u16 Metric"; "]"; "bytes"; "ids SeenBy"]);
  ("RouteWithdraw.Encode", ["bytes OriginAgent"; "u64 Sequence"; "u8 len Routes"; "for["; "u8 AddressFamily"; "u8 PrefixLength"; "bytes Prefix"; "u16 Metric"; "]"; "ids SeenBy"]);
  ("SleepCommand.Encode", ["bytes OriginAgent"; "u64 CommandID"; "u64 Timestamp"; "bytes Signature"; "ids SeenBy"]);
  ("SleepCommand.SignableBytes", ["bytes OriginAgent"; "u64 CommandID"; "u64 Timestamp"]);
  ("StreamOpen.Encode", ["u64 RequestID"; "u8 AddressType"; "bytes Address"; "u16 Port"; "u8 TTL"; "ids RemainingPath"; "bytes EphemeralPubKey"]);
  ("StreamOpenAck.Encode", ["u64 RequestID"; "u8 BoundAddrType"; "bytes BoundAddr"; "u16 BoundPort"; "bytes EphemeralPubKey"]);
  ("StreamOpenErr.Encode", ["u64 RequestID"; "u16 ErrorCode"; "str"]);
  ("StreamReset.Encode", ["u16 ErrorCode"]);
  ("UDPDatagram.Encode", ["u8 AddressType"; "bytes Address"; "u16 Port"; "u16 len Data"; "bytes Data"]);
  ("UDPOpen.Encode", ["u64 RequestID"; "u8 AddressType"; "bytes Address"; "u16 Port"; "u8 TTL"; "ids RemainingPath"; "bytes EphemeralPubKey"]);
  ("UDPOpenAck.Encode", ["u64 RequestID"; "u8 BoundAddrType"; "bytes BoundAddr"; "u16 BoundPort"; "bytes EphemeralPubKey"]);
  ("UDPOpenErr.Encode", ["u64 RequestID"; "u16 ErrorCode"; "str"]);
  ("WakeCommand.Encode", ["bytes OriginAgent"; "u64 CommandID"; "u64 Timestamp"; "bytes Signature"; "ids SeenBy"]);
  ("WakeCommand.SignableBytes", ["bytes OriginAgent"; "u64 CommandID"; "u64 Timestamp"])].

(** inner bounds checks (incl. the payload-size limit), buffer index/slice expressions, offset
    computations and make() calls of every decoder, reader primitive, prefix helper and of
    FrameReader.Read, in source order *)
Definition model_bounds : list (string * list string) := [
  ("Decode", ["call DecodeHeader(buf)"; "if len(buf) < HeaderSize+int(length)"; "call make([]byte, length)"; "slice buf[HeaderSize : HeaderSize+length]"]);
  ("DecodeAgentPrefix", ["if len(prefix) < identity.IDSize"; "slice prefix[:identity.IDSize]"]);
  ("DecodeControlRequest", ["if len(buf) < 30"]);
  ("DecodeControlResponse", ["if len(buf) < 12"]);
  ("DecodeDomainPrefix", ["if len(prefix) < 1"; "idx prefix[0]"; "if len(prefix) < 1+domainLen"; "slice prefix[1 : 1+domainLen]"]);
  ("DecodeEncryptedData", ["if len(buf) < 3"]);
  ("DecodeForwardKey", ["if len(prefix) < 1"; "idx prefix[0]"; "if len(prefix) < 1+keyLen"; "slice prefix[1 : 1+keyLen]"]);
  ("DecodeForwardKeyAndTarget", ["if len(prefix) < 1"; "idx prefix[0]"; "if len(prefix) < 1+keyLen"; "slice prefix[1 : 1+keyLen]"; "set targetOffset := 1 + keyLen"; "if len(prefix) < targetOffset+1"; "idx prefix[targetOffset]"; "if len(prefix) < targetOffset+1+targetLen"; "slice prefix[targetOffset+1 : targetOffset+1+targetLen]"]);
  ("DecodeHeader", ["if len(buf) < HeaderSize"; "idx buf[0]"; "idx buf[1]"; "slice buf[2:6]"; "slice buf[6:14]"; "if length > MaxPayloadSize"]);
  ("DecodeICMPClose", ["if len(buf) < 1"; "idx buf[0]"]);
  ("DecodeICMPEcho", ["if len(buf) < 8"]);
  ("DecodeICMPOpen", ["if len(buf) < 11+EphemeralKeySize"]);
  ("DecodeICMPOpenAck", ["if len(buf) < 8+EphemeralKeySize"]);
  ("DecodeICMPOpenErr", ["if len(buf) < 11"]);
  ("DecodeKeepalive", ["if len(buf) < 8"]);
  ("DecodeNodeInfo", ["if len(buf) < 5+EphemeralKeySize"; "call make([]string, ipCount)"; "call make([]PeerConnectionInfo, 0, peerCount)"; "if r.remaining() < 16"; "if r.remaining() < 9"; "if r.remaining() > 0"; "if r.remaining() > 0"; "call make([]ForwardListenerInfo, 0, listenerCount)"; "for i < listenerCount && r.remaining() > 0"; "if r.remaining() < 1"; "if r.remaining() > 0"; "call make([]string, 0, shellCount)"; "for i < shellCount && r.remaining() > 0"; "if r.remaining() > 0"; "if r.remaining() > 0"; "if r.remaining() > 0"]);
  ("DecodeNodeInfoAdvertise", ["if len(buf) < 28"; "slice buf[r.offset:]"; "set r.offset += consumed"]);
  ("DecodePath", ["if len(buf) < 1"]);
  ("DecodePeerHello", ["if len(buf) < 28"; "call make([]string, 0, capLen)"]);
  ("DecodeQueuedState", ["if len(buf) < 8"; "call make([]RouteAdvertise, 0, r.capFor(routeCount, 28))"; "call make([]RouteWithdraw, 0, r.capFor(withdrawCount, 26))"; "call make([]NodeInfoAdvertise, 0, r.capFor(nodeInfoCount, 28))"; "set sleepData := r.buf[r.offset:]"; "slice r.buf[r.offset:]"; "set r.offset += 16 + 8 + 8 + SignatureSize + 1 + len(sleepCmd.SeenBy)*16"; "set wakeData := r.buf[r.offset:]"; "slice r.buf[r.offset:]"]);
  ("DecodeRouteAdvertise", ["if len(buf) < 28"; "call make([]Route, routeCount)"; "if rd.offset >= len(buf)"; "idx buf[rd.offset]"; "if rd.offset >= len(buf)"; "idx buf[rd.offset]"; "set targetLenOffset := rd.offset + 1 + keyLen"; "if targetLenOffset >= len(buf)"; "idx buf[targetLenOffset]"; "slice buf[rd.offset:]"; "set rd.offset += consumed"]);
  ("DecodeRouteWithdraw", ["if len(buf) < 26"; "call make([]Route, routeCount)"]);
  ("DecodeSleepCommand", ["if len(buf) < 16+8+8+SignatureSize+1"]);
  ("DecodeStreamOpen", ["if len(buf) < 13+EphemeralKeySize"; "if r.offset >= len(buf)"; "idx buf[r.offset]"]);
  ("DecodeStreamOpenAck", ["if len(buf) < 11+EphemeralKeySize"]);
  ("DecodeStreamOpenErr", ["if len(buf) < 11"]);
  ("DecodeStreamReset", ["if len(buf) < 2"]);
  ("DecodeUDPClose", ["if len(buf) < 1"; "idx buf[0]"]);
  ("DecodeUDPDatagram", ["if len(buf) < 6"; "if r.offset >= len(buf)"; "idx buf[r.offset]"]);
  ("DecodeUDPOpen", ["if len(buf) < 13+EphemeralKeySize"; "if r.offset >= len(buf)"; "idx buf[r.offset]"]);
  ("DecodeUDPOpenAck", ["if len(buf) < 11+EphemeralKeySize"]);
  ("DecodeUDPOpenErr", ["if len(buf) < 11"]);
  ("DecodeWakeCommand", ["if len(buf) < 16+8+8+SignatureSize+1"]);
  ("FrameReader.Read", ["slice fr.header[:]"; "call DecodeHeader(fr.header[:])"; "slice fr.header[:]"; "call make([]byte, length)"]);
  ("bufferReader.readAgentID", ["if r.err != nil || r.offset+16 > len(r.buf)"; "slice r.buf[r.offset : r.offset+16]"; "set r.offset += 16"]);
  ("bufferReader.readAgentIDs", ["call make([]identity.AgentID, count)"]);
  ("bufferReader.readBytes", ["if r.err != nil || r.offset+n > len(r.buf)"; "call make([]byte, n)"; "slice r.buf[r.offset : r.offset+n]"; "set r.offset += n"]);
  ("bufferReader.readEphemeralKey", ["if r.err != nil || r.offset+EphemeralKeySize > len(r.buf)"; "slice r.buf[r.offset : r.offset+EphemeralKeySize]"; "set r.offset += EphemeralKeySize"]);
  ("bufferReader.readString", ["if r.offset+length > len(r.buf)"; "slice r.buf[r.offset : r.offset+length]"; "set r.offset += length"]);
  ("bufferReader.readUint16", ["if r.err != nil || r.offset+2 > len(r.buf)"; "slice r.buf[r.offset:]"; "set r.offset += 2"]);
  ("bufferReader.readUint32", ["if r.err != nil || r.offset+4 > len(r.buf)"; "slice r.buf[r.offset:]"; "set r.offset += 4"]);
  ("bufferReader.readUint64", ["if r.err != nil || r.offset+8 > len(r.buf)"; "slice r.buf[r.offset:]"; "set r.offset += 8"]);
  ("bufferReader.readUint8", ["if r.err != nil || r.offset >= len(r.buf)"; "set v := r.buf[r.offset]"; "idx r.buf[r.offset]"; "set r.offset++"])].
