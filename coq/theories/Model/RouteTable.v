(** Executable model of the four route tables of internal/routing and of the
    routing.Manager operations that drive them (table.go, domain.go,
    forward.go, agent.go, manager.go), as the code is after the repair
    "fix: key and store CIDR routes by their canonical network".
    The behaviour before that repair is modelled separately at the end of
    this file (names ending in [_pre_fix]).

    Conventions.  Agent identifiers, metrics, sequence numbers and times are
    [N].  Strings are lists of byte values ([list N], ASCII).  A Go map from
    keys to route slices is an association list [table]; no function below
    depends on the order of its buckets except the CIDR lookup, which scans
    the buckets the way the Go code ranges over the map (the theorems show the
    result does not depend on that order).  [sort.Slice] is unstable in
    general, but for at most 12 elements it is an insertion sort, i.e. a
    stable sort; [isort] below is that stable insertion sort.  The sorting
    function is a parameter [srt] of every operation: the theorems hold for
    every function that returns a metric-sorted permutation of its argument
    ([sorter_ok]); the correspondence check instantiates it with [isort] and
    keeps buckets at 12 entries or fewer.  No proofs here. *)
From Coq Require Import List NArith Bool.
Import ListNotations.
Local Open Scope N_scope.

(* ------------------------------------------------------------------ *)
(** * Route entries and buckets (common to the four tables) *)

Record entry (D : Type) : Type := mkE {
  e_origin : N;        (* OriginAgent *)
  e_nexthop : N;       (* NextHop *)
  e_metric : N;        (* Metric, uint16 *)
  e_seq : N;           (* Sequence, uint64 *)
  e_path : list N;     (* Path (visible path) *)
  e_last : N;          (* LastUpdate, ms of virtual time *)
  e_data : D           (* table specific: stored network / pattern / target *)
}.
Arguments mkE {D}.
Arguments e_origin {D}. Arguments e_nexthop {D}. Arguments e_metric {D}.
Arguments e_seq {D}. Arguments e_path {D}. Arguments e_last {D}. Arguments e_data {D}.

Section Buckets.
  Context {D : Type}.
  (** [same x r]: x occupies the slot r would go to (same origin; in the
      agent table same origin and same next hop) *)
  Variable same : entry D -> entry D -> bool.
  (** sortRoutes (sort.Slice by metric) *)
  Variable srt : list (entry D) -> list (entry D).

  (** the update rule of AddRoute: newer sequence, or same sequence and
      strictly lower metric *)
  Definition newer (r old : entry D) : bool :=
    (e_seq old <? e_seq r) || ((e_seq r =? e_seq old) && (e_metric r <? e_metric old)).

  (** stable insertion sort by metric: what sort.Slice is for <= 12 elements *)
  Fixpoint ins (x : entry D) (l : list (entry D)) : list (entry D) :=
    match l with
    | [] => [x]
    | y :: l' => if e_metric y <? e_metric x then y :: ins x l' else x :: y :: l'
    end.
  Fixpoint isort (l : list (entry D)) : list (entry D) :=
    match l with
    | [] => []
    | x :: l' => ins x (isort l')
    end.

  (** the loop of AddRoute over the existing slice: [None] = rejected
      (older/worse), otherwise the slice with the slot replaced or the route
      appended, before sorting *)
  Fixpoint bucket_put (r : entry D) (b : list (entry D)) : option (list (entry D)) :=
    match b with
    | [] => Some [r]
    | x :: b' =>
        if same x r then (if newer r x then Some (r :: b') else None)
        else match bucket_put r b' with Some b'' => Some (x :: b'') | None => None end
    end.

  Definition bucket_add (r : entry D) (b : list (entry D)) : option (list (entry D)) :=
    match bucket_put r b with Some b' => Some (srt b') | None => None end.

  (** RemoveRoute: delete the first entry of that origin *)
  Fixpoint bucket_remove (o : N) (b : list (entry D)) : option (list (entry D)) :=
    match b with
    | [] => None
    | x :: b' =>
        if e_origin x =? o then Some b'
        else match bucket_remove o b' with Some b'' => Some (x :: b'') | None => None end
    end.

  (** RemoveRoutesFromPeer keeps ... *)
  Definition keep_peer (p : N) (x : entry D) : bool := negb (e_nexthop x =? p).
  (** CleanupStaleRoutes keeps ... (now.Sub(LastUpdate) <= maxAge) *)
  Definition keep_fresh (local now maxage : N) (x : entry D) : bool :=
    (e_origin x =? local) || (now - e_last x <=? maxage).
End Buckets.

(* ------------------------------------------------------------------ *)
(** * Tables: association lists key -> non-empty bucket *)

Section Tables.
  Context {K D : Type}.
  Variable keqb : K -> K -> bool.
  Variable same : entry D -> entry D -> bool.
  Variable srt : list (entry D) -> list (entry D).

  Definition table := list (K * list (entry D)).

  Fixpoint tget (k : K) (t : table) : list (entry D) :=
    match t with
    | [] => []
    | (k', b) :: t' => if keqb k k' then b else tget k t'
    end.

  (** store bucket b under k; an empty bucket deletes the key *)
  Fixpoint tset (k : K) (b : list (entry D)) (t : table) : table :=
    match t with
    | [] => match b with [] => [] | _ => [(k, b)] end
    | (k', b') :: t' =>
        if keqb k k' then (match b with [] => t' | _ => (k, b) :: t' end)
        else (k', b') :: tset k b t'
    end.

  Definition tadd (k : K) (r : entry D) (t : table) : table * bool :=
    match bucket_add same srt r (tget k t) with
    | Some b => (tset k b t, true)
    | None => (t, false)
    end.

  Definition tremove (k : K) (o : N) (t : table) : table * bool :=
    match bucket_remove o (tget k t) with
    | Some b => (tset k b t, true)
    | None => (t, false)
    end.

  Fixpoint tfilter (f : entry D -> bool) (t : table) : table :=
    match t with
    | [] => []
    | (k, b) :: t' =>
        match filter f b with
        | [] => tfilter f t'
        | b' => (k, b') :: tfilter f t'
        end
    end.

  Fixpoint tcount (t : table) : N :=
    match t with
    | [] => 0
    | (_, b) :: t' => N.of_nat (length b) + tcount t'
    end.

  (** all entries with their keys *)
  Fixpoint tall (t : table) : list (K * entry D) :=
    match t with
    | [] => []
    | (k, b) :: t' => map (fun x => (k, x)) b ++ tall t'
    end.

  (** Lookup of the keyed tables: first of the bucket *)
  Definition tlookup (k : K) (t : table) : option (entry D) :=
    match tget k t with [] => None | x :: _ => Some x end.
End Tables.
Arguments table : clear implicits.

(** a sorting function for the buckets of every table *)
Definition sorter : Type := forall D : Type, list (entry D) -> list (entry D).

Definition same_origin {D} (x r : entry D) : bool := e_origin x =? e_origin r.
Definition same_origin_nexthop {D} (x r : entry D) : bool :=
  (e_origin x =? e_origin r) && (e_nexthop x =? e_nexthop r).

(** loop check of every AddRoute: is the local id in the path *)
Definition path_has (local : N) (path : list N) : bool := existsb (N.eqb local) path.

(* ------------------------------------------------------------------ *)
(** * Networks *)

(** a network as delivered by the wire decoder or net.ParseCIDR: family 4 or
    6, address value, prefix length as carried (0..255) *)
Record rawnet := mkRaw { rn_fam : N; rn_ip : N; rn_ones : N }.

(** a prefix: family (4|6), address, length *)
Record prefix := mkP { p_fam : N; p_ip : N; p_len : N }.

Definition fbits (f : N) : N := if f =? 4 then 32 else 128.

Definition prefix_eqb (a b : prefix) : bool :=
  (p_fam a =? p_fam b) && (p_ip a =? p_ip b) && (p_len a =? p_len b).

Definition two32 : N := 4294967296.
Definition two64 : N := 18446744073709551616.

(** low n bits / drop low n bits (x mod 2^n, x / 2^n) *)
Definition lowbits (n x : N) : N := N.land x (N.ones n).

(** what net.IPNet.String() identifies ("<nil>" = None): the address is NOT
    masked; a 16-byte IPv4-mapped address prints as the IPv4 network whose
    mask is the last four bytes of the 16-byte mask *)
Definition strkey (r : rawnet) : option prefix :=
  if rn_fam r =? 4 then
    (if rn_ones r <=? 32 then Some (mkP 4 (lowbits 32 (rn_ip r)) (rn_ones r)) else None)
  else
    let ip := lowbits 128 (rn_ip r) in
    if 128 <? rn_ones r then None
    else if N.shiftr ip 32 =? 65535 then
      (* networkNumberAndMask keeps the last 4 mask bytes: length max(0, ones-96)
         (truncated subtraction) *)
      Some (mkP 4 (lowbits 32 ip) (rn_ones r - 96))
    else Some (mkP 6 ip (rn_ones r)).

(** clear the host bits *)
Definition mask_ip (f ip len : N) : N :=
  let sh := fbits f - len in N.shiftl (N.shiftr ip sh) sh.

Definition mask_prefix (p : prefix) : prefix := mkP (p_fam p) (mask_ip (p_fam p) (p_ip p) (p_len p)) (p_len p).

(** canonicalNetwork: net.ParseCIDR of the printed form *)
Definition canon (r : rawnet) : option prefix :=
  match strkey r with Some p => Some (mask_prefix p) | None => None end.

(** a destination address after net.IP.To16 / To4: family and value *)
Definition addr := (N * N)%type.

(** lookup argument: is16 = 0 (4 bytes), 1 (16 bytes), other = malformed *)
Definition addr_norm (is16 a : N) : option addr :=
  if is16 =? 0 then Some (4, lowbits 32 a)
  else if is16 =? 1 then
    let a := lowbits 128 a in
    if N.shiftr a 32 =? 65535 then Some (4, lowbits 32 a) else Some (6, a)
  else None.

(** net.IPNet.Contains for a prefix: same family, same network bits *)
Definition contains (p : prefix) (a : addr) : bool :=
  let sh := fbits (p_fam p) - p_len p in
  (p_fam p =? fst a) && (N.shiftr (snd a) sh =? N.shiftr (p_ip p) sh).

(* ------------------------------------------------------------------ *)
(** * CIDR table *)

Section CidrLookup.
  (** generic in what is stored, so that the pre-fix table can reuse it *)
  Context {K D : Type}.
  Variable d_contains : D -> addr -> bool.   (* first.Network.Contains(ip) *)
  Variable d_ones : D -> N.                  (* first.Network.Mask.Size() *)

  (** lookupUnlocked: range over the map; best = None plays bestPrefixLen = -1 *)
  Fixpoint lpm_scan (t : table K D) (a : addr) (best : option (entry D)) : option (entry D) :=
    match t with
    | [] => best
    | (_, []) :: t' => lpm_scan t' a best
    | (_, first :: _) :: t' =>
        if d_contains (e_data first) a then
          match best with
          | None => lpm_scan t' a (Some first)
          | Some b =>
              if d_ones (e_data b) <? d_ones (e_data first)
              then lpm_scan t' a (Some first) else lpm_scan t' a best
          end
        else lpm_scan t' a best
    end.
End CidrLookup.

Definition ctable := table prefix prefix.

Definition cidr_lookup (t : ctable) (a : addr) : option (entry prefix) :=
  lpm_scan contains p_len t a None.

(** Table.AddRoute *)
Definition cidr_add (srt : sorter) (local now : N) (t : ctable) (raw : rawnet)
           (nexthop origin metric seq : N) (path : list N) : ctable * bool :=
  match canon raw with
  | None => (t, false)
  | Some p =>
      if path_has local path then (t, false)
      else tadd prefix_eqb same_origin (srt prefix) p (mkE origin nexthop metric seq path now p) t
  end.

(** Table.RemoveRoute: networkKey falls back to the printed form, which no
    stored key equals when the network is not canonicalisable *)
Definition cidr_remove (t : ctable) (raw : rawnet) (origin : N) : ctable * bool :=
  match canon raw with
  | None => (t, false)
  | Some p => tremove prefix_eqb p origin t
  end.

(* ------------------------------------------------------------------ *)
(** * Strings (ASCII) and domain patterns *)

Definition str := list N.

Fixpoint str_eqb (a b : str) : bool :=
  match a, b with
  | [], [] => true
  | x :: a', y :: b' => (x =? y) && str_eqb a' b'
  | _, _ => false
  end.

Definition lower_c (c : N) : N := if (65 <=? c) && (c <=? 90) then c + 32 else c.
Definition lower (s : str) : str := map lower_c s.

Definition is_space (c : N) : bool := ((9 <=? c) && (c <=? 13)) || (c =? 32).
Fixpoint drop_space (s : str) : str :=
  match s with
  | c :: s' => if is_space c then drop_space s' else s
  | [] => []
  end.
Definition trim (s : str) : str := rev (drop_space (rev (drop_space s))).

Definition dot : N := 46.
Definition star : N := 42.

(** ParseDomainPattern *)
Definition parse_pattern (pat : str) : bool * str :=
  match trim pat with
  | a :: b :: rest => if (a =? star) && (b =? dot) then (true, rest) else (false, trim pat)
  | t => (false, t)
  end.

(** split at the first dot: label and the rest after the dot *)
Fixpoint split_dot (s : str) : option (str * str) :=
  match s with
  | [] => None
  | c :: s' =>
      if c =? dot then Some ([], s')
      else match split_dot s' with Some (l, r) => Some (c :: l, r) | None => None end
  end.

Fixpoint has_dotdot (s : str) : bool :=
  match s with
  | a :: ((b :: _) as s') => ((a =? dot) && (b =? dot)) || has_dotdot s'
  | _ => false
  end.

Definition valid_char (c : N) : bool :=
  ((97 <=? c) && (c <=? 122)) || ((65 <=? c) && (c <=? 90)) || ((48 <=? c) && (c <=? 57)) || (c =? 45) || (c =? dot).

(** ValidateDomainPattern (nil error = true) *)
Definition valid_pattern (pat : str) : bool :=
  match pat with
  | [] => false
  | _ =>
      let '(w, base) := parse_pattern pat in
      let d := if w then base else pat in
      match d with
      | [] => false
      | c :: _ =>
          negb (c =? dot) && negb (last d 0 =? dot) && negb (has_dotdot d)
          && forallb valid_char d && existsb (N.eqb dot) d
      end
  end.

(** stored data of a domain route *)
Record drec := mkDR { dr_pattern : str; dr_wild : bool; dr_base : str }.

Definition dtable := table str drec.

(** lookupUnlocked of the domain table *)
Definition domain_lookup (exact wild : dtable) (name : str) : option (entry drec) :=
  let d := lower name in
  match tget str_eqb d exact with
  | x :: _ => Some x
  | [] =>
      match split_dot d with
      | Some (label, base) =>
          match label, base with
          | _ :: _, _ :: _ =>
              match tget str_eqb base wild with x :: _ => Some x | [] => None end
          | _, _ => None
          end
      | None => None
      end
  end.

(** DomainTable.AddRoute with the (IsWildcard, BaseDomain) the manager derives
    from the pattern; the result says into which map the route went *)
Definition domain_add (srt : sorter) (local now : N) (exact wild : dtable) (pat : str)
           (nexthop origin metric seq : N) (path : list N) : dtable * dtable * bool :=
  match pat with
  | [] => (exact, wild, false)
  | _ =>
      if path_has local path then (exact, wild, false)
      else
        let '(w, base) := parse_pattern pat in
        let r := mkE origin nexthop metric seq path now (mkDR pat w base) in
        if w then let '(t, ok) := tadd str_eqb same_origin (srt drec) (lower base) r wild in (exact, t, ok)
        else let '(t, ok) := tadd str_eqb same_origin (srt drec) (lower pat) r exact in (t, wild, ok)
  end.

(** DomainTable.RemoveRoute *)
Definition domain_remove (exact wild : dtable) (pat : str) (origin : N) : dtable * dtable * bool :=
  match pat with
  | [] => (exact, wild, false)
  | _ =>
      let '(w, base) := parse_pattern pat in
      if w then let '(t, ok) := tremove str_eqb (lower base) origin wild in (exact, t, ok)
      else let '(t, ok) := tremove str_eqb (lower pat) origin exact in (t, wild, ok)
  end.

(* ------------------------------------------------------------------ *)
(** * Forward and agent tables *)

Definition ftable := table str str.      (* key -> routes carrying the target *)
Definition atable := table N unit.       (* agent id -> routes *)

Definition fwd_add (srt : sorter) (local now : N) (t : ftable) (key target : str)
           (nexthop origin metric seq : N) (path : list N) : ftable * bool :=
  match key with
  | [] => (t, false)
  | _ => if path_has local path then (t, false)
         else tadd str_eqb same_origin (srt str) key (mkE origin nexthop metric seq path now target) t
  end.

Definition fwd_remove (t : ftable) (key : str) (origin : N) : ftable * bool :=
  match key with
  | [] => (t, false)
  | _ => tremove str_eqb key origin t
  end.

Definition agent_add (srt : sorter) (local now : N) (t : atable) (agent nexthop origin metric seq : N)
           (path : list N) : atable * bool :=
  if path_has local path then (t, false)
  else tadd N.eqb same_origin_nexthop (srt unit) agent (mkE origin nexthop metric seq path now tt) t.

Definition agent_remove (t : atable) (agent origin : N) : atable * bool :=
  tremove N.eqb agent origin t.

(* ------------------------------------------------------------------ *)
(** * The manager *)

Record mgr := mkM {
  m_now : N;                     (* virtual clock, ms *)
  m_seq : N;                     (* Manager.sequence *)
  m_cidr : ctable;
  m_dexact : dtable;
  m_dwild : dtable;
  m_fwd : ftable;
  m_agent : atable;
  m_local : list (option prefix);   (* keys of localRoutes (printed networks) *)
  m_dyn : list (option prefix);     (* keys of dynamicRoutes *)
  m_ldom : list str;                (* keys of localDomains *)
  m_lfwd : list str                 (* keys of localForwards *)
}.

Definition mgr_init : mgr := mkM 0 0 [] [] [] [] [] [] [] [] [].

Definition okey_eqb (a b : option prefix) : bool :=
  match a, b with
  | None, None => true
  | Some x, Some y => prefix_eqb x y
  | _, _ => false
  end.

Section Sets.
  Context {A : Type} (eqb : A -> A -> bool).
  Definition mem (x : A) (l : list A) : bool := existsb (eqb x) l.
  Definition sadd (x : A) (l : list A) : list A := if mem x l then l else l ++ [x].
  Definition sdel (x : A) (l : list A) : list A := filter (fun y => negb (eqb x y)) l.
End Sets.

Inductive op :=
| OAdv (peer origin seq : N) (path : list N) (ents : list (rawnet * N))
| OWd (origin : N) (ents : list rawnet)
| ODisc (peer : N)
| OClean (maxage : N)
| OTick (ms : N)
| OAddLocal (n : rawnet) (metric : N)
| ORmLocal (n : rawnet)
| OAddDyn (n : rawnet) (metric : N)
| ORmDyn (n : rawnet)
| OTAdd (nexthop origin seq metric : N) (path : list N) (n : rawnet)
| OTRm (origin : N) (n : rawnet)
| ODAdv (peer origin seq : N) (path : list N) (ents : list (N * str))
| ODDisc (peer : N)
| ODClean (maxage : N)
| ODAddLocal (metric : N) (pat : str)
| ODRmLocal (pat : str)
| ODTRm (origin : N) (pat : str)
| OFAdv (peer origin seq : N) (path : list N) (ents : list (N * str * str))
| OFDisc (peer : N)
| OFClean (maxage : N)
| OFAddLocal (metric : N) (key target : str)
| OFRmLocal (key : str)
| OFTRm (origin : N) (key : str)
| OAAdv (peer origin seq agent metric : N) (path : list N)
| OADisc (peer : N)
| OAClean (maxage : N)
| OATRm (agent origin : N)
| OLookup (is16 a : N)
| ODLookup (name : str)
| OFLookup (key : str)
| OALookup (agent : N).

Definition u16 (x : N) : N := x mod 65536.
Definition b2n (b : bool) : N := if b then 1 else 0.

(** what a lookup returned *)
Inductive found :=
| FNone
| FCidr (r : entry prefix)
| FDom (r : entry drec)
| FFwd (k : str) (r : entry str)
| FAgent (k : N) (r : entry unit).

Section Manager.
  Variable local : N.
  Variable srt : sorter.

  Definition set_cidr (m : mgr) (t : ctable) : mgr :=
    mkM (m_now m) (m_seq m) t (m_dexact m) (m_dwild m) (m_fwd m) (m_agent m) (m_local m) (m_dyn m) (m_ldom m) (m_lfwd m).
  Definition set_dom (m : mgr) (e w : dtable) : mgr :=
    mkM (m_now m) (m_seq m) (m_cidr m) e w (m_fwd m) (m_agent m) (m_local m) (m_dyn m) (m_ldom m) (m_lfwd m).
  Definition set_fwd (m : mgr) (t : ftable) : mgr :=
    mkM (m_now m) (m_seq m) (m_cidr m) (m_dexact m) (m_dwild m) t (m_agent m) (m_local m) (m_dyn m) (m_ldom m) (m_lfwd m).
  Definition set_agent (m : mgr) (t : atable) : mgr :=
    mkM (m_now m) (m_seq m) (m_cidr m) (m_dexact m) (m_dwild m) (m_fwd m) t (m_local m) (m_dyn m) (m_ldom m) (m_lfwd m).
  Definition set_meta (m : mgr) (seq : N) (l d : list (option prefix)) (ld lf : list str) : mgr :=
    mkM (m_now m) seq (m_cidr m) (m_dexact m) (m_dwild m) (m_fwd m) (m_agent m) l d ld lf.
  Definition set_now (m : mgr) (now : N) : mgr :=
    mkM now (m_seq m) (m_cidr m) (m_dexact m) (m_dwild m) (m_fwd m) (m_agent m) (m_local m) (m_dyn m) (m_ldom m) (m_lfwd m).

  (** ProcessRouteAdvertise: one AddRoute per entry with metric+1 (uint16) *)
  Fixpoint adv_cidr (now : N) (t : ctable) (peer origin seq : N) (path : list N)
           (ents : list (rawnet * N)) : ctable * N :=
    match ents with
    | [] => (t, 0)
    | (n, metric) :: ents' =>
        let '(t1, ok) := cidr_add srt local now t n peer origin (u16 (metric + 1)) seq path in
        let '(t2, c) := adv_cidr now t1 peer origin seq path ents' in
        (t2, b2n ok + c)
    end.

  Fixpoint wd_cidr (t : ctable) (origin : N) (ents : list rawnet) : ctable * bool :=
    match ents with
    | [] => (t, false)
    | n :: ents' =>
        let '(t1, ok) := cidr_remove t n origin in
        let '(t2, ok') := wd_cidr t1 origin ents' in
        (t2, ok || ok')
    end.

  Fixpoint adv_dom (now : N) (e w : dtable) (peer origin seq : N) (path : list N)
           (ents : list (N * str)) : dtable * dtable * N :=
    match ents with
    | [] => (e, w, 0)
    | (metric, pat) :: ents' =>
        let '(e1, w1, ok) := domain_add srt local now e w pat peer origin (u16 (metric + 1)) seq path in
        let '(e2, w2, c) := adv_dom now e1 w1 peer origin seq path ents' in
        (e2, w2, b2n ok + c)
    end.

  Fixpoint adv_fwd (now : N) (t : ftable) (peer origin seq : N) (path : list N)
           (ents : list (N * str * str)) : ftable * N :=
    match ents with
    | [] => (t, 0)
    | (metric, key, target) :: ents' =>
        let '(t1, ok) := fwd_add srt local now t key target peer origin (u16 (metric + 1)) seq path in
        let '(t2, c) := adv_fwd now t1 peer origin seq path ents' in
        (t2, b2n ok + c)
    end.

  Definition is_nil {A} (l : list A) : bool := match l with [] => true | _ => false end.

  (** one operation: new state and projected result.  Lookups return the
      looked-up route (third component) and result 0. *)
  Definition step (m : mgr) (o : op) : mgr * N * found :=
    let now := m_now m in
    match o with
    | OAdv peer origin seq path ents =>
        let '(t, c) := adv_cidr now (m_cidr m) peer origin seq path ents in (set_cidr m t, c, FNone)
    | OWd origin ents =>
        let '(t, ok) := wd_cidr (m_cidr m) origin ents in (set_cidr m t, b2n ok, FNone)
    | ODisc peer =>
        let t := tfilter (keep_peer peer) (m_cidr m) in
        (set_cidr m t, tcount (m_cidr m) - tcount t, FNone)
    | OClean maxage =>
        let t := tfilter (keep_fresh local now maxage) (m_cidr m) in
        (set_cidr m t, tcount (m_cidr m) - tcount t, FNone)
    | OTick ms => (set_now m (now + ms), 0, FNone)
    | OAddLocal n metric =>
        let k := strkey n in
        let seq := m_seq m + 1 in
        let m1 := set_meta m seq (sadd okey_eqb k (m_local m)) (m_dyn m) (m_ldom m) (m_lfwd m) in
        let '(t, ok) := cidr_add srt local now (m_cidr m) n local local metric seq [] in
        (set_cidr m1 t, b2n ok, FNone)
    | ORmLocal n =>
        let k := strkey n in
        if mem okey_eqb k (m_local m) then
          let m1 := set_meta m (m_seq m) (sdel okey_eqb k (m_local m)) (m_dyn m) (m_ldom m) (m_lfwd m) in
          let '(t, ok) := cidr_remove (m_cidr m) n local in
          (set_cidr m1 t, b2n ok, FNone)
        else (m, 0, FNone)
    | OAddDyn n metric =>
        let k := strkey n in
        if mem okey_eqb k (m_local m) && negb (mem okey_eqb k (m_dyn m)) then (m, 1, FNone)
        else
          let seq := m_seq m + 1 in
          let m1 := set_meta m seq (sadd okey_eqb k (m_local m)) (sadd okey_eqb k (m_dyn m)) (m_ldom m) (m_lfwd m) in
          let '(t, _) := cidr_add srt local now (m_cidr m) n local local metric seq [] in
          (set_cidr m1 t, 0, FNone)
    | ORmDyn n =>
        let k := strkey n in
        if mem okey_eqb k (m_dyn m) then
          let m1 := set_meta m (m_seq m) (sdel okey_eqb k (m_local m)) (sdel okey_eqb k (m_dyn m)) (m_ldom m) (m_lfwd m) in
          let '(t, _) := cidr_remove (m_cidr m) n local in
          (set_cidr m1 t, 0, FNone)
        else (m, if mem okey_eqb k (m_local m) then 1 else 2, FNone)
    | OTAdd nexthop origin seq metric path n =>
        let '(t, ok) := cidr_add srt local now (m_cidr m) n nexthop origin metric seq path in
        (set_cidr m t, b2n ok, FNone)
    | OTRm origin n =>
        let '(t, ok) := cidr_remove (m_cidr m) n origin in (set_cidr m t, b2n ok, FNone)

    | ODAdv peer origin seq path ents =>
        let '(e, w, c) := adv_dom now (m_dexact m) (m_dwild m) peer origin seq path ents in
        (set_dom m e w, c, FNone)
    | ODDisc peer =>
        let e := tfilter (keep_peer peer) (m_dexact m) in
        let w := tfilter (keep_peer peer) (m_dwild m) in
        (set_dom m e w, (tcount (m_dexact m) - tcount e) + (tcount (m_dwild m) - tcount w), FNone)
    | ODClean maxage =>
        let e := tfilter (keep_fresh local now maxage) (m_dexact m) in
        let w := tfilter (keep_fresh local now maxage) (m_dwild m) in
        (set_dom m e w, (tcount (m_dexact m) - tcount e) + (tcount (m_dwild m) - tcount w), FNone)
    | ODAddLocal metric pat =>
        if is_nil pat || negb (valid_pattern pat) then (m, 0, FNone)
        else
          let seq := m_seq m + 1 in
          let m1 := set_meta m seq (m_local m) (m_dyn m) (sadd str_eqb pat (m_ldom m)) (m_lfwd m) in
          let '(e, w, ok) := domain_add srt local now (m_dexact m) (m_dwild m) pat local local metric seq [] in
          (set_dom m1 e w, b2n ok, FNone)
    | ODRmLocal pat =>
        if is_nil pat || negb (mem str_eqb pat (m_ldom m)) then (m, 0, FNone)
        else
          let m1 := set_meta m (m_seq m) (m_local m) (m_dyn m) (sdel str_eqb pat (m_ldom m)) (m_lfwd m) in
          let '(e, w, ok) := domain_remove (m_dexact m) (m_dwild m) pat local in
          (set_dom m1 e w, b2n ok, FNone)
    | ODTRm origin pat =>
        let '(e, w, ok) := domain_remove (m_dexact m) (m_dwild m) pat origin in
        (set_dom m e w, b2n ok, FNone)

    | OFAdv peer origin seq path ents =>
        let '(t, c) := adv_fwd now (m_fwd m) peer origin seq path ents in (set_fwd m t, c, FNone)
    | OFDisc peer =>
        let t := tfilter (keep_peer peer) (m_fwd m) in
        (set_fwd m t, tcount (m_fwd m) - tcount t, FNone)
    | OFClean maxage =>
        let t := tfilter (keep_fresh local now maxage) (m_fwd m) in
        (set_fwd m t, tcount (m_fwd m) - tcount t, FNone)
    | OFAddLocal metric key target =>
        if is_nil key || is_nil target then (m, 0, FNone)
        else
          let seq := m_seq m + 1 in
          let m1 := set_meta m seq (m_local m) (m_dyn m) (m_ldom m) (sadd str_eqb key (m_lfwd m)) in
          let '(t, ok) := fwd_add srt local now (m_fwd m) key target local local metric seq [] in
          (set_fwd m1 t, b2n ok, FNone)
    | OFRmLocal key =>
        if is_nil key || negb (mem str_eqb key (m_lfwd m)) then (m, 0, FNone)
        else
          let m1 := set_meta m (m_seq m) (m_local m) (m_dyn m) (m_ldom m) (sdel str_eqb key (m_lfwd m)) in
          let '(t, ok) := fwd_remove (m_fwd m) key local in
          (set_fwd m1 t, b2n ok, FNone)
    | OFTRm origin key =>
        let '(t, ok) := fwd_remove (m_fwd m) key origin in (set_fwd m t, b2n ok, FNone)

    | OAAdv peer origin seq agent metric path =>
        let '(t, ok) := agent_add srt local now (m_agent m) agent peer origin metric seq path in
        (set_agent m t, b2n ok, FNone)
    | OADisc peer =>
        let t := tfilter (keep_peer peer) (m_agent m) in
        (set_agent m t, tcount (m_agent m) - tcount t, FNone)
    | OAClean maxage =>
        let t := tfilter (keep_fresh local now maxage) (m_agent m) in
        (set_agent m t, tcount (m_agent m) - tcount t, FNone)
    | OATRm agent origin =>
        let '(t, ok) := agent_remove (m_agent m) agent origin in (set_agent m t, b2n ok, FNone)

    | OLookup is16 a =>
        match addr_norm is16 a with
        | None => (m, 0, FNone)
        | Some ad => match cidr_lookup (m_cidr m) ad with Some r => (m, 0, FCidr r) | None => (m, 0, FNone) end
        end
    | ODLookup name =>
        match domain_lookup (m_dexact m) (m_dwild m) name with Some r => (m, 0, FDom r) | None => (m, 0, FNone) end
    | OFLookup key =>
        match tlookup str_eqb key (m_fwd m) with Some r => (m, 0, FFwd key r) | None => (m, 0, FNone) end
    | OALookup agent =>
        match tlookup N.eqb agent (m_agent m) with Some r => (m, 0, FAgent agent r) | None => (m, 0, FNone) end
    end.

  Definition is_lookup (o : op) : bool :=
    match o with OLookup _ _ | ODLookup _ | OFLookup _ | OALookup _ => true | _ => false end.
End Manager.

(* ------------------------------------------------------------------ *)
(** * Digest of the state (the harness computes the same on the real tables) *)

Definition mask64 : N := 18446744073709551615.
Definition mulK : N := 1000003.
Definition mix (h x : N) : N := N.land (mulK * h + x) mask64.
Definition mix_all (h : N) (xs : list N) : N := fold_left mix xs h.
Definition fin (h : N) : N :=
  let h1 := N.lxor h (N.shiftr h 29) in
  let h2 := N.land (mulK * h1) mask64 in
  N.lxor h2 (N.shiftr h2 32).

(** little-endian packing of up to [n] numbers of [w] bits *)
Fixpoint pack_chunk (w : N) (n : nat) (xs : list N) : N * list N :=
  match n, xs with
  | S n', x :: xs' => let '(v, r) := pack_chunk w n' xs' in (N.land x (N.ones w) + N.shiftl v w, r)
  | _, _ => (0, xs)
  end.
Fixpoint packs_fuel (fuel : nat) (w : N) (per : nat) (xs : list N) : list N :=
  match fuel with
  | O => []
  | S f => match xs with
           | [] => []
           | _ => let '(v, r) := pack_chunk w per xs in v :: packs_fuel f w per r
           end
  end.
Definition packs (w : N) (xs : list N) : list N :=
  packs_fuel (length xs) w (N.to_nat (63 / w)) xs.

Definition str_nums (s : str) : list N := N.of_nat (length s) :: packs 8 s.
Definition prefix_nums (p : prefix) : list N :=
  [p_fam p + 8 * p_len p + 4096 * fbits (p_fam p); N.shiftr (p_ip p) 64; N.land (p_ip p) mask64].

Definition entry_nums {D} (payload : D -> list N) (e : entry D) : list N :=
  [e_origin e + 128 * e_nexthop e + 16384 * e_metric e + N.shiftl (N.land (e_last e) 4294967295) 30;
   e_seq e; N.of_nat (length (e_path e))]
    ++ packs 7 (e_path e) ++ payload (e_data e).

Definition bucket_hash {D} (payload : D -> list N) (tag : N) (key : list N) (b : list (entry D)) : N :=
  let h := mix 17 tag in
  let h := mix_all h key in
  let h := mix h (N.of_nat (length b)) in
  fin (fold_left (fun h e => mix_all h (entry_nums payload e)) b h).

Definition table_sum {K D} (payload : D -> list N) (tag : N) (keynums : K -> list N) (t : table K D) : N :=
  fold_left (fun s kb => N.land (s + bucket_hash payload tag (keynums (fst kb)) (snd kb)) mask64) t 0.

Definition no_payload {D} (_ : D) : list N := [].
Definition dom_payload (d : drec) : list N := str_nums (dr_pattern d).

Definition state_hash (m : mgr) : N :=
  let s := table_sum no_payload 1 prefix_nums (m_cidr m) in
  let s := N.land (s + table_sum dom_payload 2 str_nums (m_dexact m)) mask64 in
  let s := N.land (s + table_sum dom_payload 3 str_nums (m_dwild m)) mask64 in
  let s := N.land (s + table_sum str_nums 4 str_nums (m_fwd m)) mask64 in
  let s := N.land (s + table_sum no_payload 5 (fun a : N => [a]) (m_agent m)) mask64 in
  let h := mix 7 s in
  let h := mix h (m_seq m) in
  let h := mix_all h [N.of_nat (length (m_local m)); N.of_nat (length (m_dyn m));
                      N.of_nat (length (m_ldom m)); N.of_nat (length (m_lfwd m))] in
  fin h.

Definition byte_sum (s : str) : N := fold_left N.add s 0.

Definition found_common {D} (e : entry D) : N :=
  e_origin e + 128 * e_nexthop e + 16384 * e_metric e
  + N.shiftl (N.land (e_seq e) 65535) 30 + N.shiftl (N.land (e_last e) 65535) 46.

(** cheap digest of a lookup result; 0 = nothing found *)
Definition found_code (f : found) : N :=
  match f with
  | FNone => 0
  | FCidr r =>
      let p := e_data r in
      N.lor (mix (mix 1 (found_common r))
                 (p_fam p + 8 * p_len p + 4096 * fbits (p_fam p) + N.shiftl (N.land (p_ip p) 4294967295) 20)) 1
  | FDom r =>
      let d := e_data r in
      N.lor (mix (mix 2 (found_common r))
                 (b2n (dr_wild d) + 2 * N.of_nat (length (dr_pattern d)) + 1024 * byte_sum (dr_pattern d))) 1
  | FFwd k r =>
      N.lor (mix (mix 4 (found_common r))
                 (N.of_nat (length k) + 1024 * byte_sum k + N.shiftl (byte_sum (e_data r)) 30)) 1
  | FAgent k r => N.lor (mix (mix 5 (found_common r)) k) 1
  end.

Definition obs_of (ld ret sh : N) : N := N.land (fin (mix (mix (mix 11 ld) ret) sh)) 4294967295.

(* ------------------------------------------------------------------ *)
(** * Decoding the operations written by the harness (routingh.Encode) *)

Record pools := mkPools { pl_nets : list rawnet; pl_strs : list str; pl_nums : list N }.

Fixpoint nets_of_flat (l : list N) : list rawnet :=
  match l with
  | f :: ip :: ones :: r => mkRaw f ip ones :: nets_of_flat r
  | _ => []
  end.

Fixpoint take_n (n : nat) (l : list N) : option (list N * list N) :=
  match n with
  | O => Some ([], l)
  | S n' => match l with
            | [] => None
            | x :: l' => match take_n n' l' with Some (a, r) => Some (x :: a, r) | None => None end
            end
  end.

(** a length-prefixed list *)
Definition take_lp (l : list N) : option (list N * list N) :=
  match l with
  | n :: l' => take_n (N.to_nat n) l'
  | [] => None
  end.

Section Decode.
  Variable P : pools.
  Definition get_net (i : N) : option rawnet := nth_error (pl_nets P) (N.to_nat i).
  Definition get_str (i : N) : option str := nth_error (pl_strs P) (N.to_nat i).
  Definition get_num (i : N) : option N := nth_error (pl_nums P) (N.to_nat i).

  Fixpoint dec_cidr_ents (n : nat) (l : list N) : option (list (rawnet * N)) :=
    match n with
    | O => match l with [] => Some [] | _ => None end
    | S n' => match l with
              | i :: m :: r =>
                  match get_net i, dec_cidr_ents n' r with
                  | Some net, Some es => Some ((net, m) :: es)
                  | _, _ => None
                  end
              | _ => None
              end
    end.

  Fixpoint dec_nets (n : nat) (l : list N) : option (list rawnet) :=
    match n with
    | O => match l with [] => Some [] | _ => None end
    | S n' => match l with
              | i :: r =>
                  match get_net i, dec_nets n' r with
                  | Some net, Some es => Some (net :: es)
                  | _, _ => None
                  end
              | _ => None
              end
    end.

  Fixpoint dec_dom_ents (n : nat) (l : list N) : option (list (N * str)) :=
    match n with
    | O => match l with [] => Some [] | _ => None end
    | S n' => match l with
              | m :: i :: r =>
                  match get_str i, dec_dom_ents n' r with
                  | Some s, Some es => Some ((m, s) :: es)
                  | _, _ => None
                  end
              | _ => None
              end
    end.

  Fixpoint dec_fwd_ents (n : nat) (l : list N) : option (list (N * str * str)) :=
    match n with
    | O => match l with [] => Some [] | _ => None end
    | S n' => match l with
              | m :: i :: j :: r =>
                  match get_str i, get_str j, dec_fwd_ents n' r with
                  | Some k, Some tg, Some es => Some ((m, k, tg) :: es)
                  | _, _, _ => None
                  end
              | _ => None
              end
    end.

  Definition decode_op (l : list N) : option op :=
    match l with
    | [] => None
    | c :: r0 =>
    if c =? 1 then
      match r0 with
      | peer :: origin :: seqi :: r =>
        match get_num seqi, take_lp r with
        | Some seq, Some (path, n :: r') =>
            match dec_cidr_ents (N.to_nat n) r' with Some es => Some (OAdv peer origin seq path es) | None => None end
        | _, _ => None
        end
      | _ => None end
    else if c =? 2 then
      match r0 with
      | origin :: n :: r => match dec_nets (N.to_nat n) r with Some es => Some (OWd origin es) | None => None end
      | _ => None end
    else if c =? 3 then match r0 with [peer] => Some (ODisc peer) | _ => None end
    else if c =? 4 then match r0 with [ms] => Some (OClean ms) | _ => None end
    else if c =? 5 then match r0 with [ms] => Some (OTick ms) | _ => None end
    else if c =? 6 then
      match r0 with [i; metric] => match get_net i with Some n => Some (OAddLocal n metric) | None => None end | _ => None end
    else if c =? 7 then
      match r0 with [i] => match get_net i with Some n => Some (ORmLocal n) | None => None end | _ => None end
    else if c =? 8 then
      match r0 with [i; metric] => match get_net i with Some n => Some (OAddDyn n metric) | None => None end | _ => None end
    else if c =? 9 then
      match r0 with [i] => match get_net i with Some n => Some (ORmDyn n) | None => None end | _ => None end
    else if c =? 10 then
      match r0 with
      | nexthop :: origin :: seqi :: metric :: r =>
        match get_num seqi, take_lp r with
        | Some seq, Some (path, [i]) =>
            match get_net i with Some n => Some (OTAdd nexthop origin seq metric path n) | None => None end
        | _, _ => None
        end
      | _ => None end
    else if c =? 11 then
      match r0 with [origin; i] => match get_net i with Some n => Some (OTRm origin n) | None => None end | _ => None end
    else if c =? 20 then
      match r0 with
      | peer :: origin :: seqi :: r =>
        match get_num seqi, take_lp r with
        | Some seq, Some (path, n :: r') =>
            match dec_dom_ents (N.to_nat n) r' with Some es => Some (ODAdv peer origin seq path es) | None => None end
        | _, _ => None
        end
      | _ => None end
    else if c =? 21 then match r0 with [peer] => Some (ODDisc peer) | _ => None end
    else if c =? 22 then match r0 with [ms] => Some (ODClean ms) | _ => None end
    else if c =? 23 then
      match r0 with [metric; i] => match get_str i with Some s => Some (ODAddLocal metric s) | None => None end | _ => None end
    else if c =? 24 then
      match r0 with [i] => match get_str i with Some s => Some (ODRmLocal s) | None => None end | _ => None end
    else if c =? 25 then
      match r0 with [origin; i] => match get_str i with Some s => Some (ODTRm origin s) | None => None end | _ => None end
    else if c =? 30 then
      match r0 with
      | peer :: origin :: seqi :: r =>
        match get_num seqi, take_lp r with
        | Some seq, Some (path, n :: r') =>
            match dec_fwd_ents (N.to_nat n) r' with Some es => Some (OFAdv peer origin seq path es) | None => None end
        | _, _ => None
        end
      | _ => None end
    else if c =? 31 then match r0 with [peer] => Some (OFDisc peer) | _ => None end
    else if c =? 32 then match r0 with [ms] => Some (OFClean ms) | _ => None end
    else if c =? 33 then
      match r0 with
      | [metric; i; j] =>
          match get_str i, get_str j with Some k, Some tg => Some (OFAddLocal metric k tg) | _, _ => None end
      | _ => None end
    else if c =? 34 then
      match r0 with [i] => match get_str i with Some s => Some (OFRmLocal s) | None => None end | _ => None end
    else if c =? 35 then
      match r0 with [origin; i] => match get_str i with Some s => Some (OFTRm origin s) | None => None end | _ => None end
    else if c =? 40 then
      match r0 with
      | peer :: origin :: seqi :: agent :: metric :: r =>
        match get_num seqi, take_lp r with
        | Some seq, Some (path, []) => Some (OAAdv peer origin seq agent metric path)
        | _, _ => None
        end
      | _ => None end
    else if c =? 41 then match r0 with [peer] => Some (OADisc peer) | _ => None end
    else if c =? 42 then match r0 with [ms] => Some (OAClean ms) | _ => None end
    else if c =? 45 then match r0 with [agent; origin] => Some (OATRm agent origin) | _ => None end
    else None
    end.

  (** boundary addresses of a pool network (routingh.BoundaryAddrs) *)
  Definition boundary_addrs (n : rawnet) : list (N * N) :=
    let bits := fbits (rn_fam n) in
    let ones := N.min (rn_ones n) bits in
    let sh := bits - ones in
    let ip := rn_ip n in
    let base := N.shiftl (N.shiftr ip sh) sh in
    let last := base + N.shiftl 1 sh - 1 in
    let cands := [base; base + 1; last; last + 1] ++ (if base =? 0 then [] else [base - 1]) ++ [ip] in
    let cands := filter (fun v => v <? N.shiftl 1 bits) cands in
    if rn_fam n =? 4 then flat_map (fun v => [(0, v); (1, N.shiftl 65535 32 + v)]) cands
    else map (fun v => (1, v)) cands.

  Definition upper_c (c : N) : N := if (97 <=? c) && (c <=? 122) then c - 32 else c.

  (** names derived from a pool string (routingh.DerivedNames) *)
  Definition derived_names (s : str) : list str :=
    let b := snd (parse_pattern s) in
    let ub := map upper_c b in
    let uf := match split_dot b with
              | Some (l, r) => map upper_c l ++ dot :: r
              | None => ub
              end in
    [s; b; [97; 46] ++ b; [66; 46; 97; 46] ++ b; ub; 46 :: b; b ++ [46]; [120; 45; 49; 46] ++ ub; uf].

  (** the lookups an encoded lookup operation stands for *)
  Definition decode_lookups (l : list N) : option (list op) :=
    match l with
    | [] => None
    | c :: r0 =>
      if c =? 50 then
        match r0 with [is16; i] => match get_num i with Some a => Some [OLookup is16 a] | None => None end | _ => None end
      else if c =? 51 then
        match r0 with [i] => match get_str i with Some s => Some [ODLookup s] | None => None end | _ => None end
      else if c =? 52 then
        match r0 with [i] => match get_str i with Some s => Some [OFLookup s] | None => None end | _ => None end
      else if c =? 53 then match r0 with [a] => Some [OALookup a] | _ => None end
      else if c =? 54 then
        Some (flat_map (fun n => map (fun ia => OLookup (fst ia) (snd ia)) (boundary_addrs n)) (pl_nets P))
      else if c =? 55 then
        Some (flat_map (fun s => map ODLookup (derived_names s)) (pl_strs P))
      else if c =? 56 then Some (map OFLookup (pl_strs P))
      else if c =? 57 then Some (map OALookup [0; 1; 2; 3; 4; 5; 6; 7])
      else if c =? 58 then
        match r0 with
        | [i; k] =>
            match get_net i with
            | Some n => match nth_error (boundary_addrs n) (N.to_nat k) with
                        | Some ia => Some [OLookup (fst ia) (snd ia)]
                        | None => Some []
                        end
            | None => Some []
            end
        | _ => None end
      else if c =? 59 then
        match r0 with
        | [i; k] =>
            match get_str i with
            | Some s => match nth_error (derived_names s) (N.to_nat k) with
                        | Some nm => Some [ODLookup nm]
                        | None => Some []
                        end
            | None => Some []
            end
        | _ => None end
      else None
    end.
End Decode.

(* ------------------------------------------------------------------ *)
(** * Correspondence oracle *)

(** a case = the pools (networks as flat triples, strings, large numbers),
    the encoded operations of one history, and the observations: one per
    non-lookup operation (digest of the lookups since the previous
    observation, the operation's result and the state after it) plus a final
    one *)
Definition case := (list N * list str * list N * list (list N) * list N)%type.

Definition the_local : N := 0.

Definition run_lookups (m : mgr) (ld : N) (ls : list op) : N :=
  fold_left (fun ld o => let '(_, _, f) := step the_local (@isort) m o in mix ld (found_code f)) ls ld.

(** index of the first operation whose observation differs, with the model's
    value and the observed one (for diagnosis) *)
Fixpoint first_diff (P : pools) (i : N) (m : mgr) (ld : N) (ops : list (list N)) (obs : list N) : option (N * N * N) :=
  match ops with
  | [] =>
      match obs with
      | [x] => let v := obs_of ld 0 (state_hash m) in if v =? x then None else Some (i, v, x)
      | _ => Some (i, 0, 0)
      end
  | enc :: ops' =>
      match decode_lookups P enc with
      | Some ls => first_diff P (i + 1) m (run_lookups m ld ls) ops' obs
      | None =>
          match decode_op P enc with
          | None => Some (i, 0, 1)
          | Some o =>
              let '(m', ret, _) := step the_local (@isort) m o in
              match obs with
              | x :: obs' =>
                  let v := obs_of ld ret (state_hash m') in
                  if v =? x then first_diff P (i + 1) m' 0 ops' obs' else Some (i, v, x)
              | [] => Some (i, 0, 2)
              end
          end
      end
  end.

Definition case_diff (c : case) : option (N * N * N) :=
  let '(nets, strs, nums, ops, obs) := c in
  first_diff (mkPools (nets_of_flat nets) strs nums) 0 mgr_init 0 ops obs.

Definition case_ok (c : case) : bool :=
  match case_diff c with None => true | Some _ => false end.

Fixpoint mismatches_from (i : N) (cs : list case) : list N :=
  match cs with
  | [] => []
  | c :: cs' => if case_ok c then mismatches_from (i + 1) cs' else i :: mismatches_from (i + 1) cs'
  end.

Definition mismatches (cs : list case) : list N := mismatches_from 0 cs.

(** diagnosis helper: per case, where it first differs *)
Definition diffs (cs : list case) : list (option (N * N * N)) := map case_diff cs.

(* ------------------------------------------------------------------ *)
(** * The CIDR table before the repair (names end in [_pre_fix])

    Table.AddRoute keyed the map by [route.Network.String()] (the printed,
    unmasked network: [strkey]) and stored the network as delivered;
    lookupUnlocked compared [Mask.Size()] of the stored networks. *)

(** Mask.Size() of the network as delivered: net.CIDRMask(ones, bits) is nil
    (size 0) when ones exceeds the family's width *)
Definition raw_ones (r : rawnet) : N :=
  if rn_ones r <=? fbits (rn_fam r) then rn_ones r else 0.

(** net.IPNet.Contains of the network as delivered (masks both sides) *)
Definition raw_contains (r : rawnet) (a : addr) : bool :=
  match strkey r with Some p => contains p a | None => false end.

Definition ctable_pre_fix := table (option prefix) rawnet.

Definition cidr_add_pre_fix (local now : N) (t : ctable_pre_fix) (raw : rawnet)
           (nexthop origin metric seq : N) (path : list N) : ctable_pre_fix * bool :=
  if path_has local path then (t, false)
  else tadd okey_eqb same_origin isort (strkey raw) (mkE origin nexthop metric seq path now raw) t.

Definition cidr_lookup_pre_fix (t : ctable_pre_fix) (a : addr) : option (entry rawnet) :=
  lpm_scan raw_contains raw_ones t a None.
