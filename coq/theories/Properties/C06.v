(** C06 — route announcements arrive intact for any local route set.

    [announce origin name seq rs path seenby] is the list of ROUTE_ADVERTISE
    payloads AnnounceLocalRoutes (and, per origin group, SendFullTable) emits
    for the ordered route list [rs] (the order is Go's map order: the theorems
    hold for every order); [learned payloads] is what a neighbour's
    DecodeRouteAdvertise hands to its flooder; [of_route] is the flooder's
    extraction into table entries. *)
From Coq Require Import List NArith.
From MM Require Import Lib.Bytes Lib.Codec Model.Frames Model.Announce
  Proofs.FramesIrregular Proofs.AnnounceProofs Generated.C06.
Import ListNotations.
Local Open Scope N_scope.

(** For EVERY list of routes that are individually within the wire limits —
    any number, any mix of CIDR, domain, forward and agent routes — a
    neighbour decodes exactly that list; every advertisement fits a frame
    payload; the advertisements carry consecutive sequence numbers. *)
Theorem C06_announcements_intact : forall origin name seq1 rs path seenby,
  lenN origin = 16 -> lenN name < 256 ->
  wfb idlist path = true -> wfb idlist seenby = true ->
  forallb (wfb Route_c) rs = true ->
  exists payloads,
    announce origin name seq1 rs path seenby = map Some payloads /\
    learned payloads = rs /\
    Forall (fun p => lenN p <= max_payload) payloads /\
    adv_keys payloads = keys_from origin seq1 (length payloads).
Proof. exact announce_intact. Qed.
Print Assumptions C06_announcements_intact.

(** The same for ANY configured display name: the flooder puts its first 255
    bytes on the wire ([cut_name]: fits the one-byte length, is a prefix of
    the configured name, and is the name itself when that fits). *)
Theorem C06_announcements_intact_any_display_name :
  (forall cfg, lenN (cut_name cfg) < 256 /\ (exists rest, cfg = cut_name cfg ++ rest) /\
               (lenN cfg <= max_name_len -> cut_name cfg = cfg)) /\
  (forall origin cfg_name seq1 rs path seenby,
     lenN origin = 16 -> wfb idlist path = true -> wfb idlist seenby = true ->
     forallb (wfb Route_c) rs = true ->
     exists payloads,
       announce origin (cut_name cfg_name) seq1 rs path seenby = map Some payloads /\
       learned payloads = rs /\
       Forall (fun p => lenN p <= max_payload) payloads /\
       adv_keys payloads = keys_from origin seq1 (length payloads)).
Proof. exact (conj cut_name_contract announce_any_name_intact). Qed.
Print Assumptions C06_announcements_intact_any_display_name.

(** CIDR routes in every spelling net.ParseCIDR accepts (IPv4, IPv6,
    IPv4-mapped IPv6 ::ffff:a.b.c.d/96+n, masks below /96, host routes, /0):
    the wire route (family from the mask width, prefix length from the mask,
    address bytes as they are) is within the limits and the receiver rebuilds
    exactly the announced (address, ones, bits) triple - so the announcing and
    the learning routing table canonicalise the same net.IPNet.  Together with
    C06_announcements_intact (instantiated with these routes) no spelling is
    dropped or turned into another network. *)
Theorem C06_cidr_spellings_intact : forall n metric, ipnet_ok n = true -> metric < 65536 ->
  wfb Route_c (ipnet_to_route n metric) = true /\
  route_to_ipnet (ipnet_to_route n metric) = Some n.
Proof. exact ipnet_route_roundtrip. Qed.
Print Assumptions C06_cidr_spellings_intact.

(** One advertisement (also a forwarded or replayed one): a group that
    satisfies the splitter's bounds is encoded, decodes to exactly its routes
    and stays within the payload limit for every path and seen-by list of up
    to 255 entries (the room left for forwarding hops). *)
Theorem C06_one_advertisement_intact : forall origin name seq g path seenby,
  lenN origin = 16 -> lenN name < 256 -> seq < two64 ->
  wfb idlist path = true -> wfb idlist seenby = true ->
  forallb (wfb Route_c) g = true -> group_ok g ->
  exists p, encode_RA (origin, (name, (seq, (g, (path, (None, seenby)))))) = Some p /\
            decode_RA p = Some (origin, (name, (seq, (g, (path, (Some (false, enc idlist path), seenby)))))) /\
            lenN p <= max_payload.
Proof. exact advertisement_intact. Qed.
Print Assumptions C06_one_advertisement_intact.

(** ... and a group within the bounds is not split again: what a forwarding
    agent re-floods, or a replaying agent sends for a small origin group, is
    that one advertisement. *)
Theorem C06_fitting_group_is_one_advertisement : forall g, group_ok g -> split_routes g = [g].
Proof. exact split_routes_fits. Qed.
Print Assumptions C06_fitting_group_is_one_advertisement.

(** End to end, from configured entries to the entries the neighbour's
    flooder extracts (CIDR with family and prefix length, domain pattern with
    wildcard flag, forward key and target, agent presence), in order. *)
Theorem C06_entries_intact : forall origin name seq1 es path seenby,
  lenN origin = 16 -> lenN name < 256 ->
  wfb idlist path = true -> wfb idlist seenby = true ->
  forallb entry_ok es = true ->
  exists payloads,
    announce origin name seq1 (map to_route es) path seenby = map Some payloads /\
    map of_route (learned payloads) = map Some es /\
    Forall (fun p => lenN p <= max_payload) payloads.
Proof. exact announce_entries_intact. Qed.
Print Assumptions C06_entries_intact.

(** Re-flooding (HandleRouteAdvertise): what a forwarding agent emits for a
    received group decodes, at the next agent, to that group with every
    metric one higher, under the origin's own sequence number, with the
    forwarder added to path and seen-by, and still fits a frame payload. *)
Theorem C06_reflooded_group_intact : forall local origin name seq g path seenby,
  lenN origin = 16 -> lenN name < 256 -> seq < two64 ->
  wfb idlist (local :: path) = true -> wfb idlist (seenby ++ [local]) = true ->
  forallb (wfb Route_c) g = true -> group_ok g ->
  exists p, reflood local origin name seq g path seenby = Some p /\
            decode_RA p = Some (origin, (name, (seq, (map bump_metric g,
                             (local :: path, (Some (false, enc idlist (local :: path)), seenby ++ [local])))))) /\
            lenN p <= max_payload.
Proof. exact reflood_intact. Qed.
Print Assumptions C06_reflooded_group_intact.

(** ... and the re-flooded group satisfies the splitter's bounds again, as does
    whatever part of a fitting group is still stored, in whatever order the
    tables list it: every stored foreign group fits. *)
Theorem C06_stored_groups_fit :
  (forall g, forallb (wfb Route_c) g = true -> group_ok g ->
     forallb (wfb Route_c) (map bump_metric g) = true /\ group_ok (map bump_metric g)) /\
  (forall g part rest, Permutation.Permutation (part ++ rest) g -> group_ok g -> group_ok part).
Proof. exact (conj bump_group group_ok_part). Qed.
Print Assumptions C06_stored_groups_fit.

(** Replay (SendFullTable), one stored foreign group: it is ONE advertisement,
    carries the sequence number its origin gave it, lists the path as seen-by,
    and decodes to exactly its routes. *)
Theorem C06_replayed_group_is_one_advertisement_with_its_sequence : forall origin name seq g path,
  lenN origin = 16 -> lenN name < 256 -> seq < two64 ->
  wfb idlist path = true -> forallb (wfb Route_c) g = true -> group_ok g ->
  exists p, replay_foreign origin name seq g path = [Some p] /\
            decode_RA p = Some (origin, (name, (seq, (g, (path, (Some (false, enc idlist path), path)))))) /\
            lenN p <= max_payload.
Proof. exact replay_group_intact. Qed.
Print Assumptions C06_replayed_group_is_one_advertisement_with_its_sequence.

(** Replay, the whole foreign part of a table: for EVERY list of stored groups
    (several of them may belong to one (origin, sequence): the agent table
    keeps a presence route per next hop) the replay sends one advertisement
    per selected group, NO TWO WITH THE SAME (origin, sequence) - the
    receiver's seen cache therefore drops none -, every (origin, sequence) of
    the table is represented, and what the receiver decodes is exactly the
    routes of the selected groups.  (The replaying agent's own routes are
    announced as by C06_announcements_intact, under its own id and fresh
    consecutive numbers: [replay_local].) *)
Theorem C06_replay_never_repeats_origin_and_sequence : forall name_of gs,
  Forall (rgroup_ok name_of) gs ->
  exists payloads,
    replay_table name_of gs = map Some payloads /\
    adv_keys payloads = map rg_key (select_groups gs) /\
    NoDup (adv_keys payloads) /\
    (forall k, In k (map rg_key gs) -> In k (adv_keys payloads)) /\
    learned payloads = concat (map (fun g : rgroup => snd (snd (snd g))) (select_groups gs)) /\
    Forall (fun p => lenN p <= max_payload) payloads.
Proof. exact replay_table_intact. Qed.
Print Assumptions C06_replay_never_repeats_origin_and_sequence.

(** Non-vacuity of the replay theorem, and the behaviour before the selection
    was added: a table in which one advertisement's routes carry two paths has
    two groups with the same (origin, sequence); one advertisement is replayed. *)
Theorem C06_replay_witness :
  Forall (rgroup_ok (fun _ => [])) two_path_table /\
  map rg_key two_path_table = [(id_a, 5); (id_a, 5)] /\
  map rg_key (select_groups two_path_table) = [(id_a, 5)] /\
  length (replay_table (fun _ => []) two_path_table) = 1%nat.
Proof. exact two_path_table_ok. Qed.
Print Assumptions C06_replay_witness.

(** Non-vacuity: a mixed entry list satisfies the hypotheses; the 256-route
    set of the old defect is announced in two advertisements and learned intact. *)
Theorem C06_witnesses :
  forallb entry_ok [ECidr false (bytes_of_Ns [10; 0; 0; 0]) 8 0; EDomain (bytes_of_Ns [97; 46; 98]) true 3;
                    EForward (bytes_of_Ns [107]) (bytes_of_Ns [116; 58; 56; 48]) 0; EAgent id_a 0] = true /\
  learned (somes (announce id_a [] 1 wrap_routes [id_a] [id_a])) = wrap_routes /\
  length (announce id_a [] 1 wrap_routes [id_a] [id_a]) = 2%nat.
Proof. exact (conj entries_example post_fix_witness). Qed.
Print Assumptions C06_witnesses.

(** Before the repair: a set of 256 individually valid routes (255 CIDR routes
    and the agent presence route) put into one advertisement is decoded by a
    neighbour as no routes at all. *)
Theorem C06_refuted_pre_fix_count_wrap :
  exists rs, forallb (wfb Route_c) rs = true /\
             learned (somes (announce_pre_fix id_a [] 1 rs [id_a] [id_a])) <> rs.
Proof.
  exists wrap_routes. destruct pre_fix_wraps as (W & _ & L). split; [exact W|].
  rewrite L. discriminate.
Qed.
Print Assumptions C06_refuted_pre_fix_count_wrap.

(** The splitter's limits and the wiring of announcement building,
    re-flooding and replay, as regenerated from flood.go on this run, are the
    model's: one advertisement per splitter group; fresh sequence numbers for
    own routes, the stored one for a replayed foreign group; replay groups
    keyed by (origin, sequence, path) with one survivor per (origin, sequence);
    seen-by = path on replays; metric + 1 and unchanged origin/sequence on
    re-flooding; the wire display name is the first 255 bytes of the
    configured one; every increment of the routing manager's sequence counter
    (IncrementSequence in particular) happens under the write lock, so the
    numbers handed out are distinct - what [keys_from] models. *)
Theorem C06_source_facts :
  gen_max_routes_per_adv = max_routes_per_adv /\
  gen_max_route_bytes_per_adv = max_route_bytes_per_adv /\
  (forall f pl pre m, route_wire_size (f, (pl, (pre, m))) = gen_route_size_const + gen_route_size_per_prefix_byte * lenN pre) /\
  gen_split_closes_only_nonempty_group = true /\
  gen_split_closes_at_max_count = true /\
  gen_split_closes_when_size_would_exceed = true /\
  gen_AnnounceLocalRoutes_one_adv_per_group = true /\ gen_AnnounceLocalRoutes_sequence_per_group = true /\
  gen_SendFullTable_one_adv_per_group = true /\
  gen_SendFullTable_own_routes_fresh_sequence_per_group = true /\
  gen_SendFullTable_foreign_group_keeps_sequence = true /\
  gen_SendFullTable_seen_by_is_path = true /\
  gen_replay_groups_keyed_by_origin_seq_path = true /\
  gen_replay_one_group_per_origin_seq = true /\
  gen_replay_prefers_larger_then_shorter_path = true /\
  gen_reflood_increments_metric = true /\
  gen_reflood_keeps_origin_sequence_appends_seen_by = true /\
  gen_display_name_cut_bytes = max_name_len /\
  gen_increment_sequence_under_write_lock = true /\
  gen_sequence_writers_under_write_lock = gen_sequence_writers /\
  gen_cidr_family_from_mask_width = true /\
  gen_cidr_prefix_length_from_mask_ones = true /\
  gen_cidr_prefix_is_address_bytes = true.
Proof.
  repeat split; try reflexivity. intros. unfold route_wire_size, gen_route_size_const, gen_route_size_per_prefix_byte.
  rewrite N.mul_1_l, N.add_comm, N.add_assoc. reflexivity.
Qed.
Print Assumptions C06_source_facts.
