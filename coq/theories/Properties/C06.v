(** C06 — route announcements arrive intact for any local route set. *)
From Coq Require Import List NArith.
From MM Require Import Lib.Bytes Lib.Codec Model.Frames Model.Announce Proofs.AnnounceProofs.
Import ListNotations.
Local Open Scope N_scope.

(** Before the repair: a set of 256 individually valid routes (255 CIDR routes
    and the agent presence route) put into one advertisement is decoded by a
    neighbour as no routes at all. *)
Theorem C06_refuted_pre_fix_count_wrap :
  exists rs, forallb (wfb Route_c) rs = true /\
             learned (somes (announce_pre_fix id_a [] 1 rs [id_a] [id_a])) <> rs.
Proof.
  exists wrap_routes. destruct pre_fix_wraps as (W & _ & L). split; [exact W|].
  rewrite L. discriminate.
Qed.
Print Assumptions C06_refuted_pre_fix_count_wrap.
