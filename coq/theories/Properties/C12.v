(** C12 — flooding converges to valid forwarding paths. *)
From Coq Require Import List NArith.
From MM Require Import Model.Flood Proofs.FloodBase Proofs.FloodValid Generated.C12.
Import ListNotations.
Local Open Scope N_scope.

(** Validity.  In every state reachable on a topology that does not lose
    links (any number of agents, any delivery order, duplicates, expiry,
    connects with replays, any placement of routes): every learned route's
    next hop is a current neighbour and the first agent of the recorded path,
    the path is a chain of actual links ending at the origin, and a stream
    opened along it (DialContext sends STREAM_OPEN to the next hop with
    path[1:], every agent applies the handleStreamOpen rule [open_walk])
    terminates at the advertising agent. *)
Theorem C12_learned_routes_valid : forall cf k ops n ns e,
  Forall no_disconnect ops ->
  get (st_nodes (run cf (init k) ops)) n = Some ns -> In e (ns_entries ns) -> e_origin e <> n ->
  let ls := st_links (run cf (init k) ops) in
  exists rest, e_path e = e_nexthop e :: rest /\
    linked ls n (e_nexthop e) = true /\
    walk ls (e_nexthop e) rest (e_origin e) /\
    open_walk ls (e_nexthop e) rest = Some (e_origin e).
Proof. exact learned_routes_valid. Qed.
Print Assumptions C12_learned_routes_valid.

(** The stream-open rule reaches the end of any chain of links. *)
Theorem C12_open_reaches_origin : forall ls rest h d, walk ls h rest d -> open_walk ls h rest = Some d.
Proof. exact open_walk_reaches. Qed.
Print Assumptions C12_open_reaches_origin.

Section SourceFacts.
Import String.
Local Open Scope string_scope.
(** Source facts regenerated on this run (agent.go, flood.go, routing):
    handleRouteAdvertise decodes the payload and hands (peer, origin, name,
    sequence, routes, path, seen-by) to the flooder in that order;
    handleStreamOpen exits when the remaining path is empty or is itself,
    otherwise forwards to RemainingPath[0] (a connected peer) with
    RemainingPath[1:]; DialContext sends to route.NextHop with Path[1:]; the
    forwarder prepends its own id to the path; the receiver records the
    sender as next hop and the path as received; connect sends the full table
    and disconnect drops the peer's routes from all four tables. *)
Theorem C12_source_facts :
  gen_handle_route_advertise_args =
    ["peerID"; "adv.OriginAgent"; "adv.OriginDisplayName"; "adv.Sequence"; "adv.Routes"; "adv.EncPath"; "adv.SeenBy"] /\
  gen_handle_route_advertise_decodes_payload = true /\
  gen_open_exit_when_empty_or_self = true /\ gen_open_forwards_new_path_to_next_hop = true /\
  gen_open_next_hop_index = 0 /\ gen_open_drops = 1 /\
  gen_dial_uses_next_hop_connection = true /\ gen_dial_drops = 1 /\
  gen_forward_prepends_self_to_path = true /\ gen_store_next_hop_is_sender_path_as_received = true /\
  gen_peer_connected_sends_full_table = true /\ gen_peer_disconnect_drops_routes_of_all_tables = true.
Proof. repeat split; reflexivity. Qed.
End SourceFacts.
Print Assumptions C12_source_facts.

(** Non-vacuity: diamond 0-1, 0-2, 1-3, 2-3; agent 3 learns agent 0's CIDR
    over a two-hop path that is a chain of links, and the stream-open walk
    along it ends at 0. *)
Definition ex_ops : list op := [C 0 1; C 0 2; C 1 3; C 2 3; L0 0 1 0; A 0; D 0; D 0; D 0; D 0; D 0; D 0].

Example C12_example_diamond :
  Forall no_disconnect ex_ops /\
  let s := run [] (init 4) ex_ops in
  match get (st_nodes s) 3 with
  | Some ns => map (fun e => (e_nexthop e, e_path e, open_walk (st_links s) (e_nexthop e) (tl (e_path e)))) (ns_entries ns)
               = [(1, [1; 0], Some 0); (1, [1; 0], Some 0)]
  | None => False
  end.
Proof.
  split; [unfold ex_ops; repeat (apply Forall_cons; [exact I|]); apply Forall_nil | vm_compute; reflexivity].
Qed.
