(** C12 — flooding converges to valid forwarding paths. *)
From Coq Require Import List NArith Bool.
From MM Require Import Model.Flood Proofs.FloodBase Proofs.FloodOnce Proofs.FloodValid Proofs.FloodConv Generated.C12 Generated.C15.
Import ListNotations.
Local Open Scope N_scope.

(** Validity.  In every state reachable on a topology that does not lose
    links (any number of agents, any delivery order, duplicates, expiry,
    connects with replays, any placement of routes): every learned route's
    next hop is a current neighbour and the first agent of the recorded path,
    the path is a chain of actual links ending at the origin, and a stream
    opened along it (DialContext sends STREAM_OPEN to the next hop with
    path[1:], every agent applies the handleStreamOpen rule [open_walk])
    terminates at the advertising agent. *)
Theorem C12_learned_routes_valid : forall cf k ops n ns e,
  Forall no_disconnect ops ->
  get (st_nodes (run cf (init k) ops)) n = Some ns -> In e (ns_entries ns) -> e_origin e <> n ->
  let ls := st_links (run cf (init k) ops) in
  exists rest, e_path e = e_nexthop e :: rest /\
    linked ls n (e_nexthop e) = true /\
    walk ls (e_nexthop e) rest (e_origin e) /\
    open_walk ls (e_nexthop e) rest = Some (e_origin e).
Proof. exact learned_routes_valid. Qed.
Print Assumptions C12_learned_routes_valid.

(** The stream-open rule reaches the end of any chain of links. *)
Theorem C12_open_reaches_origin : forall ls rest h d, walk ls h rest d -> open_walk ls h rest = Some d.
Proof. exact open_walk_reaches. Qed.
Print Assumptions C12_open_reaches_origin.


(** Completeness (convergence on quiescent traces).
    Take ANY reachable state (any history of connects with full-table replays,
    disconnects, announcements, duplicates, expiries).  Let origin o announce;
    then let any schedule of quiet steps run -- deliveries in any order,
    duplicates, other agents' announcements, local route changes, time passing
    -- in which the topology is stable and the announcement's seen-cache entry
    is not expired, until no copy of the announcement is in flight.  With hop
    limits that do not cut the mesh (none, or at least K - 1 for K agents, the
    longest possible path: the boundary max_hops = distance of the two ends of
    a chain of max_hops + 1 agents is included),
    every agent connected to o has processed the announcement and holds o's
    presence and every route o advertises, at the announcement's sequence
    number and refreshed no earlier than the announcement. *)
Theorem C12_flood_converges : forall cf K ops0 o ns0 ops,
  (forall n, limit_of cf n = 0 \/ N.of_nat K <= limit_of cf n + 1) ->
  let s0 := run cf (init K) ops0 in
  get (st_nodes s0) o = Some ns0 ->
  let sq := ns_seq ns0 + 1 in
  let s1 := next cf s0 (Announce o) in
  quiet_run cf o sq s1 ops ->
  let s := run cf s1 ops in
  (forall m, In m (st_flight s) -> is_key o sq m = false) ->
  forall n, connected K o (st_links s0) n -> n <> o ->
    has_seen s n o sq = true /\
    forall r, In r (ns_locals ns0 ++ [presence o]) ->
      exists e, In e (entries_of s n) /\ e_kind e = r_kind r /\ e_id e = r_id r /\
                e_origin e = o /\ e_seq e = sq /\ st_now s0 <= e_upd e.
Proof. exact announcement_reaches_everyone. Qed.
Print Assumptions C12_flood_converges.

(** the run hypothesis holds for every schedule of quiet steps without
    Forget / Advance in which no withdrawal of the same origin is handed over
    ([nw_run], executable; a withdrawal removes the origin's CIDR routes
    whatever their sequence, so a delayed one would undo the refresh) *)
Theorem C12_quiet_run_without_expiry_steps : forall cf o sq ops s,
  Forall (quiet_op o) ops -> forallb (fun op => negb (expiry_op op)) ops = true ->
  nw_run cf o s ops = true ->
  quiet_run cf o sq s ops.
Proof. exact quiet_run_syntactic. Qed.
Print Assumptions C12_quiet_run_without_expiry_steps.

(** Non-vacuity of the convergence theorem: triangle with a tail, agent 0
    advertises a CIDR and a domain route; after other traffic it announces,
    the copies are delivered in LIFO order with a duplicate; agent 3 (two hops
    away) ends up with everything. *)
Definition cv_ops0 : list op := [C 0 1; C 1 2; C 0 2; C 2 3; L0 0 1 0; L1 0 2 0; A 3; D 0; D 0; D 0; D 0].
Definition cv_ops : list op := [DD 1; D 1; D 0; D 1; D 0; D 0; D 0; D 0; D 0].

Example C12_example_converges :
  let s0 := run [] (init 4) cv_ops0 in
  let s1 := next [] s0 (Announce 0) in
  let s := run [] s1 cv_ops in
  quiet_run [] 0 3 s1 cv_ops /\ st_flight s = [] /\ connected 4 0 (st_links s0) 3 /\
  map (fun e => (kind_code (e_kind e), e_id e, e_origin e, e_seq e, e_path e)) (entries_of s 3)
  = [(0, 1, 0, 3, [2; 1; 0]); (1, 2, 0, 3, [2; 1; 0]); (3, 0, 0, 3, [2; 1; 0])].
Proof.
  split; [apply quiet_run_syntactic; [unfold cv_ops; repeat (apply Forall_cons; [exact I|]); apply Forall_nil|reflexivity|reflexivity]|].
  split; [vm_compute; reflexivity|]. split; [|vm_compute; reflexivity].
  apply (conn_step 4 0 _ 2 3); [apply (conn_step 4 0 _ 0 2); [apply conn_origin; vm_compute; auto| |vm_compute; auto]| |vm_compute; auto];
    vm_compute; reflexivity.
Qed.

(** Non-vacuity at the boundary: a chain of 4 agents with max_hops = 3 = K - 1
    everywhere satisfies the limit hypothesis, and the far end (exactly
    max_hops away) learns agent 0's route and presence over the 3-hop path. *)
Example C12_example_boundary_limit :
  let cf := [3; 3; 3; 3] in
  (forall n, limit_of cf n = 0 \/ N.of_nat 4 <= limit_of cf n + 1) /\
  let s0 := run cf (init 4) [C 0 1; C 1 2; C 2 3; L0 0 1 0] in
  let s1 := next cf s0 (Announce 0) in
  let s := run cf s1 [D 0; D 0; D 0] in
  quiet_run cf 0 2 s1 [D 0; D 0; D 0] /\ st_flight s = [] /\
  map (fun e => (kind_code (e_kind e), e_seq e, e_path e)) (entries_of s 3) = [(0, 2, [2; 1; 0]); (3, 2, [2; 1; 0])].
Proof.
  split.
  - intros n. unfold limit_of.
    destruct (N.to_nat n) as [|[|[|[|k]]]]; simpl; try (right; vm_compute; discriminate). left. destruct k; reflexivity.
  - split; [apply quiet_run_syntactic; [repeat (apply Forall_cons; [exact I|]); apply Forall_nil|reflexivity|reflexivity]|].
    split; vm_compute; reflexivity.
Qed.

Section SourceFacts.
Import String.
Local Open Scope string_scope.
(** Source facts regenerated on this run (agent.go, flood.go, routing):
    handleRouteAdvertise decodes the payload and hands (peer, origin, name,
    sequence, routes, path, seen-by) to the flooder in that order;
    handleStreamOpen exits when the remaining path is empty or is itself,
    otherwise forwards to RemainingPath[0] (a connected peer) with
    RemainingPath[1:]; DialContext sends to route.NextHop with Path[1:]; the
    forwarder prepends its own id to the path; the receiver records the
    sender as next hop and the path as received; connect sends the full table
    and disconnect drops the peer's routes from all four tables. *)
Theorem C12_source_facts :
  gen_handle_route_advertise_args =
    ["peerID"; "adv.OriginAgent"; "adv.OriginDisplayName"; "adv.Sequence"; "adv.Routes"; "adv.EncPath"; "adv.SeenBy"] /\
  gen_handle_route_advertise_decodes_payload = true /\
  gen_open_exit_when_empty_or_self = true /\ gen_open_forwards_new_path_to_next_hop = true /\
  gen_open_next_hop_index = 0 /\ gen_open_drops = 1 /\
  gen_dial_uses_next_hop_connection = true /\ gen_dial_drops = 1 /\
  gen_forward_prepends_self_to_path = true /\ gen_forward_path_extension_unconditional = true /\
  gen_display_name_cut_to_255_bytes = true /\ gen_ipnet_family_and_length_from_mask = true /\
  gen_route_advertise_loop_period_is_advertise_interval = true /\ gen_store_next_hop_is_sender_path_as_received = true /\
  gen_peer_connected_sends_full_table = true /\ gen_peer_disconnect_drops_routes_of_all_tables = true.
Proof. repeat split; reflexivity. Qed.
End SourceFacts.
Print Assumptions C12_source_facts.

(** Non-vacuity: diamond 0-1, 0-2, 1-3, 2-3; agent 3 learns agent 0's CIDR
    over a two-hop path that is a chain of links, and the stream-open walk
    along it ends at 0. *)
Definition ex_ops : list op := [C 0 1; C 0 2; C 1 3; C 2 3; L0 0 1 0; A 0; D 0; D 0; D 0; D 0; D 0; D 0].

Example C12_example_diamond :
  Forall no_disconnect ex_ops /\
  let s := run [] (init 4) ex_ops in
  match get (st_nodes s) 3 with
  | Some ns => map (fun e => (e_nexthop e, e_path e, open_walk (st_links s) (e_nexthop e) (tl (e_path e)))) (ns_entries ns)
               = [(1, [1; 0], Some 0); (1, [1; 0], Some 0)]
  | None => False
  end.
Proof.
  split; [unfold ex_ops; repeat (apply Forall_cons; [exact I|]); apply Forall_nil | vm_compute; reflexivity].
Qed.

(** The convergence / refresh theorems depend on the exact hop-limit
    comparisons of the code (a copy whose path has exactly max_hops hops is
    accepted; the replay test looks at the path as sent): the same regenerated
    facts as in C15, checked here as well. *)
Section HopFacts.
Import String.
Local Open Scope string_scope.
Theorem C12_hop_limit_facts :
  gen_handle_hop_checks = "gt:return-false,ge:return-true" /\
  gen_replay_hop_checks = "gt:continue" /\
  gen_hop_checks_placed_before_store_and_before_flood = true /\
  gen_replay_path_has_self_prepended = true /\
  gen_max_hops_plumbed_into_flood_config = true /\
  (forall lim len, over_limit lim len = ((0 <? lim)%N && (lim <? len)%N)%bool) /\
  (forall lim len, at_limit lim len = ((0 <? lim)%N && (lim <=? len)%N)%bool).
Proof. repeat split; reflexivity. Qed.
End HopFacts.
Print Assumptions C12_hop_limit_facts.
