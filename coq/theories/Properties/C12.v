(** C12 — placeholder (theorems follow) *)
From MM Require Import Model.Flood.
