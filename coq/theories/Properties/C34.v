(** C34 — persistent agent state survives a crash at any point.

    Model: Model/Persist.v.  A routine (identity.LoadOrCreate,
    identity.LoadOrCreateKeypair, sleep persistState) is the list of mutating
    system calls it issues; the process may die before any of them or in the
    middle of a write ([crash_of]).  The hex encoding of identifiers and keys,
    the X25519 base-point multiplication and the JSON decoding of the sleep
    state are section variables; the only facts used about them are the
    hypotheses below.  The statements are about the repaired code (two [fix:]
    commits); the two [_pre_fix_] theorems record what the code did before. *)
From Coq Require Import List NArith Bool.
From Coq Require Import String.
From MM Require Import Lib.Bytes Model.Persist Proofs.PersistProofs Generated.C34.
Import ListNotations.
Local Open Scope string_scope.
Local Open Scope list_scope.

Section C34.
  (** raw identifiers / keys, their file encoding (hex text + newline) and its inverse, X25519 base *)
  Variable K : Type.
  Variable K_eqb : K -> K -> bool.
  Variable enc : K -> bytes.
  Variable dec : bytes -> option K.
  Variable base : K -> K.
  Hypothesis dec_enc : forall k, dec (enc k) = Some k.
  Hypothesis K_eqb_eq : forall a b, K_eqb a b = true <-> a = b.

  (** *** identity.LoadOrCreate *)

  (** Whatever the point of death, the directory stays well formed and an
      identity that was in place stays in place. *)
  Theorem C34_id_crash_safe : forall s fresh s',
    good_id K enc s ->
    crash_of (fst (id_routine K enc dec s fresh)) s s' ->
    good_id K enc s' /\ (forall c, get s id_file = Some c -> get s' id_file = Some c).
  Proof. exact (id_crash_safe K enc dec base dec_enc). Qed.

  (** From every well-formed directory the next start succeeds, returns the
      identity that is (then) stored, and it is the stored one if there was one. *)
  Theorem C34_id_restart : forall s fresh,
    good_id K enc s ->
    exists k created, snd (id_routine K enc dec s fresh) = Ok (k, created) /\
      get (run (fst (id_routine K enc dec s fresh)) s) id_file = Some (enc k) /\
      (forall c, get s id_file = Some c -> c = enc k /\ created = false) /\
      good_id K enc (run (fst (id_routine K enc dec s fresh)) s).
  Proof. exact (id_complete K enc dec dec_enc). Qed.

  (** any sequence of interrupted and completed starts *)
  Theorem C34_id_history : forall s s',
    id_history K enc dec s s' -> good_id K enc s ->
    good_id K enc s' /\ (forall c, get s id_file = Some c -> get s' id_file = Some c).
  Proof. exact (id_history_safe K enc dec base dec_enc). Qed.

  (** *** identity.LoadOrCreateKeypair (repaired) *)
  Theorem C34_keypair_crash_safe : forall s fresh s',
    good_kp K enc base s ->
    crash_of (fst (kp_routine K K_eqb enc dec base s fresh)) s s' ->
    good_kp K enc base s' /\ (forall c, get s key_file = Some c -> get s' key_file = Some c).
  Proof. exact (kp_crash_safe K K_eqb enc dec base dec_enc K_eqb_eq). Qed.

  (** restart succeeds; the public key returned is the base-point multiple of
      the private key; both are what the directory then holds; a private key
      that was in place is the one returned *)
  Theorem C34_keypair_restart : forall s fresh,
    good_kp K enc base s ->
    exists k created, snd (kp_routine K K_eqb enc dec base s fresh) = Ok (k, base k, created) /\
      get (run (fst (kp_routine K K_eqb enc dec base s fresh)) s) key_file = Some (enc k) /\
      get (run (fst (kp_routine K K_eqb enc dec base s fresh)) s) pub_file = Some (enc (base k)) /\
      (forall c, get s key_file = Some c -> c = enc k /\ created = false) /\
      good_kp K enc base (run (fst (kp_routine K K_eqb enc dec base s fresh)) s).
  Proof. exact (kp_complete K K_eqb enc dec base dec_enc K_eqb_eq). Qed.

  (** never silently replaced once stored: over any sequence of interrupted
      and completed starts a private key that is in place stays in place *)
  Theorem C34_keypair_history : forall s s',
    kp_history K K_eqb enc dec base s s' -> good_kp K enc base s ->
    good_kp K enc base s' /\ (forall c, get s key_file = Some c -> get s' key_file = Some c).
  Proof. exact (kp_history_safe K K_eqb enc dec base dec_enc K_eqb_eq). Qed.

  (** before the repair: death between the two renames of Store, then a
      restart, replaces the stored private key *)
  Theorem C34_pre_fix_refuted_keypair_between_renames : forall s f1 f2,
    get s key_file = None -> get s pub_file = None -> f1 <> f2 ->
    exists s', crash_of (fst (kp_routine_pre_fix K K_eqb enc dec base s f1)) s s' /\
      get s' key_file = Some (enc f1) /\
      snd (kp_routine_pre_fix K K_eqb enc dec base s' f2) = Ok (f2, base f2, true) /\
      get (run (fst (kp_routine_pre_fix K K_eqb enc dec base s' f2)) s') key_file = Some (enc f2) /\
      enc f2 <> enc f1.
  Proof. exact (kp_pre_fix_replaces K K_eqb enc dec base dec_enc). Qed.

  (** *** sleep state *)
  Variable P : Type.
  Variable parse : bytes -> option P.
  Variable default_state : P.

  (** repaired persistState: before-or-after for every point of death,
      including the middle of the write, for every previous directory content *)
  Theorem C34_sleep_state_before_or_after : forall s data s',
    crash_of (sleep_save s data) s s' ->
    sleep_load P parse default_state s' = sleep_load P parse default_state s \/
    sleep_load P parse default_state s' = sleep_load P parse default_state (run (sleep_save s data) s).
  Proof. exact (sleep_before_or_after_proof P parse default_state). Qed.

  (** before the repair: truncate-then-write loses both states *)
  Theorem C34_pre_fix_refuted_sleep_truncate : forall s old_data new_data p_old p_new,
    get s sleep_file = Some old_data -> parse old_data = Some p_old -> parse new_data = Some p_new ->
    parse [] = None -> p_old <> default_state -> p_new <> default_state ->
    sleep_load P parse default_state s = p_old /\
    sleep_load P parse default_state (run (sleep_save_pre_fix s new_data) s) = p_new /\
    exists s', crash_of (sleep_save_pre_fix s new_data) s s' /\
               sleep_load P parse default_state s' <> p_old /\ sleep_load P parse default_state s' <> p_new.
  Proof. exact (sleep_pre_fix_neither P parse default_state). Qed.
End C34.

Print Assumptions C34_id_crash_safe.
Print Assumptions C34_id_restart.
Print Assumptions C34_id_history.
Print Assumptions C34_keypair_crash_safe.
Print Assumptions C34_keypair_restart.
Print Assumptions C34_keypair_history.
Print Assumptions C34_pre_fix_refuted_keypair_between_renames.
Print Assumptions C34_sleep_state_before_or_after.
Print Assumptions C34_pre_fix_refuted_sleep_truncate.

(** Non-vacuity: the hypotheses are satisfiable (toy instance: keys are
    numbers below 256, one byte of encoding, public key = successor) and the
    states the theorems speak about exist. *)
Example C34_nonvacuous :
  (forall k, (k < 256)%N -> Toy.dec (Toy.enc k) = Some k) /\
  good_kp Toy.K Toy.enc Toy.base Toy.empty_dir /\
  (let s1 := run (firstn 3 (fst (kp_routine Toy.K N.eqb Toy.enc Toy.dec Toy.base Toy.empty_dir 7%N))) Toy.empty_dir in
   get s1 key_file = Some (Toy.enc 7%N) /\ get s1 pub_file = None /\
   snd (kp_routine Toy.K N.eqb Toy.enc Toy.dec Toy.base s1 9%N) = Ok (7%N, 8%N, false)).
Proof. exact toy_nonvacuous. Qed.

(** The facts regenerated from identity.go, keypair.go and sleep.go on this
    run are the model's: file names; which load errors contain "not found"
    (NotFound and PubNotFound, nothing else) and that regeneration is decided
    by that substring; every store routine is MkdirAll?, then for each final
    name WriteFile(temp) immediately followed by Rename(temp, final), private
    key before public key; restorePublicKey is reached (guarded by os.Stat of
    the private key file) before NewKeypair; persistState renames a temporary
    file onto the state file. *)
Theorem C34_source_facts :
  gen_id_file = id_file /\ gen_key_file = key_file /\ gen_pub_file = pub_file /\ gen_sleep_file = sleep_file /\
  gen_load_id_not_found = [says_not_found NotFound; false] /\
  gen_load_kp_not_found = [says_not_found NotFound; false; says_not_found BadContent;
                           says_not_found PubNotFound; false; says_not_found BadContent; says_not_found Mismatch] /\
  gen_id_regenerates_on_not_found_text = true /\ gen_kp_regenerates_on_not_found_text = true /\
  gen_id_store_calls = "mkdirall(a0)" :: call_shape ["."] (write_rename id_tmp id_file []) /\
  gen_kp_store_calls = "mkdirall(a0)" :: call_shape ["."] (write_rename key_tmp key_file [] ++ write_rename pub_tmp pub_file []) /\
  gen_kp_store_private_first = true /\
  gen_kp_restore_calls = call_shape [] (write_rename pub_tmp pub_file []) /\
  gen_kp_restore_guarded_before_generate = true /\
  gen_sleep_persist_calls = call_shape [] (write_rename sleep_tmp sleep_file []).
Proof. repeat split; reflexivity. Qed.
Print Assumptions C34_source_facts.
