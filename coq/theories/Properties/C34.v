(** C34 — persistent agent state survives a crash at any point. *)
From Coq Require Import List NArith Bool.
From Coq Require Import String.
From MM Require Import Lib.Bytes Model.Persist Proofs.PersistProofs.
Import ListNotations.
Local Open Scope string_scope.
Local Open Scope list_scope.

Theorem C34_pre_fix_private_key_replaced_toy :
  let s0 := Toy.empty_dir in
  let script := fst (kp_routine_pre_fix Toy.K N.eqb Toy.enc Toy.dec Toy.base s0 7%N) in
  let s1 := run (firstn 4 script) s0 in
  get s1 key_file = Some (Toy.enc 7%N) /\
  snd (kp_routine_pre_fix Toy.K N.eqb Toy.enc Toy.dec Toy.base s1 9%N) = Ok (9%N, 10%N, true) /\
  get (run (fst (kp_routine_pre_fix Toy.K N.eqb Toy.enc Toy.dec Toy.base s1 9%N)) s1) key_file = Some (Toy.enc 9%N).
Proof. exact pre_fix_private_key_replaced_toy. Qed.
Print Assumptions C34_pre_fix_private_key_replaced_toy.
