(** C30 - sleep mode follows its state machine for every interleaving.

    A system state holds the manager's state, the state file, the timer, the
    wake generation, the lock and one program counter per goroutine that has
    called Sleep(), Wake() or been spawned by the poll timer; a trace is any
    list of [NewSleep | NewWake | Fire | Run tid] steps, each step being one
    critical section of the code (or the entry into a lock-free callback).
    [run gc init tr = Some s]: the trace is executable (every step enabled).
    [gc = true] is the repaired code, [gc = false] the code before. *)
From Coq Require Import List NArith Bool.
From MM Require Import Model.SleepSM Proofs.SleepSMProofs Generated.C30.
Import ListNotations.
From Coq Require String.
Delimit Scope string_scope with string.
Import String.StringSyntax.

(** Only the documented edges: every step of every interleaving leaves the
    state alone or moves it awake->sleeping, sleeping->polling,
    polling->sleeping, sleeping->awake or polling->awake. *)
Theorem C30_edges_allowed : forall gc tr s',
  run gc init tr = Some s' ->
  forall pre st post s1 s2, tr = pre ++ st :: post -> run gc init pre = Some s1 -> exec gc s1 st = Some s2 ->
  edge_ok (s_state s1) (s_state s2) = true.
Proof. exact edges_allowed. Qed.
Print Assumptions C30_edges_allowed.

(** Sleeping while asleep (sleeping or polling) and waking while awake are
    refused and change nothing but the caller's result. *)
Theorem C30_sleep_while_asleep_refused : forall gc s tid,
  nth_error (s_threads s) tid = Some SleepInit -> lock_free s = true -> s_state s <> MAwake ->
  exec gc s (Run tid) = Some (upd_thread s tid (Done RAlreadySleeping)).
Proof. exact sleep_while_asleep_refused. Qed.
Print Assumptions C30_sleep_while_asleep_refused.

Theorem C30_wake_while_awake_refused : forall gc s tid,
  nth_error (s_threads s) tid = Some WakeInit -> lock_free s = true -> s_state s = MAwake ->
  exec gc s (Run tid) = Some (upd_thread s tid (Done RNotSleeping)).
Proof. exact wake_while_awake_refused. Qed.
Print Assumptions C30_wake_while_awake_refused.

(** Once a wake has completed, a poll that had started earlier has no effect
    when it resumes: no OnPollEnd, no state change, no timer, no state-file
    write - for every interleaving before, between and after. *)
Theorem C30_no_stale_poll_effect : forall tr0 s0 tid g tr1 s1 w s2 tr2 s3 s4,
  run_fixed init tr0 = Some s0 -> poll_at s0 tid g ->
  run_fixed s0 tr1 = Some s1 ->
  nth_error (s_threads s1) w = Some WakeInCb -> exec_fixed s1 (Run w) = Some s2 ->
  run_fixed s2 tr2 = Some s3 ->
  nth_error (s_threads s3) tid = Some (PollInCb g) -> exec_fixed s3 (Run tid) = Some s4 ->
  s4 = upd_thread s3 tid (Done ROk).
Proof. exact no_stale_poll_effect. Qed.
Print Assumptions C30_no_stale_poll_effect.

(** The code before the repair: the stale poll runs OnPollEnd, stores SLEEPING
    over the newer POLLING, re-arms the timer and rewrites the state file. *)
Theorem C30_refuted_stale_poll_pre_fix :
  exists s3 s4, run_pre_fix init stale_trace = Some s3 /\
    nth_error (s_threads s3) 1 = Some (PollInCb 0) /\ s_state s3 = MPolling /\
    exec_pre_fix s3 (Run 1) = Some s4 /\
    s_state s4 = MSleeping /\ s_timer s4 = true /\ s_writes s4 = (s_writes s3 + 1)%N /\
    s_log s4 = s_log s3 ++ [(1, OnPollEnd)].
Proof. exact refuted_stale_poll_pre_fix. Qed.
Print Assumptions C30_refuted_stale_poll_pre_fix.

(** Non-vacuity: the witness schedule satisfies the hypotheses of the theorem
    on the repaired code, and a poll that is not stale still ends normally. *)
Theorem C30_nonvacuous_stale :
  exists s3, run_fixed init stale_trace = Some s3 /\
    nth_error (s_threads s3) 1 = Some (PollInCb 0) /\
    exec_fixed s3 (Run 1) = Some (upd_thread s3 1 (Done ROk)).
Proof. exact stale_trace_repaired. Qed.
Print Assumptions C30_nonvacuous_stale.

Theorem C30_nonvacuous_fresh_poll :
  exists s, run_fixed init [NewSleep; Run 0; Run 0; Fire; Run 1; Run 1; Run 1] = Some s /\
    s_state s = MSleeping /\ s_timer s = true /\ map snd (s_log s) = [OnSleep; OnPoll; OnPollEnd].
Proof. exact fresh_poll_ends. Qed.
Print Assumptions C30_nonvacuous_fresh_poll.

(** Persisted state.  Full clause of the property: after every completed
    transition the state file equals the state.  It is refuted (known finding:
    the SLEEPING -> POLLING edge is not written) ... *)
Theorem C30_refuted_polling_edge_not_persisted :
  exists tr s, run_fixed init tr = Some s /\ lock_free s = true /\ s_state s = MPolling /\ s_persist s = MSleeping.
Proof. exact refuted_polling_edge_not_persisted. Qed.
Print Assumptions C30_refuted_polling_edge_not_persisted.

(** ... and what holds after every step of every interleaving and restart: the
    file holds the state, except that while POLLING it may still say SLEEPING. *)
Theorem C30_persist_matches_modulo_polling_partial : forall gc tr s,
  run gc init tr = Some s ->
  s_persist s = s_state s \/ (s_state s = MPolling /\ s_persist s = MSleeping).
Proof. exact persist_matches_modulo_polling. Qed.
Print Assumptions C30_persist_matches_modulo_polling_partial.

(** Restarts.  A trace may contain [Restart graceful start] steps: the process
    ends (Stop() writes the current state, a crash writes nothing), every
    goroutine is gone, and a new Manager over the same directory loads the
    file (through Start(), which re-arms the timer when asleep, or LoadState()
    alone).  [C30_edges_allowed] and [C30_persist_matches_modulo_polling_partial]
    above quantify over such traces too, so the file matches the state after
    the first transition that follows a load as after any other. *)
Theorem C30_restart_resumes_persisted : forall gc s g st s', exec gc s (Restart g st) = Some s' ->
  s_state s' = s_persist s' /\ s_persist s' = (if g then s_state s else s_persist s) /\ s_lock s' = None.
Proof. exact restart_resumes_persisted. Qed.
Print Assumptions C30_restart_resumes_persisted.

Theorem C30_restart_then_wake_is_persisted :
  exists s, run_fixed init [NewSleep; Run 0; Run 0; Restart true false; NewWake; Run 1; Run 1] = Some s /\
    s_state s = MAwake /\ s_persist s = MAwake /\ s_writes s = 3%N.
Proof. exact restart_then_wake_is_persisted. Qed.
Print Assumptions C30_restart_then_wake_is_persisted.

(** Two interleavings the wake generation does not cover (known findings):
    the OnPoll callback of a poll can still be entered after a wake that
    completed between Poll's unlock and the callback call, and agent.doPoll
    reads the state and then disconnects without the lock. *)
Theorem C30_refuted_onpoll_entered_after_wake :
  exists s1 s2, run_fixed init [NewSleep; Run 0; Run 0; Fire; Run 1; NewWake; Run 2; Run 2] = Some s1 /\
    s_state s1 = MAwake /\ nth_error (s_threads s1) 2 = Some (Done ROk) /\
    nth_error (s_threads s1) 1 = Some (PollBeforeCb 0) /\
    exec_fixed s1 (Run 1) = Some s2 /\ s_log s2 = s_log s1 ++ [(1, OnPoll)] /\ s_state s2 = MAwake.
Proof. exact refuted_onpoll_entered_after_wake. Qed.
Print Assumptions C30_refuted_onpoll_entered_after_wake.

Theorem C30_refuted_dopoll_toctou :
  exists s, drun (mkd MPolling None []) [DReadState; DWakeCompletes; DDisconnect] = Some s /\
    d_state s = MAwake /\ d_events s = [EvWakeCompleted; EvDisconnectAll].
Proof. exact refuted_dopoll_toctou. Qed.
Print Assumptions C30_refuted_dopoll_toctou.

(** Source facts regenerated on this run: the order of locking, callbacks,
    state stores, timer operations, generation reads/writes and persistState
    calls inside Manager.Sleep, Wake and Poll - the atomic steps of the model.
    Sleep and Wake are one lock region until they return (deferred unlock) with
    the callback before the state store; Wake stops the timer before its
    callback and advances the generation with the store; Poll's first region
    stores POLLING, reads the generation and does not persist; OnPoll and the
    wait run without the lock; the second region re-checks "awake or other
    generation" before OnPollEnd, the SLEEPING store, re-arming and persisting. *)
Theorem C30_source_facts :
  gen_c30_sleep_markers = ["m.stateMu.Lock"; "m.stateMu.Unlock"; "callback:OnSleep"; "store:StateSleeping"; "m.schedulePollLocked"; "m.persistState"]%string /\
  gen_c30_sleep_one_region_until_return = true /\
  gen_c30_wake_markers = ["m.stateMu.Lock"; "m.stateMu.Unlock"; "m.pollTimer.Stop"; "callback:OnWake"; "store:StateAwake"; "wakeGen++"; "m.persistState"]%string /\
  gen_c30_wake_one_region_until_return = true /\
  gen_c30_poll_markers = ["m.stateMu.Lock"; "m.stateMu.Unlock"; "store:StatePolling"; "read-wakeGen"; "m.stateMu.Unlock";
                          "callback:OnPoll"; "time.After";
                          "m.stateMu.Lock"; "m.stateMu.Unlock"; "recheck:awake-or-generation"; "callback:OnPollEnd";
                          "store:StateSleeping"; "m.schedulePollLocked"; "m.persistState"]%string /\
  gen_c30_poll_second_region_until_return = true /\
  gen_c30_schedule_stops_old_timer_first = true.
Proof. repeat split; reflexivity. Qed.
Print Assumptions C30_source_facts.
