(** C05 — wire codecs are lossless and total.

    [lossless encode decode wf]: every message within its wire limits ([wf])
    is encoded and decodes to itself.  [stable encode decode wf]: whatever the
    decoder accepts from ARBITRARY bytes is within limits and decodes again,
    to the same message, from its own encoding.  Decoders are total functions
    into [option]/[dres] (they cannot crash in the model; absence of Go panics
    is what the harness checks on the implementation). *)
From Coq Require Import List NArith.
From MM Require Import Lib.Bytes Lib.Codec Model.Frames Model.FrameShapes
  Proofs.FramesProofs Proofs.FramesIrregular Proofs.NodeInfoProofs Proofs.QueuedStateProofs Proofs.FrameFacts
  Generated.C05.
Import ListNotations.
Local Open Scope N_scope.

(** 14-byte header and whole frames: a frame with payload of at most 16384
    bytes round-trips; DecodeHeader fails with ErrInvalidFrame exactly on
    short input and with ErrFrameTooLarge exactly on an over-long length
    field; Decode never panics and what it accepts re-encodes and decodes to
    the same frame. *)
Theorem C05_frame_header :
  (forall f, wf_Frame f = true ->
     exists b, encode_Frame f = Some b /\ decode_Frame b = DOk f /\ lenN b = header_size + lenN (snd (snd (snd f)))) /\
  (forall b,
     (lenN b < header_size -> decode_Header b = DErr err_invalid) /\
     (header_size <= lenN b -> exists t fl len sid rest,
        dec Header_c b = Some ((t, (fl, (len, sid))), rest) /\
        decode_Header b = if max_payload <? len then DErr err_too_large else DOk (t, (fl, (len, sid))))) /\
  (forall b, decode_Frame b <> DPanic) /\
  (forall b f, decode_Frame b = DOk f ->
     wf_Frame f = true /\ exists b', encode_Frame f = Some b' /\ decode_Frame b' = DOk f).
Proof. exact (conj Frame_roundtrip (conj decode_Header_total (conj decode_Frame_never_panics Frame_stable))). Qed.
Print Assumptions C05_frame_header.

(** FrameReader.Read, the entry point every transport feeds: it never panics,
    reads every frame the buffer decoder accepts identically, and reserves at
    most MaxPayloadSize bytes for the payload whatever the header announces
    (the limit is checked before make()). *)
Theorem C05_frame_reader :
  (forall b, decode_FrameRead b <> DPanic) /\
  (forall b f, decode_Frame b = DOk f -> decode_FrameRead b = DOk f) /\
  (forall b, frame_read_alloc b <= max_payload).
Proof. exact (conj frame_read_never_panics (conj frame_read_agrees frame_read_alloc_bounded)). Qed.
Print Assumptions C05_frame_reader.

(** Messages whose Go codec is a plain sequence of fields (PeerHello;
    StreamOpen/UDPOpen; StreamOpenAck/UDPOpenAck; StreamReset; Keepalive;
    UDPClose/ICMPClose; path; ControlRequest; UDPDatagram; ICMPOpen;
    ICMPOpenAck; ICMPEcho; SleepCommand/WakeCommand). *)
Theorem C05_regular_messages :
  (lossless encode_PeerHello decode_PeerHello (wfb PeerHello_c) /\ stable encode_PeerHello decode_PeerHello (wfb PeerHello_c)) /\
  (lossless encode_Open decode_Open (wfb Open_c) /\ stable encode_Open decode_Open (wfb Open_c)) /\
  (lossless encode_Ack decode_Ack (wfb Ack_c) /\ stable encode_Ack decode_Ack (wfb Ack_c)) /\
  (lossless encode_StreamReset decode_StreamReset (wfb u16) /\ stable encode_StreamReset decode_StreamReset (wfb u16)) /\
  (lossless encode_Keepalive decode_Keepalive (wfb u64) /\ stable encode_Keepalive decode_Keepalive (wfb u64)) /\
  (lossless encode_Close decode_Close (wfb u8) /\ stable encode_Close decode_Close (wfb u8)) /\
  (lossless encode_Path decode_Path (wfb idlist) /\ stable encode_Path decode_Path (wfb idlist)) /\
  (lossless encode_CtlReq decode_CtlReq (wfb CtlReq_c) /\ stable encode_CtlReq decode_CtlReq (wfb CtlReq_c)) /\
  (lossless encode_UDPDatagram decode_UDPDatagram (wfb UDPDatagram_c) /\ stable encode_UDPDatagram decode_UDPDatagram (wfb UDPDatagram_c)) /\
  (lossless encode_ICMPOpen decode_ICMPOpen (wfb ICMPOpen_c) /\ stable encode_ICMPOpen decode_ICMPOpen (wfb ICMPOpen_c)) /\
  (lossless encode_ICMPOpenAck decode_ICMPOpenAck (wfb ICMPOpenAck_c) /\ stable encode_ICMPOpenAck decode_ICMPOpenAck (wfb ICMPOpenAck_c)) /\
  (lossless encode_ICMPEcho decode_ICMPEcho (wfb ICMPEcho_c) /\ stable encode_ICMPEcho decode_ICMPEcho (wfb ICMPEcho_c)) /\
  (lossless encode_Cmd decode_Cmd (wfb Cmd_c) /\ stable encode_Cmd decode_Cmd (wfb Cmd_c)).
Proof.
  exact (conj (conj PeerHello_lossless PeerHello_stable) (conj (conj Open_lossless Open_stable)
        (conj (conj Ack_lossless Ack_stable) (conj (conj StreamReset_lossless StreamReset_stable)
        (conj (conj Keepalive_lossless Keepalive_stable) (conj (conj Close_lossless Close_stable)
        (conj (conj Path_lossless Path_stable) (conj (conj CtlReq_lossless CtlReq_stable)
        (conj (conj UDPDatagram_lossless UDPDatagram_stable) (conj (conj ICMPOpen_lossless ICMPOpen_stable)
        (conj (conj ICMPOpenAck_lossless ICMPOpenAck_stable) (conj (conj ICMPEcho_lossless ICMPEcho_stable)
        (conj Cmd_lossless Cmd_stable))))))))))))).
Qed.
Print Assumptions C05_regular_messages.

(** Encoders that cut an over-long field (error messages at 255 bytes,
    ControlResponse data at MaxPayloadSize-12), EncryptedData with its
    consumed count, RouteWithdraw (prefixes of exactly prefixLength(family,0)
    bytes).  ControlResponse stability holds for inputs up to the frame
    payload size (a longer input can carry more data than Encode keeps). *)
Theorem C05_cutting_and_fixed_prefix_messages :
  (lossless encode_Err decode_Err (wfb Err_c) /\ stable encode_Err decode_Err (wfb Err_c)) /\
  (lossless encode_CtlResp decode_CtlResp wf_CtlResp /\ stable_sized encode_CtlResp decode_CtlResp wf_CtlResp) /\
  (forall e d rest, lenN d < 65536 -> decode_EncData (enc EncData_c (e, d) ++ rest) = Some (e, (d, 3 + lenN d))) /\
  (lossless encode_RW decode_RW wf_RW /\ stable encode_RW decode_RW wf_RW).
Proof.
  exact (conj (conj Err_lossless Err_stable) (conj (conj CtlResp_lossless CtlResp_stable)
        (conj EncData_roundtrip (conj RW_lossless RW_stable)))).
Qed.
Print Assumptions C05_cutting_and_fixed_prefix_messages.

(** RouteAdvertise.  The Go struct carries the path twice (Path, optional
    EncPath); the decoder always fills EncPath and derives Path from plaintext
    data, so "the same message" is the normal form [norm_RA] (identity on
    everything the decoder produces; keeps a sender's Path).  The buffer size
    Encode computes by hand equals the bytes written (no bufferWriter panic). *)
Theorem C05_route_advertise :
  (forall m, wf_RA m = true -> exists b, encode_RA m = Some b /\ decode_RA b = Some (norm_RA m)) /\
  (forall o n s rs p sb, wfb idlist p = true ->
     norm_RA (o, (n, (s, (rs, (p, (None, sb)))))) = (o, (n, (s, (rs, (p, (Some (false, enc idlist p), sb))))))) /\
  (forall b m, decode_RA b = Some m ->
     wf_RA m = true /\ norm_RA m = m /\ exists b', encode_RA m = Some b' /\ decode_RA b' = Some m) /\
  (forall m, wfb RAW_c (ra_wire m) = true -> ra_size m = lenN (enc RAW_c (ra_wire m))) /\
  (forall r, encode_Route r = Some (enc Route_c r)).
Proof. exact (conj RA_lossless (conj norm_RA_plain (conj RA_stable (conj ra_size_exact encode_Route_is_codec)))). Qed.
Print Assumptions C05_route_advertise.

(** NodeInfo: DecodeNodeInfo (modelled with its sticky reader error, count
    clamps and optional tail fields) inverts EncodeNodeInfo on every NodeInfo
    within the limits (strings < 256 bytes, < 256 addresses, <= 50 peers, <= 20
    listeners, <= 10 shells); and whatever it returns from ARBITRARY bytes
    (truncated tails, hostile counts) is within those limits, hence decodes
    again from its own encoding. *)
Theorem C05_node_info :
  lossless encode_NI decode_NI wf_NI /\
  stable encode_NI decode_NI wf_NI /\
  (forall m, wf_NI m = true -> decode_NI (enc NI_c m) = Some m) /\
  (forall b m, decode_NI b = Some m -> wf_NI m = true).
Proof. exact (conj NI_lossless (conj NI_stable (conj NI_roundtrip decode_NI_wf))). Qed.
Print Assumptions C05_node_info.

(** NodeInfoAdvertise (Info / optional EncInfo, same normal-form treatment as RouteAdvertise). *)
Theorem C05_node_info_advertise :
  (forall m, wf_NIA m = true -> exists b, encode_NIA m = Some b /\ decode_NIA b = Some (norm_NIA m)) /\
  (forall o s i sb, wf_NI i = true ->
     norm_NIA (o, (s, (i, (None, sb)))) = (o, (s, (i, (Some (false, enc NI_c i), sb))))) /\
  (forall b m, decode_NIA b = Some m ->
     wf_NIA m = true /\ norm_NIA m = m /\ exists b', encode_NIA m = Some b' /\ decode_NIA b' = Some m).
Proof. exact (conj NIA_lossless (conj norm_NIA_plain NIA_stable)). Qed.
Print Assumptions C05_node_info_advertise.

(** QueuedState (after the two repairs): lossless for every state whose
    entries are within limits, including all four combinations of sleep and
    wake command; stable for arbitrary bytes (entries that fail to decode are
    skipped, so the decoded state is the normal form of what re-encodes); the
    bytes reserved by the three make() calls are at most 18 per input byte,
    whether or not the decode succeeds. *)
Theorem C05_queued_state :
  (forall q, wf_QS q = true -> exists b, encode_QS q = Some b /\ decode_QS b = Some (norm_QS q)) /\
  (forall b q, decode_QS b = Some q ->
     wf_QS q = true /\ norm_QS q = q /\ exists b', encode_QS q = Some b' /\ decode_QS b' = Some q) /\
  (forall b, qs_ledger cap_for b <= 18 * lenN b) /\
  (forall capf skipf b q caps, decode_QS_gen capf skipf b = Some (q, caps) -> qs_ledger capf b = qs_prealloc caps).
Proof. exact (conj QS_lossless (conj QS_stable (conj QS_prealloc_linear qs_ledger_success))). Qed.
Print Assumptions C05_queued_state.

(** Non-vacuity: a state with both commands satisfies [wf_QS] (and is the
    witness of the old defect). *)
(** The decoders as they were before the repairs (modelled separately, [_pre_fix]):
    a QueuedState with both commands lost its wake command; eight bytes
    reserved 7.8 MB; the acknowledgement decoders accepted 44 zero bytes but
    refused the 43-byte re-encoding of what they had decoded. *)
Theorem C05_refuted_pre_fix :
  (wf_QS qs_both = true /\
   exists b, encode_QS qs_both = Some b /\
             decode_QS_pre_fix b = Some ([], ([], ([], (Some cmd_a, None)))) /\ decode_QS b = Some qs_both) /\
  (lenN hostile8 = 8 /\ qs_ledger cap_pre_fix hostile8 = 7864200 /\ qs_ledger cap_for hostile8 = 0) /\
  (decode_Ack_pre_fix (repeat Byte.x00 44) = Some ack_untyped /\
   exists b', encode_Ack ack_untyped = Some b' /\ decode_Ack_pre_fix b' = None /\ decode_Ack b' = Some ack_untyped).
Proof. exact (conj QS_pre_fix_loses_wake (conj QS_pre_fix_prealloc Ack_pre_fix_unstable)). Qed.
Print Assumptions C05_refuted_pre_fix.

(** The facts regenerated from internal/protocol on this run are the ones the
    model was written against, and the model uses them. *)
Theorem C05_source_facts :
  (gen_header_size = header_size /\ gen_max_payload = max_payload /\ gen_key_size = key_size /\
   gen_signature_size = signature_size /\ gen_max_peers = max_peers /\ gen_max_fwd_listeners = max_fwd_listeners /\
   gen_max_shells = max_shells /\ gen_addr_ipv4 = addr_ipv4 /\ gen_addr_ipv6 = addr_ipv6 /\ gen_addr_domain = addr_domain /\
   gen_fam_ipv4 = fam_ipv4 /\ gen_fam_ipv6 = fam_ipv6 /\ gen_fam_domain = fam_domain /\ gen_fam_forward = fam_forward /\
   gen_fam_agent = fam_agent) /\
  gen_guards = model_guards /\
  gen_prefix_length = model_prefix_length /\ gen_address_length = model_address_length /\
  (gen_sleep_skip_const = cmd_min /\ forall n, sleep_skip n = gen_sleep_skip_const + gen_sleep_skip_per_seenby * n) /\
  (gen_capfor_min_sizes = [28; 26; 28] /\ forall c m r, cap_for c m r = N.min c (lenN r / (gen_capfor_overhead + m))) /\
  gen_cuts = model_cuts /\
  gen_shapes = model_shapes /\
  gen_bounds = model_bounds.
Proof.
  repeat split; try reflexivity.
Qed.
Print Assumptions C05_source_facts.

(** ... and the model follows the tables: guards, prefixLength, addressLength. *)
Theorem C05_model_uses_source_facts :
  (forall f, prefix_length0 f = tlookup f model_prefix_length) /\
  (forall t, addr_body t =
     (if t =? addr_domain then rawc plen_domain 1
      else if tlookup t model_address_length =? 0 then failc
      else fixed (tlookup t model_address_length))) /\
  (forall b, lenN b < guard_QueuedState -> decode_QS b = None) /\
  (forall b, lenN b < guard_RouteAdvertise -> decode_RA b = None) /\
  (forall b, lenN b < guard_StreamOpenAck -> decode_Ack b = None) /\
  (forall b, lenN b < guard_Header -> decode_Header b = DErr err_invalid).
Proof.
  pose proof guards_reject as G.
  repeat split; [exact prefix_length_table|exact address_length_table| | | | ]; intros b H; apply G; exact H.
Qed.
Print Assumptions C05_model_uses_source_facts.
