(** C05 — wire codecs are lossless and total. *)
From Coq Require Import List NArith.
From MM Require Import Lib.Bytes Lib.Codec Model.Frames Proofs.FramesProofs.
Import ListNotations.
Local Open Scope N_scope.

(** Messages whose Go codec is a plain sequence of fields: for every message
    within its wire limits Decode(Encode m) = m, and whatever Decode accepts
    from arbitrary bytes is within limits and survives re-encoding. *)
Theorem C05_regular_messages :
  (lossless encode_PeerHello decode_PeerHello (wfb PeerHello_c) /\ stable encode_PeerHello decode_PeerHello (wfb PeerHello_c)) /\
  (lossless encode_Open decode_Open (wfb Open_c) /\ stable encode_Open decode_Open (wfb Open_c)) /\
  (lossless encode_Ack decode_Ack (wfb Ack_c) /\ stable encode_Ack decode_Ack (wfb Ack_c)) /\
  (lossless encode_StreamReset decode_StreamReset (wfb u16) /\ stable encode_StreamReset decode_StreamReset (wfb u16)) /\
  (lossless encode_Keepalive decode_Keepalive (wfb u64) /\ stable encode_Keepalive decode_Keepalive (wfb u64)) /\
  (lossless encode_Close decode_Close (wfb u8) /\ stable encode_Close decode_Close (wfb u8)) /\
  (lossless encode_Path decode_Path (wfb idlist) /\ stable encode_Path decode_Path (wfb idlist)) /\
  (lossless encode_CtlReq decode_CtlReq (wfb CtlReq_c) /\ stable encode_CtlReq decode_CtlReq (wfb CtlReq_c)) /\
  (lossless encode_UDPDatagram decode_UDPDatagram (wfb UDPDatagram_c) /\ stable encode_UDPDatagram decode_UDPDatagram (wfb UDPDatagram_c)) /\
  (lossless encode_ICMPOpen decode_ICMPOpen (wfb ICMPOpen_c) /\ stable encode_ICMPOpen decode_ICMPOpen (wfb ICMPOpen_c)) /\
  (lossless encode_ICMPOpenAck decode_ICMPOpenAck (wfb ICMPOpenAck_c) /\ stable encode_ICMPOpenAck decode_ICMPOpenAck (wfb ICMPOpenAck_c)) /\
  (lossless encode_ICMPEcho decode_ICMPEcho (wfb ICMPEcho_c) /\ stable encode_ICMPEcho decode_ICMPEcho (wfb ICMPEcho_c)) /\
  (lossless encode_Cmd decode_Cmd (wfb Cmd_c) /\ stable encode_Cmd decode_Cmd (wfb Cmd_c)).
Proof.
  exact (conj (conj PeerHello_lossless PeerHello_stable) (conj (conj Open_lossless Open_stable)
        (conj (conj Ack_lossless Ack_stable) (conj (conj StreamReset_lossless StreamReset_stable)
        (conj (conj Keepalive_lossless Keepalive_stable) (conj (conj Close_lossless Close_stable)
        (conj (conj Path_lossless Path_stable) (conj (conj CtlReq_lossless CtlReq_stable)
        (conj (conj UDPDatagram_lossless UDPDatagram_stable) (conj (conj ICMPOpen_lossless ICMPOpen_stable)
        (conj (conj ICMPOpenAck_lossless ICMPOpenAck_stable) (conj (conj ICMPEcho_lossless ICMPEcho_stable)
        (conj Cmd_lossless Cmd_stable))))))))))))).
Qed.
Print Assumptions C05_regular_messages.
