(** C15 — route announcements do not travel beyond the configured hop limit. *)
From Coq Require Import List NArith Bool.
From MM Require Import Model.Flood Model.FloodPreFix Proofs.FloodPreFixProofs Proofs.FloodBase Proofs.FloodLimit Generated.C15.
Import ListNotations.
Local Open Scope N_scope.

(** [limit_of cf n] is agent n's routing.max_hops as it reaches the flooder
    (0 = not configured).  The length of an advertisement's path is the number
    of hops it has travelled from its origin.  For every topology, every
    assignment of limits and every schedule: *)

(** no agent stores an announcement that travelled more than its limit, *)
Theorem C15_never_stored_beyond_limit : forall cf k ops n ns e,
  get (st_nodes (run cf (init k) ops)) n = Some ns -> In e (ns_entries ns) ->
  e_origin e <> n -> limit_of cf n <> 0 ->
  lenN (e_path e) <= limit_of cf n.
Proof. exact never_stored_beyond_limit. Qed.
Print Assumptions C15_never_stored_beyond_limit.

(** and no agent sends (forwards, announces or replays) one whose receiver
    would be more than the sender's limit from the origin. *)
Theorem C15_never_sent_beyond_limit : forall cf k ops o m,
  In m (snd (fst (step cf (run cf (init k) ops) o))) ->
  limit_of cf (m_from m) <> 0 ->
  lenN (a_path (m_adv m)) <= limit_of cf (m_from m).
Proof. exact never_sent_beyond_limit. Qed.
Print Assumptions C15_never_sent_beyond_limit.

(** The code BEFORE commit 45dead9 violated the property: max_hops = 1 everywhere, and agent 2 stored a two-hop path. *)
Theorem C15_refuted_pre_fix :
  exists ops, map e_path (entries_pre [1; 1; 1] 3 ops 2) = [[1; 0]; [1; 0]] /\ limit_of [1; 1; 1] 2 = 1.
Proof. exact C15_pre_fix_limit_ignored. Qed.
Print Assumptions C15_refuted_pre_fix.

(** Non-vacuity, limit 2 on a chain 0-1-2-3: agent 2 (2 hops) stores the
    route and does not forward; agent 3 learns nothing. With limit 0 (none)
    agent 3 learns it. *)
Definition ex_ops : list op := [C 0 1; C 1 2; C 2 3; L0 0 1 0; A 0; D 0; D 0; D 0].

Example C15_example_limit2 :
  let s := run [2; 2; 2; 2] (init 4) ex_ops in
  match get (st_nodes s) 2, get (st_nodes s) 3 with
  | Some n2, Some n3 => map e_path (ns_entries n2) = [[1; 0]; [1; 0]] /\ ns_entries n3 = [] /\ st_flight s = []
  | _, _ => False
  end.
Proof. vm_compute. repeat split; reflexivity. Qed.

Example C15_example_unlimited :
  let s := run [] (init 4) ex_ops in
  match get (st_nodes s) 3 with
  | Some n3 => map e_path (ns_entries n3) = [[2; 1; 0]; [2; 1; 0]]
  | _ => False
  end.
Proof. vm_compute. reflexivity. Qed.

Section SourceFacts.
Import String.
Local Open Scope string_scope.
(** Source facts regenerated on this run: routing.max_hops is copied into
    FloodConfig.MaxHops before the flooder is built and the flooder keeps its
    configuration; HandleRouteAdvertise returns false before storing when
    MaxHops > 0 and len(path) > MaxHops ([over_limit]) and returns true without
    flooding when len(path) >= MaxHops ([at_limit]); SendFullTable skips a
    group when the path it would send (local id prepended) is longer than
    MaxHops; config.Validate accepts 1..255, default 16. *)
Theorem C15_source_facts :
  gen_handle_hop_checks = "gt:return-false,ge:return-true" /\
  gen_replay_hop_checks = "gt:continue" /\
  gen_hop_checks_placed_before_store_and_before_flood = true /\
  gen_replay_path_has_self_prepended = true /\
  gen_max_hops_plumbed_into_flood_config = true /\ gen_flooder_keeps_config = true /\
  gen_flood_config_has_max_hops = true /\ gen_config_validates_1_to_255 = true /\
  gen_config_default_max_hops = 16 /\
  (forall lim len, over_limit lim len = ((0 <? lim)%N && (lim <? len)%N)%bool) /\
  (forall lim len, at_limit lim len = ((0 <? lim)%N && (lim <=? len)%N)%bool).
Proof. repeat split; reflexivity. Qed.
End SourceFacts.
Print Assumptions C15_source_facts.
