(** C24 — the HTTP API enforces bearer-token auth and endpoint gating.
    Model: Model/HttpGate.v (requireAuth around net/http.ServeMux over the
    registrations of health.NewServer). *)
From Coq Require Import String List NArith Bool.
From MM Require Import Lib.HStr Model.HttpGate Proofs.HttpGateProofs Proofs.HttpGateMux Generated.C24.
Import ListNotations.
Local Open Scope N_scope.

(** When a token is configured: every request whose URL path is not one of
    the exempt paths and that presents no valid token (neither after
    "Bearer " in the Authorization header nor in the token query parameter)
    is answered 401 by the middleware; the mux, hence every handler, is never
    entered.  For every path string, method, header, query, flag combination
    and every token check [valid]. *)
Theorem C24_unauthenticated_401_no_action :
  forall (f : flags) (valid : str -> bool) (q : request),
    mem_s (q_path q) exempt_paths = false ->
    (forall t, presented q t -> valid t = false) ->
    serve f true valid q = R401.
Proof. exact serve_unauth_401. Qed.
Print Assumptions C24_unauthenticated_401_no_action.

(** The same at every point of every history of requests, with the SHA-256
    cache of validateToken in the loop (digest collisions excluded by
    hypothesis): a request without a token that passes bcrypt gets 401
    whatever was validated and cached before. *)
Theorem C24_unauthenticated_401_every_history :
  forall (sha : str -> str) (bcrypt_ok : str -> bool),
    (forall a b, sha a = sha b -> a = b) ->
    forall (f : flags) (qs : list request),
      Forall2 (fun q r =>
                 mem_s (q_path q) exempt_paths = false ->
                 (forall t, presented q t -> bcrypt_ok t = false) -> r = R401)
              qs (gate_run sha bcrypt_ok exempt_paths (table_of entries f) None qs).
Proof.
  intros sha bcrypt_ok Hinj f qs.
  exact (gate_run_unauth_401 sha bcrypt_ok Hinj exempt_paths (table_of entries f) qs None I).
Qed.
Print Assumptions C24_unauthenticated_401_every_history.

(** The exempt set is exactly the five paths of the property, as regenerated
    from authExemptPaths. *)
Theorem C24_exempt_set_exact :
  gen_exempt_recognised = true /\
  (forall p, In p exempt_paths <-> In p (map lit gen_exempt_paths)) /\
  exempt_paths = [lit "/health"; lit "/healthz"; lit "/ready"; lit "/"; lit "/logo.png"]%string.
Proof. exact (exempt_set_exact gen_exempt_recognised gen_exempt_paths eq_refl eq_refl). Qed.
Print Assumptions C24_exempt_set_exact.

(** A request whose URL path is an exempt path can only reach the handler
    registered for exactly that path -- a probe, the splash page or the logo,
    all outside the endpoint groups -- whatever the spelling of the escaped
    path, the method, and the flags.  ([unescape (q_epath q) = Some (q_path q)]
    is what net/url guarantees about EscapedPath; the harness checks it on
    every request.) *)
Theorem C24_exempt_paths_reach_only_their_handlers :
  forall (f : flags) (tc : bool) (valid : str -> bool) (q : request) (rest : str),
    q_epath q = SLASH :: rest ->
    unescape (q_epath q) = Some (q_path q) ->
    In (q_path q) exempt_paths ->
    exists r, serve f tc valid q = RMux (MDispatch r) /\
              r_pattern r = q_path q /\ r_group r = GAlways /\ r_disabled r = false.
Proof. exact exempt_dispatch. Qed.
Print Assumptions C24_exempt_paths_reach_only_their_handlers.

(** Whatever is dispatched is registered under the current flags: a
    registration of a group that is switched off is the disabled handler
    (404 and nothing else), for every request. *)
Theorem C24_disabled_groups_only_reach_disabled_handler :
  forall (f : flags) (tc : bool) (valid : str -> bool) (q : request) (r : registration),
    serve f tc valid q = RMux (MDispatch r) ->
    active f r = true /\
    (group_on f (r_group r) = false -> r_disabled r = true) /\
    (group_on f (r_group r) = true -> r_disabled r = false).
Proof. exact dispatch_respects_flags. Qed.
Print Assumptions C24_disabled_groups_only_reach_disabled_handler.

(** Every request whose routed path (the escaped path, cleaned unless the
    method is CONNECT, cut into decoded segments) lies in the namespace of a
    switched-off group -- i.e. matches one of the group's disabled
    registrations -- is redirected or answered by a disabled registration of
    that group (404, nothing else): no handler of another group, no splash
    page, no more specific pattern shadows it. *)
Theorem C24_disabled_namespace_404 :
  forall (f : flags) (cn : bool) (epath : str) (g : group) (segs : list str) (tr : bool),
    route_segs (if cn then epath else clean_path epath) = Some (segs, tr) ->
    in_namespace_segs f g segs tr = true ->
    mux (table_of entries f) cn epath = MRedirect \/
    exists r, mux (table_of entries f) cn epath = MDispatch r /\ r_disabled r = true /\ r_group r = g.
Proof. exact disabled_namespace_404. Qed.
Print Assumptions C24_disabled_namespace_404.

(** The namespaces in the words of the configuration: with the group switched
    off, everything under /api/, everything under /debug/, everything under
    /agents/ and each of the remote-control paths lies in its group's
    namespace ([extends rest tr]: something follows the first segment, at
    least a trailing slash). *)
Theorem C24_namespaces_in_words :
  (forall f rest tr, f_dashboard f = false -> extends rest tr ->
     in_namespace_segs f GDashboard (lit "api" :: rest) tr = true) /\
  (forall f rest tr, f_pprof f = false -> extends rest tr ->
     in_namespace_segs f GPprof (lit "debug" :: rest) tr = true) /\
  (forall f rest tr, f_remote f = false -> extends rest tr ->
     in_namespace_segs f GRemote (lit "agents" :: rest) tr = true) /\
  (forall f segs, f_remote f = false -> In segs remote_exact ->
     in_namespace_segs f GRemote segs false = true).
Proof.
  exact (conj dashboard_namespace (conj pprof_namespace (conj remote_agents_namespace remote_exact_namespace))).
Qed.
Print Assumptions C24_namespaces_in_words.

(** From the configuration file to the gate: minimal mode switches every
    endpoint group off, whatever the group's own toggle says (even an explicit
    true); without it a group is off exactly when its toggle is false.  The
    shape of the three HTTPConfig methods and the health.ServerConfig literal
    in the agent are regenerated facts (C24_source_facts); the real path
    configuration text -> config.Parse -> agent.New -> handler is run by the
    harness for every combination. *)
Theorem C24_config_to_flags :
  forall (minimal : bool) (remote dashboard pprof : option bool),
    let f := flags_of_config minimal remote dashboard pprof in
    (minimal = true -> f = mkFlags false false false) /\
    (minimal = false ->
       (f_remote f = false <-> remote = Some false) /\
       (f_dashboard f = false <-> dashboard = Some false) /\
       (f_pprof f = false <-> pprof = Some false)).
Proof. exact config_to_flags. Qed.
Print Assumptions C24_config_to_flags.

(** Concrete requests (non-vacuity of the hypotheses above, and the corner
    cases of token presentation). *)
Theorem C24_examples :
  serve all_on true valid (req "/agents" None "") = R401 /\
  serve all_on true valid (req "/agents" (Some "Bearer nope") "") = R401 /\
  serve all_on true valid (req "/agents" (Some "bearer tok") "") = R401 /\
  serve all_on true valid (req "/agents" (Some "Bearer ") "tok") = R401 /\
  pattern_of (serve all_on true valid (req "/agents" (Some "Bearer tok") "")) = Some (lit "/agents") /\
  pattern_of (serve all_on true valid (req "/agents/abc/shell" None "tok")) = Some (lit "/agents/") /\
  pattern_of (serve all_on true valid (req "/healthz" None "")) = Some (lit "/healthz") /\
  pattern_of (serve all_on true valid (req "/" None "")) = Some (lit "/") /\
  serve all_on true valid (req "/health/../agents" None "") = R401 /\
  serve all_on true valid (req "//health" None "") = R401 /\
  serve all_on true valid (req "/health/../agents" (Some "Bearer tok") "") = RMux MRedirect /\
  (match serve all_off false valid (req "/api/topology" None "") with
   | RMux (MDispatch r) => r_disabled r = true /\ r_pattern r = lit "/api/" | _ => False end) /\
  (match serve all_off false valid (req "/debug/pprof/heap" None "") with
   | RMux (MDispatch r) => r_disabled r = true | _ => False end) /\
  serve all_off false valid (req "/debug" None "") = RMux MRedirect /\
  pattern_of (serve all_on false valid (req "/api/unknown" None "")) = Some (lit "/").
Proof. exact examples. Qed.
Print Assumptions C24_examples.

(** The facts regenerated from server.go on this run are the model's. *)
Theorem C24_source_facts :
  map conv_registration gen_registrations = registrations /\
  entries = entries_of registrations /\
  gen_registration_notes = 0 /\
  gen_auth_wrapper_recognised = true /\
  gen_auth_wrapper_condition = "cfg.TokenHash!="""""%string /\
  gen_exempt_lookup = "authExemptPaths[r.URL.Path]"%string /\
  gen_reject_condition = "token==""""||!s.validateToken(token)"%string /\
  gen_reject_returns_without_next = true /\
  gen_reject_status = "http.StatusUnauthorized"%string /\
  lit gen_bearer_prefix = bearer_prefix /\ gen_bearer_offset = 7 /\
  gen_auth_header = "Authorization"%string /\ gen_query_key = "token"%string /\
  gen_token_rejected_on_any_bcrypt_error = true /\
  gen_server_config_literals = 1 /\
  gen_server_config_wiring =
    [("TokenHash", "a.cfg.HTTP.TokenHash"); ("EnablePprof", "a.cfg.HTTP.PprofEnabled()");
     ("EnableDashboard", "a.cfg.HTTP.DashboardEnabled()"); ("EnableRemoteAPI", "a.cfg.HTTP.RemoteAPIEnabled()")]%string /\
  gen_group_methods =
    [("PprofEnabled", "ifh.Minimal{returnfalse};returnh.Pprof==nil||*h.Pprof");
     ("DashboardEnabled", "ifh.Minimal{returnfalse};returnh.Dashboard==nil||*h.Dashboard");
     ("RemoteAPIEnabled", "ifh.Minimal{returnfalse};returnh.RemoteAPI==nil||*h.RemoteAPI")]%string /\
  gen_http_toggle_writers = [].
Proof. repeat split; vm_compute; reflexivity. Qed.
Print Assumptions C24_source_facts.
