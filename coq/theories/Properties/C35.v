(** C35 — redacted configuration output never reveals a secret.
    Model: Model/Redact.v (config.Config.Redacted / String, after the
    fail-closed repair; [redacted_pre_fix] is the code as found). *)
From Coq Require Import String List NArith Bool.
From MM Require Import Lib.HStr Model.Redact Proofs.RedactProofs Generated.C35.
Import ListNotations.
Local Open Scope N_scope.

(** the string-typed field paths of config.Config as regenerated from the
    source on this run *)
Definition config_leaves : list path := map (map lit) gen_string_leaves.

(** Field list completeness, re-checked against the regenerated field set:
    every string field of config.Config that the property calls a secret
    (rule [is_secret_path]) is overwritten by Redacted(); nothing else is;
    every entry of the list names an existing field. *)
Theorem C35_field_list_complete :
  field_list_complete config_leaves = true /\ field_list_exact config_leaves = true.
Proof. split; vm_compute; reflexivity. Qed.
Print Assumptions C35_field_list_complete.

(** For every configuration and every behaviour of the YAML library (an
    error, or any copy built from Config fields), every secret leaf of the
    value that String() renders is empty or the placeholder. *)
Theorem C35_redacted_has_no_secret : forall (rt : config -> option config) (c : config),
  wf_config config_leaves c ->
  (forall c', rt c = Some c' -> wf_config config_leaves c') ->
  forall l, In l (redacted rt c) -> is_secret_path (l_path l) = true ->
  l_val l = [] \/ l_val l = placeholder.
Proof. exact (redacted_no_secret config_leaves (proj1 C35_field_list_complete)). Qed.
Print Assumptions C35_redacted_has_no_secret.

(** When the library keeps every leaf in its place (possibly normalising its
    value), each output leaf is a function of the input leaf at the same
    place only, through redaction if the place is a secret one. *)
Theorem C35_output_is_leafwise : forall (rt : config -> option config) (f : leaf -> str) (c : config),
  (rt c = None \/ rt c = Some (map_vals f c)) ->
  exists g : leaf -> str,
    redacted rt c =
    map (fun l => mkLeaf (l_path l) (l_idx l)
                    (if mem_path (l_path l) redact_paths then redact_val (g l) else g l)) c.
Proof. exact redacted_leafwise. Qed.
Print Assumptions C35_output_is_leafwise.

(** The code as found: when the YAML round trip fails the receiver itself is
    returned, and there is a configuration (tab-indented multi-line PEM, which
    yaml.v3 cannot read back; reproduced on the real code) whose rendering
    then contains a secret. *)
Theorem C35_refuted_fail_open_pre_fix :
  (forall rt c, rt c = None -> redacted_pre_fix rt c = c) /\
  exists l, In l (redacted_pre_fix failing_rt witness_config) /\
            is_secret_path (l_path l) = true /\ ~ (l_val l = [] \/ l_val l = placeholder).
Proof. exact (conj pre_fix_fail_open pre_fix_leaks_on_witness). Qed.
Print Assumptions C35_refuted_fail_open_pre_fix.

(** ... and it was correct whenever the round trip succeeded (this pins the
    defect to the error branch). *)
Theorem C35_pre_fix_ok_when_roundtrip_succeeds : forall (rt : config -> option config) (c c' : config),
  rt c = Some c' -> wf_config config_leaves c' ->
  forall l, In l (redacted_pre_fix rt c) -> is_secret_path (l_path l) = true ->
  l_val l = [] \/ l_val l = placeholder.
Proof. exact (redacted_pre_fix_ok_when_roundtrip_succeeds config_leaves (proj1 C35_field_list_complete)). Qed.
Print Assumptions C35_pre_fix_ok_when_roundtrip_succeeds.

(** The same witness under the repaired code (non-vacuity of the theorem:
    a well-formed configuration with secrets, a failing round trip). *)
Theorem C35_example_fixed_witness :
  wf_config config_leaves witness_config /\
  redacted failing_rt witness_config =
  [ mkLeaf [lit "Agent"; lit "DisplayName"] [] (lit "edge-1");
    mkLeaf [lit "TLS"; lit "KeyPEM"] [] (lit "[REDACTED]");
    mkLeaf [lit "SOCKS5"; lit "Auth"; lit "Users"; lit "Password"] [1] (lit "[REDACTED]") ].
Proof.
  split; [|exact fixed_on_witness].
  intros l [<-|[<-|[<-|[]]]]; vm_compute; tauto.
Qed.
Print Assumptions C35_example_fixed_witness.

(** The original is never written to: the fallback copy clones every slice
    whose elements redaction overwrites (regenerated facts), so for every
    allocation of fresh arrays no array of the original is written. *)
Theorem C35_original_never_written :
  map (map lit) gen_written_slices = map (map lit) gen_fallback_cloned_slices /\
  forall (fresh : slice_name -> N) (orig : arrays),
    (forall s s', fresh s <> orig s') ->
    forall s', ~ In (orig s') (written_arrays (copy_arrays written_slices fresh orig)).
Proof.
  split; [reflexivity|].
  intros fresh orig H. exact (fallback_copy_never_writes_original written_slices fresh orig (fun s Hs => Hs) H).
Qed.
Print Assumptions C35_original_never_written.

(** The facts regenerated from config.go on this run are the model's. *)
Theorem C35_source_facts :
  map (map lit) gen_redact_paths = redact_paths /\
  gen_unknown_types = [] /\
  gen_redacted_returns_receiver = 0 /\
  gen_redact_calls_inside_matching_range_loops = true /\
  gen_written_slices = [["Peers"]; ["Listeners"]; ["SOCKS5"; "Auth"; "Users"]]%string /\
  gen_string_renders_redacted_copy = true /\
  gen_string_return_statements = 1 /\
  lit gen_placeholder = placeholder /\
  gen_redact_only_nonempty = true.
Proof. repeat split; reflexivity. Qed.
Print Assumptions C35_source_facts.
