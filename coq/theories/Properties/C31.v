(** C31 — reconnection respects pause and bounded exponential backoff. *)
From Coq Require Import List NArith ZArith Bool.
From Coq Require Import String.
From MM Require Import Model.Reconnect Proofs.ReconnectProofs Generated.C31.
Import ListNotations.
Local Open Scope Z_scope.

(** The facts regenerated from reconnect.go / manager.go on this run select
    the repaired variant of the model, the jitter constants are the model's,
    and peer.Manager drives the reconnector the way [apply ... mgr:=true] says. *)
Definition gen_variant : variant :=
  {| v_pause := gen_schedule_checks_paused && gen_attempt_checks_paused_before_start && gen_attempt_checks_paused_before_rearm;
     v_single := gen_schedule_skips_while_inflight && gen_attempt_tracks_inflight && gen_attempt_checks_generation &&
                 gen_attempt_checks_state_identity && gen_arm_stops_previous_timer && gen_arm_takes_new_generation &&
                 gen_timers_created_only_in_arm |}.

Theorem C31_source_facts :
  gen_variant = fixed /\
  gen_jitter_modulus = jitter_modulus /\ gen_jitter_factor = jitter_factor /\
  gen_jitter_divisor = "1000.0"%string /\ gen_jitter_offset = "0.5"%string /\
  gen_manager_schedules_on_dial_failure = true /\ gen_manager_schedules_on_disconnect = true /\
  gen_manager_disconnectall_pauses = true /\ gen_manager_callback_is_handle_reconnect = true.
Proof. repeat split; reflexivity. Qed.
Print Assumptions C31_source_facts.

(** While reconnection is paused no event starts a connection attempt: every
    state (reachable or not), every event (timer expiry during a time advance,
    return of a running attempt with success or failure, Schedule, Pause,
    Resume, ResetAll, Cancel, Stop), with the reconnector alone or driven by
    peer.Manager, for the repaired code ([fixed]) and for the code with only
    the pause repair. *)
Theorem C31_no_start_while_paused : forall v c mgr s o,
  v_pause v = true -> paused s = true -> log (apply v c mgr s o) = log s.
Proof. exact no_start_while_paused. Qed.
Print Assumptions C31_no_start_while_paused.

(** The code before the repair: Pause during a running attempt. *)
Theorem C31_refuted_pause_inflight_pre_fix :
  exists pre o, starts_while_paused pre_fix std false pre o.
Proof. exact refuted_pause_inflight. Qed.
Print Assumptions C31_refuted_pause_inflight_pre_fix.

(** The code before the repair, driven by peer.Manager: overlapping attempts
    and a retry that does not obey the backoff law. *)
Theorem C31_refuted_double_timer_pre_fix :
  exists ops, overlapping (run pre_fix std true (init 0) ops).
Proof. exact refuted_double_timer_manager. Qed.
Print Assumptions C31_refuted_double_timer_pre_fix.

Theorem C31_refuted_backoff_law_pre_fix :
  exists ops e, In e (log (run pre_fix std true (init 0) ops)) /\ ~ obeys_law std e.
Proof. exact refuted_backoff_law_manager. Qed.
Print Assumptions C31_refuted_backoff_law_pre_fix.

(** The backoff law on the repaired code: for every configuration with
    non-negative delays and a positive multiplier denominator, the reconnector
    alone or driven by peer.Manager, every start offset, and EVERY history of
    events (Schedule, time advance >= 0, return of any running attempt with
    success or failure, Pause, Resume, ResetAll, Cancel, Stop): each attempt
    that starts has consecutive-retry index k >= 0 (number of attempts its
    retry sequence had started before) and starts exactly
        add_jitter (nd_iter k)
    after the instant its timer was armed, where nd_iter k is the initial
    delay multiplied k times by the multiplier (truncating, capped at max). *)
Theorem C31_backoff_law : forall c mgr off ops e,
  cfg_ok c -> Forall op_ok ops -> In e (log (run fixed c mgr (init off) ops)) -> obeys_law c e.
Proof. exact backoff_law. Qed.
Print Assumptions C31_backoff_law.
