(** C31 — reconnection respects pause and bounded exponential backoff. *)
From Coq Require Import List NArith ZArith Bool.
From Coq Require Import String.
From MM Require Import Model.Reconnect Proofs.ReconnectProofs Generated.C31.
Import ListNotations.
Local Open Scope Z_scope.

(** The facts regenerated from reconnect.go / manager.go on this run select
    the repaired variant of the model, the jitter constants are the model's,
    and peer.Manager drives the reconnector the way [apply ... mgr:=true] says. *)
Definition gen_variant : variant :=
  {| v_pause := gen_schedule_checks_paused && gen_attempt_checks_paused_before_start && gen_attempt_checks_paused_before_rearm;
     v_single := gen_schedule_skips_while_inflight && gen_attempt_tracks_inflight && gen_attempt_checks_generation &&
                 gen_attempt_checks_state_identity && gen_arm_stops_previous_timer && gen_arm_takes_new_generation &&
                 gen_timers_created_only_in_arm |}.

Theorem C31_source_facts :
  gen_variant = fixed /\
  gen_jitter_modulus = jitter_modulus /\ gen_jitter_factor = jitter_factor /\
  gen_jitter_divisor = "1000.0"%string /\ gen_jitter_offset = "0.5"%string /\
  gen_manager_schedules_on_dial_failure = true /\ gen_manager_schedules_on_disconnect = true /\
  gen_manager_disconnectall_pauses = true /\ gen_manager_callback_is_handle_reconnect = true /\
  (* settings -> agent.New -> peer.Manager: each parameter is read from its own setting *)
  gen_agent_InitialDelay_from = "a.cfg.Connections.Reconnect.InitialDelay"%string /\
  gen_agent_MaxDelay_from = "a.cfg.Connections.Reconnect.MaxDelay"%string /\
  gen_agent_Multiplier_from = "a.cfg.Connections.Reconnect.Multiplier"%string /\
  gen_agent_Jitter_from = "a.cfg.Connections.Reconnect.Jitter"%string /\
  gen_agent_MaxAttempts_from = "a.cfg.Connections.Reconnect.MaxRetries"%string /\
  gen_agent_KeepaliveInterval_from = "a.cfg.Connections.IdleThreshold"%string /\
  gen_agent_KeepaliveTimeout_from = "a.cfg.Connections.Timeout"%string /\
  gen_agent_KeepaliveJitter_from = "a.cfg.Connections.KeepaliveJitter"%string.
Proof. repeat split; reflexivity. Qed.
Print Assumptions C31_source_facts.

(** While reconnection is paused no event starts a connection attempt: every
    state (reachable or not), every event (timer expiry during a time advance,
    return of a running attempt with success or failure, Schedule, Pause,
    Resume, ResetAll, Cancel, Stop), with the reconnector alone or driven by
    peer.Manager, for the repaired code ([fixed]) and for the code with only
    the pause repair. *)
Theorem C31_no_start_while_paused : forall v c mgr s o,
  v_pause v = true -> paused s = true -> log (apply v c mgr s o) = log s.
Proof. exact no_start_while_paused. Qed.
Print Assumptions C31_no_start_while_paused.

(** The code before the repair: Pause during a running attempt. *)
Theorem C31_refuted_pause_inflight_pre_fix :
  exists pre o, starts_while_paused pre_fix std false pre o.
Proof. exact refuted_pause_inflight. Qed.
Print Assumptions C31_refuted_pause_inflight_pre_fix.

(** The code before the repair, driven by peer.Manager: overlapping attempts
    and a retry that does not obey the backoff law. *)
Theorem C31_refuted_double_timer_pre_fix :
  exists ops, overlapping (run pre_fix std true (init 0) ops).
Proof. exact refuted_double_timer_manager. Qed.
Print Assumptions C31_refuted_double_timer_pre_fix.

Theorem C31_refuted_backoff_law_pre_fix :
  exists ops e, In e (log (run pre_fix std true (init 0) ops)) /\ ~ obeys_law std e.
Proof. exact refuted_backoff_law_manager. Qed.
Print Assumptions C31_refuted_backoff_law_pre_fix.

(** The backoff law on the repaired code: for every configuration with
    non-negative delays and a positive multiplier denominator, the reconnector
    alone or driven by peer.Manager, every start offset, and EVERY history of
    events (Schedule, time advance >= 0, return of any running attempt with
    success or failure, Pause, Resume, ResetAll, Cancel, Stop): each attempt
    that starts has consecutive-retry index k >= 0 (number of attempts its
    retry sequence had started before) and starts exactly
        add_jitter (nd_iter k)
    after the instant its timer was armed, where nd_iter k is the initial
    delay multiplied k times by the multiplier (truncating, capped at max). *)
Theorem C31_backoff_law : forall c mgr off ops e,
  cfg_ok c -> Forall op_ok ops -> In e (log (run fixed c mgr (init off) ops)) -> obeys_law c e.
Proof. exact backoff_law. Qed.
Print Assumptions C31_backoff_law.

(** The jittered delay lies within the configured jitter J = jnum/jden of the
    un-jittered delay d:  d(1-J) - 1 < add_jitter d <= d(1+J)
    (stated multiplied by jden; the -1 is the truncation of the float conversion). *)
Theorem C31_jitter_band : forall c t d,
  0 <= d -> 0 < c_jit_den c -> 0 <= c_jit_num c <= c_jit_den c ->
  let r := add_jitter c t d in
  d * (c_jit_den c - c_jit_num c) - c_jit_den c < r * c_jit_den c <= d * (c_jit_den c + c_jit_num c).
Proof. exact add_jitter_band. Qed.
Print Assumptions C31_jitter_band.

(** With an integral multiplier (the default is 2.0) the un-jittered delay of
    retry k is exactly min(initial * multiplier^k, max). *)
Theorem C31_formula_integral_multiplier : forall c k,
  c_mul_den c = 1 -> 1 <= c_mul_num c -> 0 <= c_initial c <= c_max c ->
  nd_iter c k = Z.min (c_initial c * c_mul_num c ^ Z.of_nat k) (c_max c).
Proof. exact nd_iter_integral. Qed.
Print Assumptions C31_formula_integral_multiplier.

(** General dyadic multiplier num/den: the un-jittered delay never exceeds
    max(initial, max) nor initial * (num/den)^k.  PARTIAL: the matching lower
    bound (the iterated truncation loses less than one nanosecond per step,
    i.e. nd_iter k > min(initial*(num/den)^k, max) - (num/den)^k * den/(num-den))
    is not proved. *)
Theorem C31_formula_upper_bound_partial : forall c k, cfg_ok c ->
  nd_iter c k <= Z.max (c_initial c) (c_max c) /\
  nd_iter c k * c_mul_den c ^ Z.of_nat k <= c_initial c * c_mul_num c ^ Z.of_nat k.
Proof. exact nd_iter_upper. Qed.
Print Assumptions C31_formula_upper_bound_partial.

(** non-vacuity of the law: three consecutive retries at 1 s, 3 s, 7 s *)
Theorem C31_backoff_law_example :
  map (fun e => (l_time e, l_k e, l_armed e))
      (rev (log (run fixed std true (init 0)
                   [Sched 0%N; Adv sec; Reply 0 false; Adv (2 * sec); Reply 0 false; Adv (4 * sec)])))
  = [(1 * sec, 0, 0); (3 * sec, 1, 1 * sec); (7 * sec, 2, 3 * sec)].
Proof. exact backoff_law_example. Qed.
Print Assumptions C31_backoff_law_example.

(** The code before the repair: a timer whose goroutine had not yet entered
    attemptReconnect when Pause ran starts an attempt during the pause. *)
Theorem C31_refuted_pause_race_pre_fix :
  exists pre o, starts_while_paused pre_fix std false pre o.
Proof. exact refuted_pause_race. Qed.
Print Assumptions C31_refuted_pause_race_pre_fix.
