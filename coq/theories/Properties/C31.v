(** C31 — reconnection respects pause and bounded exponential backoff. *)
From Coq Require Import List NArith ZArith Bool.
From MM Require Import Model.Reconnect Proofs.ReconnectProofs.
Import ListNotations.
Local Open Scope Z_scope.

(** While reconnection is paused no event starts a connection attempt: every
    state (reachable or not), every event (timer expiry during a time advance,
    return of a running attempt with success or failure, Schedule, Pause,
    Resume, ResetAll, Cancel, Stop), with the reconnector alone or driven by
    peer.Manager, for the repaired code ([fixed]) and for the code with only
    the pause repair. *)
Theorem C31_no_start_while_paused : forall v c mgr s o,
  v_pause v = true -> paused s = true -> log (apply v c mgr s o) = log s.
Proof. exact no_start_while_paused. Qed.
Print Assumptions C31_no_start_while_paused.

(** The code before the repair: Pause during a running attempt. *)
Theorem C31_refuted_pause_inflight_pre_fix :
  exists pre o, starts_while_paused pre_fix std false pre o.
Proof. exact refuted_pause_inflight. Qed.
Print Assumptions C31_refuted_pause_inflight_pre_fix.

(** The code before the repair, driven by peer.Manager: overlapping attempts
    and a retry that does not obey the backoff law. *)
Theorem C31_refuted_double_timer_pre_fix :
  exists ops, overlapping (run pre_fix std true (init 0) ops).
Proof. exact refuted_double_timer_manager. Qed.
Print Assumptions C31_refuted_double_timer_pre_fix.

Theorem C31_refuted_backoff_law_pre_fix :
  exists ops e, In e (log (run pre_fix std true (init 0) ops)) /\ ~ obeys_law std e.
Proof. exact refuted_backoff_law_manager. Qed.
Print Assumptions C31_refuted_backoff_law_pre_fix.
