(** C23 — SOCKS5 request handling is robust and dials exactly what was asked. *)
From Coq Require Import List NArith.
From MM Require Import Lib.Bytes Model.Socks Proofs.SocksProofs.
Import ListNotations.
Local Open Scope N_scope.

(** every request-stage reply the encoder produces parses under RFC 1928 *)
Theorem C23_reply_wellformed_partial : forall rep bind port,
  rep <= 8 -> bind_ok bind -> wf_reply (reply rep bind port) = true.
Proof. exact reply_wf. Qed.
Print Assumptions C23_reply_wellformed_partial.
