(** C23 — SOCKS5 request handling is robust and dials exactly what was asked. *)
From Coq Require Import List NArith.
From MM Require Import Lib.Bytes Model.Socks Proofs.SocksProofs Generated.C23.
Import ListNotations.
Local Open Scope N_scope.

(** Every reply is well formed.  For every handler configuration, every
    behaviour of the dialer that hands back a bound address of length 0
    (nil), 4 or 16, and EVERY byte stream a client sends: the writes of the
    session are a method selection (VER=5, METHOD), then optionally an RFC
    1929 status (VER=1, STATUS<=1), then at most one reply that parses under
    the RFC 1928 grammar (VER=5, REP<=8, RSV=0, ATYP=1 with 4 or ATYP=4 with
    16 address bytes, 2 port bytes) - and nothing after it. *)
Theorem C23_replies_wellformed : forall (e : env) (inp : bytes),
  dial_ok (e_dial e) -> wf_writes (r_writes (session e inp)) = true.
Proof. exact replies_wellformed. Qed.
Print Assumptions C23_replies_wellformed.

(** the hypothesis on the bound address is needed: the encoder copies whatever length it is given *)
Theorem C23_reply_malformed_for_odd_bind_length :
  wf_reply (reply 0 (Some [Byte.x01; Byte.x02; Byte.x03]) 80) = false.
Proof. exact reply_malformed_for_odd_bind. Qed.
Print Assumptions C23_reply_malformed_for_odd_bind_length.

(** Exactness.  Whatever command a session executes (CONNECT: the dialer is
    called with this destination and port), the client's stream is a
    greeting, optionally an RFC 1929 message, and then a request whose
    address-type, address bytes and port bytes are exactly that destination
    and port; the rest of the stream is left for the relay. *)
Theorem C23_dial_exact : forall e inp c h port,
  r_exec (session e inp) = Some (c, h, port) ->
  exists nm methods auth cmd rsv rest,
    length methods = N.to_nat (b2n nm) /\
    (auth = [] \/ exists u p, auth = auth_msg u p) /\
    inp = greeting nm methods ++ auth ++ req_bytes cmd rsv h port ++ rest /\
    b2n cmd = cmd_code c /\ host_wf h /\ port < 65536 /\ r_rest (session e inp) = rest.
Proof. exact session_exec_inv. Qed.
Print Assumptions C23_dial_exact.

(** ... and conversely a well-formed request is read back exactly and handed
    to the command dispatch (for any accepted handshake, see
    C23_session_noauth / C23_session_userpass) *)
Theorem C23_request_roundtrip : forall e ws creds cmd rsv h port rest,
  host_wf h -> port < 65536 ->
  request e ws creds (req_bytes cmd rsv h port ++ rest) = execute e ws creds (b2n cmd) h port rest.
Proof. exact request_forward. Qed.
Print Assumptions C23_request_roundtrip.

Theorem C23_session_noauth : forall e nm methods tail,
  length methods = N.to_nat (b2n nm) -> select_auth (e_auths e) methods = Some ANoAuth ->
  session e (greeting nm methods ++ tail) = request e [[Byte.x05; Byte.x00]] None tail.
Proof. exact session_noauth. Qed.
Print Assumptions C23_session_noauth.

Theorem C23_session_userpass : forall e s nm methods u p tail,
  length methods = N.to_nat (b2n nm) -> select_auth (e_auths e) methods = Some (AUserPass s) ->
  (0 < length u <= 255)%nat -> (length p <= 255)%nat -> store_valid (e_bc e) s u p = true ->
  session e (greeting nm methods ++ auth_msg u p ++ tail)
  = request e [[Byte.x05; Byte.x02]; [Byte.x01; Byte.x00]] (Some (u, p)) tail.
Proof. exact session_userpass. Qed.
Print Assumptions C23_session_userpass.

(** Unsupported command: reply 0x07, nothing executed. *)
Theorem C23_unsupported_command : forall e ws creds cmd rsv h port rest,
  host_wf h -> port < 65536 -> b2n cmd <> 1 -> b2n cmd <> 3 -> b2n cmd <> 4 ->
  request e ws creds (req_bytes cmd rsv h port ++ rest)
  = mkResult (ws ++ [reply 7 None 0]) creds None EBadCmd rest.
Proof. exact unsupported_command. Qed.
Print Assumptions C23_unsupported_command.

(** Unsupported address type: reply 0x08 (whatever the command), nothing executed. *)
Theorem C23_unsupported_address_type : forall e ws creds cmd rsv at_ rest,
  b2n at_ <> 1 -> b2n at_ <> 3 -> b2n at_ <> 4 ->
  request e ws creds (Byte.x05 :: cmd :: rsv :: at_ :: rest)
  = mkResult (ws ++ [reply 8 None 0]) creds None EBadAtyp rest.
Proof. exact unsupported_address_type. Qed.
Print Assumptions C23_unsupported_address_type.

(** Truncation at every position.  Take any stream and cut it anywhere
    strictly inside the part the full session consumed: the handler runs out
    of input, executes nothing and writes no reply (so no success reply). *)
Theorem C23_prefix_safe : forall e inp n,
  (n < consumed inp (session e inp))%nat ->
  r_stop (session e (firstn n inp)) = EEof /\
  r_exec (session e (firstn n inp)) = None /\
  forall w, In w (r_writes (session e (firstn n inp))) -> wf_reply w = false.
Proof. exact prefix_safe. Qed.
Print Assumptions C23_prefix_safe.

(** non-vacuity: a complete CONNECT session of 13 bytes *)
Theorem C23_nonvacuous :
  r_exec (session ex_env ex_session) = Some (CConnect, HIp4 [Byte.x01; Byte.x02; Byte.x03; Byte.x04], 80) /\
  consumed ex_session (session ex_env ex_session) = 13%nat /\
  r_writes (session ex_env ex_session)
  = [[Byte.x05; Byte.x00]; [Byte.x05; Byte.x00; Byte.x00; Byte.x01; Byte.x0a; Byte.x00; Byte.x00; Byte.x01; Byte.x10; Byte.x92]].
Proof. exact ex_connect. Qed.
Print Assumptions C23_nonvacuous.

(** the hypotheses of C23_unsupported_command / _address_type are satisfiable:
    BIND to a domain, and address type 5 *)
Theorem C23_unsupported_examples :
  request ex_env [[Byte.x05; Byte.x00]] None (req_bytes Byte.x02 Byte.x00 (HDomain [Byte.x61]) 80)
  = mkResult [[Byte.x05; Byte.x00]; reply 7 None 0] None None EBadCmd [] /\
  request ex_env [[Byte.x05; Byte.x00]] None [Byte.x05; Byte.x01; Byte.x00; Byte.x05; Byte.x09]
  = mkResult [[Byte.x05; Byte.x00]; reply 8 None 0] None None EBadAtyp [Byte.x09].
Proof. vm_compute. split; reflexivity. Qed.
Print Assumptions C23_unsupported_examples.

(** The constants, the error table, the shape of the address switch and of
    the command dispatch, and the lengths a bound address coming back from
    the mesh can have, regenerated from the source on this run, are the
    model's (the last two facts discharge [dial_ok] for the mesh dialer). *)
Theorem C23_source_facts :
  gen_version = 5 /\ gen_cmd_connect = cmd_code CConnect /\ gen_cmd_udp = cmd_code CUdp /\ gen_cmd_icmp = cmd_code CIcmp /\
  gen_rep_succeeded = rep_succeeded /\ gen_rep_server_failure = rep_server_failure /\
  gen_rep_host_unreachable = rep_host_unreachable /\ gen_rep_ttl_expired = rep_ttl_expired /\
  gen_rep_cmd_not_supported = rep_cmd_not_supported /\ gen_rep_addr_not_supported = rep_addr_not_supported /\
  gen_error_replies = map map_error_to_reply [KDns; KOpTimeout; KOpDial; KOther] /\
  gen_address_types = [(1, 4); (3, 0); (4, 16)] /\
  gen_unknown_address_type_reply = rep_addr_not_supported /\
  gen_zero_length_domain_reply = rep_server_failure /\
  gen_commands = [1; 3; 4] /\ gen_unknown_command_reply = rep_cmd_not_supported /\
  gen_authenticate_precedes_read_request = true /\
  gen_connect_dials_join_of_request_addr_and_port = true /\
  gen_mesh_bound_address_lengths = [4; 16; 0] /\ gen_empty_bound_address_becomes_nil = true /\
  gen_read_request_buffers_are_fresh = true /\ gen_send_reply_buffer_is_local = true /\
  gen_handler_has_no_shared_buffer_field = true /\ gen_handle_does_not_swallow_panics = true.
Proof. repeat split; reflexivity. Qed.
Print Assumptions C23_source_facts.
