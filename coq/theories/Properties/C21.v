(** C21 — SOCKS5 never serves an unauthenticated client when authentication is enabled. *)
From Coq Require Import List NArith.
From MM Require Import Lib.Bytes Model.Socks Proofs.SocksAuthProofs Generated.C21.
Import ListNotations.
Local Open Scope N_scope.

(** For every user list (empty, unusable users, duplicates, hashed and
    plaintext mixed), every bcrypt behaviour [bc], every dialer / back-end
    behaviour and EVERY client byte stream: if authentication is enabled and
    the session gets past authentication (a CONNECT, UDP ASSOCIATE or ICMP
    command is executed, or the request is even looked at), then the client
    presented, right after its greeting, an RFC 1929 message whose user name
    and password match a configured user. *)
Theorem C21_auth_required : forall bc c dial udp icmp inp,
  a_enabled c = true ->
  let r := session (mkEnv (auths_of_cfg c) bc dial udp icmp) inp in
  past_auth r ->
  exists u p, r_creds r = Some (u, p) /\ presents inp u p /\ user_matches bc c u p.
Proof. exact auth_required. Qed.
Print Assumptions C21_auth_required.

(** "no authentication" is not among the handler's methods when authentication is enabled *)
Theorem C21_noauth_never_offered : forall c,
  a_enabled c = true -> ~ In ANoAuth (auths_of_cfg c).
Proof. exact noauth_never_selected. Qed.
Print Assumptions C21_noauth_never_offered.

(** WebSocket listener: with authentication enabled the upgrade (and with it
    any SOCKS5 session over WebSocket, which then runs the same handler) is
    refused unless valid HTTP Basic credentials are presented. *)
Theorem C21_websocket_gate : forall bc c basic,
  a_enabled c = true -> ws_gate bc c basic = true ->
  exists u p, basic = Some (u, p) /\ user_matches bc c u p.
Proof. exact ws_gate_requires_credentials. Qed.
Print Assumptions C21_websocket_gate.

(** The code before the fix: authentication enabled, one user without
    password and hash; a client that offers "no authentication" gets its
    CONNECT executed without presenting anything. *)
Theorem C21_refuted_no_usable_user_pre_fix :
  exists c inp e h port,
    a_enabled c = true /\
    r_exec (session (mkEnv (auths_of_cfg_pre_fix c) (e_bc e) (e_dial e) (e_udp e) (e_icmp e)) inp) = Some (CConnect, h, port) /\
    r_creds (session (mkEnv (auths_of_cfg_pre_fix c) (e_bc e) (e_dial e) (e_udp e) (e_icmp e)) inp) = None.
Proof.
  exists w_cfg, w_input, (w_env []), (HIp4 [Byte.x7f; Byte.x00; Byte.x00; Byte.x01]), 80.
  exact pre_fix_open_proxy.
Qed.
Print Assumptions C21_refuted_no_usable_user_pre_fix.

(** non-vacuity of C21_auth_required: a client with valid credentials is served *)
Theorem C21_nonvacuous :
  a_enabled ex_cfg = true /\
  past_auth (session (w_env (auths_of_cfg ex_cfg)) ex_input) /\
  r_exec (session (w_env (auths_of_cfg ex_cfg)) ex_input) = Some (CConnect, HDomain [Byte.x78], 443) /\
  r_creds (session (w_env (auths_of_cfg ex_cfg)) ex_input) = Some ([Byte.x61], [Byte.x70; Byte.x77]).
Proof. exact ex_served_with_credentials. Qed.
Print Assumptions C21_nonvacuous.

(** The construction of the authenticator list regenerated from the source on
    this run is the one modelled by [auths_of_cfg] and [ws_gate]. *)
Theorem C21_source_facts :
  gen_method_noauth = method_of ANoAuth /\ gen_method_userpass = method_of (AUserPass (Static [])) /\
  gen_method_no_acceptable = 255 /\
  gen_enabled_always_adds_userpass = true /\
  gen_hashed_store_has_precedence = true /\
  gen_noauth_only_if_not_required = true /\
  gen_auth_disabled_is_noauth = true /\
  gen_build_auth_required = true /\ gen_build_auth_enabled = true /\
  gen_unusable_users_dropped_hash_first = true /\
  gen_server_uses_build_auth = true /\
  gen_ws_credentials_set_when_auth_enabled = true /\
  gen_ws_store_hashed_else_static = true /\
  gen_ws_gate_before_accept = true /\
  (* the credential check: the stores accept only through the one comparison
     ([store_valid]: bc h p, resp. byte equality), look up exactly the
     presented user name, read no package-level state (no remembered
     logins), and Authenticate succeeds only after that check *)
  gen_hashed_valid_true_only_when_bcrypt_compare_is_nil = true /\
  gen_static_valid_true_only_when_passwords_compare_equal = true /\
  gen_valid_looks_up_exactly_the_presented_user = true /\
  gen_valid_reads_no_package_state = true /\
  gen_authenticate_succeeds_only_after_valid = true /\
  gen_authenticate_buffers_are_fresh = true /\ gen_handshake_does_not_swallow_panics = true.
Proof. repeat split; reflexivity. Qed.
Print Assumptions C21_source_facts.
