(** C09 — domain, forward-key and agent lookups select the documented best route. *)
From Coq Require Import String.
From Coq Require Import List NArith Permutation.
From MM Require Import Model.RouteTable Model.RouteTableSource Proofs.RouteTableBase Proofs.RouteTableProofs Proofs.RouteTableExamples Generated.C09.
Import ListNotations.
Local Open Scope N_scope.

(** Vocabulary (defined in Proofs/RouteTableProofs.v, repeated here):
    - [dstored m x]: x is an element of some bucket of the exact or of the
      wildcard map of the domain table of m;
    - [exact_match x d]: x is not a wildcard and its pattern, lower-cased, is d;
    - [wild_match x d]: x is a wildcard "*.base", base is not empty, and
      d = label ++ "." ++ lower base for a non-empty label that contains no
      dot (exactly one label deep);
    - names and patterns are byte strings, [lower] maps A-Z to a-z (the
      statement is about ASCII names; Go's strings.ToLower differs on
      non-ASCII input, which is outside the model). *)

(** For every history and every name: the lookup returns a stored route r such
    that either r is an exact pattern for the lower-cased name with the lowest
    metric of all stored exact patterns for it, or no exact pattern is stored
    for the name and r is a wildcard exactly one label above it with the
    lowest metric of all such wildcards; or it returns nothing and no stored
    pattern matches in either way. Wildcards two or more labels above the
    name never match (they are not [wild_match]). *)
Theorem C09_domain_lookup : forall (local : N) (srt : sorter), sorter_ok srt -> forall (ops : list op) (name : str),
  let m := run local srt ops in
  let d := lower name in
  match snd (step local srt m (ODLookup name)) with
  | FNone => forall x, dstored m x -> ~ exact_match x d /\ ~ wild_match x d
  | FDom r =>
      dstored m r /\
      ((exact_match r d /\ forall x, dstored m x -> exact_match x d -> e_metric r <= e_metric x) \/
       (wild_match r d /\ (forall x, dstored m x -> ~ exact_match x d) /\
        forall x, dstored m x -> wild_match x d -> e_metric r <= e_metric x))
  | _ => False
  end.
Proof. exact domain_over_histories. Qed.
Print Assumptions C09_domain_lookup.

(** the definitions used above, spelled out *)
Theorem C09_vocabulary : forall (m : mgr) (x : entry drec) (d : str),
  (exact_match x d <-> dr_wild (e_data x) = false /\ lower (dr_pattern (e_data x)) = d) /\
  (wild_match x d <->
     dr_wild (e_data x) = true /\
     exists label, label <> [] /\ ~ In dot label /\ dr_base (e_data x) <> [] /\
                   d = label ++ dot :: lower (dr_base (e_data x))) /\
  (dstored m x <-> route_in (m_dexact m) x \/ route_in (m_dwild m) x).
Proof. exact vocabulary_c09. Qed.

(** the wildcard flag and base of every stored route are those of its pattern
    text: "*." + base after trimming blanks *)
Theorem C09_stored_flags_follow_pattern : forall (local : N) (srt : sorter), sorter_ok srt -> forall (ops : list op) x,
  dstored (run local srt ops) x ->
  parse_pattern (dr_pattern (e_data x)) = (dr_wild (e_data x), dr_base (e_data x)).
Proof. exact dstored_pattern. Qed.
Print Assumptions C09_stored_flags_follow_pattern.

Theorem C09_wildcard_pattern_shape : forall pat base,
  parse_pattern pat = (true, base) <-> trim pat = star :: dot :: base.
Proof. exact parse_pattern_wild. Qed.

(** case-insensitive: two names that differ only in letter case give the
    same result in every state *)
Theorem C09_case_insensitive : forall (local : N) (srt : sorter) (m : mgr) (n1 n2 : str),
  lower n1 = lower n2 -> step local srt m (ODLookup n1) = step local srt m (ODLookup n2).
Proof. exact domain_case_insensitive. Qed.
Print Assumptions C09_case_insensitive.

(** Forward-key lookup, for every history and key: nothing iff no route is
    stored for the key, otherwise a stored route for that key with the lowest
    metric. [stored eqb t k x]: x is an element of the bucket of key k. *)
Theorem C09_forward_lookup : forall (local : N) (srt : sorter), sorter_ok srt -> forall (ops : list op) (key : str),
  let m := run local srt ops in
  match snd (step local srt m (OFLookup key)) with
  | FNone => forall x, ~ stored str_eqb (m_fwd m) key x
  | FFwd k r => k = key /\ stored str_eqb (m_fwd m) key r /\
                forall x, stored str_eqb (m_fwd m) key x -> e_metric r <= e_metric x
  | _ => False
  end.
Proof. exact forward_over_histories. Qed.
Print Assumptions C09_forward_lookup.

(** Agent-presence lookup, likewise. *)
Theorem C09_agent_lookup : forall (local : N) (srt : sorter), sorter_ok srt -> forall (ops : list op) (agent : N),
  let m := run local srt ops in
  match snd (step local srt m (OALookup agent)) with
  | FNone => forall x, ~ stored N.eqb (m_agent m) agent x
  | FAgent k r => k = agent /\ stored N.eqb (m_agent m) agent r /\
                  forall x, stored N.eqb (m_agent m) agent x -> e_metric r <= e_metric x
  | _ => False
  end.
Proof. exact agent_over_histories. Qed.
Print Assumptions C09_agent_lookup.

(** Non-vacuity: a reachable state in which every branch occurs. Stored:
    "*.Example.com" (metric 1), "api.example.COM" (metric 9),
    "API.example.com" (metric 5); forward key "web" twice; agent 3 via two
    next hops. *)
Example C09_instances :
  dres ex_dom_ops "Api.Example.Com" = Some (str_of "API.example.com", 5) /\
  dres ex_dom_ops "www.example.com" = Some (str_of "*.Example.com", 1) /\
  dres ex_dom_ops "a.www.example.com" = None /\
  dres ex_dom_ops "example.com" = None /\
  (match snd (step 0 (@isort) (run 0 (@isort) ex_dom_ops) (OFLookup (str_of "web"))) with FFwd _ r => Some (e_data r, e_metric r) | _ => None end
     = Some (str_of "h:2", 2)) /\
  (match snd (step 0 (@isort) (run 0 (@isort) ex_dom_ops) (OALookup 3)) with FAgent _ r => Some (e_nexthop r, e_metric r) | _ => None end
     = Some (2, 2)) /\
  snd (step 0 (@isort) (run 0 (@isort) ex_dom_ops) (OALookup 4)) = FNone.
Proof. exact domain_examples. Qed.

(** The facts regenerated from domain.go, forward.go and agent.go on this run
    are the ones the model follows: the domain lookup lower-cases first, tries
    the exact map before the wildcard map, strips exactly one label (no loop),
    returns the head of the bucket; map keys are lower-cased; all three sorts
    are ascending in the metric; the keyed lookups return the bucket head. *)
Theorem C09_source_facts :
  gen_domain_lookup_lowercases_first = true /\ gen_domain_exact_before_wildcard = true /\
  gen_domain_wildcard_strips_one_label = true /\ gen_domain_returns_bucket_head = true /\
  gen_domain_keys_are_lowercased = true /\ gen_parse_pattern_shape = true /\
  gen_sort_less = [src_sort_less; src_sort_less; src_sort_less] /\
  gen_keyed_lookups_return_bucket_head = true /\
  (* each AddRoute probes for the origin's existing entry and inserts inside one
     write-lock region: the operation is one atomic step, as the model has it *)
  gen_addroute_probe_and_insert_under_one_write_lock = [true; true; true].
Proof. repeat split; reflexivity. Qed.
Print Assumptions C09_source_facts.

(** The hypothesis on the sorting function: it returns a metric-sorted
    permutation of its argument. Go's sort.Slice with the less function
    "routes[i].Metric < routes[j].Metric" is such a function (stable or not);
    the stable insertion sort that sort.Slice is for up to 12 elements, which
    the correspondence check runs, satisfies it. *)
Theorem C09_sorter_hypothesis_meaning : forall srt : sorter,
  sorter_ok srt <->
  forall (D : Type) (l : list (entry D)),
    Permutation (srt D l) l /\ Sorted.StronglySorted (fun x y => e_metric x <= e_metric y) (srt D l).
Proof. exact sorter_ok_meaning. Qed.

Example C09_sorter_hypothesis_satisfiable : sorter_ok (@isort).
Proof. exact isort_ok. Qed.
