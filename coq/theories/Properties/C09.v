(** C09 — domain, forward-key and agent lookups select the documented best route. *)
From Coq Require Import List NArith.
From MM Require Import Model.RouteTable Proofs.RouteTableBase Proofs.RouteTableProofs.
Import ListNotations.
Local Open Scope N_scope.

(** (first step) forward-key lookup on a table that satisfies the bucket
    invariant: nothing iff nothing is stored for the key, otherwise a stored
    route of lowest metric. *)
Theorem C09_forward_lookup_table_partial : forall (t : ftable) k,
  table_inv same_origin (fun _ _ => True) t ->
  match tlookup str_eqb k t with
  | None => forall x, ~ stored str_eqb t k x
  | Some r => stored str_eqb t k r /\ forall x, stored str_eqb t k x -> e_metric r <= e_metric x
  end.
Proof. exact fwd_lookup_table. Qed.
Print Assumptions C09_forward_lookup_table_partial.
