(** C25 — the remote shell runs only authorised commands; concurrent
    sessions never exceed the configured maximum.
    Model: Model/ShellAuth.v (shell.Executor.validateAndAcquire and the
    session counter; bcrypt is the oracle [pw_ok]). *)
From Coq Require Import String List NArith ZArith Bool.
From MM Require Import Lib.HStr Model.ShellAuth Proofs.ShellAuthProofs Proofs.ShellHandlerProofs Generated.C25.
Import ListNotations.
Local Open Scope N_scope.

(** For every configuration, request, password verdict and session count: a
    session slot is granted (the only way to the process creation sites, see
    C25_source_facts) if and only if the shell is enabled; the password, when
    a hash is configured, is non-empty and matches; the whitelist is not
    empty; unless the whitelist contains the wildcard the command is exactly
    a whitelisted name without a path separator and no argument contains a
    metacharacter or is an absolute path; and the session count is below the
    maximum (when the maximum is positive). *)
Theorem C25_granted_iff_authorised :
  forall (pw_ok : bool) (c : config) (m : meta) (sessions : Z),
    (exists s', authorize pw_ok c m sessions = (VGranted, s')) <->
    c_enabled c = true /\
    (c_has_hash c = true -> m_password m <> [] /\ pw_ok = true) /\
    c_whitelist c <> [] /\
    (has_wildcard c = true \/
     ((In (m_command m) (c_whitelist c) /\
       (forall ch, In ch (m_command m) -> ~ In ch path_separators)) /\
      (forall a, In a (m_args m) ->
         (forall ch, In ch a -> ~ In ch dangerous_chars) /\ is_abs a = false))) /\
    ((c_max c > 0)%Z -> (sessions < c_max c)%Z).
Proof. exact granted_iff_authorised. Qed.
Print Assumptions C25_granted_iff_authorised.

(** The counter moves only on a grant, by exactly one. *)
Theorem C25_counter_moves_only_on_grant :
  forall (pw_ok : bool) (c : config) (m : meta) (s : Z) (v : verdict) (s' : Z),
    authorize pw_ok c m s = (v, s') ->
    (v = VGranted /\ s' = (s + 1)%Z) \/ (v <> VGranted /\ s' = s).
Proof. exact authorize_counter. Qed.
Print Assumptions C25_counter_moves_only_on_grant.

(** Every interleaving of AcquireSession / ReleaseSession critical sections
    (a schedule = the order in which the mutex was taken), from any state
    within bounds: the counter stays in [0, max] (max <= 0 = unlimited). *)
Theorem C25_sessions_bounded :
  forall (max : Z) (ops : list op) (s : Z),
    (0 <= s)%Z /\ ((max > 0)%Z -> (s <= max)%Z) ->
    Forall (fun '(s', _) => (0 <= s')%Z /\ ((max > 0)%Z -> (s' <= max)%Z)) (run max s ops).
Proof. exact sessions_bounded. Qed.
Print Assumptions C25_sessions_bounded.

(** ... and a slot is granted only strictly below the bound. *)
Theorem C25_grant_only_below_bound :
  forall (max : Z) (ops : list op) (s : Z),
    (0 <= s)%Z /\ ((max > 0)%Z -> (s <= max)%Z) ->
    Forall (fun '(before, o, after, ok) =>
              o = OAcquire -> ok = true -> ((max > 0)%Z -> (before < max)%Z) /\ after = (before + 1)%Z)
           (run_with_before max s ops).
Proof. exact grant_only_below_bound. Qed.
Print Assumptions C25_grant_only_below_bound.

(** The handler's discipline (a stream holds at most one session, releases
    only what it holds, once; a failed start releases at once): for every
    interleaving of metadata / start-failure / close events of any number K
    of streams, starting with no session, the counter equals the number of
    streams that hold a session, so at most max streams hold one. *)
Theorem C25_live_sessions_never_exceed_maximum :
  forall (max : Z) (K : nat) (evs : list (nat * event * bool)) (n : Z) (st : streams),
    hrun max 0 (repeat SIdle K) evs = (n, st) ->
    held st = n /\ (0 <= n)%Z /\ ((max > 0)%Z -> (held st <= max)%Z) /\ length st = K.
Proof. exact handler_sessions_are_live_streams. Qed.
Print Assumptions C25_live_sessions_never_exceed_maximum.

(** Why the discipline matters: with bare calls, a release by a client that
    holds nothing frees a slot that is in use (the counter floors at 0 but
    cannot know whose slot it was). *)
Theorem C25_bare_release_needs_discipline :
  run 1 0 [OAcquire; ORelease; OAcquire] = [(1, true); (0, true); (1, true)]%Z.
Proof. exact spurious_release_frees_a_used_slot. Qed.
Print Assumptions C25_bare_release_needs_discipline.

(** Concrete requests: every verdict occurs (non-vacuity). *)
Theorem C25_examples :
  authorize true cfg (mkMeta (lit "ls") [lit "-la"; lit "sub/dir"] (lit "pw")) 1 = (VGranted, 2%Z) /\
  authorised true cfg (mkMeta (lit "ls") [lit "-la"; lit "sub/dir"] (lit "pw")) 1 /\
  authorize true cfg (mkMeta (lit "ls") [lit "-la"] (lit "pw")) 2 = (VMaxSessions, 2%Z) /\
  authorize false cfg (mkMeta (lit "ls") [] (lit "guess")) 0 = (VInvalidCreds, 0%Z) /\
  authorize true cfg (mkMeta (lit "ls") [] []) 0 = (VAuthRequired, 0%Z) /\
  authorize true cfg (mkMeta (lit "/bin/ls") [] (lit "pw")) 0 = (VNotAllowed, 0%Z) /\
  authorize true cfg (mkMeta (lit "ls") [lit "ok"; lit "a;id"] (lit "pw")) 0 = (VDangerousArg 1, 0%Z) /\
  authorize true cfg (mkMeta (lit "ls") [lit "/etc/passwd"] (lit "pw")) 0 = (VAbsoluteArg 0, 0%Z) /\
  authorize true (mkCfg true [lit "*"] false 0) (mkMeta (lit "/bin/sh") [lit "-c"; lit "id;id"] []) 7 = (VGranted, 8%Z) /\
  authorize true (mkCfg true [] false 0) (mkMeta (lit "ls") [] []) 0 = (VNotAllowed, 0%Z) /\
  authorize true (mkCfg false [lit "*"] false 0) (mkMeta (lit "ls") [] []) 0 = (VDisabled, 0%Z) /\
  run 2 0 [OAcquire; OAcquire; OAcquire; ORelease; ORelease; ORelease; OAcquire] =
    [(1, true); (2, true); (2, false); (1, true); (0, true); (0, true); (1, true)]%Z.
Proof. exact examples. Qed.
Print Assumptions C25_examples.

(** The facts regenerated from internal/shell on this run are the model's:
    the metacharacter class, the separators, the order of the checks, that
    the counter's check-and-increment and its decrement are each one critical
    section and the only writers of the counter, and that every function that
    creates a process starts with validateAndAcquire, that every error return
    after the acquire follows exactly one ReleaseSession (and no deferred
    release exists beside them), and that the agent wires every field of
    shell.Config from the same-named field of the configuration's shell
    section. *)
Theorem C25_source_facts :
  gen_dangerous_is_literal_class = true /\
  gen_dangerous_chars = dangerous_chars /\
  gen_command_separators = path_separators /\
  gen_command_match_is_exact = true /\
  lit gen_wildcard = wildcard /\
  gen_arg_checks = ["wildcard-skip"; "dangerous"; "absolute"]%string /\
  gen_check_order = ["Enabled"; "ValidateAuth"; "IsCommandAllowed"; "ValidateArgs"; "AcquireSession"]%string /\
  gen_acquire_one_critical_section = true /\
  gen_acquire_condition = "e.config.MaxSessions>0&&e.sessions>=e.config.MaxSessions"%string /\
  gen_release_one_critical_section = true /\
  gen_release_condition = "e.sessions>0"%string /\
  gen_session_counter_writers = ["Executor.AcquireSession"; "Executor.ReleaseSession"]%string /\
  gen_handler_release_sites = [("Handler.handleMetadata", 1); ("Handler.releaseSession", 2)]%string /\
  gen_release_guarded_by_released_flag = true /\
  gen_start_failure_releases_before_session_recorded = true /\
  gen_password_rejected_on_any_bcrypt_error = true /\
  gen_shell_config_literals = 1 /\
  forallb (fun '(field, expr) => String.eqb expr ("a.cfg.Shell." ++ field)) gen_shell_config_wiring = true /\
  map fst gen_shell_config_wiring = ["Enabled"; "Whitelist"; "PasswordHash"; "Timeout"; "MaxSessions"]%string /\
  forallb (fun '(_, returns, with_one_release, deferred) => N.eqb returns with_one_release && N.eqb deferred 0)
          gen_error_paths_after_acquire = true /\
  map (fun '(fn, _, _, _) => fn) gen_error_paths_after_acquire = ["Executor.NewPTYSession"; "Executor.NewSession"]%string /\
  forallb snd gen_process_creation_sites = true /\
  map fst gen_process_creation_sites = ["Executor.NewPTYSession"; "Executor.NewSession"]%string.
Proof. repeat split; vm_compute; reflexivity. Qed.
Print Assumptions C25_source_facts.
