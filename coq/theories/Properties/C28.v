(** C28 - signed-command mode rejects every unsigned or invalid sleep/wake
    command, on every path a command can arrive by.

    Frames that can carry a command: SLEEP_COMMAND, WAKE_COMMAND and
    QUEUED_STATE (with an optional sleep and an optional wake command).  The
    Ed25519 verdict on origin||id||timestamp is the oracle field [c_sigok].
    [sane cfg now]: 0 <= window < 2^63-1 ns, the wall clock is later than 1970
    plus the window and inside the int64 nanosecond range. *)
From Coq Require Import List NArith ZArith.
From MM Require Import Model.SleepCmd Proofs.SleepCmdProofs Generated.C28.
Import ListNotations.
From Coq Require String.
Delimit Scope string_scope with string.
Import String.StringSyntax.
Local Open Scope Z_scope.

(** With a signing key configured: every effect of every frame of every type
    (a forwarded command, a sleep-manager callback, a state change) is caused
    by a command carried by that frame whose signature is non-zero and valid
    over its origin, identifier and timestamp, and whose timestamp lies inside
    the window at the instant it was examined (the hand-in instant, or 100 ms
    later for the wake command of a queued state that also carried an accepted
    sleep command); and the sleep state never changes without such an effect. *)
Theorem C28_signed_mode_sound : forall cfg now peers from fr st st' ef now',
  f_signing cfg = true -> sane cfg now -> sane cfg (now + settle_delay KSleep) ->
  (forall k c, In (k, c) (carried fr) -> wf_cmd c) ->
  on_frame cfg now peers from fr st = (st', ef, now') ->
  (forall e, In e ef ->
     exists k c t, In (k, c) (carried fr) /\ (t = now \/ t = now + settle_delay KSleep) /\
                   cmd_ok cfg t c /\ effect_of k c e) /\
  (a_sleep st' <> a_sleep st -> ef <> []).
Proof. exact signed_mode_sound. Qed.
Print Assumptions C28_signed_mode_sound.

(** The timestamp test is exact: it accepts precisely the timestamps inside
    the window (uint64 seconds against the nanosecond clock, including the
    wrap-around of time.Unix and the saturation of Time.Sub). *)
Theorem C28_timestamp_check_sound : forall cfg now ts, sane cfg now -> (ts < 18446744073709551616)%N ->
  ts_ok cfg now ts = true -> in_window cfg now ts.
Proof. exact ts_ok_sound. Qed.
Print Assumptions C28_timestamp_check_sound.

Theorem C28_timestamp_check_complete : forall cfg now ts, sane cfg now -> (Z.of_N ts * second < two63) ->
  in_window cfg now ts -> ts_ok cfg now ts = true.
Proof. exact ts_ok_complete. Qed.
Print Assumptions C28_timestamp_check_complete.

(** Unforgeability as a hypothesis on the frame: only commands issued by the
    key holder take effect. *)
Theorem C28_only_issued_commands_act : forall (issued : N -> N -> N -> Prop) cfg now peers from fr st st' ef now',
  f_signing cfg = true -> sane cfg now -> sane cfg (now + settle_delay KSleep) ->
  (forall k c, In (k, c) (carried fr) -> wf_cmd c) ->
  (forall k c, In (k, c) (carried fr) -> c_sigok c = true -> issued (c_origin c) (c_id c) (c_ts c)) ->
  on_frame cfg now peers from fr st = (st', ef, now') ->
  forall e, In e ef -> exists k c, In (k, c) (carried fr) /\ issued (c_origin c) (c_id c) (c_ts c) /\ effect_of k c e.
Proof. exact only_issued_commands_act. Qed.
Print Assumptions C28_only_issued_commands_act.

(** The one way a command is forwarded later than it was received: the
    flooder keeps the last accepted wake command and sends it to peers that
    connect within SeenCacheTTL.  In every history of frames and peer
    connections that starts without a pending command, whatever a connecting
    peer is sent is a wake command that passed [verify] (non-zero valid
    signature, timestamp inside the window, when a key is configured) at the
    instant [at_] it was accepted, at most SeenCacheTTL before.  (The timestamp
    may have left the window by the time of this re-send; receivers check it
    again.) *)
Theorem C28_pending_wake_forward_sound : forall cfg peers h st,
  pending_ok cfg st ->
  forall now p ef, In (now, APeerUp p, ef) (arun cfg peers st h) ->
  forall e, In e ef -> exists c at_, e = EForward KWake p c /\ verify cfg at_ c = true /\ now - at_ <= f_ttl cfg.
Proof. exact pending_forward_sound. Qed.
Print Assumptions C28_pending_wake_forward_sound.

Theorem C28_verify_means_signed : forall cfg t c, f_signing cfg = true -> verify cfg t c = true ->
  c_sigzero c = false /\ c_sigok c = true.
Proof. exact verify_signature_part. Qed.
Print Assumptions C28_verify_means_signed.

(** The code before the repairs violated the property twice. *)
Theorem C28_refuted_queued_pre_fix :
  let cfg := default_cfg true in
  let now := 946684800 * second in
  exists st' ef now',
    on_frame_pre_fix cfg now model_peers 1%N (FQueued (Some unsigned_cmd) None) (mkastate Awake [] None) = (st', ef, now') /\
    a_sleep st' = Sleeping /\ In (EState Awake Sleeping) ef /\
    verify cfg now unsigned_cmd = false.
Proof. exact queued_unverified_pre_fix. Qed.
Print Assumptions C28_refuted_queued_pre_fix.

Theorem C28_refuted_far_future_timestamp_pre_fix :
  let cfg := default_cfg true in
  let now := 946684800 * second in
  sane cfg now /\ ts_ok_pre_fix cfg now 1099511627776%N = true /\ ~ in_window cfg now 1099511627776%N /\
  ts_ok cfg now 1099511627776%N = false.
Proof. exact ts_ok_pre_fix_far_future. Qed.
Print Assumptions C28_refuted_far_future_timestamp_pre_fix.

(** Non-vacuity: a properly signed fresh command satisfies the hypotheses,
    takes effect and is forwarded. *)
Theorem C28_nonvacuous :
  let cfg := default_cfg true in
  let now := 946684800 * second + 5 in
  sane cfg now /\ sane cfg (now + settle_delay KSleep) /\ wf_cmd good_cmd /\
  on_frame cfg now model_peers 1%N (FSleep good_cmd) (mkastate Awake [] None)
  = (mkastate Sleeping [mkentry 10 1 now 1] None, [EForward KSleep 3%N good_cmd; ECallback KSleep; EState Awake Sleeping], now + 100000000).
Proof. exact good_command_acts. Qed.
Print Assumptions C28_nonvacuous.

(** Source facts regenerated on this run.  Every sleepMgr.Sleep / Wake call in
    a method reachable from Agent.processFrame is guarded by the verdict of the
    flooder's handler of the same kind (the model's [on_cmd]); the two flooded
    handlers are among them; handleQueuedState hands its commands to those
    handlers (the model's [on_frame] for [FQueued]); processFrame dispatches
    the three frame types to the three handlers; inside the flooder the
    verification precedes the marking and the forwarding and a failed
    verification returns false; both verify functions consist of exactly the
    model's checks (no key: accept; zero signature; timestamp with the
    overflow guard; Ed25519 over SignableBytes under the configured key) with
    the age computed as the model does; SignableBytes is origin, id,
    timestamp; the default window is the model's. *)
Definition site_guarded (s : String.string * String.string * bool) : bool := snd s.
Definition site_fn (s : String.string * String.string * bool) : String.string := fst (fst s).

Theorem C28_source_facts :
  forallb site_guarded gen_c28_frame_path_sites = true /\
  existsb (fun s => String.eqb (site_fn s) "handleSleepCommand"%string) gen_c28_frame_path_sites = true /\
  existsb (fun s => String.eqb (site_fn s) "handleWakeCommand"%string) gen_c28_frame_path_sites = true /\
  gen_c28_queued_dispatch = ["handleSleepCommand"; "handleWakeCommand"]%string /\
  gen_c28_dispatch_ok = true /\
  gen_c28_flooder_gets_signing_key_whenever_configured = true /\
  gen_c28_sleep_verify_then_mark_then_forward = true /\ gen_c28_wake_verify_then_mark_then_forward = true /\
  gen_c28_sleep_reject_returns_false = true /\ gen_c28_wake_reject_returns_false = true /\
  gen_c28_sleep_verify_checks = ["no-key-accept"; "zero-signature-reject"; "timestamp-reject"; "signature-reject"]%string /\
  gen_c28_wake_verify_checks = gen_c28_sleep_verify_checks /\
  gen_c28_sleep_ts_overflow_guard = true /\ gen_c28_wake_ts_overflow_guard = true /\
  gen_c28_sleep_verify_args_ok = true /\ gen_c28_wake_verify_args_ok = true /\
  gen_c28_sleep_age_computation_ok = true /\ gen_c28_wake_age_computation_ok = true /\
  gen_c28_sleep_signed_fields = ["OriginAgent:writeBytes"; "CommandID:writeUint64"; "Timestamp:writeUint64"]%string /\
  gen_c28_wake_signed_fields = gen_c28_sleep_signed_fields /\
  gen_c28_default_window_ns = f_window (default_cfg true) /\
  gen_c28_zero_window_fallback_ns = f_window (default_cfg true).
Proof. repeat split; reflexivity. Qed.
Print Assumptions C28_source_facts.
