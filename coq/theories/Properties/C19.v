(** C19 — exit agents only connect to permitted destinations. *)
From Coq Require Import List NArith.
From MM Require Import Lib.Bytes Model.ExitPolicy Proofs.ExitPolicyProofs.
Import ListNotations.
Local Open Scope N_scope.

(** The code before the fix (AddAllowedRoute appends unconditionally): after
    add n; add n; remove n on an agent with nothing configured, a destination
    inside n is still permitted although no dynamic route exists. *)
Theorem C19_refuted_readd_pre_fix :
  exists c h d i,
    open (run_pre_fix c h) d = MPermitted i /\
    s_dyn (run_pre_fix c h) = [] /\ c_enabled c = false.
Proof. exists w_cfg, w_hist, w_dest, (V4 2130772483). exact readd_pre_fix_permits_without_route. Qed.
Print Assumptions C19_refuted_readd_pre_fix.
