(** C19 — exit agents only connect to permitted destinations. *)
From Coq Require Import List NArith.
From MM Require Import Lib.Bytes Model.ExitPolicy Proofs.ExitPolicyProofs Generated.C19.
Import ListNotations.
Local Open Scope N_scope.

(** For every configuration, every history of route-management operations
    (add / update / remove with any CIDR text the parser accepts or rejects,
    list) interleaved with open requests, and every destination (IPv4,
    IPv6, IPv4-mapped IPv6, a name with any resolver answer): the exit
    handler permits the destination - and only then dials, the address it
    dials being [i] - exactly when the resolved address [i] lies in a
    configured exit network or in a dynamic route that is present in the
    routing table at that moment, or the destination is a name that matches
    a configured domain pattern. *)
Theorem C19_permitted_iff : forall (c : cfg) (h : list op) (d : dest) (i : ip),
  open (run c h) d = MPermitted i <->
  dest_ip d = Some i /\ (name_permitted c d \/ net_permitted c (run c h) i).
Proof. exact permitted_iff. Qed.
Print Assumptions C19_permitted_iff.

(** With nothing configured (exit role off, or no networks and no patterns)
    and no dynamic route present, nothing is permitted. *)
Theorem C19_nothing_configured_nothing_permitted : forall c h d i,
  configured_nets c = [] -> configured_domains c = [] -> s_dyn (run c h) = [] ->
  open (run c h) d <> MPermitted i.
Proof. exact nothing_configured_nothing_permitted. Qed.
Print Assumptions C19_nothing_configured_nothing_permitted.

(** its hypotheses are satisfiable by a non-trivial history: after add n; add
    n; remove n on an agent with nothing configured the table is empty again
    and the destination inside n is refused (on the repaired code) *)
Theorem C19_nothing_configured_example :
  configured_nets w_cfg = [] /\ configured_domains w_cfg = [] /\ s_dyn (run w_cfg w_hist) = [] /\
  open (run w_cfg w_hist) w_dest = MDenied.
Proof. vm_compute. repeat split; reflexivity. Qed.
Print Assumptions C19_nothing_configured_example.

(** In every reachable state the allow list holds exactly the configured
    networks and the current dynamic routes. *)
Theorem C19_allow_list_is_configured_plus_dynamic : forall c h l n,
  s_allow (run c h) = Some l ->
  (In n l <-> In n (configured_nets c) \/ In n (keys (s_dyn (run c h)))).
Proof. exact allow_list_is_configured_plus_dynamic. Qed.
Print Assumptions C19_allow_list_is_configured_plus_dynamic.

(** The matcher of domain patterns against its declarative reading: exact
    match up to ASCII case, or exactly one extra non-empty label in front of
    the base of a "*." pattern. *)
Theorem C19_domain_pattern_semantics : forall pats nm,
  domain_allowed pats nm = true <-> exists p, In p pats /\ pattern_spec p nm.
Proof. exact domain_allowed_spec. Qed.
Print Assumptions C19_domain_pattern_semantics.

(** The code before the fix (AddAllowedRoute appends unconditionally): after
    add n; add n; remove n on an agent with nothing configured, a destination
    inside n is still permitted although no dynamic route exists. *)
Theorem C19_refuted_readd_pre_fix :
  exists c h d i,
    open (run_pre_fix c h) d = MPermitted i /\
    s_dyn (run_pre_fix c h) = [] /\ c_enabled c = false.
Proof. exists w_cfg, w_hist, w_dest, (V4 2130772483). exact readd_pre_fix_permits_without_route. Qed.
Print Assumptions C19_refuted_readd_pre_fix.

(** non-vacuity: a reachable state in which a configured network, a dynamic
    route and a domain pattern each permit a destination, and a removed
    route no longer does *)
Theorem C19_nonvacuous :
  open (run ex_cfg ex_hist) (DIp4 167837953) = MPermitted (V4 167837953) /\
  open (run ex_cfg ex_hist) w_dest = MPermitted (V4 2130772483) /\
  open (run ex_cfg ex_hist) (DIp6 1) = MDenied /\
  open (run ex_cfg ex_hist) (DName [Byte.x58; Byte.x2e; Byte.x41; Byte.x2e; Byte.x62] None (Some (V4 16843009)))
    = MPermitted (V4 16843009) /\
  open (run ex_cfg ex_hist) (DIp4 16843009) = MDenied.
Proof. exact ex_permitted. Qed.
Print Assumptions C19_nonvacuous.

(** The wiring regenerated from the source on this run is the model's. *)
Theorem C19_source_facts :
  gen_err_not_allowed = 11 /\
  gen_add_updates_routes_then_allow_list = true /\
  gen_remove_updates_routes_then_allow_list = true /\
  gen_add_allowed_route_skips_present_network = true /\
  gen_allow_list_updates_are_one_write_lock_region = true /\
  gen_is_allowed_iff_some_route_contains = true /\
  gen_permission_check_precedes_the_only_dial = true /\
  gen_name_check_only_for_non_literals = true /\
  gen_on_demand_handler_starts_empty = true /\
  gen_configured_handler_only_if_exit_enabled = true /\
  gen_dynamic_routes_keyed_by_network_string = true.
Proof. repeat split; reflexivity. Qed.
Print Assumptions C19_source_facts.
