(** C33 - deterministic listening windows are computed correctly at every instant.

    Quantified over every identity (two 64-bit halves), every instant [t : Z]
    (before and after the epoch), every epoch, and every cycle / window /
    tolerance with 0 < window < cycle and 0 <= tolerance (the configuration
    NewWindowCalculator settles on, see [C33_normalisation]).  Instants and
    durations are unbounded integers: the Go code agrees with the model as long
    as |t - epoch| fits a time.Duration (about 292 years). *)
From Coq Require Import List NArith ZArith.
From MM Require Import Model.Window Proofs.WindowProofs Generated.C33.
Import ListNotations.
Local Open Scope Z_scope.

(** Windows recur exactly once per cycle ... *)
Theorem C33_windows_once_per_cycle : forall c hi lo, valid c -> forall k j,
  (epoch c + k * cycle c <= win_start c hi lo j < epoch c + (k + 1) * cycle c) <-> j = k.
Proof. exact windows_once_per_cycle. Qed.
Print Assumptions C33_windows_once_per_cycle.

(** ... and each fits inside its cycle. *)
Theorem C33_window_fits_cycle : forall c hi lo, valid c -> forall k,
  epoch c + k * cycle c <= win_start c hi lo k /\
  win_start c hi lo k < win_end c hi lo k /\
  win_end c hi lo k < epoch c + (k + 1) * cycle c /\
  win_end c hi lo k - win_start c hi lo k = window c.
Proof. exact window_fits_cycle. Qed.
Print Assumptions C33_window_fits_cycle.

(** For every identity and every instant (also before the epoch) NextWindow
    returns the earliest of the agent's windows that has not yet ended. *)
Theorem C33_next_is_earliest_unended : forall c hi lo t, valid c ->
  exists k, next_window c hi lo t = (win_start c hi lo k, win_end c hi lo k) /\
            t <= win_end c hi lo k /\
            (forall j, t <= win_end c hi lo j -> k <= j).
Proof. exact next_is_earliest_unended. Qed.
Print Assumptions C33_next_is_earliest_unended.

(** The code before the repair (truncating division) violated this before the
    epoch. *)
Theorem C33_refuted_before_epoch_pre_fix :
  exists c hi lo t j, valid c /\
    t <= win_end c hi lo j /\ win_end c hi lo j < snd (next_window_pre_fix c hi lo t).
Proof. exact refuted_before_epoch_pre_fix. Qed.
Print Assumptions C33_refuted_before_epoch_pre_fix.

(** In-window.  Full statement of the property:
      is_in_window c hi lo t = true <->
      exists k, win_start k - tol <= t < win_end k + tol.
    The present code does not satisfy it (known finding: the trailing
    tolerance is not honoured) ... *)
Theorem C33_refuted_trailing_tolerance :
  exists c hi lo t k, valid c /\
    win_start c hi lo k - tol c <= t /\ t < win_end c hi lo k + tol c /\
    is_in_window c hi lo t = false.
Proof. exact refuted_trailing_tolerance. Qed.
Print Assumptions C33_refuted_trailing_tolerance.

(** ... what it does satisfy, for all inputs: in-window exactly between a
    window's start minus the tolerance and that window's end. *)
Theorem C33_in_window_leading_only_partial : forall c hi lo t, valid c ->
  is_in_window c hi lo t = true <->
  exists k, win_start c hi lo k - tol c <= t /\ t <= win_end c hi lo k /\ t < win_end c hi lo k + tol c.
Proof. exact in_window_leading_only. Qed.
Print Assumptions C33_in_window_leading_only_partial.

(** The full statement holds for the test that also looks at the window one
    cycle earlier (shape of the repair; not the code). *)
Theorem C33_in_window_iff_for_repair_shape : forall c hi lo t, valid c ->
  is_in_window_trailing c hi lo t = true <->
  exists k, win_start c hi lo k - tol c <= t /\ t < win_end c hi lo k + tol c.
Proof. exact in_window_iff_trailing. Qed.
Print Assumptions C33_in_window_iff_for_repair_shape.

(** NewWindowCalculator's normalisation yields a configuration the theorems
    apply to. *)
Theorem C33_normalisation : forall c, 6 <= cycle c -> 0 < window c -> 0 <= tol c -> valid (normalize c).
Proof. exact normalize_valid. Qed.
Print Assumptions C33_normalisation.

(** The expressions of window.go the model follows, regenerated from the
    source on this run: normalisation divisor, XOR seed, offset modulo
    (cycle - window), floor division in cycleStart, NextWindow switching only
    strictly after the end, the active test start-tol <= now < end+tol of the
    returned window, IsInWindow = that flag, PreviousWindow. *)
Theorem C33_source_facts :
  gen_c33_normalise_divisor = norm_divisor /\
  gen_c33_seed_is_xor_of_halves = true /\
  gen_c33_offset_is_seed_mod_cycle_minus_window = true /\
  gen_c33_cycle_start_floor_division = true /\
  gen_c33_next_switches_strictly_after_end = true /\
  gen_c33_active_is_safe_start_le_now_lt_safe_end = true /\
  gen_c33_in_window_is_active_flag_of_next_window = true /\
  gen_c33_previous_switches_before_start = true /\
  (* the configuration path: sleep.NewManager keeps the instant time.Parse returned *)
  gen_c33_manager_epoch_is_the_parsed_instant = true /\
  gen_c33_manager_cycle_is_poll_interval = true /\
  gen_c33_manager_window_and_tolerance_when_positive = true /\
  gen_c33_default_window_ns = default_window /\
  gen_c33_default_tolerance_ns = default_tolerance.
Proof. repeat split; reflexivity. Qed.
Print Assumptions C33_source_facts.
