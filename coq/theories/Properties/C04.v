(** C04 — transit agents see only ciphertext of tunnelled application data
    and never hold the tunnel key. *)
From Coq Require Import List NArith Bool.
From Coq Require String.
From Coq.Strings Require Import Byte.
From MM Require Import Lib.Bytes Model.Tunnel Model.Transit Proofs.TunnelProofs Proofs.TransitProofs Generated.C04.
Import ListNotations.
Local Open Scope N_scope.

(** Stream tunnels (TCP stream, port forward, exit return path, shell, file
    transfer).  For every sender description (any buffer size, framing and
    sender kind), every key, counter and every sequence of application blocks:
    each frame payload handed to the first transit is a ciphertext under the
    tunnel key, a slice of one, or empty - nothing in it is readable without
    the key. *)
Theorem C04_stream_frames_sealed : forall pa k ctr blocks eofd o,
  run pa k ctr blocks eofd = Some o ->
  Forall (fun f => opaque_to_transit k f = true /\ readable f = []) (o_frames o).
Proof.
  intros pa k ctr blocks eofd o H.
  pose proof (stream_frames_opaque pa k ctr blocks eofd o H) as Ho.
  eapply Forall_impl; [|exact Ho]. intros f Hf. split; [exact Hf|exact (opaque_unreadable k f Hf)].
Qed.
Print Assumptions C04_stream_frames_sealed.

(** ... along a path with any number of transits (which copy the payload into
    the frame for the next hop): every transit's view is exactly the sender's
    frame payloads, all opaque, and the exit receives them unchanged. *)
Theorem C04_stream_views_any_path : forall n pa k ctr blocks eofd o,
  run pa k ctr blocks eofd = Some o ->
  snd (relay n (o_frames o)) = o_frames o /\
  length (fst (relay n (o_frames o))) = n /\
  Forall (Forall (fun f => opaque_to_transit k f = true /\ readable f = [])) (fst (relay n (o_frames o))).
Proof. exact stream_views_any_path. Qed.
Print Assumptions C04_stream_views_any_path.

(** ... and what is under the key is exactly the application bytes (C07): the
    key holder at the far end recovers them, for every data path of the
    current code. *)
Theorem C04_stream_bytes_under_key : forall pa, In pa all_paths ->
  forall k blocks eofd ctr expect, expect <= ctr ->
  exists o, run pa k ctr blocks eofd = Some o /\
    Forall (fun f => opaque_to_transit k f = true) (o_frames o) /\
    r_out (receive pa k expect (o_frames o)) = concat blocks.
Proof.
  intros pa Hin k blocks eofd ctr expect He.
  destruct (current_paths_exact pa Hin k blocks eofd ctr expect He) as (o & Hr & _ & _ & _ & Ho).
  exists o. split; [exact Hr|]. split; [exact (stream_frames_opaque pa k ctr blocks eofd o Hr)|exact Ho].
Qed.
Print Assumptions C04_stream_bytes_under_key.

(** Datagram tunnels (UDP association, ICMP session) between endpoints that
    have agreed on key [k]: for any number of transits and any sequence of
    datagrams in both directions, closes, and datagrams that the exit
    processes after the close, every payload in every transit's view is a
    whole ciphertext under [k]. *)
Theorem C04_datagram_views_sealed : forall k transits ops,
  let st := dg_run Fixed (established k transits) ops in
  Forall (Forall (fun s => sealed_under k (snd s) = true /\ readable (snd s) = [])) (g_views st).
Proof. exact datagram_views_sealed. Qed.
Print Assumptions C04_datagram_views_sealed.

(** The views are not empty: for datagrams sent while the association is open
    each transit sees exactly one sealed payload per datagram, in order, whose
    plaintext is that datagram. *)
Theorem C04_datagram_view_contents : forall ver k transits ops,
  only_sends ops = true ->
  forall v, In v (g_views (dg_run ver (established k transits) ops)) -> Forall2 sent ops v.
Proof. exact datagram_view_contents. Qed.
Print Assumptions C04_datagram_view_contents.

(** Transits forward what they get: without late datagrams all transits have
    the same view. *)
Theorem C04_transits_see_the_same : forall ver k transits ops,
  no_late ops = true ->
  exists v, g_views (dg_run ver (established k transits) ops) = repeat v transits.
Proof. exact transits_see_the_same. Qed.
Print Assumptions C04_transits_see_the_same.

(** Stream data paths under a close / reset / stop that lands between "bytes
    read" and "bytes sealed" (exit and forward readLoop, shell pumps, file
    streaming).  In the code as it is the key the sender loop uses is written
    once when the stream is set up and never changed or zeroed
    (C04_source_facts below): for every sequence of sends, closes and sends
    after the close, every payload the transit next to the exit sees is sealed
    under the tunnel's own key - late bytes are either not emitted or emitted
    under that key, never otherwise. *)
Theorem C04_stream_exit_sealed_under_any_close : forall k ops,
  Forall (fun s => sealed_under k (snd s) = true /\ readable (snd s) = []) (x_view (sx_run KeepKey k ops)).
Proof. exact stream_exit_sealed_under_any_close. Qed.
Print Assumptions C04_stream_exit_sealed_under_any_close.

(** The variant in which the close zeroes the key the loop is about to use
    (a zeroed key is still a valid AEAD key that everybody knows): the late
    bytes leave under the all-zero key. *)
Theorem C04_refuted_if_close_wipes_stream_key : exists (ops : list sxop) (secret : bytes) (c : N),
  secret <> [] /\
  In (DDown, Whole zero_key c secret) (x_view (sx_run WipeKey 7 ops)) /\
  sealed_under 7 (Whole zero_key c secret) = false /\
  open zero_key 0 (Whole zero_key c secret) = Some (c, secret).
Proof. exact stream_exit_wipe_refuted. Qed.
Print Assumptions C04_refuted_if_close_wipes_stream_key.

Theorem C04_stream_race_oracle_is_the_model : forall pol k ops, k <> zero_key ->
  view_totals k (x_view (sx_run pol k ops)) = sz_sx_run pol (map sxop_size ops).
Proof. exact sx_oracle_is_the_model. Qed.
Print Assumptions C04_stream_race_oracle_is_the_model.

(** Transit agents never hold the key: from everything a transit receives of
    a tunnel - both ephemeral public halves and all sealed payloads - neither
    the session key, the shared secret, a private scalar nor any payload
    plaintext can be computed (symbolic X25519 / HKDF / AEAD). *)
Theorem C04_transit_cannot_derive_key : forall a b r payloads,
  let S := transit_knowledge a b r payloads in
  ~ derives S (SKey a b r) /\ ~ derives S (Shared a b) /\
  ~ derives S (Priv a) /\ ~ derives S (Priv b) /\
  forall d, ~ derives S (Data d).
Proof. exact transit_cannot_derive. Qed.
Print Assumptions C04_transit_cannot_derive_key.

(** The exit-side code before the repair ([Encrypt] passes bytes through when
    the key is gone, also after [Close]): a datagram read before the close
    and processed after it reaches the transit next to the exit in the
    clear. *)
Theorem C04_refuted_datagram_after_close_pre_fix : exists (ops : list dgop) (secret : bytes),
  secret <> [] /\
  In (DDown, Clear secret) (last (g_views (dg_run PreFix (established 1 2) ops)) []).
Proof. exact datagram_pre_fix_refuted. Qed.
Print Assumptions C04_refuted_datagram_after_close_pre_fix.

(** What pins that defect: the old exit code already kept every view sealed on
    all traces without a datagram processed after the close. *)
Theorem C04_pre_fix_sealed_without_late : forall k transits ops,
  no_late_anywhere ops = true ->
  let st := dg_run PreFix (established k transits) ops in
  Forall (Forall (fun s => sealed_under k (snd s) = true /\ readable (snd s) = [])) (g_views st).
Proof. exact datagram_views_sealed_pre_fix_without_late. Qed.
Print Assumptions C04_pre_fix_sealed_without_late.

(** The totals evaluated by the correspondence check are those of the view of
    the transit next to the exit in the datagram model. *)
Theorem C04_oracle_is_the_model : forall ver k transits ops,
  (0 < transits)%nat ->
  view_totals k (last (g_views (dg_run ver (established k transits) ops)) []) = sz_dg_run ver (map op_size ops).
Proof. exact oracle_is_the_model. Qed.
Print Assumptions C04_oracle_is_the_model.

(** Facts regenerated from the Go sources on this run: the three transit
    handlers copy frame.Payload into every frame they forward; the exit-side
    Encrypt/Decrypt of UDP associations and ICMP sessions fail once closed
    (before the no-key pass-through); the datagram ingress seals whenever it
    holds a key; the stream senders give up without a key. *)
Theorem C04_source_facts :
  forallb snd gen_relay_verbatim = true /\ length gen_relay_verbatim = 3%nat /\
  forallb snd gen_exit_checks_closed = true /\ length gen_exit_checks_closed = 4%nat /\
  forallb snd gen_ingress_seals_with_key = true /\ length gen_ingress_seals_with_key = 3%nat /\
  forallb snd gen_stream_senders_need_key = true /\ length gen_stream_senders_need_key = 6%nat /\
  (* "no key offered" is decided by comparing the whole key with a zero array, in every function that takes the no-key branch *)
  forallb snd gen_zero_key_tests = true /\ length gen_zero_key_tests = 6%nat /\
  (* a pending open is closed without error only by the *OpenAck handlers; every other close passes a definite error *)
  forallb snd gen_pending_open_closes = true /\ Nat.leb 8 (length gen_pending_open_closes) = true /\
  (* the UDP ingress hands out a cached per-exit association only after its PendingOpen channel was closed *)
  gen_cached_assoc_only_after_pending_open = true /\
  (* transits forward the ephemeral key of every OPEN they relay *)
  forallb snd gen_relay_keeps_ephemeral_key = true /\ length gen_relay_keeps_ephemeral_key = 3%nat /\
  (* the only code that zeroes a session key are the Close methods whose Encrypt/Decrypt check the closed flag under the same lock *)
  forallb (fun f => existsb (String.eqb f) allowed_key_zeroers) gen_session_key_zeroers = true /\
  (* the only code that assigns a session key field: the open-time setters and those two Close methods; nothing in exit, forward, shell or the file transfer streams *)
  forallb (fun f => existsb (String.eqb f) allowed_key_writers) gen_session_key_writers = true.
Proof. repeat split; reflexivity. Qed.
Print Assumptions C04_source_facts.
