(** C32 — one live connection per peer, and stale teardown never harms the live one.

    Model: Model/PeerReg.v.  States reachable by ANY sequence of the atomic
    steps (registration of a new connection for a peer identity, keepalive
    teardown, read error, the two halves of handleDisconnect of either loop,
    a keepalive write that hangs and returns later, frame arrival, the locked
    part and the individual Close calls of Disconnect / DisconnectAll, relay
    set-up) from the empty
    manager; [fixed] is the repaired code, [pre_fix] / [once_only] the code
    before the repairs / with the first repair only. *)
From Coq Require Import List NArith ZArith Bool.
From MM Require Import Model.PeerReg Proofs.PeerRegProofs Generated.C32.
Import ListNotations.

(** The facts regenerated from manager.go / agent.go on this run select the
    repaired variant of the model and confirm its granularity: duplicate check
    and insertion in one critical section, the duplicate branch closes the new
    connection without starting loops, handleDisconnect removes the map entry
    only if it is this connection, the read loop reports a teardown at one
    place and the keepalive loop at two, and the agent's callback cleans up by
    peer identity. *)
Definition gen_variant : variant :=
  {| v_once := gen_disconnect_once_and_not_replaced;
     v_serial := gen_register_waits_for_lifecycle && gen_disconnect_holds_lifecycle |}.

Theorem C32_source_facts :
  gen_variant = fixed /\
  gen_register_check_and_insert_atomic = true /\ gen_register_reject_closes_without_loops = true /\
  gen_disconnect_removes_only_same_conn = true /\
  gen_readloop_teardown_reports = 1%N /\ gen_keepalive_teardown_reports = 2%N /\
  gen_agent_cleanup_by_peer_id = true /\ gen_agent_callback_wired = true /\
  gen_disconnectall_snapshot_and_reset_atomic = true /\ gen_disconnect_delete_under_lock = true /\
  gen_loops_close_their_own_connection = true /\ gen_agent_cleanup_synchronous = true /\
  gen_agent_cleanup_direct_calls = 0%N.
Proof. repeat split; reflexivity. Qed.
Print Assumptions C32_source_facts.

(** At most one live connection per remote identity: an open connection is the
    registered one of its peer, or one that Disconnect / DisconnectAll has just
    unregistered and is about to close. *)
Theorem C32_one_live_connection : forall s, reachable s ->
  (forall c x, get s c = Some x -> c_closed x = false ->
      lookup (c_peer x) (reg s) = Some c \/ In c (closing s)) /\
  (forall c1 c2 x1 x2, get s c1 = Some x1 -> get s c2 = Some x2 ->
      c_closed x1 = false -> c_closed x2 = false -> c_peer x1 = c_peer x2 ->
      ~ In c1 (closing s) -> ~ In c2 (closing s) -> c1 = c2) /\
  (forall p c, lookup p (reg s) = Some c -> exists x, get s c = Some x /\ c_peer x = p /\ c_accepted x = true).
Proof. exact one_live_connection. Qed.
Print Assumptions C32_one_live_connection.

(** A rejected duplicate connection never delivers frames. *)
Theorem C32_rejected_never_delivers : forall s, reachable s ->
  (forall c x, get s c = Some x -> c_accepted x = false ->
      c_closed x = true /\ c_rd x = PDone /\ c_ka x = PDone /\ step fixed s (EFrame c) = None) /\
  (forall p c, In (p, c) (routes s) -> exists x, get s c = Some x /\ c_peer x = p /\ c_accepted x = true).
Proof. exact rejected_never_delivers. Qed.
Print Assumptions C32_rejected_never_delivers.

(** Tearing down a connection that is no longer the registered one never
    changes the registration and never removes routes or relays of the peer's
    current connection. *)
Theorem C32_stale_teardown_safe : forall s e, reachable s -> ~ harms fixed s e.
Proof. exact stale_teardown_safe. Qed.
Print Assumptions C32_stale_teardown_safe.

(** The by-peer-identity cleanup runs only while no connection is registered for the peer. *)
Theorem C32_notify_only_when_unregistered : forall s c t s', reachable s ->
  step fixed s (ETdNotify c t) = Some s' ->
  exists x, get s c = Some x /\ lookup (c_peer x) (reg s) = None.
Proof. exact notify_only_when_unregistered. Qed.
Print Assumptions C32_notify_only_when_unregistered.

(** The disconnect callback runs at most once for every connection. *)
Theorem C32_notified_at_most_once : forall s c, reachable s -> (cnt c s <= 1)%nat.
Proof. exact notified_at_most_once. Qed.
Print Assumptions C32_notified_at_most_once.

(** non-vacuity of the stale-teardown theorem *)
Theorem C32_stale_teardown_nonvacuous :
  exists s x s', reachable s /\ get s 0 = Some x /\ lookup (c_peer x) (reg s) = Some 1 /\
                 step fixed s (ETdLock 0 TRd) = Some s' /\
                 routes_of 0%N s' = routes_of 0%N s /\ routes_of 0%N s <> [].
Proof. exact stale_teardown_safe_nonvacuous. Qed.
Print Assumptions C32_stale_teardown_nonvacuous.

(** The script operations that the harness runs on the real agent are
    interleavings of the atomic steps the theorems quantify over. *)
Theorem C32_script_ops_are_interleavings : forall s o, reachable s -> ok_or_blocked (apply fixed s o).
Proof. exact script_ops_are_interleavings. Qed.
Print Assumptions C32_script_ops_are_interleavings.

(** The code before the repairs: a teardown step of an already replaced
    connection wipes the routes of the live one (double notification). *)
Theorem C32_refuted_double_notify_pre_fix :
  exists tr s e, run pre_fix init tr = Some s /\ harms pre_fix s e.
Proof. exact refuted_double_notify. Qed.
Print Assumptions C32_refuted_double_notify_pre_fix.

(** With only the first repair the notification window is still open; the
    same schedule cannot be executed on the repaired code. *)
Theorem C32_refuted_window_once_only :
  exists tr s e, run once_only init tr = Some s /\ harms once_only s e.
Proof. exact refuted_window_once_only. Qed.
Print Assumptions C32_refuted_window_once_only.

Theorem C32_window_closed_in_fixed : run fixed init witness_window = None.
Proof. exact window_closed_in_fixed. Qed.
Print Assumptions C32_window_closed_in_fixed.
