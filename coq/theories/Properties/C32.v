(** C32 — one live connection per peer, and stale teardown never harms the live one. *)
From Coq Require Import List NArith ZArith Bool.
From MM Require Import Model.PeerReg Proofs.PeerRegProofs.
Import ListNotations.

(** The code before the repairs: a teardown step of an already replaced
    connection wipes the routes of the live one (double notification). *)
Theorem C32_refuted_double_notify_pre_fix :
  exists tr s e, run pre_fix init tr = Some s /\ harms pre_fix s e.
Proof. exact refuted_double_notify. Qed.
Print Assumptions C32_refuted_double_notify_pre_fix.

(** With only the first repair the notification window is still open. *)
Theorem C32_refuted_window_once_only :
  exists tr s e, run once_only init tr = Some s /\ harms once_only s e.
Proof. exact refuted_window_once_only. Qed.
Print Assumptions C32_refuted_window_once_only.
