(** C27 — directory uploads never write outside the destination. *)
From Coq Require Import List NArith Bool.
From Coq Require Import String.
From MM Require Import Model.Fs Model.Untar Proofs.FsProofs Proofs.UntarProofs Proofs.UntarSafety Generated.C27.
Import ListNotations.
Local Open Scope string_scope.
Local Open Scope list_scope.

(** The repaired UntarDirectory, for EVERY archive (any list of directory,
    regular-file, symbolic-link, hard-link and other entries with arbitrary
    names, link targets and contents) and EVERY file system state in which
    the destination [dest] is an existing directory reached without links
    (canonical path without ".."), no regular file inside the destination
    shares its inode with a file outside it, and inode numbers are below the
    allocation counter:  after the extraction (whether it succeeds or stops
    with an error) every path that is not the destination or below it holds
    exactly what it held before, every file outside has its content, and
    the destination is still that directory.  Nothing outside is created,
    modified, linked, replaced or deleted. *)
Theorem C27_outside_unchanged : forall dest fs es,
  no_dotdot dest ->
  look fs dest = Some DirO ->
  (forall p q i, look fs p = Some (FileO i) -> look fs q = Some (FileO i) -> is_prefix dest p = is_prefix dest q) ->
  (forall p i, look fs p = Some (FileO i) -> (i < next_ino fs)%N) ->
  let fs' := fst (extract true dest fs es) in
  (forall p, is_prefix dest p = false -> look fs' p = look fs p) /\
  (forall p i, is_prefix dest p = false -> look fs p = Some (FileO i) -> content fs' i = content fs i) /\
  look fs' dest = Some DirO.
Proof. exact untar_outside_unchanged. Qed.
Print Assumptions C27_outside_unchanged.

(** The hypotheses are satisfiable and extraction really writes inside:
    a directory, a file, a symbolic link and a hard link are created below
    the destination of a concrete state that satisfies them. *)
Example C27_nonvacuous :
  no_dotdot ex_dest /\
  look ex_fs ex_dest = Some DirO /\
  (forall p q i, look ex_fs p = Some (FileO i) -> look ex_fs q = Some (FileO i) -> is_prefix ex_dest p = is_prefix ex_dest q) /\
  (forall p i, look ex_fs p = Some (FileO i) -> (i < next_ino ex_fs)%N) /\
  let fs' := fst (extract true ex_dest ex_fs ex_archive) in
  snd (extract true ex_dest ex_fs ex_archive) = None /\
  look fs' ["o"; "d"; "a"; "f"] = Some (FileO 2) /\ content fs' 2 = "hello" /\
  look fs' ["o"; "d"; "g"] = Some (FileO 2) /\ look fs' ["o"; "d"; "a"; "l"] = Some (LinkO "f").
Proof. exact ex_nonvacuous. Qed.

(** Before the repairs the faithful model violates the property: a chain of
    links that are each lexically inside the destination creates a file in
    the parent of the destination, overwrites a file there, and a link entry
    named "." replaces the destination directory itself.  The same archives
    are refused now. *)
Theorem C27_pre_fix_refuted :
  (exists init es p, snd (extract false harness_dest (build_fs init) es) = None /\
      is_prefix harness_dest p = false /\ look (build_fs init) p = None /\
      look (fst (extract false harness_dest (build_fs init) es)) p <> None) /\
  (exists init es p i, is_prefix harness_dest p = false /\
      look (build_fs init) p = Some (FileO i) /\
      content (build_fs init) i <> content (fst (extract false harness_dest (build_fs init) es)) i) /\
  (exists init es, look (fst (extract false harness_dest (build_fs init) es)) harness_dest <> Some DirO).
Proof. exact pre_fix_refuted_proof. Qed.
Print Assumptions C27_pre_fix_refuted.

(** Where the repaired UntarDirectory applies its checks, regenerated from
    tar.go on this run: the link check on the entry path sits between
    sanitizeTarPath and the switch, it includes the last component exactly
    for directory and regular-file entries (the model's [checks_last]), the
    hard-link target is checked including its last component, a
    non-directory entry may not name the destination itself, and
    ensureNoSymlinks inspects with Lstat, rejects links, and stops at the
    first missing component. *)
Theorem C27_source_facts :
  gen_path_check_between_sanitize_and_switch = true /\
  gen_check_last_kinds = map fst (filter (fun p => checks_last (snd p))
      [("TypeDir", EDir ""); ("TypeLink", EHard "" ""); ("TypeReg", EReg "" ""); ("TypeSymlink", ESym "" "")]) /\
  gen_hardlink_target_checked = true /\ gen_destination_itself_guard = true /\
  (* one typeflag per branch ([EDir], [EReg], [ESym], [EHard]; every other typeflag is [EOther], skipped),
     and an uploaded directory reaches the tree through UntarDirectory only *)
  gen_switch_clauses = ["TypeDir"; "TypeReg"; "TypeSymlink"; "TypeLink"] /\
  gen_upload_dir_branch_calls = ["UntarDirectory"; "fmt.Errorf"; "CalculateDirectorySize"] /\
  gen_ensure_uses_lstat = true /\ gen_ensure_rejects_symlink = true /\ gen_ensure_stops_at_missing = true.
Proof. repeat split; reflexivity. Qed.
Print Assumptions C27_source_facts.
