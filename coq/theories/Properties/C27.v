(** C27 — directory uploads never write outside the destination. *)
From Coq Require Import List NArith Bool.
From Coq Require Import String.
From MM Require Import Model.Fs Model.Untar Proofs.UntarProofs.
Import ListNotations.
Local Open Scope string_scope.
Local Open Scope list_scope.

(** Before the repairs the faithful model violates the property: a chain of
    links that are each lexically inside the destination creates a file in
    the parent of the destination, overwrites a file there, and a link entry
    named "." replaces the destination directory itself.  The same archives
    are refused now. *)
Theorem C27_pre_fix_refuted :
  (exists init es p, snd (extract false harness_dest (build_fs init) es) = None /\
      is_prefix harness_dest p = false /\ look (build_fs init) p = None /\
      look (fst (extract false harness_dest (build_fs init) es)) p <> None) /\
  (exists init es p i, is_prefix harness_dest p = false /\
      look (build_fs init) p = Some (FileO i) /\
      content (build_fs init) i <> content (fst (extract false harness_dest (build_fs init) es)) i) /\
  (exists init es, look (fst (extract false harness_dest (build_fs init) es)) harness_dest <> Some DirO).
Proof. exact pre_fix_refuted_proof. Qed.
Print Assumptions C27_pre_fix_refuted.
