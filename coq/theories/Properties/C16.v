(** C16 — concurrent tunnels stay isolated and byte-exact across shared hops. *)
From Coq Require Import List NArith Bool.
From MM Require Import Model.Relay Proofs.RelayProofs.
Import ListNotations.
Local Open Scope N_scope.

(** Two ingress agents that both use stream id 1 towards one transit: the
    second OPEN overwrites byUpstream[1]; the first agent's data is forwarded
    nowhere (TCP, UDP and ICMP relay tables alike). *)
Theorem C16_refuted_two_ingress : forall fm,
  exists evs from id to did,
    In [(to, mkframe fm KOpen did [] 11 false)] (snd (arun (ainit 9 [1; 2]) evs)) /\
    ~ forwards_to (fst (arun (ainit 9 [1; 2]) evs)) fm from id 111 to did.
Proof. exact isolation_refuted_two_ingress. Qed.
Print Assumptions C16_refuted_two_ingress.

(** The dropped frames fall through to the transit's own stream with the same
    bare id: data is pushed into it, a close tears it down. *)
Theorem C16_refuted_fallthrough_to_own_stream :
  mget 1 (a_locals (fst (astep (two_ingress_state TCP) (data_of TCP 1 1 111)))) = Some [111] /\
  mget 1 (a_locals (fst (astep (two_ingress_state TCP) (close_of TCP 1 1)))) = None.
Proof. split; [exact two_ingress_data_hits_own_stream | exact (proj2 two_ingress_close_kills_own_stream)]. Qed.
Print Assumptions C16_refuted_fallthrough_to_own_stream.
