(** C16 — concurrent tunnels stay isolated and byte-exact across shared hops. *)
From Coq Require Import List NArith ZArith Bool.
From MM Require Import Model.Relay Model.RelayPreFix Model.ExitBook
  Proofs.RelayProofs Proofs.RelayAgentProofs Proofs.RelayPreFixProofs Proofs.ExitBookProofs Generated.C16.
Import ListNotations.
Local Open Scope N_scope.

(** * The transit (relay tables of the TCP, UDP and ICMP families), after the fix *)

(** Along every run of a transit - frames of any family from any peer on any
    stream id in any order (stale, duplicated, addressed to nothing), connects,
    disconnects, failing sends - provided only that a peer never opens a
    stream id that is still live on its connection (C38), that a connection
    hands out fewer than 2^63 ids and that a peer has one connection at a
    time: each relay table holds exactly the live tunnels, each indexed under
    both of its (peer, id) keys ([agree]), and our allocator on a tunnel's
    downstream connection is ahead of its downstream id. *)
Theorem C16_run_invariant : forall evs me locals,
  evs_ok (ainit me locals) evs -> ainv (fst (arun (ainit me locals) evs)).
Proof. exact run_invariant_from_init. Qed.
Print Assumptions C16_run_invariant.

(** In such a state, data sent by a tunnel's upstream end is forwarded to the
    tunnel's own downstream end - same payload, same flags, nobody else - and
    nothing else changes; symmetrically for the downstream end. *)
Theorem C16_data_from_upstream : forall s fm L e tag fin,
  agree (tbl s fm) L -> In e L ->
  astep s (EFrame (up_peer e) (data_frame fm (up_id e) tag fin)) =
  (s, emit s (down_peer e) (data_frame fm (down_id e) tag fin)).
Proof. exact data_from_upstream. Qed.
Print Assumptions C16_data_from_upstream.

Theorem C16_data_from_downstream : forall s fm L e tag fin,
  agree (tbl s fm) L -> In e L ->
  pget (down_key e) (by_up (tbl s fm)) = None ->
  astep s (EFrame (down_peer e) (data_frame fm (down_id e) tag fin)) =
  (s, emit s (up_peer e) (data_frame fm (up_id e) tag fin)).
Proof. exact data_from_downstream. Qed.
Print Assumptions C16_data_from_downstream.

(** No frame of one tunnel reaches another: whatever a non-OPEN frame from
    (from, id) makes the transit send goes to the other end of the one live
    tunnel that has (from, id) as an end. *)
Theorem C16_frame_output_follows_own_tunnel : forall s L from f to g,
  agree (tbl s (f_fam f)) L ->
  f_kind f <> KOpen ->
  In (to, g) (snd (astep s (EFrame from f))) ->
  exists x, In x L /\
    ((up_key x = (from, f_id f) /\ (to, f_id g) = down_key x) \/
     (down_key x = (from, f_id f) /\ (to, f_id g) = up_key x)).
Proof. exact frame_output_follows_own_tunnel. Qed.
Print Assumptions C16_frame_output_follows_own_tunnel.

(** No frame of one tunnel closes or resets another: after any non-OPEN frame
    whose (peer, id) is not an end of tunnel e, e is still indexed under both
    of its keys (in every family). *)
Theorem C16_foreign_frame_keeps_tunnel : forall s fm L e from f,
  agree (tbl s fm) L -> In e L ->
  f_kind f <> KOpen ->
  (f_fam f = fm -> (from, f_id f) <> up_key e /\ (from, f_id f) <> down_key e) ->
  let s' := fst (astep s (EFrame from f)) in
  pget (up_key e) (by_up (tbl s' fm)) = Some e /\ pget (down_key e) (by_down (tbl s' fm)) = Some e.
Proof. exact foreign_frame_keeps_tunnel. Qed.
Print Assumptions C16_foreign_frame_keeps_tunnel.

(** A close or reset removes exactly its own tunnel and goes to its other end. *)
Theorem C16_close_from_upstream : forall s fm L e k tag,
  agree (tbl s fm) L -> In e L -> (k = KClose \/ (k = KReset /\ fm = TCP)) ->
  astep s (EFrame (up_peer e) (close_frame fm k (up_id e) tag)) =
  (with_tbl s fm (delete (tbl s fm) e), emit s (down_peer e) (close_frame fm k (down_id e) tag)) /\
  agree (delete (tbl s fm) e) (remove_entry e L).
Proof. exact close_from_upstream. Qed.
Print Assumptions C16_close_from_upstream.

(** Non-vacuity: two ingress agents that both use stream id 1 towards one
    transit form a well-behaved run, and each agent's data reaches its own
    downstream id (this is the scenario that broke the pre-fix table). *)
Theorem C16_two_ingress_isolated : forall fm,
  evs_ok (ainit 9 [1; 2]) (two_ingress fm) /\
  let s := fst (arun (ainit 9 [1; 2]) (two_ingress fm)) in
  snd (astep s (EFrame 1 (data_frame fm 1 111 false))) = [(3, data_frame fm 1 111 false)] /\
  snd (astep s (EFrame 2 (data_frame fm 1 222 false))) = [(3, data_frame fm 3 222 false)] /\
  snd (astep s (EFrame 3 (data_frame fm 1 333 false))) = [(1, data_frame fm 1 333 false)] /\
  snd (astep s (EFrame 3 (data_frame fm 3 444 false))) = [(2, data_frame fm 1 444 false)].
Proof. exact two_ingress_ok. Qed.
Print Assumptions C16_two_ingress_isolated.

(** * What the pre-fix relay table did (bare stream ids as keys) *)

Theorem C16_refuted_two_ingress_pre_fix : forall fm,
  exists evs from id to did,
    In [(to, PreFix.mkframe fm PreFix.KOpen did [] 11 false)] (snd (PreFix.arun (PreFix.ainit 9 [1; 2]) evs)) /\
    ~ PreFixProofs.forwards_to (fst (PreFix.arun (PreFix.ainit 9 [1; 2]) evs)) fm from id 111 to did.
Proof. exact PreFixProofs.isolation_refuted_two_ingress. Qed.
Print Assumptions C16_refuted_two_ingress_pre_fix.

(** * Still open: endpoints keyed by the bare stream id *)

(** Frames that match no relay entry fall through to the agent's own stream
    manager, which is keyed by the bare stream id and has no owner check: a
    neighbour's data on id k is pushed into the agent's own stream k, a
    neighbour's close on id k closes it. *)
Theorem C16_refuted_fallthrough_to_own_stream :
  let s := fst (arun (ainit 9 [1; 2]) [EConnect 1 false; EConnect 2 false]) in
  mget 2 (a_locals (fst (astep s (EFrame 1 (data_frame TCP 2 5 false))))) = Some [5] /\
  mget 1 (a_locals (fst (astep s (EFrame 2 (close_frame TCP KClose 1 0))))) = None.
Proof. exact fallthrough_to_own_stream. Qed.
Print Assumptions C16_refuted_fallthrough_to_own_stream.

(** At an exit (and a port-forward endpoint) the connection records are keyed
    by the bare stream id: with two peers on id 1, peer 1's close tears down
    peer 2's connection, and peer 1's data (encrypted under its own session
    key) fails to decrypt under peer 2's key, which closes peer 2's connection. *)
Theorem C16_refuted_exit_collision :
  (let '(b, _, w, _) := bstep (brun (book_init 3) [BOpen 1 1; BOpen 2 1]) (BClose 1 1) in
   bclosed b = [1] /\ w = [(1, 1)] /\ loops b = [0]) /\
  (let '(b, _, _, got) := bstep (brun (book_init 3) [BOpen 1 1; BOpen 2 1]) (BData 1 1 0 77) in
   got = [] /\ bclosed b = [1]).
Proof. exact exit_collision. Qed.
Print Assumptions C16_refuted_exit_collision.

(** * The facts regenerated from the source on this run are the model's *)
Theorem C16_source_facts :
  gen_relay_up_key_is_peer_id = relay_keys_carry_peer /\
  gen_relay_down_key_is_peer_id = relay_keys_carry_peer /\
  gen_lookup_both_calls = 3 /\ gen_lookup_both_pass_source_peer = lookups_pass_source_peer /\
  gen_ack_lookups = 3 /\ gen_ack_lookups_pass_source_peer = lookups_pass_source_peer /\
  gen_bare_downstream_lookups_in_handlers = 0 /\
  gen_disconnect_calls_cleanup = true /\ gen_disconnect_cleans_tcp = true /\
  gen_disconnect_cleans_udp = cleanup_all_tables /\ gen_disconnect_cleans_icmp = cleanup_all_tables /\
  gen_delete_by_peer_ranges_upstream = true /\ gen_delete_by_peer_deletes_both = true /\
  gen_exit_connections_key_bare = connections_key_bare /\
  gen_forward_connections_key_bare = connections_key_bare /\
  gen_stream_manager_key_bare = true /\
  gen_exit_store_then_count_unconditional = store_then_count_unconditional /\
  gen_forward_store_then_count_unconditional = store_then_count_unconditional /\
  gen_stream_data_dispatch_order = stream_data_dispatch_order.
Proof. repeat split; reflexivity. Qed.
Print Assumptions C16_source_facts.

(** Dispatch order, regenerated from the source: in each of the thirteen
    handlers that dispatch a frame by its stream id the relay table is
    consulted before every local endpoint and a relay match returns. *)
Theorem C16_dispatch_order_facts :
  gen_relay_first_handleStreamOpenAck = relay_consulted_first /\ gen_relay_match_returns_handleStreamOpenAck = relay_consulted_first /\
  gen_relay_first_handleStreamOpenErr = relay_consulted_first /\ gen_relay_match_returns_handleStreamOpenErr = relay_consulted_first /\
  gen_relay_first_handleStreamData = relay_consulted_first /\ gen_relay_match_returns_handleStreamData = relay_consulted_first /\
  gen_relay_first_handleStreamClose = relay_consulted_first /\ gen_relay_match_returns_handleStreamClose = relay_consulted_first /\
  gen_relay_first_handleStreamReset = relay_consulted_first /\ gen_relay_match_returns_handleStreamReset = relay_consulted_first /\
  gen_relay_first_handleUDPOpenAck = relay_consulted_first /\ gen_relay_match_returns_handleUDPOpenAck = relay_consulted_first /\
  gen_relay_first_handleUDPOpenErr = relay_consulted_first /\ gen_relay_match_returns_handleUDPOpenErr = relay_consulted_first /\
  gen_relay_first_handleUDPDatagram = relay_consulted_first /\ gen_relay_match_returns_handleUDPDatagram = relay_consulted_first /\
  gen_relay_first_handleUDPClose = relay_consulted_first /\ gen_relay_match_returns_handleUDPClose = relay_consulted_first /\
  gen_relay_first_handleICMPOpenAck = relay_consulted_first /\ gen_relay_match_returns_handleICMPOpenAck = relay_consulted_first /\
  gen_relay_first_handleICMPOpenErr = relay_consulted_first /\ gen_relay_match_returns_handleICMPOpenErr = relay_consulted_first /\
  gen_relay_first_handleICMPEcho = relay_consulted_first /\ gen_relay_match_returns_handleICMPEcho = relay_consulted_first /\
  gen_relay_first_handleICMPClose = relay_consulted_first /\ gen_relay_match_returns_handleICMPClose = relay_consulted_first.
Proof. repeat split; reflexivity. Qed.
Print Assumptions C16_dispatch_order_facts.

(** The relay branch of every *_OPEN handler inserts the entry before it writes
    the forwarded OPEN ([on_open]: insert, then send, delete on failure), and
    replies to the opener on the opener's id; a locally unregistered connection
    still gets its disconnect notification. *)
Theorem C16_open_order_facts :
  gen_open_inserts_before_send_handleStreamOpen = true /\ gen_open_deletes_on_send_failure_handleStreamOpen = true /\
  gen_open_error_reply_to_opener_handleStreamOpen = true /\
  gen_open_inserts_before_send_handleUDPOpen = true /\ gen_open_deletes_on_send_failure_handleUDPOpen = true /\
  gen_open_error_reply_to_opener_handleUDPOpen = true /\
  gen_open_inserts_before_send_handleICMPOpen = true /\ gen_open_deletes_on_send_failure_handleICMPOpen = true /\
  gen_open_error_reply_to_opener_handleICMPOpen = true /\
  gen_unregistered_connection_still_notifies_disconnect = true.
Proof. repeat split; reflexivity. Qed.
Print Assumptions C16_open_order_facts.

(** Addressing, regenerated from the source: OPEN replies of the exit / forward /
    UDP / ICMP endpoints name (peer, stream id, request id) in that order;
    every relayed DATA / CLOSE / RESET (and the UDP / ICMP equivalents) is
    forwarded to (DownstreamPeer, DownstreamID) when it came from upstream and
    to (UpstreamPeer, UpstreamID) when it came from downstream ([on_frame]);
    a refused UDP_OPEN at the ingress removes its own mesh stream only. *)
Theorem C16_addressing_facts :
  gen_exit_open_replies_pass_stream_then_request_id = true /\
  gen_forward_open_replies_pass_stream_then_request_id = true /\
  gen_udp_open_err_addressed_by_stream_and_request = true /\
  gen_icmp_open_err_addressed_by_stream_and_request = true /\
  gen_agent_open_err_writer_maps_ids = true /\
  gen_forward_ids_handleStreamData = true /\
  gen_forward_ids_handleStreamClose = true /\
  gen_forward_ids_handleStreamReset = true /\
  gen_forward_ids_handleUDPDatagram = true /\
  gen_forward_ids_handleUDPClose = true /\
  gen_forward_ids_handleICMPEcho = true /\
  gen_forward_ids_handleICMPClose = true /\
  gen_udp_open_err_removes_own_mesh_stream = true.
Proof. repeat split; reflexivity. Qed.
Print Assumptions C16_addressing_facts.
