(** C03 — tunnel ends derive the same key; distinct tunnels get distinct keys;
    degenerate remote keys are refused. *)
From Coq Require Import List Bool NArith String.
From MM Require Import Lib.Bytes Model.KeyDerive Proofs.KeyDeriveProofs Proofs.KeyDeriveTable Generated.C03.
Import ListNotations.
Local Open Scope N_scope.

(** Agreement, for the code as it is wired now.  X25519 is any pair
    (base, dh) with dh a (base b) = dh b (base a); HKDF is any function.  For
    EVERY initiator call site and EVERY responder call site of
    DeriveSessionKey found in the repository on this run (all six tunnel kinds:
    C03_source_facts), for all private keys and request ids: if the exchange
    is not degenerate, both ends install the same key
    kdf (dh a B) (BE64 id || A || B) with opposite role flags; if the shared
    secret is all-zero both ends refuse. *)
Theorem C03_both_ends_derive_the_same_key :
  forall (priv : Type) (base : priv -> bytes) (dh : priv -> bytes -> bytes) (kdf : bytes -> bytes -> bytes),
  (forall a b, dh a (base b) = dh b (base a)) ->
  forall ti tr, In ti gen_c03_sites -> In tr gen_c03_sites ->
    let si := site_of_tuple ti in let sr := site_of_tuple tr in
    k_flag si = 1 -> k_flag sr = 0 ->
    forall (a b : priv) (id : N),
    is_zero (base a) = false -> is_zero (base b) = false ->
    let ei := {| own_priv := a; remote_pub := base b; req_id := id |} in
    let er := {| own_priv := b; remote_pub := base a; req_id := id |} in
    (is_zero (dh a (base b)) = false ->
       exists k, site_open priv base dh kdf ei si = Keyed {| sk_key := k; sk_init := true |} /\
                 site_open priv base dh kdf er sr = Keyed {| sk_key := k; sk_init := false |} /\
                 k = kdf (dh a (base b)) (salt id (base a) (base b))) /\
    (is_zero (dh a (base b)) = true ->
       site_open priv base dh kdf ei si = Refused /\ site_open priv base dh kdf er sr = Refused).
Proof. exact table_sites_agree. Qed.
Print Assumptions C03_both_ends_derive_the_same_key.

(** The same for any two well-wired sites (not tied to the table). *)
Theorem C03_well_wired_sites_agree :
  forall (priv : Type) (base : priv -> bytes) (dh : priv -> bytes -> bytes) (kdf : bytes -> bytes -> bytes),
  (forall a b, dh a (base b) = dh b (base a)) ->
  forall si sr, site_ok_b si = true -> site_ok_b sr = true -> k_flag si = 1 -> k_flag sr = 0 ->
    forall (a b : priv) (id : N),
    is_zero (base a) = false -> is_zero (base b) = false ->
    let ei := {| own_priv := a; remote_pub := base b; req_id := id |} in
    let er := {| own_priv := b; remote_pub := base a; req_id := id |} in
    (is_zero (dh a (base b)) = false ->
       exists k, site_open priv base dh kdf ei si = Keyed {| sk_key := k; sk_init := true |} /\
                 site_open priv base dh kdf er sr = Keyed {| sk_key := k; sk_init := false |} /\
                 k = kdf (dh a (base b)) (salt id (base a) (base b))) /\
    (is_zero (dh a (base b)) = true ->
       site_open priv base dh kdf ei si = Refused /\ site_open priv base dh kdf er sr = Refused).
Proof. exact sites_agree. Qed.
Print Assumptions C03_well_wired_sites_agree.

(** The salt is injective on bytes (no idealisation): request id, initiator
    key and responder key can be read back from it. *)
Theorem C03_salt_injective : forall id id' pi pi' pr pr',
  id < 2 ^ 64 -> id' < 2 ^ 64 -> List.length pi = List.length pi' ->
  salt id pi pr = salt id' pi' pr' -> id = id' /\ pi = pi' /\ pr = pr'.
Proof. exact salt_injective. Qed.
Print Assumptions C03_salt_injective.

(** Tunnels that differ in request id or in either ephemeral key get different
    keys, whatever the shared secrets — under the named idealisation that the
    KDF has no collisions between different salts. *)
Theorem C03_distinct_tunnels_distinct_keys :
  forall (kdf : bytes -> bytes -> bytes),
  (forall ss ss' s s', kdf ss s = kdf ss' s' -> s = s') ->
  forall ss ss' id id' pi pi' pr pr' fl fl',
    id < 2 ^ 64 -> id' < 2 ^ 64 -> List.length pi = List.length pi' ->
    (id <> id' \/ pi <> pi' \/ pr <> pr') ->
    sk_key (derive_session_key kdf ss id pi pr fl) <> sk_key (derive_session_key kdf ss' id' pi' pr' fl').
Proof. exact distinct_tunnels_distinct_keys. Qed.
Print Assumptions C03_distinct_tunnels_distinct_keys.

(** ComputeECDH refuses the all-zero key and every key whose shared secret is all-zero (low order). *)
Theorem C03_ecdh_refuses_degenerate :
  forall (priv : Type) (dh : priv -> bytes -> bytes) (a : priv) (P : bytes),
  (is_zero P = true -> compute_ecdh priv dh a P = EZeroKey) /\
  (is_zero (dh a P) = true -> compute_ecdh priv dh a P = EZeroKey \/ compute_ecdh priv dh a P = ELowOrder).
Proof. exact (fun priv dh a P => conj (ecdh_refuses_zero_key priv dh a P) (ecdh_refuses_low_order priv dh a P)). Qed.
Print Assumptions C03_ecdh_refuses_degenerate.

(** The clause "an all-zero or low-order remote key is refused" is VIOLATED by
    the code as it is: the UDP exit (and, see C03_plaintext_fallback_sites, the
    UDP ingress and both ICMP ends) establish the tunnel WITHOUT a key when
    the remote key is all zero.  Reproduced on the real code by the harness;
    recorded as known findings (refusing it breaks the repository's own unit
    tests, which open plaintext associations with a zero key). *)
Theorem C03_refuted_zero_key_plaintext :
  forall (priv : Type) (base : priv -> bytes) (dh : priv -> bytes -> bytes) (kdf : bytes -> bytes -> bytes),
  exists t, In t gen_c03_sites /\ k_kind (site_of_tuple t) = "udp"%string /\ k_flag (site_of_tuple t) = 0 /\
    forall e, is_zero (remote_pub priv e) = true -> site_open priv base dh kdf e (site_of_tuple t) = Plain.
Proof. exact table_zero_key_plaintext. Qed.
Print Assumptions C03_refuted_zero_key_plaintext.

Theorem C03_plaintext_fallback_sites :
  map (fun t => let s := site_of_tuple t in (k_kind s, k_fn s, k_flag s))
      (filter (fun t => guard_eqb (k_guard (site_of_tuple t)) GPlaintext) gen_c03_sites)
  = [("icmp", "deriveICMPSessionKey", 1); ("udp", "handleUDPOpenAck", 1);
     ("icmp", "performKeyExchange", 0); ("udp", "performKeyExchange", 0)]%string.
Proof. exact gen_plaintext_site_list. Qed.
Print Assumptions C03_plaintext_fallback_sites.

(** What does hold, pinning the defect: every site that is not a UDP or ICMP
    site refuses EVERY degenerate remote key (all-zero, or low order = all-zero
    shared secret) ... *)
Theorem C03_degenerate_key_refused_outside_udp_icmp :
  forall (priv : Type) (base : priv -> bytes) (dh : priv -> bytes -> bytes) (kdf : bytes -> bytes -> bytes),
  forall t, In t gen_c03_sites ->
    let s := site_of_tuple t in
    String.eqb (k_kind s) "udp" || String.eqb (k_kind s) "icmp" = false ->
    forall e, degenerate priv dh e -> site_open priv base dh kdf e s = Refused.
Proof. exact table_refuses_degenerate. Qed.
Print Assumptions C03_degenerate_key_refused_outside_udp_icmp.

(** ... and the UDP and ICMP sites refuse every degenerate key other than the all-zero one. *)
Theorem C03_nonzero_low_order_key_refused_everywhere :
  forall (priv : Type) (base : priv -> bytes) (dh : priv -> bytes -> bytes) (kdf : bytes -> bytes -> bytes),
  forall t, In t gen_c03_sites ->
    forall e, is_zero (remote_pub priv e) = false -> is_zero (dh (own_priv priv e) (remote_pub priv e)) = true ->
    site_open priv base dh kdf e (site_of_tuple t) = Refused.
Proof. exact table_refuses_nonzero_low_order. Qed.
Print Assumptions C03_nonzero_low_order_key_refused_everywhere.

(** Non-vacuity: the hypotheses on (base, dh) and on kdf are satisfiable. *)
Theorem C03_hypotheses_satisfiable :
  (forall a b, toy_dh a (toy_base b) = toy_dh b (toy_base a)) /\
  (forall ss ss' s s', toy_kdf ss s = toy_kdf ss' s' -> s = s') /\
  is_zero (toy_base 9) = false /\ is_zero (toy_dh 5 (toy_base 9)) = false /\
  is_zero (toy_dh 5 (le_put 32 0)) = true.
Proof. exact (conj toy_dh_comm (conj toy_kdf_collision_free (conj eq_refl (conj eq_refl eq_refl)))). Qed.
Print Assumptions C03_hypotheses_satisfiable.

(** Facts regenerated from the source on this run: every DeriveSessionKey call
    site is well wired (secret = ComputeECDH(own private, remote public), id =
    request id, public keys in (initiator, responder) order matching the
    literal role flag); each of the six tunnel kinds has an initiator site and
    a responder site; the plaintext
    fallback exists exactly at the UDP and ICMP sites; helper functions are
    called with arguments of the classes their parameters have; the salt is
    8 bytes big-endian id at offset 0, then parameter 2 at 8..40, then
    parameter 3 from 40, 72 bytes in all; HKDF uses SHA-256, the secret, that
    salt and the fixed info string; the role flag is stored; ComputeECDH tests
    the secret after the multiplication (which also covers the all-zero remote key). *)
Theorem C03_source_facts :
  sites_ok gen_c03_sites = true /\ kinds_covered gen_c03_sites = true /\
  plaintext_sites_are_udp_icmp gen_c03_sites = true /\
  forallb helper_call_ok gen_c03_helper_calls = true /\
  gen_c03_key_size = 32 /\ gen_c03_salt_len = 72 /\ gen_c03_salt_id_offset = 0 /\ gen_c03_salt_id_len = 8 /\
  gen_c03_salt_copies = [(8, 40, 2); (40, 0, 3)] /\
  gen_c03_hkdf_hash = "sha256.New"%string /\ gen_c03_hkdf_info <> ""%string /\
  gen_c03_hkdf_secret_is_param0 = true /\ gen_c03_hkdf_salt_is_salt = true /\
  gen_c03_id_is_param1 = true /\ gen_c03_flag_stored = true /\
  gen_c03_ecdh_rejects_zero_secret_after_mult = true /\
  gen_c03_ecdh_mult_args_priv_then_remote = true.
Proof. repeat split; try reflexivity; discriminate. Qed.
Print Assumptions C03_source_facts.

(** Identifiers and key bytes around the sites (regenerated on this run): the
    agreement theorem assumes both ends use the same request id and each
    other's public key AS SENT.  stream.Manager allocates request ids with a
    single atomic Add and uses the counter in no other way (so two concurrent
    opens never share an id and an ACK cannot complete the wrong dial), and no
    function containing a derivation site writes to the remote public key it
    received (masking it before salting would make the ends salt with
    different bytes). *)
Theorem C03_identifier_facts :
  gen_c03_request_id_counter_is_atomic_uint64 = true /\
  1 <= gen_c03_request_id_atomic_add_calls /\ gen_c03_request_id_other_uses = 0 /\
  gen_c03_remote_key_writes_in_site_functions = 0.
Proof. repeat split; try reflexivity; try (vm_compute; discriminate). Qed.
Print Assumptions C03_identifier_facts.
