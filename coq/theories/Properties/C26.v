(** C26 — file transfer and browsing stay inside the allowed paths.

    Model: Model/PathPolicy.v over Model/Fs.v (ASCII paths; glob patterns
    with * and ? only).  Every operation reports the canonical paths of the
    objects it touched.  The faithful model VIOLATES the property
    (the C26_refuted theorems); what does hold is proved as C26_empty_allows_nothing and
    C26_touched_allowed_without_links, which pins the defect: an escape
    needs a symbolic link on the requested path. *)
From Coq Require Import List NArith Bool.
From Coq Require Import String.
From MM Require Import Model.Fs Model.Untar Model.PathPolicy Proofs.FsProofs Proofs.UntarSafety Proofs.PathPolicyProofs Generated.C26.
Import ListNotations.
Local Open Scope string_scope.
Local Open Scope list_scope.

(** With no allowed paths configured every request is refused, nothing is
    touched and the file system is unchanged — for every file system state
    and every request. *)
Theorem C26_empty_allows_nothing : forall fs r,
  o_touched (exec [] fs r) = [] /\ o_fs (exec [] fs r) = fs /\ o_code (exec [] fs r) = 1%N.
Proof. exact empty_allows_nothing_proof. Qed.
Print Assumptions C26_empty_allows_nothing.

(** The target statement "every touched object matches the allow list" is
    FALSE for the code as it is: *)

(** a symbolic link in a parent directory of the requested path lets every
    operation reach objects outside allowed_paths *)
Theorem C26_refuted_parent_symlink :
  let fs := build_fs w_tree in
  escapes w_allowed fs (RDownload "/allowed/link/secret.txt") = true /\
  o_payload (exec w_allowed fs (RDownload "/allowed/link/secret.txt")) = "SECRET" /\
  escapes w_allowed fs (RUpload "/allowed/link/evil.txt" "UP") = true /\
  escapes w_allowed fs (RList "/allowed/link/dir2") = true /\
  escapes w_allowed fs (RStat "/allowed/link/secret.txt") = true /\
  escapes w_allowed fs (RChmod "/allowed/link/secret.txt" "0600") = true /\
  escapes w_allowed fs (RDelete "/allowed/link/secret.txt" false) = true /\
  look (o_fs (exec w_allowed fs (RDelete "/allowed/link/dir2" true))) ["outside"; "dir2"; "s2.txt"] = None.
Proof. exact refuted_parent_symlink_proof. Qed.
Print Assumptions C26_refuted_parent_symlink.

(** ... and so does a link as the final component, except for downloads *)
Theorem C26_refuted_final_symlink :
  let fs := build_fs w_tree in
  escapes w_allowed fs (RUpload "/allowed/flink" "UP") = true /\
  escapes w_allowed fs (RUpload "/allowed/dangling" "UP") = true /\
  escapes w_allowed fs (RChmod "/allowed/flink" "0600") = true /\
  escapes w_allowed fs (RList "/allowed/link") = true /\
  escapes w_allowed fs (RStat "/allowed/flink") = true /\
  o_code (exec w_allowed fs (RDownload "/allowed/flink")) = 1%N.
Proof. exact refuted_final_symlink_proof. Qed.
Print Assumptions C26_refuted_final_symlink.

(** ... and the download check itself is bypassed by a trailing "/." or "/" *)
Theorem C26_refuted_download_trailing_dot :
  let fs := build_fs w_tree in
  o_code (exec w_allowed fs (RDownload "/allowed/link")) = 1%N /\
  escapes w_allowed fs (RDownload "/allowed/link/.") = true /\
  escapes w_allowed fs (RDownload "/allowed/link/") = true /\
  o_payload (exec w_allowed fs (RDownload "/allowed/link/.")) = "<directory>:".
Proof. exact refuted_download_trailing_dot_proof. Qed.
Print Assumptions C26_refuted_download_trailing_dot.

(** What does hold, for every allow list, every file system state and every
    request: if no component of the (cleaned) requested path is a symbolic
    link — and the path text has no ".." for the kernel to resolve
    physically, i.e. its raw components are the cleaned ones (no "." either) — then every
    object the request touches matches the allow list (it is the requested
    object or lies below it, and the allow rule is closed under descending).
    The one exception, listed explicitly: directories that MkdirAll creates
    above an uploaded file (they can lie above an allowed root that does not
    exist yet). *)
Theorem C26_touched_allowed_without_links : forall allowed fs r cs,
  inodes_fresh fs ->
  validate_path allowed (request_path r) = VOk cs ->
  no_links_on fs cs ->
  raw_todo (request_path r) = cs -> no_dot cs ->
  forall p, In p (o_touched (exec allowed fs r)) ->
    matches_allow allowed p = true \/
    (exists path data, r = RUpload path data /\ In p (changed_paths fs (fst (mkdir_all fs (parent cs))))).
Proof. exact touched_allowed_without_links_proof. Qed.
Print Assumptions C26_touched_allowed_without_links.

(** non-vacuity: a state and a request that satisfy the hypotheses, and the request touches the file *)
Example C26_nonvacuous :
  (inodes_fresh c26_ex_fs /\ no_links_on c26_ex_fs ["allowed"; "sub"; "deep.txt"]) /\
  (let fs := build_fs [IDir "allowed"; IDir "allowed/sub"; IFile "allowed/sub/deep.txt" "DEEP"] in
   let r := RDownload "/allowed/sub/deep.txt" in
   validate_path ["/allowed"] (request_path r) = VOk ["allowed"; "sub"; "deep.txt"] /\
   raw_todo (request_path r) = ["allowed"; "sub"; "deep.txt"] /\
   o_code (exec ["/allowed"] fs r) = 0%N /\ o_payload (exec ["/allowed"] fs r) = "DEEP" /\
   o_touched (exec ["/allowed"] fs r) = [["allowed"; "sub"; "deep.txt"]; ["allowed"; "sub"; "deep.txt"]]).
Proof. exact (conj c26_ex_hypotheses c26_nonvacuous_proof). Qed.

(** Which entry points apply which check, regenerated from the package on
    this run: validateSymlinkTarget is called by ValidateDownloadMetadata
    only (the model applies the resolved-target check to downloads only), it
    looks at the final component only (Lstat says "not a link" -> accepted),
    the four browse actions go through requirePath, and validatePath makes
    its checks in the modelled order; the allow-list decision is made on
    exactly the path the operations use, and every pattern branch compares
    whole path components. *)
Theorem C26_source_facts :
  gen_symlink_target_callers = ["ValidateDownloadMetadata"] /\
  gen_validate_path_callers = ["requirePath"; "validateCommon"; "validateSymlinkTarget"] /\
  gen_require_path_callers = ["browseChmod"; "browseDelete"; "browseList"; "browseStat"] /\
  gen_validate_path_check_order = true /\ gen_symlink_check_only_final_component = true /\
  (* the decision is made on the path that is used: normalizePath is NFC then Clean and nothing else
     ([normalize_for_check]), the operations use filepath.Clean of the request ([used_path]) *)
  gen_normalize_calls = ["norm.NFC.String"; "filepath.Clean"] /\
  gen_used_path_require = "filepath.Clean(path)" /\ gen_used_path_upload = "filepath.Clean(path)" /\
  gen_used_path_download = "filepath.Clean(path)" /\ gen_used_path_download_at_offset = "filepath.Clean(path)" /\
  (* the download check reads nothing of the request but its path (is_directory, compress, offset
     select entry points, not checks); no request can change the policy ([xexec] takes it as an argument) *)
  gen_download_validation_meta_fields = ["Path"] /\ gen_upload_validation_meta_fields = ["IsDirectory"; "Size"] /\
  gen_policy_writes = 0%N /\ gen_policy_reslices = 0%N /\
  (* matching respects component boundaries in every pattern branch ([under_prefix] = component prefix) *)
  gen_allowed_under_prefix_calls = 2%N /\ gen_allowed_raw_prefix_calls = 0%N /\ gen_allowed_match_calls = 2%N /\
  gen_recursive_glob_uses_under_prefix = true /\ gen_under_prefix_appends_separator = true.
Proof. repeat split; reflexivity. Qed.
Print Assumptions C26_source_facts.
