(** C26 — file transfer and browsing stay inside the allowed paths. *)
From Coq Require Import List NArith Bool.
From Coq Require Import String.
From MM Require Import Model.Fs Model.Untar Model.PathPolicy Proofs.PathPolicyProofs.
Import ListNotations.
Local Open Scope string_scope.
Local Open Scope list_scope.

(** With no allowed paths configured every request is refused, nothing is
    touched and the file system is unchanged — for every file system state
    and every request. *)
Theorem C26_empty_allows_nothing : forall fs r,
  o_touched (exec [] fs r) = [] /\ o_fs (exec [] fs r) = fs /\ o_code (exec [] fs r) = 1%N.
Proof. exact empty_allows_nothing_proof. Qed.
Print Assumptions C26_empty_allows_nothing.

(** The faithful model violates the property: a symbolic link in a parent
    directory of the requested path lets every operation reach objects
    outside allowed_paths. *)
Theorem C26_refuted_parent_symlink :
  let fs := build_fs w_tree in
  escapes w_allowed fs (RDownload "/allowed/link/secret.txt") = true /\
  o_payload (exec w_allowed fs (RDownload "/allowed/link/secret.txt")) = "SECRET" /\
  escapes w_allowed fs (RUpload "/allowed/link/evil.txt" "UP") = true /\
  escapes w_allowed fs (RList "/allowed/link/dir2") = true /\
  escapes w_allowed fs (RStat "/allowed/link/secret.txt") = true /\
  escapes w_allowed fs (RChmod "/allowed/link/secret.txt" "0600") = true /\
  escapes w_allowed fs (RDelete "/allowed/link/secret.txt" false) = true /\
  look (o_fs (exec w_allowed fs (RDelete "/allowed/link/dir2" true))) ["outside"; "dir2"; "s2.txt"] = None.
Proof. exact refuted_parent_symlink_proof. Qed.
Print Assumptions C26_refuted_parent_symlink.

(** ... and so does a link as the final component, except for downloads. *)
Theorem C26_refuted_final_symlink :
  let fs := build_fs w_tree in
  escapes w_allowed fs (RUpload "/allowed/flink" "UP") = true /\
  escapes w_allowed fs (RUpload "/allowed/dangling" "UP") = true /\
  escapes w_allowed fs (RChmod "/allowed/flink" "0600") = true /\
  escapes w_allowed fs (RList "/allowed/link") = true /\
  escapes w_allowed fs (RStat "/allowed/flink") = true /\
  o_code (exec w_allowed fs (RDownload "/allowed/flink")) = 1%N.
Proof. exact refuted_final_symlink_proof. Qed.
Print Assumptions C26_refuted_final_symlink.
