(** C29 - a validly signed command takes effect at most once per agent.

    A history is a list of timed steps on one flooder: deliveries (from any
    peer, any command content: genuine, replayed, forged) and cache cleanup
    passes (the victims of the size-based eviction are an arbitrary oracle).
    [run] returns the accepted deliveries and whether the size-based eviction
    ever ran. *)
From Coq Require Import List NArith ZArith.
From MM Require Import Model.SleepCmd Model.SleepCmdFlood Proofs.SleepCmdProofs Proofs.SleepCmdOnceProofs Generated.C29.
Import ListNotations.
From Coq Require String.
Delimit Scope string_scope with string.
Import String.StringSyntax.
Local Open Scope Z_scope.

(** Every history with nondecreasing instants (the clock does not step back)
    in which every handler marks at most [mark_slack] (one minute) after its
    timestamp check ([hist_ok]) and which never overflows the seen cache: no signed content (origin, identifier,
    timestamp) is accepted twice - whatever is replayed, from whichever peer,
    after whichever other traffic and cleanup passes.  (Each acceptance is what
    makes the agent act: handleSleepCommand / handleWakeCommand act iff the
    flooder accepts, see C28.) *)
Theorem C29_at_most_once : forall cfg peers h acc t0,
  f_signing cfg = true -> ordered t0 h -> hist_ok cfg h ->
  run cfg peers [] h = (acc, false) ->
  fresh_acc [] acc.
Proof. exact at_most_once. Qed.
Print Assumptions C29_at_most_once.

(** [fresh_acc]: every accepted delivery is of a command the agent has not
    acted on before - neither accepted from a peer nor ISSUED BY ITSELF
    (histories contain [OIssue] steps: Flooder.FloodSleepCommand /
    FloodWakeCommand as called by TriggerSleep / TriggerWake).  In particular
    the accepted deliveries are pairwise different signed contents: *)
Theorem C29_accepted_once : forall cfg peers h acc t0,
  f_signing cfg = true -> ordered t0 h -> hist_ok cfg h ->
  run cfg peers [] h = (acc, false) ->
  NoDup (map (fun p => cmd_id (snd p)) (accepted acc)).
Proof. exact accepted_once. Qed.
Print Assumptions C29_accepted_once.

(** a command the agent issued itself and is sent back with the unsigned
    SeenBy list emptied or rewritten is not accepted *)
Theorem C29_issued_command_not_accepted_back :
  ordered T0 hist_issue /\ hist_ok (default_cfg true) hist_issue /\
  run (default_cfg true) model_peers [] hist_issue = ([(T0, own_cmd, true)], false).
Proof. exact issued_command_not_accepted_back. Qed.
Print Assumptions C29_issued_command_not_accepted_back.

(** Forged or unsigned commands never enter the cache, so they cannot be used
    to overflow it. *)
Theorem C29_forged_commands_leave_cache_unchanged : forall cfg now peers from c ca,
  f_signing cfg = true -> (c_sigzero c = true \/ c_sigok c = false) ->
  handle cfg now peers from c ca = (ca, None).
Proof. exact forged_leaves_cache. Qed.
Print Assumptions C29_forged_commands_leave_cache_unchanged.

(** The cache remembers a command at least as long as it can stay valid. *)
Theorem C29_expiry_covers_validity : forall cfg, 2 * f_window cfg + mark_slack <= sleep_expiry cfg.
Proof. exact expiry_ge_two_windows. Qed.
Print Assumptions C29_expiry_covers_validity.

(** The code before the repairs: both predicted replays succeed. *)
Theorem C29_refuted_ttl_lt_validity_pre_fix :
  ordered T0 hist_ttl /\ hist_ok (default_cfg true) hist_ttl /\
  run_pre_fix (default_cfg true) model_peers [] hist_ttl
  = ([(T0, ahead_cmd, false); (T0 + 451 * second, ahead_cmd, false)], false).
Proof. exact refuted_ttl_lt_validity_pre_fix. Qed.
Print Assumptions C29_refuted_ttl_lt_validity_pre_fix.

Theorem C29_refuted_flood_evict_pre_fix :
  ordered T0 hist_flood /\
  fst (run_pre_fix small_cfg model_peers [] hist_flood) = [(T0, now_cmd, false); (T0 + 151 * second, now_cmd, false)].
Proof. exact refuted_flood_evict_pre_fix. Qed.
Print Assumptions C29_refuted_flood_evict_pre_fix.

(** A replay whose timestamp check passes at the last valid instant while a
    cleanup pass runs before it is marked: rejected thanks to the slack in the
    expiry, accepted twice with an expiry of exactly twice the window. *)
Theorem C29_race_with_cleanup :
  ordered T0 hist_race /\ hist_ok (default_cfg true) hist_race /\
  run (default_cfg true) model_peers [] hist_race = ([(T0, ahead_cmd, false)], false) /\
  run_with handle_split (fun cfg => Z.max (f_ttl cfg) (2 * f_window cfg)) (default_cfg true) model_peers [] hist_race
  = ([(T0, ahead_cmd, false); (T0 + 600 * second + 2000000, ahead_cmd, false)], false).
Proof. exact race_history_repaired. Qed.
Print Assumptions C29_race_with_cleanup.

(** The same histories on the repaired code, and non-vacuity of the theorem. *)
Theorem C29_nonvacuous :
  ordered T0 hist_ttl /\ hist_ok (default_cfg true) hist_ttl /\ f_signing (default_cfg true) = true /\
  run (default_cfg true) model_peers [] hist_ttl = ([(T0, ahead_cmd, false)], false).
Proof. exact at_most_once_nonvacuous. Qed.
Print Assumptions C29_nonvacuous.

Theorem C29_flood_history_repaired :
  run small_cfg model_peers [] hist_flood = ([(T0, now_cmd, false)], false).
Proof. exact flood_history_repaired. Qed.
Print Assumptions C29_flood_history_repaired.

(** Source facts regenerated on this run: markSleepCmdSeen is one critical
    section (what makes a delivery an atomic step of a history), it refreshes
    SeenAt when the same command comes from another peer, the handlers check
    the loop, verify and only then mark, the expiry handed to the sleep command
    cache is max(SeenCacheTTL, 2 x timestampWindow) and is tested strictly, the
    size-based eviction exists (the model's overflow case), the cleanup loop
    runs every SeenCacheTTL/2, both issuing functions (FloodSleepCommand,
    FloodWakeCommand) mark the issuer's own command as seen from the local
    identity before they send anything (the model's [OIssue]), and the default
    constants are the model's. *)
Theorem C29_source_facts :
  gen_c29_mark_is_one_critical_section = true /\
  gen_c29_mark_refreshes_seen_at_for_other_peer = true /\
  gen_c29_sleep_loopcheck_verify_mark_order = true /\ gen_c29_wake_loopcheck_verify_mark_order = true /\
  gen_c29_sleep_cache_expiry_is_max_ttl_two_windows_plus_slack = true /\
  gen_c29_expiry_slack_ns = mark_slack /\
  gen_c29_expiry_test_strict = true /\
  gen_c29_size_eviction_when_over_max = true /\
  gen_c29_cleanup_every_half_ttl = true /\
  (* nothing but the constructor, the cleanup and the marking writes to the seen cache of sleep/wake commands *)
  gen_c29_sleep_cache_writers = ["NewFlooder"; "cleanupSleepCmdCache"; "markSleepCmdSeen"]%string /\
  gen_c29_flood_sleep_marks_own_command_before_sending = true /\
  gen_c29_flood_wake_marks_own_command_before_sending = true /\
  gen_c29_default_ttl_ns = f_ttl (default_cfg true) /\
  gen_c29_default_window_ns = f_window (default_cfg true) /\
  gen_c29_default_max_cache = f_max (default_cfg true) /\
  2 * gen_c29_default_window_ns <= sleep_expiry (default_cfg true).
Proof. repeat split; try reflexivity; vm_compute; discriminate. Qed.
Print Assumptions C29_source_facts.
