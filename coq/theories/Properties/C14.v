(** C14 — origin re-announcements always refresh every receiver. *)
From Coq Require Import List NArith Bool.
From MM Require Import Model.Flood Model.FloodPreFix Proofs.FloodPreFixProofs Proofs.FloodBase Proofs.FloodOnce Proofs.FloodSeq Proofs.FloodConv Generated.C14 Generated.C15 Generated.C11.
Import ListNotations.
Local Open Scope N_scope.

(** Sequence authenticity.  In every reachable state (any topology, any
    history of connects with full-table replays, disconnects, announcements,
    delivery orders, duplicates, expiry) no table entry, no seen-cache key and
    no frame in flight carries a sequence number of origin o that o's own
    counter has not reached: replays never invent sequence numbers. *)
Theorem C14_sequences_are_the_origins : forall cf k ops,
  let s := run cf (init k) ops in
  (forall n ns e, get (st_nodes s) n = Some ns -> In e (ns_entries ns) -> e_seq e <= ctr s (e_origin e)) /\
  (forall n ns x, get (st_nodes s) n = Some ns -> In x (ns_seen ns) -> s_seq x <= ctr s (s_origin x)) /\
  (forall m, In m (st_flight s) -> a_seq (m_adv m) <= ctr s (a_origin (m_adv m))).
Proof. exact sequences_are_the_origins. Qed.
Print Assumptions C14_sequences_are_the_origins.

(** Hence no relayed replay can make an agent ignore a later genuine
    announcement: the next announcement of o (sequence ctr+1) is in no seen
    cache and is strictly newer than every stored copy of o's routes and than
    every frame of o still in flight. *)
Theorem C14_next_announcement_is_fresh : forall cf k ops o,
  let s := run cf (init k) ops in
  let sq := ctr s o + 1 in
  (forall n, has_seen s n o sq = false) /\
  (forall n ns e, get (st_nodes s) n = Some ns -> In e (ns_entries ns) -> e_origin e = o -> e_seq e < sq) /\
  (forall m, In m (st_flight s) -> a_origin (m_adv m) = o -> a_seq (m_adv m) < sq).
Proof. exact next_announcement_is_fresh. Qed.
Print Assumptions C14_next_announcement_is_fresh.


(** Every announcement reaches and refreshes every connected agent.
    Take ANY reachable state (any history of connects with full-table replays,
    disconnects, announcements, duplicates, expiries).  Let origin o announce;
    then let any schedule of quiet steps run -- deliveries in any order,
    duplicates, other agents' announcements, local route changes, time passing
    -- in which the topology is stable and the announcement's seen-cache entry
    is not expired, until no copy of the announcement is in flight.  With hop
    limits that do not cut the mesh (none, or at least K - 1 for K agents, the
    longest possible path: the boundary max_hops = distance of the two ends of
    a chain of max_hops + 1 agents is included),
    every agent connected to o has processed the announcement and holds o's
    presence and every route o advertises, at the announcement's sequence
    number and refreshed no earlier than the announcement. *)
Theorem C14_announcement_refreshes_everyone : forall cf K ops0 o ns0 ops,
  (forall n, limit_of cf n = 0 \/ N.of_nat K <= limit_of cf n + 1) ->
  let s0 := run cf (init K) ops0 in
  get (st_nodes s0) o = Some ns0 ->
  let sq := ns_seq ns0 + 1 in
  let s1 := next cf s0 (Announce o) in
  quiet_run cf o sq s1 ops ->
  let s := run cf s1 ops in
  (forall m, In m (st_flight s) -> is_key o sq m = false) ->
  forall n, connected K o (st_links s0) n -> n <> o ->
    has_seen s n o sq = true /\
    forall r, In r (ns_locals ns0 ++ [presence o]) ->
      exists e, In e (entries_of s n) /\ e_kind e = r_kind r /\ e_id e = r_id r /\
                e_origin e = o /\ e_seq e = sq /\ st_now s0 <= e_upd e.
Proof. exact announcement_reaches_everyone. Qed.
Print Assumptions C14_announcement_refreshes_everyone.

(** the run hypothesis holds for every schedule of quiet steps without
    Forget / Advance in which no withdrawal of the same origin is handed over
    ([nw_run], executable; a withdrawal removes the origin's CIDR routes
    whatever their sequence, so a delayed one would undo the refresh) *)
Theorem C14_quiet_run_without_expiry_steps : forall cf o sq ops s,
  Forall (quiet_op o) ops -> forallb (fun op => negb (expiry_op op)) ops = true ->
  nw_run cf o s ops = true ->
  quiet_run cf o sq s ops.
Proof. exact quiet_run_syntactic. Qed.
Print Assumptions C14_quiet_run_without_expiry_steps.

(** The code BEFORE commit 18de407 violated the property: a replay relayed by an agent whose counter is ahead made the receiver keep the replayer's sequence; the origin's next genuine announcement, delivered 120 s later, refreshed nothing. *)
Theorem C14_refuted_pre_fix :
  exists ops, map (fun e => (kind_code (e_kind e), e_seq e, e_upd e))
                  (filter (fun e => e_origin e =? 0) (entries_pre [] 3 ops 2))
              = [(0, 6, 0); (3, 6, 0)] /\
              st_flight (run_pre [] (init 3) ops) = [] /\ st_now (run_pre [] (init 3) ops) = 120.
Proof. exact C14_pre_fix_replay_blocks_refresh. Qed.
Print Assumptions C14_refuted_pre_fix.

(** Non-vacuity, on the schedule that broke the unrepaired code: agent 1's
    counter is ahead of agent 0's, agent 2 joins agent 1 and receives a replay
    of agent 0's routes, 120 s later agent 0 announces: agent 2's copies are
    refreshed (sequence 3, update time 120). *)
Definition rf_ops0 : list op :=
  [C 0 1; L0 1 2 0; L0 1 3 0; A 1; A 1; A 1; D 0; D 0; D 0; L0 0 1 0; A 0; D 0; C 1 2; D 0; D 0; D 0; D 0; D 0; D 0; V 120].
Definition rf_ops : list op := [D 0; D 0; D 0].

Example C14_example_refresh_after_replay :
  let s0 := run [] (init 3) rf_ops0 in
  let s1 := next [] s0 (Announce 0) in
  let s := run [] s1 rf_ops in
  quiet_run [] 0 3 s1 rf_ops /\ st_flight s0 = [] /\ st_flight s = [] /\ connected 3 0 (st_links s0) 2 /\
  map (fun e => (kind_code (e_kind e), e_id e, e_seq e, e_upd e)) (filter (fun e => e_origin e =? 0) (entries_of s0 2))
  = [(0, 1, 2, 0); (3, 0, 2, 0)] /\
  map (fun e => (kind_code (e_kind e), e_id e, e_seq e, e_upd e)) (filter (fun e => e_origin e =? 0) (entries_of s 2))
  = [(0, 1, 3, 120); (3, 0, 3, 120)].
Proof.
  split; [apply quiet_run_syntactic; [unfold rf_ops; repeat (apply Forall_cons; [exact I|]); apply Forall_nil|reflexivity|reflexivity]|].
  split; [vm_compute; reflexivity|]. split; [vm_compute; reflexivity|].
  split; [|split; vm_compute; reflexivity].
  apply (conn_step 3 0 _ 1 2); [apply (conn_step 3 0 _ 0 1); [apply conn_origin; vm_compute; auto| |vm_compute; auto]| |vm_compute; auto];
    vm_compute; reflexivity.
Qed.

(** A full-table replay sends at most one group per foreign (origin,
    sequence): no replayed advertisement is dropped by the receiver's seen
    cache because of another one of the same replay. *)
Theorem C14_replay_one_group_per_advertisement : forall self cands k c,
  In k (replay_keys self cands) -> In c (replay_keys self cands) ->
  fst (fst k) <> self -> same_adv k c = true -> k = c.
Proof. exact replay_keys_one_per_advertisement. Qed.
Print Assumptions C14_replay_one_group_per_advertisement.

Section SourceFacts.
Import String.
Local Open Scope string_scope.
(** Source facts regenerated on this run: replays are grouped by
    replayKeyFor(origin, sequence, path) in all four tables; the group's own
    sequence is what is sent, a fresh one only for the replaying agent's own
    routes (the single IncrementSequence call of SendFullTable); seen-by = path
    and a peer on the path is skipped; AddRoute of all four tables accepts
    "newer sequence, or same sequence and better metric"; announcements take a
    fresh sequence (counter + 1) under the agent's own id, one per
    splitRoutes group (at most 255 routes each; the model assumes route sets
    that fit one advertisement); of the foreign replay groups with one
    (origin, sequence) only the preferred one (most routes, shorter path,
    smaller path) is sent, chosen before the peer-on-path test. *)
Theorem C14_source_facts :
  gen_replay_key_fields = ["origin"; "seq"; "path"] /\
  gen_replay_key_own_group_else_origin_seq_path = true /\
  gen_replay_tables_grouped_by_key = 4%nat /\
  gen_replay_sequence_is_stored_one_fresh_only_for_own = true /\
  gen_replay_adv_sequence = "seq" /\ gen_replay_adv_origin = "originAgent" /\
  gen_replay_adv_seenby = "path" /\ gen_replay_adv_path = "path" /\
  gen_replay_skips_peer_on_path = true /\
  gen_addroute_newer_or_better_tables = 4%nat /\
  gen_announce_fresh_sequence_own_origin = true /\ gen_increment_sequence_is_plus_one = true /\
  gen_replay_sequence_chosen_per_split_group = true /\
  gen_replay_keeps_best_group_per_origin_sequence = true /\
  gen_max_routes_per_advertisement = 255 /\
  gen_display_name_cut_to_255_bytes_c14 = true.
Proof. repeat split; reflexivity. Qed.
End SourceFacts.
Print Assumptions C14_source_facts.

(** The convergence / refresh theorems depend on the exact hop-limit
    comparisons of the code (a copy whose path has exactly max_hops hops is
    accepted; the replay test looks at the path as sent): the same regenerated
    facts as in C15, checked here as well. *)
Section HopFacts.
Import String.
Local Open Scope string_scope.
Theorem C14_hop_limit_facts :
  gen_handle_hop_checks = "gt:return-false,ge:return-true" /\
  gen_replay_hop_checks = "gt:continue" /\
  gen_hop_checks_placed_before_store_and_before_flood = true /\
  gen_replay_path_has_self_prepended = true /\
  gen_max_hops_plumbed_into_flood_config = true /\
  (forall lim len, over_limit lim len = ((0 <? lim)%N && (lim <? len)%N)%bool) /\
  (forall lim len, at_limit lim len = ((0 <? lim)%N && (lim <=? len)%N)%bool).
Proof. repeat split; reflexivity. Qed.
End HopFacts.
Print Assumptions C14_hop_limit_facts.

(** Withdrawals share the seen cache with announcements: the key of every
    insert / lookup is (origin of the advertisement or withdrawal, its
    sequence) -- never the relaying peer -- and nothing but the TTL cleanup
    removes entries (same regenerated facts as in C11). *)
Section SeenKeyFacts.
Import String.
Local Open Scope string_scope.
Theorem C14_seen_key_facts :
  gen_seen_key_fields = ["OriginAgent"; "Sequence"] /\
  gen_seen_key_origin_arg = "originAgent" /\ gen_seen_key_sequence_arg = "sequence" /\
  gen_withdraw_seen_key_origin_arg = "originAgent" /\ gen_withdraw_seen_key_sequence_arg = "sequence" /\
  gen_only_cleanup_removes_seen_entries = true /\ gen_withdraw_origin_fresh_sequence_own_id = true.
Proof. repeat split; reflexivity. Qed.
End SeenKeyFacts.
Print Assumptions C14_seen_key_facts.
