(** C14 — origin re-announcements always refresh every receiver. *)
From Coq Require Import List NArith.
From MM Require Import Model.Flood Proofs.FloodBase Proofs.FloodOnce Proofs.FloodSeq Generated.C14.
Import ListNotations.
Local Open Scope N_scope.

(** Sequence authenticity.  In every reachable state (any topology, any
    history of connects with full-table replays, disconnects, announcements,
    delivery orders, duplicates, expiry) no table entry, no seen-cache key and
    no frame in flight carries a sequence number of origin o that o's own
    counter has not reached: replays never invent sequence numbers. *)
Theorem C14_sequences_are_the_origins : forall cf k ops,
  let s := run cf (init k) ops in
  (forall n ns e, get (st_nodes s) n = Some ns -> In e (ns_entries ns) -> e_seq e <= ctr s (e_origin e)) /\
  (forall n ns x, get (st_nodes s) n = Some ns -> In x (ns_seen ns) -> s_seq x <= ctr s (s_origin x)) /\
  (forall m, In m (st_flight s) -> a_seq (m_adv m) <= ctr s (a_origin (m_adv m))).
Proof. exact sequences_are_the_origins. Qed.
Print Assumptions C14_sequences_are_the_origins.

(** Hence no relayed replay can make an agent ignore a later genuine
    announcement: the next announcement of o (sequence ctr+1) is in no seen
    cache and is strictly newer than every stored copy of o's routes and than
    every frame of o still in flight. *)
Theorem C14_next_announcement_is_fresh : forall cf k ops o,
  let s := run cf (init k) ops in
  let sq := ctr s o + 1 in
  (forall n, has_seen s n o sq = false) /\
  (forall n ns e, get (st_nodes s) n = Some ns -> In e (ns_entries ns) -> e_origin e = o -> e_seq e < sq) /\
  (forall m, In m (st_flight s) -> a_origin (m_adv m) = o -> a_seq (m_adv m) < sq).
Proof. exact next_announcement_is_fresh. Qed.
Print Assumptions C14_next_announcement_is_fresh.

Section SourceFacts.
Import String.
Local Open Scope string_scope.
(** Source facts regenerated on this run: replays are grouped by
    replayKeyFor(origin, sequence, path) in all four tables; the group's own
    sequence is what is sent, a fresh one only for the replaying agent's own
    routes (the single IncrementSequence call of SendFullTable); seen-by = path
    and a peer on the path is skipped; AddRoute of all four tables accepts
    "newer sequence, or same sequence and better metric"; announcements take a
    fresh sequence (counter + 1) under the agent's own id. *)
Theorem C14_source_facts :
  gen_replay_key_fields = ["origin"; "seq"; "path"] /\
  gen_replay_key_own_group_else_origin_seq_path = true /\
  gen_replay_tables_grouped_by_key = 4%nat /\
  gen_replay_sequence_is_stored_one_fresh_only_for_own = true /\
  gen_replay_adv_sequence = "seq" /\ gen_replay_adv_origin = "originAgent" /\
  gen_replay_adv_seenby = "path" /\ gen_replay_adv_path = "path" /\
  gen_replay_skips_peer_on_path = true /\
  gen_addroute_newer_or_better_tables = 4%nat /\
  gen_announce_fresh_sequence_own_origin = true /\ gen_increment_sequence_is_plus_one = true.
Proof. repeat split; reflexivity. Qed.
End SourceFacts.
Print Assumptions C14_source_facts.
