(** C11 — route flooding terminates and never loops. *)
From Coq Require Import List NArith.
From MM Require Import Model.Flood Model.FloodPreFix Proofs.FloodPreFixProofs Proofs.FloodBase Proofs.FloodOnce Proofs.FloodPaths Proofs.FloodBound Generated.C11.
Import ListNotations.
Local Open Scope N_scope.

(** At most once.  From ANY state, along ANY schedule (every delivery order,
    duplicates, connects/disconnects, other agents' expiries): as long as the
    seen-cache entry of announcement (o, sq) is not expired at agent n during
    the run, n processes (o, sq) at most once ... *)
Theorem C11_processed_at_most_once : forall cf ops s n o sq,
  no_expiry cf s ops n o sq -> (processed_count cf s ops n o sq <= 1)%nat.
Proof. exact processed_at_most_once. Qed.
Print Assumptions C11_processed_at_most_once.

(** ... and forwards it at most once to each neighbour p. *)
Theorem C11_forwarded_at_most_once : forall cf ops s n p o sq,
  no_expiry cf s ops n o sq -> (forwards_count cf s ops n p o sq <= 1)%nat.
Proof. exact forwarded_at_most_once. Qed.
Print Assumptions C11_forwarded_at_most_once.

(** The hypothesis holds for every schedule without Forget / Advance steps. *)
Theorem C11_no_expiry_without_expiry_steps : forall cf ops s n o sq,
  forallb (fun op => negb (expiry_op op)) ops = true -> no_expiry cf s ops n o sq.
Proof. exact no_expiry_syntactic. Qed.
Print Assumptions C11_no_expiry_without_expiry_steps.

(** The total number of messages is bounded by the number of links.  From ANY
    reachable state: when origin o announces, the frames the announcement
    sends plus every copy of it forwarded afterwards, along any schedule on a
    stable topology in which its seen-cache entries are not expired (any
    delivery order, duplicates, other traffic), number at most twice the
    number of links. *)
Theorem C11_message_bound : forall cf K ops0 o ns0 ops,
  let s0 := run cf (init K) ops0 in
  get (st_nodes s0) o = Some ns0 ->
  let sq := ns_seq ns0 + 1 in
  let s1 := next cf s0 (Announce o) in
  stable_run cf o sq s1 ops ->
  (length (sent cf s0 (Announce o)) + fwd_total cf o sq s1 ops <= 2 * length (st_links s0))%nat.
Proof. exact announcement_message_bound. Qed.
Print Assumptions C11_message_bound.

Theorem C11_stable_run_without_expiry_steps : forall cf o sq ops s,
  Forall stable_op ops -> forallb (fun op => negb (expiry_op op)) ops = true -> stable_run cf o sq s ops.
Proof. exact stable_run_syntactic. Qed.
Print Assumptions C11_stable_run_without_expiry_steps.

(** Non-vacuity: triangle (3 links): the origin sends 2 frames, each of the two
    others forwards once: 4 frames, bound 6. *)
Example C11_example_bound :
  let s0 := run [] (init 3) [C 0 1; C 1 2; C 0 2] in
  let s1 := next [] s0 (Announce 0) in
  (length (sent [] s0 (Announce 0)) + fwd_total [] 0 1 s1 [D 0; D 0; D 0; D 0])%nat = 4%nat /\
  (2 * length (st_links s0))%nat = 6%nat.
Proof. vm_compute. split; reflexivity. Qed.

(** With expiry at an arbitrary point the at-most-once clause is FALSE for the
    code as it is (a TTL cache): a delayed duplicate delivered after the entry
    expired is processed and forwarded again (known finding
    reprocessed-after-seen-expiry; replayed on the real code by the harness
    witness w11-duplicate-after-expiry). *)
Definition refute_ops : list op :=
  [C 0 1; C 1 2; L0 0 1 0; A 0; DD 0; D 1; V 451; D 0].

Theorem C11_refuted_reprocess_after_expiry :
  exists cf k ops n p o sq,
    processed_count cf (init k) ops n o sq = 2%nat /\ forwards_count cf (init k) ops n p o sq = 2%nat.
Proof. exists [], 3%nat, refute_ops, 1, 2, 0, 2. vm_compute. split; reflexivity. Qed.
Print Assumptions C11_refuted_reprocess_after_expiry.

(** Termination holds nevertheless, under arbitrary expiry, duplication and
    reordering: every frame ever sent has a repetition-free seen-by list of
    agents (so at most k entries) ... *)
Theorem C11_sent_frames_simple : forall cf k ops o m,
  In m (snd (fst (step cf (run cf (init k) ops) o))) ->
  NoDup (a_path (m_adv m)) /\ NoDup (a_seenby (m_adv m)) /\
  (1 <= length (a_seenby (m_adv m)) <= k)%nat.
Proof. exact sent_frames_simple. Qed.
Print Assumptions C11_sent_frames_simple.

(** ... every forwarded copy extends the seen-by list of the frame it was made
    from by the forwarding agent ... *)
Theorem C11_forward_extends_seenby : forall cf s i dup m m',
  nth_error (st_flight s) i = Some m ->
  In m' (snd (fst (step cf s (Deliver i dup)))) ->
  a_seenby (m_adv m') = a_seenby (m_adv m) ++ [m_to m] /\
  a_origin (m_adv m') = a_origin (m_adv m) /\ a_seq (m_adv m') = a_seq (m_adv m) /\
  m_from m' = m_to m.
Proof. exact forward_extends_seenby. Qed.
Print Assumptions C11_forward_extends_seenby.

(** ... so no chain of successive forwards is longer than the number of agents. *)
Theorem C11_forwarding_terminates : forall cf k l, fwd_chain cf k l -> (length l <= k)%nat.
Proof. exact forwarding_terminates. Qed.
Print Assumptions C11_forwarding_terminates.

(** No agent ever stores a route whose path revisits an agent or passes
    through itself. *)
Theorem C11_stored_paths_simple : forall cf k ops n ns e,
  get (st_nodes (run cf (init k) ops)) n = Some ns -> In e (ns_entries ns) ->
  NoDup (e_path e) /\ ~ In n (e_path e).
Proof. exact stored_paths_simple. Qed.
Print Assumptions C11_stored_paths_simple.

(** The code BEFORE commit cf30533 violated the last clause: a replayed advertisement (seen-by = [replayer]) was forwarded by an agent already on its path, and a further agent stored the path [1;3;2;1;0]. *)
Theorem C11_refuted_pre_fix_replayed_path :
  exists ops, In [1; 3; 2; 1; 0] (map e_path (entries_pre [] 5 ops 4)).
Proof. exact C11_pre_fix_replayed_path_revisits. Qed.
Print Assumptions C11_refuted_pre_fix_replayed_path.

(** Non-vacuity: a triangle with a tail; one announcement, a duplicate
    delivery, nothing expires: agent 1 processes (0,1) exactly once. *)
Definition ex_ops : list op := [C 0 1; C 1 2; C 0 2; C 2 3; A 0; DD 0; D 0; D 0; D 0; D 0; D 0].

Example C11_example_once :
  no_expiry [] (init 4) ex_ops 1 0 1 /\ processed_count [] (init 4) ex_ops 1 0 1 = 1%nat /\
  forwards_count [] (init 4) ex_ops 1 2 0 1 = 1%nat.
Proof.
  split; [apply no_expiry_syntactic; reflexivity | vm_compute; split; reflexivity].
Qed.

Example C11_example_chain : fwd_chain [] 3 [
  {| m_from := 1; m_to := 2; m_adv := {| a_origin := 0; a_seq := 1; a_routes := [{| r_kind := KAgent; r_id := 0; r_metric := 1; r_base := 0 |}]; a_path := [1; 0]; a_seenby := [0; 1] |} |};
  {| m_from := 0; m_to := 1; m_adv := {| a_origin := 0; a_seq := 1; a_routes := [presence 0]; a_path := [0]; a_seenby := [0] |} |}].
Proof.
  apply (chain_step [] 3 [C 0 1; C 1 2; A 0] 0%nat false).
  - apply (chain_start [] 3 [C 0 1; C 1 2] (A 0)). vm_compute. auto.
  - vm_compute. reflexivity.
  - vm_compute. auto.
Qed.

(** Non-vacuity across a withdrawal (the history of witness
    w11-withdraw-then-late-copy): A0-B1, A0-C2, C2-B1, B1-D3; A announces, B
    relays to D, A withdraws and B handles the withdrawal, only then C relays
    its copy of the announcement to B: B and D still process (0,2) exactly
    once and B forwards it to D exactly once; nothing expired. *)
Definition wd_ops : list op :=
  [C 0 1; C 0 2; C 2 1; C 1 3; L0 0 1 0; A 0; D 0; D 2; W 0; D 2; D 0; D 0; D 0; D 0; D 0; D 0; D 0; D 0].

Example C11_example_across_withdrawal :
  no_expiry [] (init 4) wd_ops 1 0 2 /\
  processed_count [] (init 4) wd_ops 1 0 2 = 1%nat /\ processed_count [] (init 4) wd_ops 3 0 2 = 1%nat /\
  forwards_count [] (init 4) wd_ops 1 3 0 2 = 1%nat /\
  processed_count [] (init 4) wd_ops 1 0 3 = 1%nat /\ st_flight (run [] (init 4) wd_ops) = [].
Proof.
  split; [apply no_expiry_syntactic; reflexivity | vm_compute; repeat split; reflexivity].
Qed.

Section SourceFacts.
Import String.
Local Open Scope string_scope.
(** The facts regenerated from flood.go on this run are the ones the model is
    built on: the seen cache is keyed by exactly (origin, sequence); the
    handler looks the key up and marks it inside ONE write-lock region of f.mu
    (check-then-act is atomic, which is what lets the model treat a handler
    call's seen-cache test-and-set as one step even when copies arrive
    concurrently over several peer connections), then checks seen-by, stores
    and floods in that order; the forwarded copy carries seen-by + local id; floodFrame
    skips the sender and every agent in seen-by; entries expire when strictly
    older than the TTL (300 s), checked on a ticker of period TTL/2.
    ROUTE_WITHDRAW uses the same cache with the same key expression (origin of
    the withdrawal and its sequence, never the relaying peer), the same
    one-lock-region test-and-set and the same flooding with the local id
    appended; nothing but the TTL cleanup (and the explicit clear) removes
    entries from the seen cache. *)
Theorem C11_source_facts :
  gen_seen_key_fields = ["OriginAgent"; "Sequence"] /\
  gen_seen_key_origin_arg = "originAgent" /\ gen_seen_key_sequence_arg = "sequence" /\
  gen_handle_order_lookup_mark_loopcheck_store_flood = true /\
  gen_seen_check_and_mark_in_one_lock_region = true /\
  gen_increment_sequence_reads_back_under_the_lock = true /\
  gen_handle_route_withdraw_args = ["peerID"; "withdraw.OriginAgent"; "withdraw.Sequence"; "withdraw.Routes"; "withdraw.SeenBy"] /\
  gen_withdraw_seen_key_origin_arg = "originAgent" /\ gen_withdraw_seen_key_sequence_arg = "sequence" /\
  gen_withdraw_check_and_mark_in_one_lock_region = true /\
  gen_withdraw_mark_loopcheck_process_flood_with_self_appended = true /\
  gen_only_cleanup_removes_seen_entries = true /\ gen_withdraw_origin_fresh_sequence_own_id = true /\
  gen_forward_appends_self_to_seenby = true /\
  gen_floodframe_skips_sender_and_seenby = true /\ gen_flood_passes_sender_and_seenby = true /\
  gen_seen_ttl_seconds = seen_ttl /\ seen_ttl / gen_cleanup_ticks_per_ttl = cleanup_period /\
  gen_expiry_is_strictly_older_than_ttl = true.
Proof. repeat split; reflexivity. Qed.
End SourceFacts.
Print Assumptions C11_source_facts.
