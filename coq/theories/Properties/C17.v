(** C17 — tunnel bookkeeping returns to empty once tunnels and peers are gone. *)
From Coq Require Import List NArith ZArith Bool.
From MM Require Import Model.Relay Model.RelayPreFix Model.ExitBook
  Proofs.RelayProofs Proofs.RelayAgentProofs Proofs.RelayPreFixProofs Proofs.ExitBookProofs Generated.C16.
Import ListNotations.
Local Open Scope N_scope.

(** * Relay tables (TCP, UDP, ICMP), after the fixes *)

(** For every history of table operations in which live ids are unique per
    connection ([ok_hist]: Insert of a tunnel whose two ends are not ends of a
    live tunnel; Delete only of a live entry), the table holds exactly the
    live tunnels [lrun [] ops] - the tunnels inserted and not yet ended by a
    close/reset from either end, an open error, a failed forward or the
    disconnect of one of their peers - each under both keys. *)
Theorem C17_table_refines_live_tunnels : forall ops,
  ok_hist [] ops -> agree (trun empty_table ops) (lrun [] ops).
Proof. exact refines_from_empty. Qed.
Print Assumptions C17_table_refines_live_tunnels.

(** Hence: once every tunnel has ended, both indices are empty. *)
Theorem C17_drained_empty : forall ops,
  ok_hist [] ops -> lrun [] ops = [] -> trun empty_table ops = empty_table.
Proof. exact drained_empty. Qed.
Print Assumptions C17_drained_empty.

Theorem C17_drained_nonvacuous :
  ok_hist [] ex_history /\ lrun [] ex_history = [] /\
  lookup_both (trun empty_table [TInsert ex_e1; TInsert ex_e2]) 1 1 = (Some ex_e1, None) /\
  lookup_both (trun empty_table [TInsert ex_e1; TInsert ex_e2]) 1 2 = (Some ex_e2, None) /\
  lookup_both (trun empty_table [TInsert ex_e1; TInsert ex_e2]) 1 3 = (None, Some ex_e1) /\
  lookup_both (trun empty_table [TInsert ex_e1; TInsert ex_e2]) 1 4 = (None, Some ex_e2).
Proof. exact drained_nonvacuous. Qed.
Print Assumptions C17_drained_nonvacuous.

(** At the agent: a peer's disconnect removes exactly the tunnels involving
    that peer from the TCP, UDP and ICMP relay tables, in both indices; along
    every well-behaved run the tables hold exactly the live tunnels
    (C16_run_invariant). *)
Theorem C17_disconnect_removes_peer_tunnels : forall s p v fm L,
  mget p (a_conns s) = Some v -> agree (tbl s fm) L ->
  agree (tbl (fst (astep s (EDisconnect p))) fm) (filter (fun x => negb (involves p x)) L).
Proof. exact disconnect_removes_peer_tunnels. Qed.
Print Assumptions C17_disconnect_removes_peer_tunnels.

Theorem C17_run_invariant : forall evs me locals,
  evs_ok (ainit me locals) evs -> ainv (fst (arun (ainit me locals) evs)).
Proof. exact run_invariant_from_init. Qed.
Print Assumptions C17_run_invariant.

(** * What the pre-fix code did *)

(** bare-id keys: a collision leaves an entry reachable from byDownstream
    only; DeleteByPeer walks byUpstream and never removes it *)
Theorem C17_refuted_collision_orphan_pre_fix :
  PreFix.trun PreFix.empty_table PreFixProofs.orphan_history =
  {| PreFix.by_up := []; PreFix.by_down := [(1, PreFixProofs.orphan_e1)] |}.
Proof. exact PreFixProofs.collision_orphan. Qed.
Print Assumptions C17_refuted_collision_orphan_pre_fix.

(** handlePeerDisconnect cleaned the TCP relay table only *)
Theorem C17_refuted_udp_icmp_disconnect_pre_fix :
  PreFix.a_tcp (fst (PreFix.arun (PreFix.ainit 9 []) (PreFixProofs.disconnect_history PreFix.TCP))) = PreFix.empty_table /\
  PreFix.a_udp (fst (PreFix.arun (PreFix.ainit 9 []) (PreFixProofs.disconnect_history PreFix.UDP))) <> PreFix.empty_table /\
  PreFix.a_icmp (fst (PreFix.arun (PreFix.ainit 9 []) (PreFixProofs.disconnect_history PreFix.ICMP))) <> PreFix.empty_table.
Proof. exact PreFixProofs.udp_icmp_survive_disconnect. Qed.
Print Assumptions C17_refuted_udp_icmp_disconnect_pre_fix.

(** * Still open: exit.Handler / forward.Handler bookkeeping *)

(** connections[id] = ac; connCount.Add(1) on an id another peer already
    uses: the counter never returns to 0 ... *)
Theorem C17_refuted_counter_leak :
  conns (brun (book_init 3) leak_history) = [] /\
  loops (brun (book_init 3) leak_history) = [] /\
  count (brun (book_init 3) leak_history) = 1%Z.
Proof. exact counter_leak. Qed.
Print Assumptions C17_refuted_counter_leak.

(** ... and the connection limit is used up by tunnels that no longer exist. *)
Theorem C17_refuted_limit_consumed :
  let b := brun (book_init 2) limit_history in
  length (conns b) = 1%nat /\ loops b = [2] /\ (let '(_, res, _, _) := bstep b (BOpen 2 3) in res) = 1.
Proof. exact limit_consumed_by_dead_tunnels. Qed.
Print Assumptions C17_refuted_limit_consumed.

(** * The facts regenerated from the source on this run are the model's *)
Theorem C17_source_facts :
  gen_relay_up_key_is_peer_id = relay_keys_carry_peer /\
  gen_relay_down_key_is_peer_id = relay_keys_carry_peer /\
  gen_lookup_both_calls = 3 /\ gen_lookup_both_pass_source_peer = lookups_pass_source_peer /\
  gen_ack_lookups = 3 /\ gen_ack_lookups_pass_source_peer = lookups_pass_source_peer /\
  gen_bare_downstream_lookups_in_handlers = 0 /\
  gen_disconnect_calls_cleanup = true /\ gen_disconnect_cleans_tcp = true /\
  gen_disconnect_cleans_udp = cleanup_all_tables /\ gen_disconnect_cleans_icmp = cleanup_all_tables /\
  gen_delete_by_peer_ranges_upstream = true /\ gen_delete_by_peer_deletes_both = true /\
  gen_exit_connections_key_bare = connections_key_bare /\
  gen_forward_connections_key_bare = connections_key_bare /\
  gen_stream_manager_key_bare = true /\
  gen_exit_store_then_count_unconditional = store_then_count_unconditional /\
  gen_forward_store_then_count_unconditional = store_then_count_unconditional /\
  gen_stream_data_dispatch_order = stream_data_dispatch_order.
Proof. repeat split; reflexivity. Qed.
Print Assumptions C17_source_facts.

(** What does hold for exit.Handler / forward.Handler: in every history in
    which no stream id is opened while it is in use, connCount equals the
    number of connection records at every point - 0 when none is left.  The
    leak is exactly the id collision. *)
Theorem C17_counter_exact_without_collisions : forall ops maxc,
  collision_free (book_init maxc) ops ->
  let b := brun (book_init maxc) ops in
  count b = Z.of_nat (length (conns b)) /\ (conns b = [] -> count b = 0%Z).
Proof. exact counter_exact_without_collisions. Qed.
Print Assumptions C17_counter_exact_without_collisions.

Theorem C17_counter_exact_nonvacuous :
  collision_free (book_init 3) [BOpen 1 1; BOpen 2 3; BData 1 1 0 7; BClose 1 1; BDestClose 1; BOpen 2 1; BReset 2 1] /\
  count (brun (book_init 3) [BOpen 1 1; BOpen 2 3; BData 1 1 0 7; BClose 1 1; BDestClose 1; BOpen 2 1; BReset 2 1]) = 0%Z.
Proof. exact counter_exact_nonvacuous. Qed.
Print Assumptions C17_counter_exact_nonvacuous.

(** Dispatch order, regenerated from the source: in each of the thirteen
    handlers that dispatch a frame by its stream id the relay table is
    consulted before every local endpoint and a relay match returns. *)
Theorem C17_dispatch_order_facts :
  gen_relay_first_handleStreamOpenAck = relay_consulted_first /\ gen_relay_match_returns_handleStreamOpenAck = relay_consulted_first /\
  gen_relay_first_handleStreamOpenErr = relay_consulted_first /\ gen_relay_match_returns_handleStreamOpenErr = relay_consulted_first /\
  gen_relay_first_handleStreamData = relay_consulted_first /\ gen_relay_match_returns_handleStreamData = relay_consulted_first /\
  gen_relay_first_handleStreamClose = relay_consulted_first /\ gen_relay_match_returns_handleStreamClose = relay_consulted_first /\
  gen_relay_first_handleStreamReset = relay_consulted_first /\ gen_relay_match_returns_handleStreamReset = relay_consulted_first /\
  gen_relay_first_handleUDPOpenAck = relay_consulted_first /\ gen_relay_match_returns_handleUDPOpenAck = relay_consulted_first /\
  gen_relay_first_handleUDPOpenErr = relay_consulted_first /\ gen_relay_match_returns_handleUDPOpenErr = relay_consulted_first /\
  gen_relay_first_handleUDPDatagram = relay_consulted_first /\ gen_relay_match_returns_handleUDPDatagram = relay_consulted_first /\
  gen_relay_first_handleUDPClose = relay_consulted_first /\ gen_relay_match_returns_handleUDPClose = relay_consulted_first /\
  gen_relay_first_handleICMPOpenAck = relay_consulted_first /\ gen_relay_match_returns_handleICMPOpenAck = relay_consulted_first /\
  gen_relay_first_handleICMPOpenErr = relay_consulted_first /\ gen_relay_match_returns_handleICMPOpenErr = relay_consulted_first /\
  gen_relay_first_handleICMPEcho = relay_consulted_first /\ gen_relay_match_returns_handleICMPEcho = relay_consulted_first /\
  gen_relay_first_handleICMPClose = relay_consulted_first /\ gen_relay_match_returns_handleICMPClose = relay_consulted_first.
Proof. repeat split; reflexivity. Qed.
Print Assumptions C17_dispatch_order_facts.

(** The relay branch of every *_OPEN handler inserts the entry before it writes
    the forwarded OPEN ([on_open]: insert, then send, delete on failure), and
    replies to the opener on the opener's id; a locally unregistered connection
    still gets its disconnect notification. *)
Theorem C17_open_order_facts :
  gen_open_inserts_before_send_handleStreamOpen = true /\ gen_open_deletes_on_send_failure_handleStreamOpen = true /\
  gen_open_error_reply_to_opener_handleStreamOpen = true /\
  gen_open_inserts_before_send_handleUDPOpen = true /\ gen_open_deletes_on_send_failure_handleUDPOpen = true /\
  gen_open_error_reply_to_opener_handleUDPOpen = true /\
  gen_open_inserts_before_send_handleICMPOpen = true /\ gen_open_deletes_on_send_failure_handleICMPOpen = true /\
  gen_open_error_reply_to_opener_handleICMPOpen = true /\
  gen_unregistered_connection_still_notifies_disconnect = true.
Proof. repeat split; reflexivity. Qed.
Print Assumptions C17_open_order_facts.

(** Addressing, regenerated from the source: OPEN replies of the exit / forward /
    UDP / ICMP endpoints name (peer, stream id, request id) in that order;
    every relayed DATA / CLOSE / RESET (and the UDP / ICMP equivalents) is
    forwarded to (DownstreamPeer, DownstreamID) when it came from upstream and
    to (UpstreamPeer, UpstreamID) when it came from downstream ([on_frame]);
    a refused UDP_OPEN at the ingress removes its own mesh stream only. *)
Theorem C17_addressing_facts :
  gen_exit_open_replies_pass_stream_then_request_id = true /\
  gen_forward_open_replies_pass_stream_then_request_id = true /\
  gen_udp_open_err_addressed_by_stream_and_request = true /\
  gen_icmp_open_err_addressed_by_stream_and_request = true /\
  gen_agent_open_err_writer_maps_ids = true /\
  gen_forward_ids_handleStreamData = true /\
  gen_forward_ids_handleStreamClose = true /\
  gen_forward_ids_handleStreamReset = true /\
  gen_forward_ids_handleUDPDatagram = true /\
  gen_forward_ids_handleUDPClose = true /\
  gen_forward_ids_handleICMPEcho = true /\
  gen_forward_ids_handleICMPClose = true /\
  gen_udp_open_err_removes_own_mesh_stream = true.
Proof. repeat split; reflexivity. Qed.
Print Assumptions C17_addressing_facts.
