(** C17 — tunnel bookkeeping returns to empty once tunnels and peers are gone. *)
From Coq Require Import List NArith ZArith Bool.
From MM Require Import Model.Relay Model.ExitBook Proofs.RelayProofs Proofs.ExitBookProofs.
Import ListNotations.
Local Open Scope N_scope.

(** An id collision leaves an entry reachable from byDownstream only;
    DeleteByPeer walks byUpstream and never removes it. *)
Theorem C17_refuted_collision_orphan :
  trun empty_table orphan_history = {| by_up := []; by_down := [(1, orphan_e1)] |}.
Proof. exact collision_orphan. Qed.
Print Assumptions C17_refuted_collision_orphan.

(** handlePeerDisconnect cleans the TCP relay table only. *)
Theorem C17_refuted_udp_icmp_disconnect :
  a_tcp (fst (arun (ainit 9 []) (disconnect_history TCP))) = empty_table /\
  a_udp (fst (arun (ainit 9 []) (disconnect_history UDP))) <> empty_table /\
  a_icmp (fst (arun (ainit 9 []) (disconnect_history ICMP))) <> empty_table.
Proof. exact udp_icmp_survive_disconnect. Qed.
Print Assumptions C17_refuted_udp_icmp_disconnect.

(** connections[id] = ac; connCount.Add(1) on an existing id: the counter
    never returns to 0 and the connection limit is used up by dead tunnels. *)
Theorem C17_refuted_counter_leak :
  conns (brun (book_init 3) leak_history) = [] /\
  loops (brun (book_init 3) leak_history) = [] /\
  count (brun (book_init 3) leak_history) = 1%Z.
Proof. exact counter_leak. Qed.
Print Assumptions C17_refuted_counter_leak.

Theorem C17_refuted_limit_consumed :
  let b := brun (book_init 2) limit_history in
  length (conns b) = 1%nat /\ loops b = [2] /\ (let '(_, res, _, _) := bstep b (BOpen 2 3) in res) = 1.
Proof. exact limit_consumed_by_dead_tunnels. Qed.
Print Assumptions C17_refuted_limit_consumed.
