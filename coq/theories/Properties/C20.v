(** C20 — port-forward endpoints connect only to their configured targets. *)
From Coq Require Import List NArith.
From MM Require Import Lib.Bytes Model.Forward Proofs.ForwardProofs Generated.C20.
Import ListNotations.
Local Open Scope N_scope.

(** For every endpoint configuration and every requested key (any byte
    string): if the handler dials, it dials a target configured for exactly
    that key - the one of the last endpoint carrying the key, which is what
    the map built by NewHandler holds. *)
Theorem C20_dial_only_configured : forall (eps : list endpoint) (key t : bytes),
  forward_open eps key = FDial t ->
  In (key, t) eps /\
  exists pre post, eps = pre ++ (key, t) :: post /\ (forall t', ~ In (key, t') post).
Proof. exact dial_only_configured. Qed.
Print Assumptions C20_dial_only_configured.

(** A key no endpoint carries is answered with error code 40 (forward key not
    found) and nothing is dialled - and only such keys are. *)
Theorem C20_unknown_refused : forall (eps : list endpoint) (key : bytes),
  (forall t, ~ In (key, t) eps) <-> forward_open eps key = FErr 40.
Proof. exact unknown_refused. Qed.
Print Assumptions C20_unknown_refused.

Theorem C20_total : forall eps key,
  (exists t, forward_open eps key = FDial t) \/ forward_open eps key = FErr 40.
Proof. exact forward_open_total. Qed.
Print Assumptions C20_total.

(** The agent's dispatch: an address is handed to the forward handler exactly
    when it is "forward:" followed by the key, and the key is the rest. *)
Theorem C20_dispatch : forall addr key,
  dispatch addr = RForward key <-> addr = forward_prefix ++ key.
Proof.
  intros addr key. split.
  - apply dispatch_forward_sound.
  - intros ->. apply dispatch_forward_complete.
Qed.
Print Assumptions C20_dispatch.

(** End to end, for a request arriving directly or through the dispatch:
    whatever gets connected to is a target configured for the requested key. *)
Theorem C20_request_dials_only_configured : forall eps r t,
  answer eps r = FDialed t ->
  exists key,
    (r = ReqDirect key \/ exists addr, r = ReqDispatch addr /\ addr = forward_prefix ++ key) /\
    In (key, t) eps /\ forward_open eps key = FDial t.
Proof. exact answer_dialed. Qed.
Print Assumptions C20_request_dials_only_configured.

(** non-vacuity: a configuration with a duplicated key (the later endpoint
    wins), an unknown key, and the dispatch *)
Theorem C20_nonvacuous :
  forward_open ex_eps (ascii_bytes Lits.shell_tty_s) = FDial (ascii_bytes Lits.file_download_s) /\
  ((forall t, ~ In (ascii_bytes Lits.file_upload_s, t) ex_eps) /\
   forward_open ex_eps (ascii_bytes Lits.file_upload_s) = FErr 40) /\
  answer ex_eps (ReqDispatch (forward_prefix ++ forward_prefix)) = FDialed (ascii_bytes Lits.shell_stream_s) /\
  answer ex_eps (ReqDispatch forward_prefix) = FNotFound /\
  answer ex_eps (ReqDispatch (ascii_bytes Lits.shell_tty_s)) = FNoAnswer.
Proof.
  split; [exact ex_dial_last_wins|]. split; [exact ex_unknown_refused|]. exact ex_dispatch.
Qed.
Print Assumptions C20_nonvacuous.

(** The constants and the wiring regenerated from the source on this run are
    the model's. *)
Theorem C20_source_facts :
  gen_forward_prefix = map b2n forward_prefix /\
  gen_file_upload = map b2n file_upload /\ gen_file_download = map b2n file_download /\
  gen_shell_stream = map b2n shell_stream /\ gen_shell_tty = map b2n shell_tty /\
  gen_err_forward_not_found = err_forward_not_found /\
  gen_targets_built_from_endpoints_in_order = true /\
  gen_lookup_is_exact_map_index_on_key = true /\
  gen_unknown_key_sends_not_found_and_returns = true /\
  gen_async_receives_looked_up_target = true /\
  gen_async_dials_exactly_the_target = true /\
  gen_dispatch_strips_prefix_and_passes_key = true /\
  gen_dispatch_passes_the_key_unmodified = true.
Proof. repeat split; vm_compute; reflexivity. Qed.
Print Assumptions C20_source_facts.
