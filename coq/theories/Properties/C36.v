(** C36 — embedded configuration round-trips and malformed binaries are handled safely.

    Model: Model/Embed.v (files are byte strings; the readers report every
    positional read and every allocation they make).  The statements are
    about the repaired code (two [fix:] commits in internal/embed/embed.go);
    [C36_pre_fix_refuted] records what the code did before. *)
From Coq Require Import List NArith ZArith.
From Coq.Strings Require Import Byte.
From MM Require Import Lib.Bytes Model.Embed Proofs.EmbedProofs Generated.C36.
Import ListNotations.
Local Open Scope Z_scope.

(** XOR obfuscation is an involution on every byte string. *)
Theorem C36_xor_involutive : forall d : bytes, xor (xor d) = d.
Proof. exact xor_involutive_proof. Qed.
Print Assumptions C36_xor_involutive.

(** Embedding any non-empty configuration into any binary that AppendConfig
    accepts and reading it back yields the same configuration.  ([max_alloc]
    = 2^48 is the Go runtime's allocation limit: a configuration must fit in
    one slice.) *)
Theorem C36_embed_read_roundtrip : forall bin cfg f,
  cfg <> [] -> fsize cfg <= max_alloc ->
  append_config bin cfg = Ok f ->
  snd (read_embedded f) = Ok cfg.
Proof. exact embed_read_roundtrip_proof. Qed.
Print Assumptions C36_embed_read_roundtrip.

(** Stripping the trailer yields the original binary (also for an empty
    configuration), and the reported original size is the binary's size. *)
Theorem C36_strip_roundtrip : forall bin cfg f,
  fsize bin + fsize cfg + 16 <= max_alloc ->
  append_config bin cfg = Ok f ->
  snd (copy_without_config f) = Ok bin /\ snd (orig_size f) = Ok (fsize bin).
Proof. exact strip_roundtrip_full_proof. Qed.
Print Assumptions C36_strip_roundtrip.

(** The same holds when source and destination are ONE file (the same path,
    a symbolic or hard link, another spelling): for every file state, every
    pair of file identities i (source) and j (destination), equal or not,
    after AppendConfig the destination reads back the configuration, reports
    the source's original size, and stripping it onto any file k (j itself
    included: in place) yields the bytes the source held before. *)
Theorem C36_in_place_roundtrip : forall st i j cfg st1,
  fsize (fget st i) + fsize cfg + 16 <= max_alloc ->
  append_config_at st i j cfg = (st1, Ok tt) ->
  (cfg <> [] -> snd (read_embedded (fget st1 j)) = Ok cfg) /\
  snd (orig_size (fget st1 j)) = Ok (fsize (fget st i)) /\
  forall k, exists st2, strip_at st1 j k = (st2, Ok tt) /\ fget st2 k = fget st i.
Proof. exact in_place_roundtrip_proof. Qed.
Print Assumptions C36_in_place_roundtrip.

(** Why the order "read the whole source, then open the destination"
    matters: a copy that truncates the destination first still round-trips
    the configuration but strips to an empty file when embedding in place. *)
Theorem C36_streaming_in_place_refuted :
  let st := [(1%N, [x7f; x45; x4c; x46])] in
  let cfg := [x61; x3a; x31] in
  exists st1, append_config_streaming_at st 1%N 1%N cfg = (st1, Ok tt) /\
    snd (read_embedded (fget st1 1%N)) = Ok cfg /\
    snd (copy_without_config (fget st1 1%N)) = Ok [] /\
    snd (copy_without_config (fget (fst (append_config_streaming_at st 1%N 2%N cfg)) 2%N)) = Ok [x7f; x45; x4c; x46].
Proof. exact streaming_in_place_loses_binary. Qed.
Print Assumptions C36_streaming_in_place_refuted.

(** AppendConfig refuses exactly the binaries of at least 16 bytes that end in the magic marker. *)
Theorem C36_append_refuses_only_embedded : forall bin cfg,
  append_config bin cfg = Err EAlready <-> already_embedded bin = true.
Proof. exact append_refuses_only_embedded_proof. Qed.
Print Assumptions C36_append_refuses_only_embedded.

(** Non-vacuity of the two round-trip theorems. *)
Example C36_roundtrip_example :
  let bin := [x7f; x45; x4c; x46] in let cfg := [x61; x3a; x31] in
  exists f, append_config bin cfg = Ok f /\ cfg <> [] /\ fsize cfg <= max_alloc /\ fsize bin + fsize cfg + 16 <= max_alloc /\
            snd (read_embedded f) = Ok cfg /\ snd (copy_without_config f) = Ok bin.
Proof. exact roundtrip_example_proof. Qed.

(** For every file content (below the runtime's 2^48-byte allocation limit)
    each of the four readers returns a result or an error, never panics,
    issues only reads that lie inside the file and allocates at most the
    file size. *)
Theorem C36_readers_total_in_bounds : forall f : bytes,
  fsize f <= max_alloc ->
  safe_call f (has_embedded f) /\ safe_call f (read_embedded f) /\
  safe_call f (orig_size f) /\ safe_call f (copy_without_config f).
Proof. exact readers_total_in_bounds_proof. Qed.
Print Assumptions C36_readers_total_in_bounds.

(** What a successful read returns is the slice the footer describes. *)
Theorem C36_read_result_is_footer_slice : forall f e c,
  read_embedded f = (e, Ok c) ->
  exists clen, footer_fields f = Some (clen, magic) /\ clen <> 0%N /\
    Z.of_N clen <= fsize f - footer_size /\
    read_at f (fsize f - footer_size - Z.of_N clen) (Z.of_N clen) = Some (xor c).
Proof. exact read_embedded_ok_slice. Qed.
Print Assumptions C36_read_result_is_footer_slice.

(** Before the repairs: a 40-byte file whose footer length is 2^63 made
    ReadEmbeddedConfig panic, and one whose footer length is 25 (> 24 bytes
    of room) made GetOriginalBinarySize return -1 and
    CopyBinaryWithoutConfig panic.  Both files are rejected now. *)
Theorem C36_pre_fix_refuted :
  (exists f, snd (read_embedded_pre_fix f) = Err EPanic) /\
  (exists f, snd (copy_without_config_pre_fix f) = Err EPanic /\ snd (orig_size_pre_fix f) = Ok (-1)) /\
  snd (read_embedded witness_2p63) = Err ETooLarge /\ snd (copy_without_config witness_len25) = Err ETooLarge.
Proof. exact pre_fix_refuted_proof. Qed.
Print Assumptions C36_pre_fix_refuted.

(** The constants and the shape of the two footer-length guards regenerated
    from embed.go on this run are the model's: 16-byte footer, magic, XOR key
    indexed modulo its length, and in both ReadEmbeddedConfig and
    GetOriginalBinarySize an unsigned comparison of the length field against
    uint64(fileSize-FooterSize) placed before the length is used. *)
Theorem C36_source_facts :
  gen_footer_size = footer_size /\ bytes_of_Ns gen_magic = magic /\ bytes_of_Ns gen_xor_key = xor_key /\
  length gen_xor_key = 32%nat /\ gen_xor_indexes_key_mod_len = true /\
  gen_read_guard = 2%N /\ gen_read_guard_before_use = true /\
  gen_origsize_guard = 2%N /\ gen_origsize_guard_before_use = true /\
  (* source and destination may be one file ([append_config_at], [strip_at] compute the new
     content from the old state): the whole source is read before the destination is opened *)
  gen_append_reads_source_before_opening_dst = true /\ gen_append_streams_source = false /\ gen_append_truncates_dst = true /\
  gen_strip_reads_original_before_writing_dst = true /\ gen_strip_streams_source = false.
Proof. repeat split; reflexivity. Qed.
Print Assumptions C36_source_facts.
