(** C10 — route table maintenance follows the update, loop and cleanup rules. *)
From Coq Require Import List NArith Permutation.
From MM Require Import Model.RouteTable Model.RouteTableSource Proofs.RouteTableBase Proofs.RouteTableProofs Proofs.RouteTableExamples Generated.C10.
Import ListNotations.
Local Open Scope N_scope.

(** All statements quantify over every history [ops] of manager operations on
    the four tables (the domain table is two maps) from the empty manager of
    any agent [local], and over every next operation [o].
    [stored eqb t k x]: x is an element of the bucket of key k of table t.
    [rule1 eqb same t t']: for every key k, x stored under k in t and y stored
    under k in t' with [same x y] (same origin; in the agent table also the
    same next hop): y = x or [newer y x]. *)

(** Rule 1 (update rule), every step, all five maps. *)
Theorem C10_replaced_only_by_newer : forall (local : N) (srt : sorter), sorter_ok srt -> forall (ops : list op) (o : op),
  let m := run local srt ops in
  let m' := next local srt m o in
  rule1 prefix_eqb same_origin (m_cidr m) (m_cidr m') /\
  rule1 str_eqb same_origin (m_dexact m) (m_dexact m') /\
  rule1 str_eqb same_origin (m_dwild m) (m_dwild m') /\
  rule1 str_eqb same_origin (m_fwd m) (m_fwd m') /\
  rule1 N.eqb same_origin_nexthop (m_agent m) (m_agent m').
Proof. exact replace_rule_over_histories. Qed.
Print Assumptions C10_replaced_only_by_newer.

Theorem C10_rule1_meaning : forall {K D} (eqb : K -> K -> bool) (same : entry D -> entry D -> bool) t t',
  rule1 eqb same t t' <->
  forall k x y, stored eqb t k x -> stored eqb t' k y -> same x y = true -> y = x \/ newer y x = true.
Proof. exact @rule1_meaning. Qed.

Theorem C10_newer_meaning : forall {D} (y x : entry D),
  newer y x = true <-> e_seq x < e_seq y \/ (e_seq y = e_seq x /\ e_metric y < e_metric x).
Proof. exact @newer_spec. Qed.

(** ... and the slot of a stored route identifies it: one route per key and
    origin (per key, origin and next hop in the agent table), in every
    reachable state; so rule 1 speaks about "the" stored route of an origin. *)
Theorem C10_one_route_per_origin : forall (local : N) (srt : sorter), sorter_ok srt -> forall (ops : list op),
  let m := run local srt ops in
  (forall k x y, stored prefix_eqb (m_cidr m) k x -> stored prefix_eqb (m_cidr m) k y -> e_origin x = e_origin y -> x = y) /\
  (forall k x y, stored str_eqb (m_dexact m) k x -> stored str_eqb (m_dexact m) k y -> e_origin x = e_origin y -> x = y) /\
  (forall k x y, stored str_eqb (m_dwild m) k x -> stored str_eqb (m_dwild m) k y -> e_origin x = e_origin y -> x = y) /\
  (forall k x y, stored str_eqb (m_fwd m) k x -> stored str_eqb (m_fwd m) k y -> e_origin x = e_origin y -> x = y) /\
  (forall k x y, stored N.eqb (m_agent m) k x -> stored N.eqb (m_agent m) k y ->
                 e_origin x = e_origin y -> e_nexthop x = e_nexthop y -> x = y).
Proof. exact one_route_per_slot. Qed.
Print Assumptions C10_one_route_per_origin.

(** Rule 2 (loop rule): in every reachable state no stored route's path
    contains the local agent. *)
Theorem C10_no_self_in_path : forall (local : N) (srt : sorter), sorter_ok srt -> forall (ops : list op),
  let m := run local srt ops in
  (forall x, route_in (m_cidr m) x -> ~ In local (e_path x)) /\
  (forall x, route_in (m_dexact m) x -> ~ In local (e_path x)) /\
  (forall x, route_in (m_dwild m) x -> ~ In local (e_path x)) /\
  (forall x, route_in (m_fwd m) x -> ~ In local (e_path x)) /\
  (forall x, route_in (m_agent m) x -> ~ In local (e_path x)).
Proof. exact no_self_path_over_histories. Qed.
Print Assumptions C10_no_self_in_path.

(** ... and the AddRoute of each table rejects such a route outright,
    leaving the table unchanged. *)
Theorem C10_self_path_rejected : forall (srt : sorter) (local now : N) (path : list N), In local path ->
  (forall t raw nh o m s, cidr_add srt local now t raw nh o m s path = (t, false)) /\
  (forall e w pat nh o m s, domain_add srt local now e w pat nh o m s path = (e, w, false)) /\
  (forall t k tg nh o m s, fwd_add srt local now t k tg nh o m s path = (t, false)) /\
  (forall t a nh o m s, agent_add srt local now t a nh o m s path = (t, false)).
Proof. exact self_path_rejected. Qed.
Print Assumptions C10_self_path_rejected.

(** Rule 3 (peer disconnect): each of the four disconnect operations filters
    every bucket of its table in place, keeping exactly the routes whose next
    hop is not the peer (order preserved), and leaves the other tables
    untouched. [filtered eqb f t t']: for every key k the bucket of k in t' is
    [filter f] of the bucket of k in t. *)
Theorem C10_disconnect_removes_exactly_the_peers_routes : forall (local : N) (srt : sorter), sorter_ok srt -> forall (ops : list op) (p : N),
  let m := run local srt ops in
  (let m' := next local srt m (ODisc p) in
   filtered prefix_eqb (keep_peer p) (m_cidr m) (m_cidr m') /\
   m_dexact m' = m_dexact m /\ m_dwild m' = m_dwild m /\ m_fwd m' = m_fwd m /\ m_agent m' = m_agent m) /\
  (let m' := next local srt m (ODDisc p) in
   filtered str_eqb (keep_peer p) (m_dexact m) (m_dexact m') /\
   filtered str_eqb (keep_peer p) (m_dwild m) (m_dwild m') /\
   m_cidr m' = m_cidr m /\ m_fwd m' = m_fwd m /\ m_agent m' = m_agent m) /\
  (let m' := next local srt m (OFDisc p) in
   filtered str_eqb (keep_peer p) (m_fwd m) (m_fwd m') /\
   m_cidr m' = m_cidr m /\ m_dexact m' = m_dexact m /\ m_dwild m' = m_dwild m /\ m_agent m' = m_agent m) /\
  (let m' := next local srt m (OADisc p) in
   filtered N.eqb (keep_peer p) (m_agent m) (m_agent m') /\
   m_cidr m' = m_cidr m /\ m_dexact m' = m_dexact m /\ m_dwild m' = m_dwild m /\ m_fwd m' = m_fwd m).
Proof. exact disconnect_over_histories. Qed.
Print Assumptions C10_disconnect_removes_exactly_the_peers_routes.

Theorem C10_disconnect_meaning : forall {K D} eqb (t t' : table K D) p,
  filtered eqb (keep_peer p) t t' ->
  forall k x, stored eqb t' k x <-> stored eqb t k x /\ e_nexthop x <> p.
Proof. exact @filtered_peer_meaning. Qed.

(** Rule 4 (stale cleanup): each of the four cleanup operations, run when the
    manager's clock reads [m_now m], filters every bucket of its table in
    place keeping exactly the routes that are locally originated or whose age
    [m_now m - e_last x] is at most maxAge, and leaves the other tables
    untouched. In particular a locally originated route is never removed. *)
Theorem C10_cleanup_removes_exactly_stale_nonlocal : forall (local : N) (srt : sorter), sorter_ok srt -> forall (ops : list op) (maxage : N),
  let m := run local srt ops in
  let f {D} := @keep_fresh D local (m_now m) maxage in
  (let m' := next local srt m (OClean maxage) in
   filtered prefix_eqb f (m_cidr m) (m_cidr m') /\
   m_dexact m' = m_dexact m /\ m_dwild m' = m_dwild m /\ m_fwd m' = m_fwd m /\ m_agent m' = m_agent m) /\
  (let m' := next local srt m (ODClean maxage) in
   filtered str_eqb f (m_dexact m) (m_dexact m') /\
   filtered str_eqb f (m_dwild m) (m_dwild m') /\
   m_cidr m' = m_cidr m /\ m_fwd m' = m_fwd m /\ m_agent m' = m_agent m) /\
  (let m' := next local srt m (OFClean maxage) in
   filtered str_eqb f (m_fwd m) (m_fwd m') /\
   m_cidr m' = m_cidr m /\ m_dexact m' = m_dexact m /\ m_dwild m' = m_dwild m /\ m_agent m' = m_agent m) /\
  (let m' := next local srt m (OAClean maxage) in
   filtered N.eqb f (m_agent m) (m_agent m') /\
   m_cidr m' = m_cidr m /\ m_dexact m' = m_dexact m /\ m_dwild m' = m_dwild m /\ m_fwd m' = m_fwd m).
Proof. exact cleanup_over_histories. Qed.
Print Assumptions C10_cleanup_removes_exactly_stale_nonlocal.

Theorem C10_cleanup_meaning : forall (local : N) {K D} eqb (t t' : table K D) now maxage,
  filtered eqb (keep_fresh local now maxage) t t' ->
  forall k x, stored eqb t' k x <->
              stored eqb t k x /\ (e_origin x = local \/ now - e_last x <= maxage).
Proof. exact filtered_fresh_meaning. Qed.

Theorem C10_cleanup_never_removes_local : forall (local : N) {K D} eqb (t t' : table K D) now maxage,
  filtered eqb (keep_fresh local now maxage) t t' ->
  forall k x, stored eqb t k x -> e_origin x = local -> stored eqb t' k x.
Proof. exact filtered_keeps_local. Qed.

(** The agent's disconnect handler runs the four disconnect operations in a
    row (source fact C10_source_facts): afterwards every table has lost
    exactly the routes learned through the peer. *)
Theorem C10_peer_disconnect_all_tables : forall (local : N) (srt : sorter), sorter_ok srt -> forall (ops : list op) (p : N),
  let m := run local srt ops in
  let m' := run local srt (ops ++ [ODisc p; ODDisc p; OFDisc p; OADisc p]) in
  filtered prefix_eqb (keep_peer p) (m_cidr m) (m_cidr m') /\
  filtered str_eqb (keep_peer p) (m_dexact m) (m_dexact m') /\
  filtered str_eqb (keep_peer p) (m_dwild m) (m_dwild m') /\
  filtered str_eqb (keep_peer p) (m_fwd m) (m_fwd m') /\
  filtered N.eqb (keep_peer p) (m_agent m) (m_agent m').
Proof. exact full_disconnect. Qed.
Print Assumptions C10_peer_disconnect_all_tables.

(** Non-vacuity: a history in which an older and an equal announcement are
    rejected, a better one replaces, a looping path is rejected, and then
    cleanup at the age boundary and a disconnect act as stated. Entries are
    (origin, next hop, metric, sequence, last update). *)
Example C10_instances :
  cproj (run 0 (@isort) ex_rule_ops) = [(0, 0, 0, 1, 0); (2, 3, 2, 1, 0); (1, 2, 3, 5, 0)] /\
  cproj (run 0 (@isort) (ex_rule_ops ++ [OClean 999])) = [(0, 0, 0, 1, 0)] /\
  cproj (run 0 (@isort) (ex_rule_ops ++ [OClean 1000])) = cproj (run 0 (@isort) ex_rule_ops) /\
  cproj (run 0 (@isort) (ex_rule_ops ++ [ODisc 3])) = [(0, 0, 0, 1, 0); (1, 2, 3, 5, 0)].
Proof. exact rule_examples. Qed.

(** The facts regenerated from the four table files, manager.go and
    agent.go on this run are the ones the model follows, in all four tables:
    the update condition, the path check before the lock, the next-hop filter
    of RemoveRoutesFromPeer, the keep-condition of CleanupStaleRoutes; the
    agent table's slot; the agent's disconnect handler and cleanup loop call
    the operation of every table; the three Process*Advertise functions add 1
    to the metric. *)
Theorem C10_source_facts :
  gen_update_rule = four src_update_rule /\ gen_loop_check = four src_loop_check /\
  gen_peer_filter = four src_peer_filter /\ gen_cleanup_rule = four src_cleanup_rule /\
  gen_agent_slot = src_agent_slot /\
  gen_disconnect_handler_calls = src_disconnect_calls /\ gen_cleanup_loop_calls = src_cleanup_calls /\
  gen_advertise_increments_metric = 3%N /\
  (* AddRoute is one write-lock region in every table; every Process*Advertise
     stores the delivering peer as the next hop *)
  (* the four disconnect calls are unconditional top-level statements of
     agent.handlePeerDisconnect: no guard, no early return before the last *)
  gen_disconnect_calls_unconditional = true /\
  gen_addroute_atomic = [true; true; true; true] /\
  gen_learned_nexthop_is_delivering_peer = [true; true; true; true].
Proof. repeat split; reflexivity. Qed.
Print Assumptions C10_source_facts.

(** The hypothesis on the sorting function: it returns a metric-sorted
    permutation of its argument. Go's sort.Slice with the less function
    "routes[i].Metric < routes[j].Metric" is such a function (stable or not);
    the stable insertion sort that sort.Slice is for up to 12 elements, which
    the correspondence check runs, satisfies it. *)
Theorem C10_sorter_hypothesis_meaning : forall srt : sorter,
  sorter_ok srt <->
  forall (D : Type) (l : list (entry D)),
    Permutation (srt D l) l /\ Sorted.StronglySorted (fun x y => e_metric x <= e_metric y) (srt D l).
Proof. exact sorter_ok_meaning. Qed.

Example C10_sorter_hypothesis_satisfiable : sorter_ok (@isort).
Proof. exact isort_ok. Qed.
