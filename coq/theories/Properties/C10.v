(** C10 — route table maintenance follows the update, loop and cleanup rules. *)
From Coq Require Import List NArith.
From MM Require Import Model.RouteTable Proofs.RouteTableBase Proofs.RouteTableProofs.
Import ListNotations.
Local Open Scope N_scope.

(** (first step) the replacement rule at bucket level: after the AddRoute
    loop an entry that shares its slot with an old entry is that entry or is
    newer (higher sequence, or same sequence and strictly lower metric). *)
Theorem C10_bucket_replace_rule_partial : forall {D} (r : entry D) b b' x y,
  slots_unique same_origin b -> bucket_put same_origin r b = Some b' ->
  In x b -> In y b' -> same_origin x y = true -> y = x \/ newer y x = true.
Proof. exact @put_rule_origin. Qed.
Print Assumptions C10_bucket_replace_rule_partial.
