(** C13 — a learned route's metric equals its hop count. *)
From Coq Require Import List NArith.
From MM Require Import Model.Flood Model.FloodPreFix Proofs.FloodPreFixProofs Proofs.FloodBase Proofs.FloodMetric Generated.C13.
Import ListNotations.
Local Open Scope N_scope.

(** For every topology, every hop-limit configuration and every schedule of
    steps (announcements, deliveries in any order, duplicates, expiry,
    connects with full-table replays, disconnects, local route changes, stale
    route cleanup): every table entry of every agent records
    metric = (metric configured at the origin + hops of the recorded path),
    in uint16 arithmetic.  Covers CIDR, domain, forward and presence routes
    (all kinds share the code path). *)
Theorem C13_metric_is_origin_metric_plus_hops : forall cf k ops n ns e,
  get (st_nodes (run cf (init k) ops)) n = Some ns -> In e (ns_entries ns) ->
  e_metric e = (e_base e + lenN (e_path e)) mod two16.
Proof. exact metric_is_base_plus_hops. Qed.
Print Assumptions C13_metric_is_origin_metric_plus_hops.

(** With local routes configured at metric 0 (what agent.go does for exit,
    domain and forward routes; presence routes are always announced with 0):
    metric = number of hops. *)
Theorem C13_metric_is_hop_count : forall cf k ops n ns e,
  Forall zero_metric_op ops ->
  get (st_nodes (run cf (init k) ops)) n = Some ns -> In e (ns_entries ns) ->
  e_metric e = lenN (e_path e) mod two16.
Proof. exact metric_is_hop_count. Qed.
Print Assumptions C13_metric_is_hop_count.

(** Every advertisement frame (not a withdrawal) any agent ever sends makes its receiver record origin metric
    + hops. *)
Theorem C13_sent_metric : forall cf k ops o m r,
  In m (snd (fst (step cf (run cf (init k) ops) o))) -> is_w (m_adv m) = false -> In r (a_routes (m_adv m)) ->
  inc16 (r_metric r) = (r_base r + lenN (a_path (m_adv m))) mod two16.
Proof. exact sent_metric_is_base_plus_hops. Qed.
Print Assumptions C13_sent_metric.

(** Hence an equally specific route through a nearer exit is preferred: the
    lowest-metric entry for a prefix (what Table.Lookup returns) has the
    fewest hops. *)
Theorem C13_nearer_exit_preferred : forall cf k ops n ns id m,
  Forall zero_metric_op ops ->
  get (st_nodes (run cf (init k) ops)) n = Some ns ->
  (forall e, In e (ns_entries ns) -> lenN (e_path e) < two16) ->
  best_metric KCidr id (ns_entries ns) = Some m ->
  exists e, In e (ns_entries ns) /\ e_kind e = KCidr /\ e_id e = id /\ lenN (e_path e) = m /\
    forall e', In e' (ns_entries ns) -> e_kind e' = KCidr -> e_id e' = id -> lenN (e_path e) <= lenN (e_path e').
Proof. exact nearer_exit_preferred. Qed.
Print Assumptions C13_nearer_exit_preferred.

(** The code BEFORE commit b3d7519 (Model/FloodPreFix.v) violated the property: on a chain 0-1-2-3 agent 0's CIDR was recorded with metric 1 at 1, 2 and 3 hops. *)
Theorem C13_refuted_pre_fix :
  exists ops, map (fun n => map (fun e => (e_metric e, e_path e))
                               (filter (fun e => kind_eqb (e_kind e) KCidr) (entries_pre [] 4 ops n))) [1; 2; 3]
              = [[(1, [0])]; [(1, [1; 0])]; [(1, [2; 1; 0])]].
Proof. exact C13_pre_fix_metric_ignores_distance. Qed.
Print Assumptions C13_refuted_pre_fix.

(** Non-vacuity: a chain 0-1-2-3, agent 0 advertises a CIDR, a domain and a
    forward route; after flooding, agent 3 holds them (and agent 0's
    presence) with metric 3 over the 3-hop path [2;1;0]. *)
Definition ex_ops : list op :=
  [C 0 1; C 1 2; C 2 3; L0 0 1 0; L1 0 2 0; L2 0 3 0; A 0; D 0; D 0; D 0].

Example C13_example_chain :
  Forall zero_metric_op ex_ops /\
  match get (st_nodes (run [] (init 4) ex_ops)) 3 with
  | Some ns => map (fun e => (kind_code (e_kind e), e_metric e, e_path e)) (ns_entries ns)
               = [(0, 3, [2; 1; 0]); (1, 3, [2; 1; 0]); (2, 3, [2; 1; 0]); (3, 3, [2; 1; 0])]
  | None => False
  end.
Proof.
  split; [unfold ex_ops; repeat (apply Forall_cons; [vm_compute; auto|]); apply Forall_nil | vm_compute; reflexivity].
Qed.

(** Source facts regenerated on this run: the re-flooded copy of the routes
    has every metric incremented by exactly the amount the receiver adds on
    receipt (1, for all four tables); conversions in between keep the metric;
    presence routes are announced with metric 0; agent.go configures exit,
    domain and forward routes with metric 0; replays send the stored metric. *)
Theorem C13_source_facts :
  gen_forward_metric_increment = 1 /\ gen_flood_sends_given_routes = true /\
  gen_store_increment_cidr = 1 /\ gen_store_increment_domain = 1 /\
  gen_store_increment_forward = 1 /\ gen_store_increment_agent = 1 /\
  (forall m, inc16 m = (m + gen_forward_metric_increment) mod two16) /\
  gen_conversion_keeps_metric = true /\
  gen_presence_metric = r_metric (presence 0) /\
  Forall (fun m => m mod two16 = 0) gen_config_route_metrics /\
  gen_replay_sends_stored_metric = true /\
  gen_forward_path_extension_unconditional_c13 = true /\ gen_table_keeps_entries_sorted_by_metric = true.
Proof. repeat split; try reflexivity. repeat constructor. Qed.
Print Assumptions C13_source_facts.
