(** C13 — placeholder (theorems follow) *)
From MM Require Import Model.Flood.
