(** C08 — CIDR route lookup is longest-prefix match with lowest-metric tie-break. *)
From Coq Require Import List NArith Permutation.
From MM Require Import Model.RouteTable Model.RouteTableSource Proofs.RouteTableBase Proofs.RouteTableProofs Generated.C08.
Import ListNotations.
Local Open Scope N_scope.

(** For every sorting function [srt] that returns a metric-sorted permutation
    ([sorter_ok], see the end of this file), every history [ops] of manager operations (route advertisements and
    withdrawals, peer disconnects, stale-route cleanups, local and dynamic
    route additions and removals, raw table additions/removals, clock ticks,
    and operations on the other three tables), applied from the empty manager
    of any agent [local], and for every lookup argument:

    - a malformed address (neither 4 nor 16 bytes) finds nothing;
    - otherwise, with [ad] the address (IPv4-mapped IPv6 addresses are IPv4
      addresses), the lookup returns either a route [r] that is stored, whose
      network contains [ad], such that every stored route [x] whose network
      contains [ad] has a prefix no longer than r's and, when of the same
      length, a metric no lower than r's;
    - or nothing, and then no stored route's network contains [ad].

    [run local srt ops]: the manager state after the history (C08_run_meaning).
    [route_in t x]: x is an element of some bucket of table t.
    [contains p ad]: same family and the same leading [p_len p] bits
    (lemma C08_contains_meaning). *)
Theorem C08_longest_prefix_lowest_metric : forall (local : N) (srt : sorter), sorter_ok srt -> forall (ops : list op) (is16 a : N),
  let m := run local srt ops in
  match addr_norm is16 a with
  | None => snd (step local srt m (OLookup is16 a)) = FNone
  | Some ad =>
      match snd (step local srt m (OLookup is16 a)) with
      | FNone => forall x, route_in (m_cidr m) x -> contains (e_data x) ad = false
      | FCidr r =>
          route_in (m_cidr m) r /\ contains (e_data r) ad = true /\
          forall x, route_in (m_cidr m) x -> contains (e_data x) ad = true ->
            p_len (e_data x) <= p_len (e_data r) /\
            (p_len (e_data x) = p_len (e_data r) -> e_metric r <= e_metric x)
      | _ => False
      end
  end.
Proof. exact lpm_over_histories. Qed.
Print Assumptions C08_longest_prefix_lowest_metric.

(** The Go code ranges over a map, whose iteration order is unspecified; the
    model scans an association list. For every reachable table the result is
    the same for every order of the buckets. *)
Theorem C08_independent_of_map_order : forall (local : N) (srt : sorter), sorter_ok srt -> forall (ops : list op) (t' : ctable) (ad : addr),
  Permutation (m_cidr (run local srt ops)) t' ->
  cidr_lookup t' ad = cidr_lookup (m_cidr (run local srt ops)) ad.
Proof. exact lookup_order_independent_hist. Qed.
Print Assumptions C08_independent_of_map_order.

(** Every stored network is canonical (host bits zero, family 4 or 6, length
    within the family's width): prefix lengths of stored routes are comparable
    and each network has exactly one table key. *)
Theorem C08_stored_networks_canonical : forall (local : N) (srt : sorter), sorter_ok srt -> forall (ops : list op) x,
  route_in (m_cidr (run local srt ops)) x ->
  p_ip (e_data x) = mask_ip (p_fam (e_data x)) (p_ip (e_data x)) (p_len (e_data x)) /\
  (p_fam (e_data x) = 4 \/ p_fam (e_data x) = 6) /\
  p_len (e_data x) <= fbits (p_fam (e_data x)).
Proof. exact stored_canonical. Qed.
Print Assumptions C08_stored_networks_canonical.

(** the state after a history, and membership in a table, spelled out *)
Theorem C08_run_meaning : forall (local : N) (srt : sorter),
  run local srt [] = mgr_init /\
  forall ops o, run local srt (ops ++ [o]) = fst (fst (step local srt (run local srt ops) o)).
Proof. exact run_meaning. Qed.

Theorem C08_route_in_meaning : forall {K D} (t : table K D) (x : entry D),
  route_in t x <-> exists k b, In (k, b) t /\ In x b.
Proof. exact @route_in_meaning. Qed.

(** what [contains] means arithmetically *)
Theorem C08_contains_meaning : forall p f a,
  contains p (f, a) = true <->
  p_fam p = f /\ a / 2 ^ (fbits (p_fam p) - p_len p) = p_ip p / 2 ^ (fbits (p_fam p) - p_len p).
Proof. exact contains_spec. Qed.
Print Assumptions C08_contains_meaning.

(** Before the repair (commit "fix: key and store CIDR routes by their
    canonical network") the property did not hold. The table was keyed by the
    printed, unmasked network, and prefix lengths were read from the stored
    networks' masks. Witness 1: 10.0.0.0/8 (metric 2) and the same network
    delivered as 10.1.2.3/8 (metric 10) are two buckets of equal length; the
    lookup of 10.9.9.9 returns metric 2 for one iteration order of the map and
    metric 10 for another. *)
Theorem C08_refuted_pre_fix_map_order :
  exists t', Permutation w_table_pre_fix t' /\
    option_map e_metric (cidr_lookup_pre_fix w_table_pre_fix w_addr) = Some 2 /\
    option_map e_metric (cidr_lookup_pre_fix t' w_addr) = Some 10.
Proof. exact pre_fix_order_dependent. Qed.
Print Assumptions C08_refuted_pre_fix_map_order.

(** Witness 2: ::ffff:10.0.0.0/104 is stored under the key of 10.0.0.0/8 but
    reports 104 mask bits; for every iteration order the lookup of 10.1.2.3
    returns it although the stored 10.1.0.0/16 is the longer match. *)
Theorem C08_refuted_pre_fix_mapped_prefix :
  forall t', Permutation w_table2_pre_fix t' ->
    exists r x, cidr_lookup_pre_fix t' w_addr2 = Some r /\
      route_in t' x /\ raw_contains (e_data x) w_addr2 = true /\
      canon (e_data r) = Some (mkP 4 167772160 8) /\ canon (e_data x) = Some (mkP 4 167837696 16).
Proof. exact pre_fix_mapped_beats_longer. Qed.
Print Assumptions C08_refuted_pre_fix_mapped_prefix.

(** Non-vacuity: the same two advertisement histories on the repaired model.
    Both spellings of 10.0.0.0/8 share one bucket and the metric-2 route is
    found; 10.1.2.3 is matched by the /16; an IPv6 address finds nothing. *)
Example C08_witness1_repaired :
  option_map (fun r => (e_data r, e_metric r)) (cidr_lookup (m_cidr (run 0 (@isort) w_ops1)) w_addr)
    = Some (mkP 4 167772160 8, 2) /\
  length (m_cidr (run 0 (@isort) w_ops1)) = 1%nat.
Proof. exact fixed_witness1. Qed.

Example C08_witness2_repaired :
  option_map (fun r => (e_data r, e_metric r)) (cidr_lookup (m_cidr (run 0 (@isort) w_ops2)) w_addr2)
    = Some (mkP 4 167837696 16, 2) /\
  cidr_lookup (m_cidr (run 0 (@isort) w_ops2)) (6, 1) = None.
Proof. exact fixed_witness2. Qed.

(** The facts regenerated from internal/routing/table.go on this run are the
    ones the model follows: strict "longer than best so far" comparison from
    -1 on the head of each bucket ([lpm_compare_ok] also accepts ">=", which is equivalent: by
    C08_independent_of_map_order no two buckets of equal length contain the
    same address), ascending metric sort, and AddRoute / RemoveRoute keyed by
    the canonical network (net.ParseCIDR of the printed form). *)
Theorem C08_source_facts :
  lpm_compare_ok gen_lpm_compare = true /\
  gen_lpm_initial_best = src_lpm_initial_best /\
  gen_lpm_candidate_is_bucket_head = true /\ gen_cidr_sort_less = src_sort_less /\
  gen_addroute_keys_by_canonical_network = true /\ gen_canonical_is_parsecidr_of_printed = true /\
  gen_removeroute_uses_canonical_key = true /\
  (* AddRoute's existence probe and its insert are in one write-lock region:
     the operation is one atomic step, as the model has it *)
  gen_cidr_addroute_probe_and_insert_under_one_write_lock = true.
Proof. repeat split; reflexivity. Qed.
Print Assumptions C08_source_facts.

(** The hypothesis on the sorting function: it returns a metric-sorted
    permutation of its argument. Go's sort.Slice with the less function
    "routes[i].Metric < routes[j].Metric" is such a function (stable or not);
    the stable insertion sort that sort.Slice is for up to 12 elements, which
    the correspondence check runs, satisfies it. *)
Theorem C08_sorter_hypothesis_meaning : forall srt : sorter,
  sorter_ok srt <->
  forall (D : Type) (l : list (entry D)),
    Permutation (srt D l) l /\ Sorted.StronglySorted (fun x y => e_metric x <= e_metric y) (srt D l).
Proof. exact sorter_ok_meaning. Qed.

Example C08_sorter_hypothesis_satisfiable : sorter_ok (@isort).
Proof. exact isort_ok. Qed.
