(** C08 — CIDR route lookup is longest-prefix match with lowest-metric tie-break. *)
From Coq Require Import List NArith.
From MM Require Import Model.RouteTable Proofs.RouteTableBase Proofs.RouteTableProofs.
Import ListNotations.
Local Open Scope N_scope.

(** (first step; the full statement over histories follows) Every bucket
    produced by the table's AddRoute is metric-sorted, so its first entry has
    the lowest metric of the bucket. *)
Theorem C08_bucket_head_lowest_partial : forall (r : entry prefix) b b' x y,
  slots_unique same_origin b ->
  bucket_add same_origin r b = Some (x :: b') -> In y (x :: b') -> e_metric x <= e_metric y.
Proof. exact bucket_head_lowest. Qed.
Print Assumptions C08_bucket_head_lowest_partial.
