(** C07 — frames never exceed the payload limit and stream bytes are
    re-assembled exactly. *)
From Coq Require Import List NArith Bool.
From Coq.Strings Require Import Byte.
From MM Require Import Lib.Bytes Model.Tunnel Proofs.TunnelProofs Generated.C07.
Import ListNotations.
Local Open Scope N_scope.

(** Every frame payload produced by any data path is at most 16384 bytes, for
    every path description (any buffer size, framing and sender kind), every
    key, counter and every sequence of blocks of any sizes. *)
Theorem C07_frames_within_limit : forall pa k ctr blocks eofd o,
  run pa k ctr blocks eofd = Some o ->
  Forall (fun f => blob_size f <= 16384) (o_frames o).
Proof. exact frames_within_limit. Qed.
Print Assumptions C07_frames_within_limit.

(** Whatever the frame type: FrameWriter.Write - the single writer every peer
    connection uses - writes a frame only if its payload is within the limit. *)
Theorem C07_every_written_frame_within_limit : forall n written,
  frame_write n = Some written -> n <= 16384 /\ written = 14 + n.
Proof.
  intros n written. unfold frame_write. destruct (max_payload <? n) eqn:E; [discriminate|].
  intros [= <-]. split; [apply N.ltb_ge in E; exact E|reflexivity].
Qed.
Print Assumptions C07_every_written_frame_within_limit.

(** Cutting into chunks of at most [m > 0] bytes loses, duplicates and
    reorders nothing, for byte strings of every length. *)
Theorem C07_chunk_exact : forall m b, 0 < m -> exists cs,
  chunk m b = Some cs /\ concat cs = b /\
  Forall (fun c => 0 < blen c /\ blen c <= m /\ blen c <= blen b) cs.
Proof. exact chunk_exact. Qed.
Print Assumptions C07_chunk_exact.

(** Main theorem.  On a path whose plaintext buffer, pre-encryption framing
    and AEAD overhead add up to at most the frame limit
    ([path_ok]: 1 <= buf, buf + |prefix| + 28 <= 16384, trailer message not
    mistaken for data), for every sequence of written / read blocks of any
    sizes, any starting counters: the sender terminates without error, every
    frame is within the limit, and the receiver - which opens each frame on
    its own and gives up at the first failure - outputs exactly the input
    bytes in order. *)
Theorem C07_reassembly_exact : forall pa k, path_ok pa = true ->
  forall blocks eofd ctr expect, expect <= ctr ->
  exists o, run pa k ctr blocks eofd = Some o /\ o_error o = false /\
    Forall (fun f => blob_size f <= max_payload) (o_frames o) /\
    r_closed (receive pa k expect (o_frames o)) = false /\
    r_out (receive pa k expect (o_frames o)) = concat blocks.
Proof. exact reassembly_exact. Qed.
Print Assumptions C07_reassembly_exact.

(** ... and every data path of the current code is such a path. *)
Theorem C07_current_paths_exact : forall pa, In pa [P_meshconn; P_exit; P_shellpty; P_shellout; P_shellin; P_file] ->
  forall k blocks eofd ctr expect, expect <= ctr ->
  exists o, run pa k ctr blocks eofd = Some o /\ o_error o = false /\
    Forall (fun f => blob_size f <= max_payload) (o_frames o) /\
    r_closed (receive pa k expect (o_frames o)) = false /\
    r_out (receive pa k expect (o_frames o)) = concat blocks.
Proof. exact current_paths_exact. Qed.
Print Assumptions C07_current_paths_exact.

(** The facts regenerated from the Go sources on this run are the model's:
    the limit, the AEAD overhead, the bound enforced by Frame.Encode before
    anything is written, the step of Agent.WriteStreamData, and per data path
    (buffer size, framing bytes, uses WriteStreamData). *)
Theorem C07_source_facts :
  gen_max_payload = max_payload /\ gen_overhead = overhead /\
  gen_nonce_size + gen_tag_size = overhead /\
  gen_encode_rejects_above = max_payload /\ gen_writer_encodes_first = true /\
  gen_header_size = header_size /\ gen_frame_writers_outside_protocol = 1 /\ gen_raw_stream_writes_in_peer = 0 /\
  gen_wsd_step = max_payload /\
  gen_adapter_capacity = adapter_cap /\ gen_adapter_drops_when_full = true /\
  gen_pushdata_blocks_until_room = true /\ gen_shell_seal_and_write_one_section = true /\
  forallb snd gen_registered_before_ack = true /\ length gen_registered_before_ack = 4%nat /\
  gen_socks_connect_clears_both_deadlines = true /\
  gen_paths = model_table.
Proof. repeat split; reflexivity. Qed.
Print Assumptions C07_source_facts.

(** Whatever the table regenerated from the sources contains (also for paths
    added later), every row satisfies the arithmetic condition of the main
    theorem. *)
Theorem C07_source_paths_fit : forallb row_fits gen_paths = true.
Proof. vm_compute. reflexivity. Qed.
Print Assumptions C07_source_paths_fit.

(** The shell output paths as they were before the repair (16384-byte reads,
    +1 type byte, +28): a single read of 16384 bytes is cut into frames of
    16384, 29 (and the EXIT message, 33) bytes; the first frame does not open
    and nothing is delivered. *)
Theorem C07_refuted_shell_pre_fix : exists b : bytes,
  match run P_shellpty_pre_fix 1 0 [b] false with
  | Some o =>
      map blob_size (o_frames o) = [16384; 29; 33] /\
      r_closed (receive P_shellpty_pre_fix 1 0 (o_frames o)) = true /\
      r_out (receive P_shellpty_pre_fix 1 0 (o_frames o)) = [] /\
      b <> []
  | None => False
  end.
Proof. exact shell_pre_fix_refuted. Qed.
Print Assumptions C07_refuted_shell_pre_fix.

(** Shell stdin as it was before the repair (no chunking): a STDIN message
    with a 16356-byte payload cannot be framed; nothing is sent or delivered. *)
Theorem C07_refuted_shell_stdin_pre_fix :
  match run P_shellin_pre_fix 1 0 [block_of 16356] false with
  | Some o => o_frames o = [] /\ o_error o = true /\ r_out (receive P_shellin_pre_fix 1 0 (o_frames o)) = []
  | None => False
  end.
Proof. exact shellin_pre_fix_refuted. Qed.
Print Assumptions C07_refuted_shell_stdin_pre_fix.

(** What pins that defect: on ANY path with a positive buffer (also the old
    shell paths) the stream is exact as long as every block, once framed and
    sealed, fits one frame (for the old shell paths: reads of at most 16355
    bytes). *)
Theorem C07_exact_when_blocks_fit : forall pa k, 0 < p_buf pa -> trailer_silent pa = true ->
  forall blocks eofd ctr expect, expect <= ctr ->
  Forall (fun b => blen b + blen (p_prefix pa) + overhead <= max_payload) blocks ->
  exists o, run pa k ctr blocks eofd = Some o /\ o_error o = false /\
    r_closed (receive pa k expect (o_frames o)) = false /\
    r_out (receive pa k expect (o_frames o)) = concat blocks.
Proof. exact reassembly_exact_small_blocks. Qed.
Print Assumptions C07_exact_when_blocks_fit.

(** Several goroutines sharing one session key (shell stdout / stderr pumps
    and exit notifier): when sealing and handing the frame to the writer are one
    critical section, for every number of senders and every schedule the
    receiver accepts every frame ... *)
Theorem C07_shared_key_atomic_accepts_all : forall steps,
  only_both steps = true -> accept_all 0 (sh_wire (sh_run steps)) = true.
Proof. exact shared_key_atomic_accepts_all. Qed.
Print Assumptions C07_shared_key_atomic_accepts_all.

(** ... and when the lock covers the seal only, two senders can put their frames
    on the wire in the wrong order and the receiver refuses the older one. *)
Theorem C07_refuted_if_seal_and_write_split : exists steps,
  accept_all 0 (sh_wire (sh_run steps)) = false /\ sh_wire (sh_run steps) = [1; 0].
Proof. exact shared_key_split_refuted. Qed.
Print Assumptions C07_refuted_if_seal_and_write_split.

(** Beyond the tunnel: the shell client adapter between the mesh receiver and
    the WebSocket writer DROPS output when its 64-message buffer stays full
    (known finding): 65 messages arriving while the consumer is paused - the
    last one never comes out. *)
Theorem C07_refuted_shell_adapter_drops : exists ops : list aop,
  a_out (fold_left adapter_step (ops ++ repeat APop 100) {| a_queue := []; a_out := [] |}) <> pushed ops.
Proof. exact adapter_drops_refuted. Qed.
Print Assumptions C07_refuted_shell_adapter_drops.

(** ... and it is exact whenever the consumer keeps up (there is room each time
    a message arrives). *)
Theorem C07_adapter_exact_when_never_full : forall ops,
  never_full {| a_queue := []; a_out := [] |} ops = true ->
  a_out (adapter_run ops) ++ a_queue (adapter_run ops) = pushed ops.
Proof. exact adapter_exact_when_never_full. Qed.
Print Assumptions C07_adapter_exact_when_never_full.

(** The size-level oracle that the correspondence check evaluates on the
    implementation's cases computes the frame lengths of the byte-level model
    above. *)
Theorem C07_oracle_is_the_model : forall pa k ctr blocks eofd,
  match run pa k ctr blocks eofd, sz_run pa (map blen blocks) eofd with
  | Some o, Some (fs, _, ok) => map blob_size (o_frames o) = fs /\ (o_error o = true -> ok = false)
  | None, None => True
  | _, _ => False
  end.
Proof. exact sz_frames_agree. Qed.
Print Assumptions C07_oracle_is_the_model.

(** ... and its delivered byte count and verdict are those of the byte-level
    receiver (also when frames do not open: the receiver stops at the first
    failure). *)
Theorem C07_oracle_delivery_is_the_model : forall pa k ctr expect blocks eofd,
  expect <= ctr -> trailer_silent pa = true ->
  match run pa k ctr blocks eofd, sz_run pa (map blen blocks) eofd with
  | Some o, Some (_, d, ok) =>
      let st := receive pa k expect (o_frames o) in
      blen (r_out st) = d /\ ok = negb (o_error o) && negb (r_closed st)
  | None, None => True
  | _, _ => False
  end.
Proof. exact sz_delivery_agree. Qed.
Print Assumptions C07_oracle_delivery_is_the_model.
