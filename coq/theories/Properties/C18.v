(** C18 — half-close and close behave per protocol for every frame sequence. *)
From Coq Require Import List NArith Bool.
From MM Require Import Model.Stream Proofs.StreamProofs Generated.C18 Generated.C16.
Import ListNotations.
Local Open Scope N_scope.

(** Data that arrives before or together with the remote end-of-write signal
    is delivered before end-of-stream.  For every frame sequence [fs], every
    prefix of the frame-handling thread's program (data block, then FIN
    block, per frame) and every interleaving [tr] of it with any number of
    readers (each select arm that is ready may fire), read cancellations,
    local half-closes and closes: whenever a Read returns EOF on a stream
    that is not closed, everything carried by the frames up to and including
    the first FIN frame has already been returned, in order. *)
Theorem C18_data_before_eof : forall fs tr nreaders s os rest,
  thread_proj tr ++ rest = thread_prog code_push_first fs ->
  run (new_stream nreaders) tr = Some (s, os) ->
  data_before_eof_on fs os.
Proof. exact data_before_eof. Qed.
Print Assumptions C18_data_before_eof.

(** ... and nothing is lost, duplicated or reordered while the stream is open *)
Theorem C18_fifo_exact : forall tr nreaders s os,
  run (new_stream nreaders) tr = Some (s, os) -> closed s = false ->
  returned os ++ buf s = pushes (thread_proj tr).
Proof. exact fifo_exact. Qed.
Print Assumptions C18_fifo_exact.

Theorem C18_nonvacuous :
  thread_proj example_trace ++ [] = thread_prog true example_frames /\
  option_map snd (run (new_stream 1) example_trace) =
    Some [ONone; ONone; ORet 0 (EvData 5); ONone; ONone; ORet 0 (EvData 6); ONone; ONone; ONone; ONone; ORet 0 (EvEof false)] /\
  data_upto_fin example_frames = Some [5; 6].
Proof. exact data_before_eof_nonvacuous. Qed.
Print Assumptions C18_nonvacuous.

(** The order the code used before the fix (FIN block, then data block) lets
    a reader observe end-of-stream before the data that arrived with the FIN. *)
Theorem C18_refuted_fin_with_data_pre_fix :
  exists fs tr s os,
    thread_proj tr = thread_prog false fs /\
    run (new_stream 1) tr = Some (s, os) /\
    ~ data_before_eof_on fs os.
Proof. exact fin_before_push_refuted. Qed.
Print Assumptions C18_refuted_fin_with_data_pre_fix.

(** After the local side half-closes, writes are refused at every later
    point of every run ... *)
Theorem C18_write_refused_after_half_close : forall pre post nreaders s os,
  run (new_stream nreaders) (pre ++ ACloseWrite :: post) = Some (s, os) ->
  can_write s = false.
Proof. exact write_refused_after_close_write. Qed.
Print Assumptions C18_write_refused_after_half_close.

(** ... while reads continue: inserting the half-close anywhere changes no
    read result and no push result of the rest of the run. *)
Theorem C18_reads_continue : forall t1 t2 nreaders s os,
  ~ In ACloseWrite t2 ->
  run (new_stream nreaders) (t1 ++ t2) = Some (s, os) ->
  exists s' o1 o2,
    os = o1 ++ o2 /\ length o1 = length t1 /\
    run (new_stream nreaders) (t1 ++ ACloseWrite :: t2) = Some (s', o1 ++ ONone :: o2) /\
    same_read_side s s'.
Proof. exact reads_continue_after_close_write. Qed.
Print Assumptions C18_reads_continue.

(** Stream states move only along the documented transitions. *)
Theorem C18_transitions : forall s a s1 o, step s a = Some (s1, o) -> allowed (st s) (st s1).
Proof. exact transitions_allowed. Qed.
Print Assumptions C18_transitions.

(** STREAM_CLOSE / STREAM_RESET tear down only the addressed stream: every
    other stream object and every other id mapping of the manager is unchanged. *)
Theorem C18_close_reset_local : forall pf m id op,
  op = MClose id \/ op = MReset id ->
  let '(m', _, _, _) := exec pf m op in
  (forall k', map_get (mmap m) id <> Some k' -> nth_error (objs m') k' = nth_error (objs m) k') /\
  (forall id', id' <> id -> map_get (mmap m') id' = map_get (mmap m) id').
Proof. exact close_reset_local. Qed.
Print Assumptions C18_close_reset_local.

(** At the receiving endpoints (exit handler, port-forward handler, file
    upload, shell): if some frame carries FIN, the destination sees exactly
    the data of the frames up to and including that frame, in order, and only
    then end-of-stream; without a FIN frame no end-of-stream and no loss. *)
Theorem C18_endpoint_data_before_eof : forall fs want,
  data_upto_fin fs = Some want ->
  endpoint_receive fs = map XGot want ++ [XEof].
Proof. exact endpoint_data_before_eof. Qed.
Print Assumptions C18_endpoint_data_before_eof.

Theorem C18_endpoint_no_fin_no_eof : forall fs,
  data_upto_fin fs = None ->
  ~ In XEof (endpoint_receive fs) /\ xdata (endpoint_receive fs) = concat (map (fun f => if snd f =? 0 then [] else [snd f]) fs).
Proof. exact endpoint_no_fin_no_eof. Qed.
Print Assumptions C18_endpoint_no_fin_no_eof.

(** The facts regenerated from the source on this run are the model's. *)
Theorem C18_source_facts :
  gen_push_before_fin = code_push_first /\
  gen_read_buffer_cap = buf_cap /\
  gen_state_codes = map sstate_code [Opening; Open; HalfLocal; HalfRemote; Closed] /\
  gen_can_write_states = map sstate_code [Open; HalfRemote] /\
  gen_can_read_states = map sstate_code [Open; HalfLocal] /\
  gen_meshconn_write_guarded = true /\
  (* the select structure of Stream.Read that [step] models: ARFirst takes
     buffered data without blocking; the closed and remoteFin arms go through
     ARDrain before EOF; the second select has a data arm; PushData is refused
     once the stream is closed *)
  gen_read_first_select_takes_buffered = true /\ gen_read_closed_arm_drains = true /\
  gen_read_fin_arm_drains = true /\ gen_read_has_data_arm = true /\ gen_push_refused_when_closed = true /\
  (* a push on a full buffer waits (APush is not enabled) - it is never dropped *)
  gen_push_waits_without_timeout = true /\
  (* the other receivers of STREAM_DATA deliver the payload whatever the flags
     say and before they act on FIN_WRITE ([endpoint_on_data]) *)
  gen_exit_delivers_payload_before_fin = true /\ gen_forward_delivers_payload_before_fin = true /\
  gen_file_upload_delivers_payload_before_fin = true /\ gen_shell_client_delivers_payload_before_fin = true /\
  gen_shell_server_delivers_payload_before_fin = true /\
  gen_exit_data_block_condition_is_nonempty_payload = true /\ gen_forward_data_block_condition_is_nonempty_payload = true /\
  (* each state transition reads and writes the state inside one lock region
     (this is what makes AFin / ACloseWrite / AClose atomic steps of the model),
     and nothing else writes the state *)
  gen_HandleRemoteFinWrite_transition_atomic = true /\ gen_CloseWrite_transition_atomic = true /\
  gen_Close_transition_atomic = true /\
  gen_state_writers_are_the_transition_functions = true /\
  (* the frames of one stream reach the stream manager in wire order: the read
     loop picks the lane by frame type only and blocks when it is full, and the
     ordered lane has one drainer (the frame thread of [thread_prog]) *)
  gen_readloop_lane_by_type_and_blocking = true /\ gen_ordered_lane_has_one_drainer = true /\
  (* a relayed CLOSE / RESET / DATA goes to the addressed stream's other end *)
  gen_forward_ids_handleStreamData = true /\ gen_forward_ids_handleStreamClose = true /\
  gen_forward_ids_handleStreamReset = true.
Proof. repeat split; reflexivity. Qed.
Print Assumptions C18_source_facts.
