(** C18 — half-close and close behave per protocol for every frame sequence. *)
From Coq Require Import List NArith Bool.
From MM Require Import Model.Stream Proofs.StreamProofs.
Import ListNotations.
Local Open Scope N_scope.

(** The order HandleStreamData uses today (FIN block, then data block) lets a
    reader observe end-of-stream before the data that arrived with the FIN. *)
Theorem C18_refuted_fin_with_data :
  exists fs tr s os,
    thread_proj tr = thread_prog false fs /\
    run (new_stream 1) tr = Some (s, os) /\
    ~ data_before_eof_on fs os.
Proof. exact fin_before_push_refuted. Qed.
Print Assumptions C18_refuted_fin_with_data.
