(** C02 — no nonce is ever reused under a session key, in either direction. *)
From Coq Require Import List NArith String Bool.
From MM Require Import Lib.Bytes Model.Session Model.Rekey Proofs.SessionProofs Proofs.SessionWitnesses Proofs.RekeyProofs Generated.C02.
Import ListNotations.
Local Open Scope N_scope.
Local Open Scope bool_scope.

(** Any number of concurrent senders on either endpoint reduces to a sequence
    of atomic Encrypt steps (nonce construction and counter increment are in
    one lock region: C02_source_facts).  For every such sequence, interleaved
    in any way between the two ends and with any deliveries in between, with at
    most 2^64 Encrypt calls per end: the nonces used for sealing under the
    (shared) session key are pairwise distinct. *)
Theorem C02_nonces_never_reused :
  forall (ptext ctext : Type) (plen : ptext -> N)
         (seal : bytes -> ptext -> ctext) (open : bytes -> ctext -> option ptext)
         (evs : list (event ptext ctext)),
  enc_count ptext ctext Ini evs <= two64 -> enc_count ptext ctext Res evs <= two64 ->
  NoDup (nonces_used ptext ctext (exec ptext ctext plen seal (decrypt ptext ctext open) (init ptext ctext) evs)).
Proof. exact nonces_never_reused. Qed.
Print Assumptions C02_nonces_never_reused.

(** The same on the observable side: the nonce prefixes of the frames handed out. *)
Theorem C02_emitted_frame_nonces_distinct :
  forall (ptext ctext : Type) (plen : ptext -> N)
         (seal : bytes -> ptext -> ctext) (open : bytes -> ctext -> option ptext)
         (evs : list (event ptext ctext)),
  enc_count ptext ctext Ini evs <= two64 -> enc_count ptext ctext Res evs <= two64 ->
  NoDup (frame_nonces ptext ctext
           (outputs ptext ctext plen seal (decrypt ptext ctext open) (init ptext ctext) evs)).
Proof. exact emitted_frame_nonces_distinct. Qed.
Print Assumptions C02_emitted_frame_nonces_distinct.

(** The bound is tight (uint64 counter): after 2^64 Encrypt calls of one end
    its next call would reuse the nonce of its first. *)
Theorem C02_reuse_after_two64_sends :
  forall (ptext ctext : Type) (plen : ptext -> N)
         (seal : bytes -> ptext -> ctext) (open : bytes -> ctext -> option ptext)
         (s : side) (p0 : ptext) (evs : list (event ptext ctext)) (p : ptext),
  enc_count ptext ctext s evs = two64 - 1 ->
  let y := exec ptext ctext plen seal (decrypt ptext ctext open) (init ptext ctext) (EEnc ptext ctext s p0 :: evs) in
  In (f_nonce ctext (snd (encrypt ptext ctext plen seal s (st_of ptext ctext y s) p))) (nonces_used ptext ctext y).
Proof. exact reuse_after_two64_sends. Qed.
Print Assumptions C02_reuse_after_two64_sends.

(** Non-vacuity / shape: a mixed trace and the nonces it uses. *)
Theorem C02_example :
  nonces_used _ _ (texec tdecrypt tinit example_trace) =
    [ build_nonce (send_prefix Ini) 2; build_nonce (send_prefix Ini) 1;
      build_nonce (send_prefix Res) 0; build_nonce (send_prefix Ini) 0 ] /\
  build_nonce (send_prefix Ini) 0 = bytes_of_hex "000000000000000000000000" /\
  build_nonce (send_prefix Res) 0 = bytes_of_hex "800000000000000000000000".
Proof. exact example_trace_nonces. Qed.
Print Assumptions C02_example.

(** One tunnel session, seen from the ingress while *_OPEN_ACK frames arrive:
    the theorems above are about ONE SessionKey object; a session would still
    reuse nonces if a second object holding the same key (send counter 0
    again) replaced the first.  With the handler as it is (an ACK for a session
    whose open handshake has completed is ignored: C02_session_key_sources),
    for EVERY sequence of ACKs (duplicates, replays, ACKs yielding any key) and
    sealed payloads, with at most 2^64 payloads: no (key, nonce counter) pair
    is used twice and every payload is sealed under the key of the first ACK. *)
Theorem C02_session_key_installed_once_no_pair_repeats : forall evs : list iev,
  seal_count evs <= two64 ->
  let out := snd (irun ack_guarded ingress0 evs) in
  NoDup out /\ forall p, In p out -> Some (fst p) = first_ack evs.
Proof. exact guarded_no_pair_repeats. Qed.
Print Assumptions C02_session_key_installed_once_no_pair_repeats.

(** The handler without that test violates it: a duplicated ACK for which the
    same key is derived again (seeded change C02_3) repeats (key, nonce 0) ... *)
Theorem C02_refuted_unguarded_duplicate_ack : forall k,
  ~ NoDup (snd (irun ack_unguarded ingress0 [IAck k; ISeal; IAck k; ISeal])).
Proof. exact unguarded_repeats_pair. Qed.
Print Assumptions C02_refuted_unguarded_duplicate_ack.

(** ... and when another key is derived (the code before the two `fix:`
    commits on handleUDPOpenAck / handleICMPOpenAck: the private key had been
    zeroed) the key shared with the exit is replaced. *)
Theorem C02_refuted_unguarded_ack_replaces_key : forall k k', k <> k' ->
  exists p, In p (snd (irun ack_unguarded ingress0 [IAck k; ISeal; IAck k'; ISeal])) /\
            Some (fst p) <> first_ack [IAck k; ISeal; IAck k'; ISeal].
Proof. exact unguarded_replaces_key. Qed.
Print Assumptions C02_refuted_unguarded_ack_replaces_key.

(** Regenerated on this run: every place outside internal/crypto that stores a
    non-nil session key, with the reason it cannot run twice for one session
    (1 early return once the open completed / a key is present, 2 object
    created in the same function, 3 object from a one-shot channel result,
    4 parameter and all callers pass a fresh object).  None is unprotected,
    and the handlers that write the field directly from a network frame are
    all of class 1. *)
Definition key_write_ok (w : string * string * N) : bool :=
  let '(_, how, class) := w in
  negb (N.eqb class 0) && (negb (String.eqb how "field") || N.eqb class 1 || N.eqb class 2).

Theorem C02_session_key_sources :
  forallb key_write_ok gen_c02_key_writes = true /\ gen_c02_key_writes <> [].
Proof. split; [reflexivity|discriminate]. Qed.
Print Assumptions C02_session_key_sources.

(** The nonce handed to the AEAD is the nonce the theorems are about: Seal is
    called once, with the array built by buildSendNonce (the same array that is
    copied to the front of the frame) and no associated data; Open likewise
    with the frame's first 12 bytes.  (Sealing with a different IV and moving
    the direction bytes into the associated data keeps every test green and
    makes the two directions share key and nonce: seeded change C02_r2_3.) *)
Theorem C02_aead_arguments :
  gen_c02_aead_seal_calls = 1 /\ gen_c02_aead_open_calls = 1 /\
  gen_c02_aead_seal_nonce_is_built_nonce = true /\ gen_c02_aead_seal_nonce_is_frame_prefix = true /\
  gen_c02_aead_seal_no_associated_data = true /\
  gen_c02_aead_open_nonce_is_frame_prefix = true /\ gen_c02_aead_open_nonce_is_the_tested_nonce = true /\
  gen_c02_aead_open_no_associated_data = true.
Proof. repeat split; reflexivity. Qed.
Print Assumptions C02_aead_arguments.

(** The install-once argument needs the *_OPEN_ACK handlers to run one at a
    time per connection, and the nonce theorems need ONE SessionKey object per
    session: only the unordered datagram types go to the parallel lane of the
    peer read loop, and crypto.SessionKey (mutex + counters) is never declared
    by value nor copied through a dereference anywhere in internal/. *)
Definition fast_lane_ok (l : list string) : bool :=
  forallb (fun x => String.eqb x "FrameUDPDatagram" || String.eqb x "FrameICMPEcho") l.

Theorem C02_single_object_facts :
  gen_c02_fast_lane_types_recognised = true /\ fast_lane_ok gen_c02_fast_lane_types = true /\
  gen_c02_session_key_value_typed_uses = 0 /\ gen_c02_session_key_dereference_copies = 0.
Proof. repeat split; reflexivity. Qed.
Print Assumptions C02_single_object_facts.

Definition site_ok (s : string * string * N * N) : bool :=
  let '(_, _, role, flag) := s in (N.eqb role flag) && (N.ltb flag 2).

Definition kind_has (k : string) (flag : N) (l : list (string * string * N * N)) : bool :=
  existsb (fun s => let '(k', _, _, f) := s in String.eqb k k' && N.eqb f flag) l.

Definition kinds : list string := ["tcp"; "forward"; "udp"; "icmp"; "shell"; "file"]%string.

(** Facts regenerated from the source on this run: the send prefixes and the
    counter position are the model's; the lock region of Encrypt contains
    both the nonce construction and the single increment, nothing else in
    Encrypt touches the counter and nobody else writes it; the nonce is an
    array value (a private copy); the role flag is only set in
    DeriveSessionKey; and at EVERY call site of DeriveSessionKey the literal
    role flag agrees with the role implied by the order of the public keys
    (own key first = initiator = true), each tunnel kind having a site of
    either role — so the two ends of a session never share a send prefix. *)
Theorem C02_source_facts :
  gen_c02_send_pattern_recognised = true /\
  gen_c02_send_prefix_initiator = map b2n (send_prefix Ini) /\
  gen_c02_send_prefix_responder = map b2n (send_prefix Res) /\
  gen_c02_counter_offset = 4 /\ gen_c02_counter_field = "sendNonce"%string /\
  gen_c02_counter_big_endian_u64 = true /\ gen_c02_nonce_size = nonce_size /\
  gen_c02_nonce_is_array_copy = true /\
  gen_c02_lock_region_builds_nonce = true /\ gen_c02_lock_region_increments = true /\
  gen_c02_increment_amount = 1 /\ gen_c02_send_counter_refs_outside_lock = 0 /\
  gen_c02_build_calls_outside_lock = 0 /\
  gen_c02_send_counter_writers = ["Encrypt"%string] /\
  gen_c02_role_flag_writers = ["DeriveSessionKey"%string] /\
  forallb site_ok gen_c02_site_flags = true /\
  forallb (fun k => kind_has k 1 gen_c02_site_flags && kind_has k 0 gen_c02_site_flags) kinds = true.
Proof. repeat split; reflexivity. Qed.
Print Assumptions C02_source_facts.
