(** C01 — end-to-end sessions accept only fresh, authentic messages from the other end. *)
From Coq Require Import List NArith.
From MM Require Import Lib.Bytes Model.Session Proofs.SessionProofs.
Import ListNotations.
Local Open Scope N_scope.

(** Rejected input never changes the endpoint's state (hence what it accepts afterwards). *)
Theorem C01_reject_leaves_state : forall (ptext ctext : Type) (open : bytes -> ctext -> option ptext)
    (s : side) (st : sess) (f : frame ctext),
  is_accept ptext (snd (decrypt ptext ctext open s st f)) = false ->
  fst (decrypt ptext ctext open s st f) = st.
Proof. exact reject_leaves_state. Qed.
Print Assumptions C01_reject_leaves_state.
