(** C01 — end-to-end sessions accept only fresh, authentic messages from the other end. *)
From Coq Require Import List NArith String.
From Coq Require Import Bool.
From MM Require Import Lib.Bytes Model.Session Model.Rekey Proofs.SessionProofs Proofs.SessionWitnesses Proofs.RekeyProofs Generated.C01.
Import ListNotations.
Local Open Scope N_scope.

(** Main statement.  For every AEAD (seal/open under the session key) that
    decrypts what it sealed, and for every trace of events — Encrypt calls on
    either end in any interleaving, and deliveries of ARBITRARY frames to
    either end (drop, reorder, duplicate, reflect, bit-flip, forge with any
    counter) — such that the trace is INT-CTXT (a delivered frame opens only if
    its nonce and body were produced by an Encrypt of this session) and each
    end encrypts at most 2^64 times:

    what an endpoint has accepted (nonce, ciphertext body, plaintext, in
    acceptance order) is an order-preserving subsequence of what the OTHER
    endpoint has sent (in send order).  So every accepted payload was produced
    by the opposite endpoint, each is accepted at most once, in increasing
    send order; injected, modified, reflected and replayed frames are never
    accepted. *)
Theorem C01_accepts_only_fresh_authentic_in_order :
  forall (ptext ctext : Type) (plen : ptext -> N)
         (seal : bytes -> ptext -> ctext) (open : bytes -> ctext -> option ptext),
  (forall n p, open n (seal n p) = Some p) ->
  forall evs : list (event ptext ctext),
    intctxt ptext ctext plen seal open (decrypt ptext ctext open) (init ptext ctext) evs ->
    enc_count ptext ctext Ini evs <= two64 ->
    enc_count ptext ctext Res evs <= two64 ->
    forall x : side,
      let final := exec ptext ctext plen seal (decrypt ptext ctext open) (init ptext ctext) evs in
      subseq (accepted_by ptext ctext x final) (sent_by ptext ctext (other x) final).
Proof. exact accepts_are_a_subsequence_of_the_peers_sends. Qed.
Print Assumptions C01_accepts_only_fresh_authentic_in_order.

(** Rejected input never changes what the endpoint accepts afterwards: a
    rejected Decrypt leaves the endpoint's state as it was (for every AEAD,
    no hypothesis) ... *)
Theorem C01_reject_leaves_state : forall (ptext ctext : Type) (open : bytes -> ctext -> option ptext)
    (s : side) (st : sess) (f : frame ctext),
  is_accept ptext (snd (decrypt ptext ctext open s st f)) = false ->
  fst (decrypt ptext ctext open s st f) = st.
Proof. exact reject_leaves_state. Qed.
Print Assumptions C01_reject_leaves_state.

(** ... and therefore, in every trace, a rejected delivery can be erased
    without changing the final state or any later output. *)
Theorem C01_rejected_delivery_is_forgotten :
  forall (ptext ctext : Type) (plen : ptext -> N)
         (seal : bytes -> ptext -> ctext) (open : bytes -> ctext -> option ptext)
         (evs1 : list (event ptext ctext)) (to : side) (f : frame ctext) (evs2 : list (event ptext ctext)),
  let dec := decrypt ptext ctext open in
  let run := exec ptext ctext plen seal dec (init ptext ctext) in
  is_accept ptext (snd (dec to (st_of ptext ctext (run evs1) to) f)) = false ->
  run (evs1 ++ EDeliver ptext ctext to f :: evs2) = run (evs1 ++ evs2) /\
  outputs ptext ctext plen seal dec (run (evs1 ++ [EDeliver ptext ctext to f])) evs2 =
  outputs ptext ctext plen seal dec (run evs1) evs2.
Proof. exact rejected_delivery_is_forgotten. Qed.
Print Assumptions C01_rejected_delivery_is_forgotten.

(** The checks do not reject everything: the peer's next genuine frame is accepted. *)
Theorem C01_genuine_frame_accepted :
  forall (ptext ctext : Type) (plen : ptext -> N)
         (seal : bytes -> ptext -> ctext) (open : bytes -> ctext -> option ptext),
  (forall n p, open n (seal n p) = Some p) ->
  forall (s : side) (st_sender st : sess) (p : ptext),
  s_send st_sender < max64 -> s_recv st <= s_send st_sender ->
  decrypt ptext ctext open (other s) st (snd (encrypt ptext ctext plen seal s st_sender p))
    = ({| s_send := s_send st; s_recv := s_send st_sender + 1 |}, Accept p).
Proof. exact genuine_frame_accepted. Qed.
Print Assumptions C01_genuine_frame_accepted.

(** Decrypt as the Go code executes it (read-only check under the lock, AEAD
    open outside the lock, re-check and advance under the lock) behaves like
    the atomic [decrypt] of the model run at the time of its second locked
    region, or — if it rejects — like the atomic [decrypt] at the first region
    with no effect on the state; so every interleaving of concurrent Decrypt
    calls is a trace of the model. *)
Theorem C01_decrypt_two_phase_linearises :
  forall (ptext ctext : Type) (open : bytes -> ctext -> option ptext)
         (s : side) (recv1 : N) (st2 : sess) (f : frame ctext),
  recv1 <= s_recv st2 ->
  decrypt_two_phase ptext ctext open s recv1 st2 f = decrypt ptext ctext open s st2 f \/
  (fst (decrypt_two_phase ptext ctext open s recv1 st2 f) = st2 /\
   is_accept ptext (snd (decrypt_two_phase ptext ctext open s recv1 st2 f)) = false /\
   snd (decrypt_two_phase ptext ctext open s recv1 st2 f)
     = snd (decrypt ptext ctext open s {| s_send := s_send st2; s_recv := recv1 |} f)).
Proof. exact decrypt_two_phase_linearises. Qed.
Print Assumptions C01_decrypt_two_phase_linearises.

(** Non-vacuity: a concrete trace with replay, reflection, forgery (counter
    2^64-1), tampering and a dropped frame satisfies the hypotheses of the
    main theorem (symbolic AEAD), and both ends accept frames in it. *)
Theorem C01_hypotheses_satisfiable :
  (forall n p, toy_open n (toy_seal n p) = Some p) /\
  intctxt tptext tbody toy_plen toy_seal toy_open tdecrypt tinit example_trace /\
  enc_count _ _ Ini example_trace <= two64 /\ enc_count _ _ Res example_trace <= two64 /\
  accepted_by _ _ Res (texec tdecrypt tinit example_trace) = [item Ini 0 0 5; item Ini 2 3 1] /\
  accepted_by _ _ Ini (texec tdecrypt tinit example_trace) = [item Res 0 1 0].
Proof.
  exact (conj toy_seal_open (conj (proj1 example_trace_hypotheses)
          (conj (proj1 (proj2 example_trace_hypotheses)) (conj (proj2 (proj2 example_trace_hypotheses))
          (conj (proj1 example_trace_accepts) (proj1 (proj2 example_trace_accepts))))))).
Qed.
Print Assumptions C01_hypotheses_satisfiable.

(** The Decrypt function as it was BEFORE the two fix commits violates the
    main statement (same hypotheses): an endpoint accepts its own frame
    reflected back ... *)
Theorem C01_refuted_reflect_pre_fix :
  exists evs,
    intctxt tptext tbody toy_plen toy_seal toy_open tdecrypt_pre_fix tinit evs /\
    enc_count _ _ Ini evs <= two64 /\ enc_count _ _ Res evs <= two64 /\
    exists x, ~ subseq (accepted_by _ _ x (texec tdecrypt_pre_fix tinit evs))
                       (sent_by _ _ (other x) (texec tdecrypt_pre_fix tinit evs)).
Proof. exact refuted_reflect_pre_fix. Qed.
Print Assumptions C01_refuted_reflect_pre_fix.

(** ... a forged frame with counter 2^64-1 wraps the window and a replay is accepted ... *)
Theorem C01_refuted_poison_pre_fix :
  exists evs,
    intctxt tptext tbody toy_plen toy_seal toy_open tdecrypt_pre_fix tinit evs /\
    enc_count _ _ Ini evs <= two64 /\ enc_count _ _ Res evs <= two64 /\
    exists x, ~ subseq (accepted_by _ _ x (texec tdecrypt_pre_fix tinit evs))
                       (sent_by _ _ (other x) (texec tdecrypt_pre_fix tinit evs)).
Proof. exact refuted_poison_pre_fix. Qed.
Print Assumptions C01_refuted_poison_pre_fix.

(** ... and a rejected frame changes what is accepted afterwards (counter 2^63 blocks genuine traffic). *)
Theorem C01_refuted_reject_changes_state_pre_fix :
  exists s st f,
    is_accept _ (snd (tdecrypt_pre_fix s st f)) = false /\ fst (tdecrypt_pre_fix s st f) <> st /\
    is_accept _ (snd (tdecrypt_pre_fix s st (genuine (other s) 0 0 4))) = true /\
    is_accept _ (snd (tdecrypt_pre_fix s (fst (tdecrypt_pre_fix s st f)) (genuine (other s) 0 0 4))) = false.
Proof. exact refuted_reject_changes_state_pre_fix. Qed.
Print Assumptions C01_refuted_reject_changes_state_pre_fix.

(** Facts regenerated from crypto.go on this run agree with the model: the
    receive prefix of each role is the send prefix of the other, the counter
    sits at offset 4, the overhead is 28, and Decrypt writes the receive
    counter only after the AEAD open, inside a locked region that first
    re-tests the window (so concurrent calls cannot accept one frame twice). *)
Theorem C01_source_facts :
  gen_c01_recv_pattern_recognised = true /\
  gen_c01_recv_prefix_initiator = map b2n (recv_prefix Ini) /\
  gen_c01_recv_prefix_responder = map b2n (recv_prefix Res) /\
  gen_c01_counter_offset = 4 /\ gen_c01_overhead = overhead /\ gen_c01_nonce_size = nonce_size /\
  gen_c01_open_calls = 1 /\ gen_c01_recv_writes_before_open = 0 /\
  1 <= gen_c01_recv_writes_after_open_locked /\ gen_c01_recv_writes_after_open_unlocked = 0 /\
  gen_c01_commit_region_retests_window = true /\
  gen_c01_recv_counter_writers = ["Decrypt"%string].
Proof. repeat split; try reflexivity; try (vm_compute; discriminate). Qed.
Print Assumptions C01_source_facts.

(** ** Around the SessionKey: what the tunnel code must not undo

    The theorems above are about crypto.SessionKey.  Three things in the code
    around it decide whether an endpoint really only accepts what the theorem
    allows; each is regenerated from the source on every run and exercised on
    the real code by the harness.

    (1) The per-tunnel wrappers (udp.Association, icmp.Session) pass their
    input through when no key is set, and Close drops the key: a closed wrapper
    must refuse before it looks at the key. *)
Theorem C01_closed_wrapper_refuses : forall w, wrap_use (wrap_close w) = WErr.
Proof. exact closed_wrapper_refuses. Qed.
Print Assumptions C01_closed_wrapper_refuses.

Theorem C01_refuted_swapped_wrapper : forall w, wrap_use_swapped (wrap_close w) = WPassThrough.
Proof. exact swapped_wrapper_passes_after_close. Qed.
Print Assumptions C01_refuted_swapped_wrapper.

Definition passthrough_ok (p : string * string * string * bool * bool) : bool :=
  let '(_, _, _, closed_first, _) := p in closed_first.

Definition key_write_ok (w : string * string * N) : bool :=
  let '(_, how, class) := w in
  negb (N.eqb class 0) && (negb (String.eqb how "field") || N.eqb class 1 || N.eqb class 2).

(** (2) every handler that installs a session key from a network frame
    returns early once the open handshake has completed (otherwise a replayed
    clear-text *_OPEN_ACK installs a key an outsider can compute); (3) the
    nonce given to the AEAD is the array at the front of the frame, the one
    the direction and window tests read, with no associated data. *)
Theorem C01_wiring_facts :
  gen_c01_passthrough <> [] /\ forallb passthrough_ok gen_c01_passthrough = true /\
  gen_c01_key_writes <> [] /\ forallb key_write_ok gen_c01_key_writes = true /\
  gen_c01_aead_seal_calls = 1 /\ gen_c01_aead_open_calls = 1 /\
  gen_c01_aead_seal_nonce_is_built_nonce = true /\ gen_c01_aead_seal_nonce_is_frame_prefix = true /\
  gen_c01_aead_seal_no_associated_data = true /\
  gen_c01_aead_open_nonce_is_frame_prefix = true /\ gen_c01_aead_open_nonce_is_the_tested_nonce = true /\
  gen_c01_aead_open_no_associated_data = true.
Proof. repeat split; try reflexivity; discriminate. Qed.
Print Assumptions C01_wiring_facts.

(** (4) Every responder derives from an ephemeral keypair generated by a
    direct crypto.GenerateEphemeralKeypair() call in the open handler itself
    and stored nowhere else (a cached responder keypair lets a relay that
    replays a recorded STREAM_OPEN reproduce the session key with a fresh
    receive window, so the recorded data frames are accepted again); (5) the
    UDP and ICMP exits make an association visible to the datagram path only
    after the key exchange (otherwise the keyless pass-through applies to a
    session that negotiates a key); (6) only the unordered datagram types take
    the parallel lane of the peer read loop. *)
Definition fresh_ok (r : string * string * bool) : bool := let '(_, _, b) := r in b.

Definition sublist_of (allowed l : list string) : bool :=
  forallb (fun x => existsb (String.eqb x) allowed) l.

Theorem C01_open_handler_facts :
  gen_c01_responder_fresh_keypair <> [] /\ forallb fresh_ok gen_c01_responder_fresh_keypair = true /\
  gen_c01_register_after_key_exchange <> [] /\ forallb fresh_ok gen_c01_register_after_key_exchange = true /\
  gen_c01_fast_lane_types_recognised = true /\
  sublist_of ["FrameUDPDatagram"; "FrameICMPEcho"]%string gen_c01_fast_lane_types = true.
Proof. repeat split; try reflexivity; discriminate. Qed.
Print Assumptions C01_open_handler_facts.
