(** C37 — configuration variable expansion is single-pass and follows the
    documented forms.  Model: Model/EnvExpand.v (config.expandEnvVars). *)
From Coq Require Import String List NArith Bool.
From MM Require Import Lib.HStr Model.EnvExpand Proofs.EnvExpandProofs Generated.C37.
Import ListNotations.
Local Open Scope N_scope.

(** Text without a dollar sign is unchanged, for every environment. *)
Theorem C37_no_dollar_identity : forall (e : env) (s : str),
  ~ In DOLLAR s -> expand e s = s.
Proof. exact expand_no_dollar. Qed.
Print Assumptions C37_no_dollar_identity.

(** Single pass, for every text and every environment: the text is cut into
    pieces (literal characters and references) by a function of the text
    alone; the pieces concatenate back to the text; the output is the
    concatenation of what each piece stands for ([piece_out]/[stands_for]: a
    set variable gives exactly its value, an unset one its default or the
    reference as written), and nothing else: substituted values are output
    as they are and never looked at again. *)
Theorem C37_single_pass : forall (e : env) (s : str),
  exists outs,
    Forall2 (piece_out e) (tokens s) outs /\
    expand e s = concat outs /\
    concat (map piece_src (tokens s)) = s.
Proof. exact expand_single_pass. Qed.
Print Assumptions C37_single_pass.

(** ... and that decomposition determines the output. *)
Theorem C37_single_pass_unique : forall (e : env) (s : str) outs,
  Forall2 (piece_out e) (tokens s) outs -> expand e s = concat outs.
Proof. exact expand_unique. Qed.
Print Assumptions C37_single_pass_unique.

(** The references found are exactly of the two written forms. *)
Theorem C37_references_well_formed : forall (s : str) (r : ref),
  In (PRef r) (tokens s) -> wf_ref r.
Proof. intros s r. exact (tokens_from_wf s O r). Qed.
Print Assumptions C37_references_well_formed.

(** The scanner is the pattern: wherever it reports a reference, that is the
    leftmost-first, greedy match of  \$\{([^}]+)\}|\$([A-Za-z_][A-Za-z0-9_]* )
    anchored there (the braced alternative whenever it matches -- it can match
    in one way only --, else the simple one with the longest name); wherever
    it reports none, no well-formed reference starts there. *)
Theorem C37_scanner_is_the_pattern :
  (forall s r rest, match_here s = Some (r, rest) ->
     s = ref_src r ++ rest /\ wf_ref r /\
     (forall b rest', wf_ref (RBraced b) -> s = ref_src (RBraced b) ++ rest' -> r = RBraced b /\ rest = rest') /\
     (forall nm rest', wf_ref (RSimple nm) -> s = ref_src (RSimple nm) ++ rest' ->
        exists nm' more, r = RSimple nm' /\ nm' = nm ++ more /\ rest' = more ++ rest)) /\
  (forall s r rest, wf_ref r -> s = ref_src r ++ rest -> match_here s <> None).
Proof. exact (conj match_here_is_the_regex_match match_here_complete). Qed.
Print Assumptions C37_scanner_is_the_pattern.

(** The documented forms, wherever they are written (any continuation
    [rest], any dollar-free text before them). *)
Theorem C37_form_braced : forall (e : env) (nm rest : str),
  is_name nm ->
  expand e (DOLLAR :: LBRACE :: nm ++ RBRACE :: rest) =
  match lookup e nm with
  | Some v => v
  | None => DOLLAR :: LBRACE :: nm ++ [RBRACE]
  end ++ expand e rest.
Proof. exact expand_braced. Qed.
Print Assumptions C37_form_braced.

Theorem C37_form_default : forall (e : env) (nm def rest : str),
  is_name nm -> ~ In RBRACE def ->
  expand e (DOLLAR :: LBRACE :: (nm ++ COLON :: MINUS :: def) ++ RBRACE :: rest) =
  match lookup e nm with
  | Some v => v
  | None => def
  end ++ expand e rest.
Proof. exact expand_default. Qed.
Print Assumptions C37_form_default.

Theorem C37_form_simple : forall (e : env) (nm rest : str),
  is_name nm ->
  match rest with [] => True | x :: _ => is_name_char x = false end ->
  expand e (DOLLAR :: nm ++ rest) =
  match lookup e nm with
  | Some v => v
  | None => DOLLAR :: nm
  end ++ expand e rest.
Proof. exact expand_simple. Qed.
Print Assumptions C37_form_simple.

Theorem C37_literal_prefix : forall (e : env) (pre s : str),
  ~ In DOLLAR pre -> expand e (pre ++ s) = pre ++ expand e s.
Proof. exact expand_no_dollar_prefix. Qed.
Print Assumptions C37_literal_prefix.

(** Non-vacuity and the "never expanded again" reading on a concrete
    environment whose values are themselves references. *)
Theorem C37_example_not_reexpanded :
  let e := [(lit "A"%string, lit "$B${B}"%string); (lit "B"%string, lit "x"%string)] in
  is_name (lit "A"%string) /\
  expand e (lit "a: $A, ${A}, ${A:-d}, ${Z:-$B}, ${Z}, $Z."%string) = lit "a: $B${B}, $B${B}, $B${B}, $B, ${Z}, $Z."%string /\
  expand e (expand e (lit "$A"%string)) = lit "xx"%string /\ expand e (lit "$A"%string) <> lit "xx"%string.
Proof. exact example_not_reexpanded. Qed.
Print Assumptions C37_example_not_reexpanded.

(** The facts regenerated from config.go on this run are the model's. *)
Theorem C37_source_facts :
  gen_regex_source = model_regex_source /\
  gen_single_replace_pass = true /\
  gen_closure_reenters_expansion = false /\
  gen_default_separator = model_default_separator /\
  gen_default_skip = 2 /\
  gen_brace_prefix = model_brace_prefix /\
  gen_lookupenv_calls = 2 /\ gen_getenv_calls = 0 /\
  gen_expansion_call_sites = ["Parse:expandEnvVars"]%string /\
  gen_load_hands_file_bytes_to_parse = true.
Proof. repeat split; reflexivity. Qed.
Print Assumptions C37_source_facts.
