(** C39 — control responses reach only the agent that asked. *)
From Coq Require Import List NArith Bool.
From MM Require Import Model.Relay Model.Control Model.ControlPreFix Proofs.ControlProofs Proofs.ControlPreFixProofs Generated.C39.
Import ListNotations.
Local Open Scope N_scope.

(** Along every run (any requests from anybody with any ids, own requests,
    answers, cancellations, connects, disconnects, failing sends) every id in
    use was handed out by the agent's own counter and no id is used both for
    an own request and for a forwarded one. *)
Theorem C39_run_invariant : forall evs me, cinv (crun_state (cinit me) evs).
Proof. exact crun_inv_init. Qed.
Print Assumptions C39_run_invariant.

(** The id under which a request is forwarded is new: no own request and no
    other forwarded request is outstanding under it; the entry records the
    requester and the requester's id. *)
Theorem C39_forwarded_id_is_fresh : forall s from id target path tag h fid rest,
  cinv s ->
  out_of (cstep s (CReq from id target path tag)) = [(h, MReq fid target rest tag)] ->
  ~ In fid (c_pending s) /\ mget fid (c_fwd s) = None /\
  mget fid (c_fwd (st_of (cstep s (CReq from id target path tag)))) = Some (from, id).
Proof. exact forwarded_id_is_fresh. Qed.
Print Assumptions C39_forwarded_id_is_fresh.

Theorem C39_own_id_is_fresh : forall s target tag id,
  cinv s -> id <> 0 ->
  snd (cstep s (COriginate target tag)) = id ->
  ~ In id (c_pending s) /\ mget id (c_fwd s) = None /\ In id (c_pending (st_of (cstep s (COriginate target tag)))).
Proof. exact own_id_is_fresh. Qed.
Print Assumptions C39_own_id_is_fresh.

(** A request of [src] with id [oid] is forwarded under [fid]; whatever
    happens in between (as long as nothing answers [fid]) the answer under
    [fid] is sent to [src] with id [oid], to nobody else and to no local caller. *)
Theorem C39_request_response_roundtrip : forall evs0 me src oid target path tag h fid rest evs from rtag,
  let s0 := crun_state (cinit me) evs0 in
  out_of (cstep s0 (CReq src oid target path tag)) = [(h, MReq fid target rest tag)] ->
  (forall f t, ~ In (CResp f fid t) evs) ->
  let s2 := crun_state (st_of (cstep s0 (CReq src oid target path tag))) evs in
  out_of (cstep s2 (CResp from fid rtag)) = cemit (st_of (cstep s2 (CResp from fid rtag))) src (MResp oid true rtag) /\
  deliv_of (cstep s2 (CResp from fid rtag)) = [].
Proof. exact request_response_roundtrip. Qed.
Print Assumptions C39_request_response_roundtrip.

(** The answer under an own id is handed to the local caller and forwarded to nobody. *)
Theorem C39_response_to_own_caller : forall s from id tag,
  cinv s -> In id (c_pending s) ->
  out_of (cstep s (CResp from id tag)) = [] /\ deliv_of (cstep s (CResp from id tag)) = [(id, tag)].
Proof. exact response_to_own_caller. Qed.
Print Assumptions C39_response_to_own_caller.

(** Two hops as one statement: [src] asks through transit [a], which forwards
    to transit [b] (the frame [a] emits is the request event [b] handles),
    which forwards on.  Whatever both transits do in between, the answer that
    reaches [b] under [b]'s id goes to [a] under [a]'s id and to nobody else,
    and that frame, handled by [a], goes to [src] under [src]'s own id and to
    nobody else; no local caller of either transit sees it. *)
Theorem C39_two_hop_roundtrip :
  forall evsA0 a evsB0 b src oid target pathA tag fa restA h fb restB evsA evsB from rtag,
  let sA0 := crun_state (cinit a) evsA0 in
  let sB0 := crun_state (cinit b) evsB0 in
  out_of (cstep sA0 (CReq src oid target pathA tag)) = [(b, MReq fa target restA tag)] ->
  out_of (cstep sB0 (CReq a fa target restA tag)) = [(h, MReq fb target restB tag)] ->
  (forall f t, ~ In (CResp f fa t) evsA) ->
  (forall f t, ~ In (CResp f fb t) evsB) ->
  let sA2 := crun_state (st_of (cstep sA0 (CReq src oid target pathA tag))) evsA in
  let sB2 := crun_state (st_of (cstep sB0 (CReq a fa target restA tag))) evsB in
  let rB := cstep sB2 (CResp from fb rtag) in
  let rA := cstep sA2 (CResp b fa rtag) in
  (out_of rB = cemit (st_of rB) a (MResp fa true rtag) /\ deliv_of rB = []) /\
  (out_of rA = cemit (st_of rA) src (MResp oid true rtag) /\ deliv_of rA = []).
Proof. exact two_hop_roundtrip. Qed.
Print Assumptions C39_two_hop_roundtrip.

(** ... and its premises are satisfiable: 1 asks 4 through transits 9 and 8. *)
Theorem C39_two_hop_example :
  let sA0 := crun_state (cinit 9) [CConnect 1; CConnect 8; COriginate 8 5] in
  let sB0 := crun_state (cinit 8) [CConnect 9; CConnect 4] in
  out_of (cstep sA0 (CReq 1 7 4 [8; 4] 11)) = [(8, MReq 2 4 [4] 11)] /\
  out_of (cstep sB0 (CReq 9 2 4 [4] 11)) = [(4, MReq 1 4 [] 11)] /\
  out_of (cstep (st_of (cstep sB0 (CReq 9 2 4 [4] 11))) (CResp 4 1 99)) = [(9, MResp 2 true 99)] /\
  out_of (cstep (st_of (cstep sA0 (CReq 1 7 4 [8; 4] 11))) (CResp 8 2 99)) = [(1, MResp 7 true 99)].
Proof. exact two_hop_example. Qed.
Print Assumptions C39_two_hop_example.

(** Chains of any length: if the request of [src] is forwarded hop after hop
    ([chain]: each hop's emitted frame is addressed to the next hop and is the
    request event that hop handles; in between each hop does anything except
    receive an answer under its forwarding id), then at every hop the answer
    goes to the previous hop - at the first hop to [src] - under that one's
    own id, to nobody else and to no local caller ([answers]). *)
Theorem C39_chain_answers : forall src oid target path tag hops rtag,
  chain src oid target path tag hops -> answers src oid target path tag rtag hops.
Proof. exact chain_answers. Qed.
Print Assumptions C39_chain_answers.

(** ... and a three-transit chain exists (1 asks 4 through 9, 8 and 7, each
    transit with its own unrelated requests in between). *)
Theorem C39_three_hop_chain : chain 1 7 4 [8; 7; 4] 11 [hop9; hop8; hop7].
Proof. exact three_hop_chain. Qed.
Print Assumptions C39_three_hop_chain.

(** The 64-bit counter.  nextControlID is a Go uint64; the model's counter is
    an unbounded N.  Along every run of fewer than 2^64 events the counter
    never wraps (its value mod 2^64 is its value) and every id in use - own
    or forwarded - is below 2^64, so the model and a wrapping counter agree
    on every such run. *)
Theorem C39_counter_fits_uint64 : forall evs me,
  N.of_nat (length evs) < 2 ^ 64 ->
  let s := crun_state (cinit me) evs in
  c_next s mod 2 ^ 64 = c_next s /\
  (forall id, In id (c_pending s) -> id < 2 ^ 64) /\
  (forall id v, mget id (c_fwd s) = Some v -> id < 2 ^ 64).
Proof. exact counter_fits_uint64. Qed.
Print Assumptions C39_counter_fits_uint64.

(** Every id handed out - to a forwarded request or to an own one - is the
    successor of the counter: never the reserved value 0. *)
Theorem C39_allocated_ids_are_counter_successors : forall s from id target path tag h fid rest target' tag',
  (out_of (cstep s (CReq from id target path tag)) = [(h, MReq fid target rest tag)] -> fid = c_next s + 1) /\
  (snd (cstep s (COriginate target' tag')) <> 0 -> snd (cstep s (COriginate target' tag')) = c_next s + 1).
Proof. exact allocated_ids_nonzero. Qed.
Print Assumptions C39_allocated_ids_are_counter_successors.

(** Non-vacuity: the two scenarios that broke the pre-fix code now deliver
    every answer to its requester. *)
Theorem C39_shared_transit_correct :
  map fst (snd (crun (cinit 9) shared_transit)) =
  [[]; []; []; [];
   [(3, MReq 1 3 [] 11)];
   [(4, MReq 2 4 [] 22)];
   [(1, MResp 1 true 3000011)];
   [(2, MResp 1 true 4000022)]].
Proof. exact shared_transit_correct. Qed.
Print Assumptions C39_shared_transit_correct.

Theorem C39_origin_and_relay_correct :
  snd (crun (cinit 9) origin_and_relay) =
  [([], []); ([], []); ([], []); ([], []);
   ([(3, MReq 1 3 [] 33)], []);
   ([(4, MReq 2 4 [] 44)], []);
   ([(1, MResp 1 true 4000044)], []);
   ([], [(1, 3000033)])].
Proof. exact origin_and_relay_correct. Qed.
Print Assumptions C39_origin_and_relay_correct.

(** What the pre-fix code did (forwardedControl keyed by the requester's id). *)
Theorem C39_refuted_shared_transit_pre_fix :
  map fst (snd (PreFix.crun (PreFix.cinit 9) PreFixProofs.shared_transit)) =
  [[]; []; []; [];
   [(3, PreFix.MReq 1 3 [] 11)];
   [(4, PreFix.MReq 1 4 [] 22)];
   [(2, PreFix.MResp 1 true 3000011)];
   []].
Proof. exact PreFixProofs.shared_transit_outputs. Qed.
Print Assumptions C39_refuted_shared_transit_pre_fix.

Theorem C39_refuted_origin_and_relay_pre_fix :
  snd (PreFix.crun (PreFix.cinit 9) PreFixProofs.origin_and_relay) =
  [([], []); ([], []); ([], []); ([], []);
   ([(3, PreFix.MReq 1 3 [] 33)], []);
   ([(4, PreFix.MReq 1 4 [] 44)], []);
   ([], [(1, 4000044)]);
   ([], [])].
Proof. exact PreFixProofs.origin_and_relay_outputs. Qed.
Print Assumptions C39_refuted_origin_and_relay_pre_fix.

(** The facts regenerated from the source on this run are the model's. *)
Theorem C39_source_facts :
  gen_forward_id_from_own_counter = true /\
  gen_forward_entry_stored_under_that_id = true /\
  gen_forward_entry_keeps_requester_id_and_peer = true /\
  gen_forwarded_request_carries_that_id = true /\
  gen_forward_failure_deletes_that_id = true /\
  gen_response_restores_requester_id = true /\
  gen_own_ids_from_same_counter = true /\
  gen_response_checks_pending_before_forwarded = true /\
  (* every reply the agent itself sends to a requester carries the requester's id *)
  gen_replies_to_requester_use_its_id = true /\
  (* payloads are values: the encoders of the control frames return freshly
     allocated buffers (no pooled or shared buffer escapes), so a frame that
     waits for a busy link cannot be rewritten by another handler - this is
     what lets [cstep] treat MReq / MResp as immutable messages *)
  gen_control_request_encode_returns_fresh_buffer = true /\
  gen_control_response_encode_returns_fresh_buffer = true /\
  gen_protocol_package_has_no_buffer_pool = true /\
  (* the id space is never restarted (no event of [cstep], and no sleep / wake
     cycle of the agent, lowers c_next or empties the maps) *)
  gen_control_counter_only_incremented = true /\ gen_control_maps_created_once = true /\
  (* the agent's own replies all come from the request handler, and go to the
     requester's own link only *)
  gen_all_own_replies_come_from_the_request_handler = true /\
  gen_own_reply_sent_to_the_requester_link_only = true.
Proof. repeat split; reflexivity. Qed.
Print Assumptions C39_source_facts.
