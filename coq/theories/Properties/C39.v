(** C39 — control responses reach only the agent that asked. *)
From Coq Require Import List NArith Bool.
From MM Require Import Model.Relay Model.Control Proofs.ControlProofs.
Import ListNotations.
Local Open Scope N_scope.

(** Two requesters send request id 1 through one transit: the answer of the
    first target goes to the second requester, the other answer is dropped. *)
Theorem C39_refuted_shared_transit :
  map fst (snd (crun (cinit 9) shared_transit)) =
  [[]; []; []; [];
   [(3, MReq 1 3 [] 11)];
   [(4, MReq 1 4 [] 22)];
   [(2, MResp 1 true 3000011)];
   []].
Proof. exact shared_transit_outputs. Qed.
Print Assumptions C39_refuted_shared_transit.

(** A transit that has its own request id 1 pending consumes the answer to a
    request id 1 it relays. *)
Theorem C39_refuted_origin_and_relay :
  snd (crun (cinit 9) origin_and_relay) =
  [([], []); ([], []); ([], []); ([], []);
   ([(3, MReq 1 3 [] 33)], []);
   ([(4, MReq 1 4 [] 44)], []);
   ([], [(1, 4000044)]);
   ([], [])].
Proof. exact origin_and_relay_outputs. Qed.
Print Assumptions C39_refuted_origin_and_relay.
