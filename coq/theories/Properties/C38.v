(** C38 — stream identifiers are unique per connection and parity-separated by role. *)
From Coq Require Import List NArith.
From MM Require Import Model.StreamID Proofs.StreamIDProofs Generated.C38.
Import ListNotations.
Local Open Scope N_scope.

(** Every schedule of allocations on the two ends of one connection, with at
    most 2^63-1 allocations per end (each allocation is one atomic add, so a
    schedule is a list of which end goes next): all identifiers are nonzero,
    odd on the dialing end, even on the accepting end, pairwise distinct per
    end and disjoint across the two ends. *)
Theorem C38_stream_ids : forall tr : list side,
  count_side Dialer tr <= limit ->
  count_side Acceptor tr <= limit ->
  let out := run init tr in
  (forall s id, In (s, id) out ->
      id <> 0 /\ id < two64 /\
      (s = Dialer -> N.odd id = true) /\ (s = Acceptor -> N.even id = true)) /\
  NoDup (ids_of Dialer out) /\
  NoDup (ids_of Acceptor out) /\
  (forall id, In id (ids_of Dialer out) -> ~ In id (ids_of Acceptor out)).
Proof. exact stream_ids_unique_and_parity_separated. Qed.
Print Assumptions C38_stream_ids.

(** The bound is tight, and says so: started two allocations before the end of
    the 64-bit range, the accepting end hands out 2^64-2 and then wraps to the
    reserved identifier 0 - the 2^63-th allocation of that end is the first
    one outside the theorem above (the harness drives the real allocator to
    the same point through the VerifSetNext hook). *)
Theorem C38_bound_is_tight : allocs 2 (two64 - 2) = [two64 - 2; 0].
Proof. exact acceptor_wraps_to_zero. Qed.
Print Assumptions C38_bound_is_tight.

(** The facts regenerated from the source on this run are the model's. *)
Theorem C38_source_facts :
  gen_start_dialer = start Dialer /\ gen_start_acceptor = start Acceptor /\
  gen_delta = delta /\ gen_next_is_single_atomic_add = true /\ gen_return_adjust = delta /\
  gen_conn_alloc_in_constructor = true /\ gen_conn_next_delegates = true /\
  gen_conn_alloc_reassigned = false.
Proof. repeat split; reflexivity. Qed.
Print Assumptions C38_source_facts.
