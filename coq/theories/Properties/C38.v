(** C38 — stream identifiers are unique per connection and parity-separated by role. *)
From Coq Require Import List NArith.
From MM Require Import Model.StreamID Proofs.StreamIDProofs Generated.C38.
Import ListNotations.
Local Open Scope N_scope.

(** Every schedule of allocations on the two ends of one connection, with at
    most 2^63-1 allocations per end (each allocation is one atomic add, so a
    schedule is a list of which end goes next): all identifiers are nonzero,
    odd on the dialing end, even on the accepting end, pairwise distinct per
    end and disjoint across the two ends. *)
Theorem C38_stream_ids : forall tr : list side,
  count_side Dialer tr <= limit ->
  count_side Acceptor tr <= limit ->
  let out := run init tr in
  (forall s id, In (s, id) out ->
      id <> 0 /\ id < two64 /\
      (s = Dialer -> N.odd id = true) /\ (s = Acceptor -> N.even id = true)) /\
  NoDup (ids_of Dialer out) /\
  NoDup (ids_of Acceptor out) /\
  (forall id, In id (ids_of Dialer out) -> ~ In id (ids_of Acceptor out)).
Proof. exact stream_ids_unique_and_parity_separated. Qed.
Print Assumptions C38_stream_ids.

(** The facts regenerated from the source on this run are the model's. *)
Theorem C38_source_facts :
  gen_start_dialer = start Dialer /\ gen_start_acceptor = start Acceptor /\
  gen_delta = delta /\ gen_next_is_single_atomic_add = true /\ gen_return_adjust = delta /\
  gen_conn_alloc_in_constructor = true /\ gen_conn_next_delegates = true /\
  gen_conn_alloc_reassigned = false.
Proof. repeat split; reflexivity. Qed.
Print Assumptions C38_source_facts.
