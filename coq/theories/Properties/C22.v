(** C22 — SOCKS5 UDP associations relay only for their own client. *)
From Coq Require Import List NArith.
From MM Require Import Model.UdpAssoc Proofs.UdpAssocProofs Generated.C22.
Import ListNotations.
Local Open Scope N_scope.

(** For every association whose owner is known (the UDP ASSOCIATE request
    named an address, or the control connection is a TCP connection) and for
    EVERY arrival sequence of datagrams from arbitrary senders interleaved
    with replies from the mesh: a datagram is relayed only if it comes from
    the owner's address, every reply goes to the owner's address, and a
    well-formed datagram from the owner is relayed. *)
Theorem C22_only_owner_served : forall (a : assoc) (o : N) (evs : list event),
  the_owner a = Some o ->
  Forall2 (respects o) evs (run a evs) /\ Forall2 (serves o) evs (run a evs).
Proof. exact only_owner_served. Qed.
Print Assumptions C22_only_owner_served.

(** Owner unknown (no address in the request and a control connection that
    has no TCP peer address, i.e. SOCKS5 over WebSocket): the first sender is
    trusted and from then on only its address is relayed and replied to.
    This is all that can hold when nothing identifies the client. *)
Theorem C22_unknown_owner_first_sender_only_partial : forall a evs f,
  the_owner a = None -> first_sender evs = Some f ->
  Forall2 (respects (fst f)) evs (run a evs).
Proof. exact unknown_owner_first_sender_only. Qed.
Print Assumptions C22_unknown_owner_first_sender_only_partial.

(** The code before the fix. Without an address in the request every sender
    is relayed: *)
Theorem C22_refuted_no_expected_pre_fix :
  exists a o evs, the_owner a = Some o /\ ~ Forall2 (respects o) evs (run_pre_fix a evs).
Proof.
  exists (mkAssoc None (Some ip1)), ip1, [EvDgram (ip1, 40000) true; EvDgram (ip2, 40001) true].
  destruct pre_fix_relays_strangers as (H1 & _ & H3). split; assumption.
Qed.
Print Assumptions C22_refuted_no_expected_pre_fix.

(** ... and even with one, a stranger who sends first receives the replies: *)
Theorem C22_refuted_hijack_pre_fix :
  exists a o evs stranger,
    the_owner a = Some o /\ a_expected a = Some o /\ fst stranger <> o /\
    In (ObsReplyTo (Some stranger)) (run_pre_fix a evs).
Proof.
  exists (mkAssoc (Some ip1) (Some ip1)), ip1,
         [EvDgram (ip3, 50000) true; EvDgram (ip1, 40000) true; EvReply], (ip3, 50000).
  repeat split; try reflexivity.
  - cbn. discriminate.
  - vm_compute. right. right. left. reflexivity.
Qed.
Print Assumptions C22_refuted_hijack_pre_fix.

(** the repaired code on the two witnesses (also non-vacuity: the owner is served) *)
Theorem C22_fixed_on_witnesses :
  run (mkAssoc None (Some ip1)) [EvDgram (ip1, 40000) true; EvDgram (ip2, 40001) true]
    = [ObsRelayed true; ObsRelayed false] /\
  run (mkAssoc (Some ip1) (Some ip1)) [EvDgram (ip3, 50000) true; EvDgram (ip1, 40000) true; EvReply]
    = [ObsRelayed false; ObsRelayed true; ObsReplyTo (Some (ip1, 40000))].
Proof. exact fixed_on_the_witnesses. Qed.
Print Assumptions C22_fixed_on_witnesses.

(** The order of filter and recording, who the owner is and where replies go,
    regenerated from the source on this run, are the model's. *)
Theorem C22_source_facts :
  gen_filter_precedes_recording_the_client = true /\
  gen_filter_compares_with_owner = true /\
  gen_client_recorded_in_one_place = true /\
  gen_owner_is_expected_then_control_peer_then_first_sender = true /\
  gen_replies_go_to_recorded_client = true /\
  gen_expected_set_only_for_specified_request_address = true /\
  gen_association_gets_control_connection = true /\
  gen_request_address_bytes_are_not_shared = true /\
  gen_read_loop_relays_synchronously = true /\
  gen_agent_relay_keeps_no_reference_to_the_datagram = true.
Proof. repeat split; reflexivity. Qed.
Print Assumptions C22_source_facts.
