(** Concrete instances for C01/C02: the hypotheses of the main theorems are
    satisfiable (non-vacuity), and the Decrypt function as it was before the
    fixes violates the property (witnesses replayed on the real code by
    harness/cmd/c01). The AEAD here is the symbolic one of Model.Session. *)
From Coq Require Import List Bool NArith ZArith Lia.
From Coq.Strings Require Import Byte.
From MM Require Import Lib.Bytes Model.Session Proofs.SessionProofs.
Import ListNotations.
Local Open Scope N_scope.

Lemma toy_seal_open : forall n p, toy_open n (toy_seal n p) = Some p.
Proof. intros n [pid len]. unfold toy_open, toy_seal. cbn [fst snd]. rewrite bytes_eqb_refl. reflexivity. Qed.

(** INT-CTXT holds for the symbolic AEAD exactly when every delivered body
    that opens is in the log; decidable: *)
Definition tbody_eqb (a b : tbody) : bool :=
  match a, b with
  | TSealed n p l, TSealed n' p' l' => bytes_eqb n n' && N.eqb p p' && N.eqb l l'
  | TGarbage, TGarbage => true
  | _, _ => false
  end.

Lemma tbody_eqb_eq : forall a b, tbody_eqb a b = true -> a = b.
Proof.
  intros [n p l|] [n' p' l'|]; cbn; intros H; try discriminate; try reflexivity.
  apply andb_prop in H. destruct H as [H H3]. apply andb_prop in H. destruct H as [H1 H2].
  apply bytes_eqb_eq in H1. apply N.eqb_eq in H2. apply N.eqb_eq in H3. congruence.
Qed.

Section Checker.
  Variable dec : side -> sess -> tframe -> sess * result tptext.

  Fixpoint intctxt_b (y : sys tptext tbody) (evs : list tevent) : bool :=
    match evs with
    | [] => true
    | ev :: rest =>
        match ev with
        | EDeliver _ _ _ f =>
            match toy_open (f_nonce _ f) (f_body _ f) with
            | None => true
            | Some _ => existsb (fun e => bytes_eqb (e_nonce _ _ e) (f_nonce _ f) && tbody_eqb (e_body _ _ e) (f_body _ f))
                                (sent_rev _ _ y)
            end
        | EEnc _ _ _ _ => true
        end && intctxt_b (fst (tstep dec y ev)) rest
    end.

  Lemma intctxt_b_sound : forall evs y,
    intctxt_b y evs = true -> intctxt tptext tbody toy_plen toy_seal toy_open dec y evs.
  Proof.
    induction evs as [|ev evs IH]; intros y H; [exact I|].
    cbn [intctxt_b] in H. apply andb_prop in H. destruct H as [H1 H2].
    cbn [intctxt]. split; [|apply IH; exact H2].
    destruct ev as [s p|to f]; [exact I|].
    intros p Hp. rewrite Hp in H1. apply existsb_exists in H1. destruct H1 as (e & Hin & He).
    apply andb_prop in He. destruct He as [He1 He2].
    apply bytes_eqb_eq in He1. apply tbody_eqb_eq in He2. exists e. auto.
  Qed.
End Checker.

(** frames used below *)
Definition genuine (s : side) (ctr pid len : N) : tframe :=
  {| f_len := overhead + len; f_nonce := build_nonce (send_prefix s) ctr;
     f_body := TSealed (build_nonce (send_prefix s) ctr) pid len |}.

Definition forged (s : side) (ctr : N) : tframe :=
  {| f_len := 40; f_nonce := build_nonce (send_prefix s) ctr; f_body := TGarbage |}.

Definition item (s : side) (ctr pid len : N) : accepted tptext tbody :=
  {| a_nonce := build_nonce (send_prefix s) ctr; a_body := TSealed (build_nonce (send_prefix s) ctr) pid len; a_plain := (pid, len) |}.

(** ** Non-vacuity of the C01 theorem: a trace with replays, a reflection, a
    forgery with counter 2^64-1, a tampered frame and a dropped frame
    satisfies the hypotheses, and both ends do accept something. *)
Definition example_trace : list tevent :=
  [ EEnc _ _ Ini (0, 5); EEnc _ _ Res (1, 0); EEnc _ _ Ini (2, 3); EEnc _ _ Ini (3, 1);
    EDeliver _ _ Res (genuine Ini 0 0 5);          (* accepted *)
    EDeliver _ _ Res (genuine Ini 0 0 5);          (* replay: rejected *)
    EDeliver _ _ Ini (genuine Ini 0 0 5);          (* reflection: rejected *)
    EDeliver _ _ Res (forged Ini max64);           (* forgery: rejected, window untouched *)
    EDeliver _ _ Res {| f_len := 31; f_nonce := build_nonce (send_prefix Ini) 1; f_body := TGarbage |};  (* tampered frame 1 *)
    EDeliver _ _ Res (genuine Ini 2 3 1);          (* frame 1 dropped, frame 2 accepted *)
    EDeliver _ _ Res (genuine Ini 1 2 3);          (* late frame 1: rejected *)
    EDeliver _ _ Ini (genuine Res 0 1 0) ].        (* accepted *)

Example example_trace_hypotheses :
  intctxt tptext tbody toy_plen toy_seal toy_open tdecrypt tinit example_trace /\
  enc_count _ _ Ini example_trace <= two64 /\ enc_count _ _ Res example_trace <= two64.
Proof.
  split; [apply intctxt_b_sound; vm_compute; reflexivity|]. split; vm_compute; discriminate.
Qed.

Example example_trace_accepts :
  accepted_by _ _ Res (texec tdecrypt tinit example_trace) = [item Ini 0 0 5; item Ini 2 3 1] /\
  accepted_by _ _ Ini (texec tdecrypt tinit example_trace) = [item Res 0 1 0] /\
  sent_by _ _ Ini (texec tdecrypt tinit example_trace) = [item Ini 0 0 5; item Ini 1 2 3; item Ini 2 3 1].
Proof. vm_compute. repeat split; reflexivity. Qed.

Example example_trace_outputs :
  map (fun o => match o with OutResult _ _ r => Some r | OutFrame _ _ _ => None end)
      (toutputs tdecrypt tinit example_trace) =
  [ None; None; None; None;
    Some (Accept (0, 5)); Some RejOld; Some RejDir; Some RejExhausted; Some RejAuth;
    Some (Accept (3, 1)); Some RejOld; Some (Accept (1, 0)) ].
Proof. vm_compute. reflexivity. Qed.

(** ** The Decrypt function before the fixes violates the property *)

(** reflection: an endpoint accepts its own ciphertext *)
Definition reflect_trace : list tevent :=
  [ EEnc _ _ Ini (0, 9); EDeliver _ _ Ini (genuine Ini 0 0 9) ].

Lemma refuted_reflect_pre_fix :
  exists evs,
    intctxt tptext tbody toy_plen toy_seal toy_open tdecrypt_pre_fix tinit evs /\
    enc_count _ _ Ini evs <= two64 /\ enc_count _ _ Res evs <= two64 /\
    exists x, ~ subseq (accepted_by _ _ x (texec tdecrypt_pre_fix tinit evs))
                       (sent_by _ _ (other x) (texec tdecrypt_pre_fix tinit evs)).
Proof.
  exists reflect_trace. split; [apply intctxt_b_sound; vm_compute; reflexivity|].
  split; [vm_compute; discriminate|]. split; [vm_compute; discriminate|].
  exists Ini. intros H. apply subseq_length in H. vm_compute in H. lia.
Qed.

(** poisoning: a forged frame with counter 2^64-1 is rejected but wraps the
    window to 0, after which an old frame is accepted a second time *)
Definition poison_trace : list tevent :=
  [ EEnc _ _ Ini (0, 4); EEnc _ _ Ini (1, 4);
    EDeliver _ _ Res (genuine Ini 0 0 4); EDeliver _ _ Res (genuine Ini 1 1 4);
    EDeliver _ _ Res (forged Ini max64);
    EDeliver _ _ Res (genuine Ini 0 0 4) ].

Lemma refuted_poison_pre_fix :
  exists evs,
    intctxt tptext tbody toy_plen toy_seal toy_open tdecrypt_pre_fix tinit evs /\
    enc_count _ _ Ini evs <= two64 /\ enc_count _ _ Res evs <= two64 /\
    exists x, ~ subseq (accepted_by _ _ x (texec tdecrypt_pre_fix tinit evs))
                       (sent_by _ _ (other x) (texec tdecrypt_pre_fix tinit evs)).
Proof.
  exists poison_trace. split; [apply intctxt_b_sound; vm_compute; reflexivity|].
  split; [vm_compute; discriminate|]. split; [vm_compute; discriminate|].
  exists Res. intros H. apply subseq_length in H. vm_compute in H. lia.
Qed.

(** a rejected frame moves the window (here to 2^63+1, which blocks all genuine traffic) *)
Lemma refuted_reject_changes_state_pre_fix :
  exists s st f,
    is_accept _ (snd (tdecrypt_pre_fix s st f)) = false /\ fst (tdecrypt_pre_fix s st f) <> st /\
    (* ... and the genuine first frame of the peer is no longer accepted *)
    is_accept _ (snd (tdecrypt_pre_fix s st (genuine (other s) 0 0 4))) = true /\
    is_accept _ (snd (tdecrypt_pre_fix s (fst (tdecrypt_pre_fix s st f)) (genuine (other s) 0 0 4))) = false.
Proof.
  exists Res, sess0, (forged Ini 9223372036854775808). vm_compute. repeat split; try reflexivity. discriminate.
Qed.

(** the same three inputs on the repaired function *)
Example fixed_rejects_the_witnesses :
  accepted_by _ _ Ini (texec tdecrypt tinit reflect_trace) = [] /\
  accepted_by _ _ Res (texec tdecrypt tinit poison_trace) = [item Ini 0 0 4; item Ini 1 1 4] /\
  tdecrypt Res sess0 (forged Ini 9223372036854775808) = (sess0, RejAuth).
Proof. vm_compute. repeat split; reflexivity. Qed.

(** ** C02 non-vacuity: a mixed trace, and the nonces it uses *)
Example example_trace_nonces :
  nonces_used _ _ (texec tdecrypt tinit example_trace) =
    [ build_nonce (send_prefix Ini) 2; build_nonce (send_prefix Ini) 1;
      build_nonce (send_prefix Res) 0; build_nonce (send_prefix Ini) 0 ] /\
  build_nonce (send_prefix Ini) 0 = [x00; x00; x00; x00; x00; x00; x00; x00; x00; x00; x00; x00] /\
  build_nonce (send_prefix Res) 0 = [x80; x00; x00; x00; x00; x00; x00; x00; x00; x00; x00; x00].
Proof. vm_compute. repeat split; reflexivity. Qed.
