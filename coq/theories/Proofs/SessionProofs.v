(** Proofs about Model.Session (C01, C02). *)
From Coq Require Import List Bool NArith ZArith Lia ZifyN ZifyNat ZifyBool.
From Coq.Strings Require Import Byte.
From MM Require Import Lib.Bytes Model.Session.
Import ListNotations.
Local Open Scope N_scope.
Ltac Zify.zify_post_hook ::= Z.div_mod_to_equations.

(** ** Nonce layout *)

Lemma pow256_8 : 256 ^ N.of_nat 8 = two64.
Proof. reflexivity. Qed.

Lemma dir_byte_inj : forall a b, dir_byte a = dir_byte b -> a = b.
Proof. intros [] []; cbn; intros H; try reflexivity; discriminate. Qed.

Lemma send_prefix_inj : forall a b, send_prefix a = send_prefix b -> a = b.
Proof. intros a b H. unfold send_prefix in H. injection H as H. apply dir_byte_inj; exact H. Qed.

Lemma send_prefix_length : forall s, length (send_prefix s) = 4%nat.
Proof. reflexivity. Qed.

Lemma build_nonce_length : forall s c, length (build_nonce (send_prefix s) c) = 12%nat.
Proof. intros. unfold build_nonce. rewrite app_length, be_put_length. reflexivity. Qed.

Lemma build_nonce_prefix : forall s c, nonce_prefix (build_nonce (send_prefix s) c) = send_prefix s.
Proof. intros. reflexivity. Qed.

Lemma build_nonce_counter : forall s c, c < two64 -> nonce_counter (build_nonce (send_prefix s) c) = c.
Proof.
  intros s c H. unfold nonce_counter, build_nonce, send_prefix. cbn [app skipn].
  apply be_get_put. rewrite pow256_8. exact H.
Qed.

Lemma build_nonce_inj : forall s1 c1 s2 c2, c1 < two64 -> c2 < two64 ->
  build_nonce (send_prefix s1) c1 = build_nonce (send_prefix s2) c2 -> s1 = s2 /\ c1 = c2.
Proof.
  intros s1 c1 s2 c2 H1 H2 H. split.
  - apply send_prefix_inj. rewrite <- (build_nonce_prefix s1 c1), <- (build_nonce_prefix s2 c2), H. reflexivity.
  - rewrite <- (build_nonce_counter s1 c1 H1), <- (build_nonce_counter s2 c2 H2), H. reflexivity.
Qed.

Lemma send_recv_prefix_differ : forall s, send_prefix s <> recv_prefix s.
Proof. intros [] H; discriminate H. Qed.

(** ** subseq *)
Lemma subseq_refl : forall (A : Type) (l : list A), subseq l l.
Proof. induction l; constructor; assumption. Qed.

Lemma subseq_app_skip : forall (A : Type) (a l pre : list A), subseq a l -> subseq a (pre ++ l).
Proof. induction pre; intros H; cbn; [exact H|]. constructor. apply IHpre. exact H. Qed.

Lemma subseq_app : forall (A : Type) (a1 l1 a2 l2 : list A),
  subseq a1 l1 -> subseq a2 l2 -> subseq (a1 ++ a2) (l1 ++ l2).
Proof.
  intros A a1 l1 a2 l2 H1 H2. induction H1; cbn.
  - apply subseq_app_skip. exact H2.
  - constructor. exact IHsubseq.
  - constructor. exact IHsubseq.
Qed.

Lemma subseq_rev : forall (A : Type) (a l : list A), subseq a l -> subseq (rev a) (rev l).
Proof.
  intros A a l H. induction H; cbn.
  - constructor.
  - apply subseq_app; [exact IHsubseq|apply subseq_refl].
  - rewrite <- (app_nil_r (rev a)). apply subseq_app; [exact IHsubseq|constructor].
Qed.

Lemma subseq_map : forall (A B : Type) (g : A -> B) (a l : list A), subseq a l -> subseq (map g a) (map g l).
Proof. intros A B g a l H. induction H; cbn; constructor; assumption. Qed.

Lemma subseq_length : forall (A : Type) (a l : list A), subseq a l -> (length a <= length l)%nat.
Proof. intros A a l H. induction H; cbn; lia. Qed.

Lemma subseq_In : forall (A : Type) (a l : list A) x, subseq a l -> In x a -> In x l.
Proof.
  intros A a l x H. induction H; cbn; intros Hin.
  - contradiction.
  - destruct Hin as [->|Hin]; [left; reflexivity|right; apply IHsubseq; exact Hin].
  - right. apply IHsubseq. exact Hin.
Qed.

Section Proofs.
  Variable ptext : Type.
  Variable ctext : Type.
  Variable plen : ptext -> N.
  Variable seal : bytes -> ptext -> ctext.
  Variable open : bytes -> ctext -> option ptext.

  Notation frame := (frame ctext).
  Notation sys := (sys ptext ctext).
  Notation sent := (sent ptext ctext).
  Notation event := (event ptext ctext).
  Notation dec := (decrypt ptext ctext open).
  Notation step := (step ptext ctext plen seal dec).
  Notation exec := (exec ptext ctext plen seal dec).
  Notation outputs := (outputs ptext ctext plen seal dec).
  Notation st_of := (st_of ptext ctext).
  Notation set_st := (set_st ptext ctext).
  Notation init := (init ptext ctext).

  (** ** Decrypt, one call *)

  Lemma reject_leaves_state : forall (s : side) (st : sess) (f : frame),
    is_accept ptext (snd (dec s st f)) = false -> fst (dec s st f) = st.
  Proof.
    intros s st f. unfold decrypt.
    destruct (too_short ctext f); [reflexivity|].
    destruct (negb _); [reflexivity|].
    destruct (_ <? _); [reflexivity|].
    destruct (_ =? _); [reflexivity|].
    destruct (open _ _); cbn; [discriminate|reflexivity].
  Qed.

  (** what an Accept implies, spelled out *)
  Lemma accept_inv : forall s st f st' p,
    dec s st f = (st', Accept p) ->
    length (f_nonce ctext f) = 12%nat /\ overhead <= f_len ctext f /\
    nonce_prefix (f_nonce ctext f) = recv_prefix s /\
    s_recv st <= nonce_counter (f_nonce ctext f) /\ nonce_counter (f_nonce ctext f) < max64 /\
    open (f_nonce ctext f) (f_body ctext f) = Some p /\
    st' = {| s_send := s_send st; s_recv := nonce_counter (f_nonce ctext f) + 1 |}.
  Proof.
    intros s st f st' p. unfold decrypt, too_short.
    destruct (f_len ctext f <? overhead) eqn:E0; cbn [orb]; [discriminate|].
    destruct (Nat.eqb (length (f_nonce ctext f)) 12) eqn:E1; cbn [negb]; [|discriminate].
    destruct (bytes_eqb _ _) eqn:E2; cbn [negb]; [|discriminate].
    destruct (_ <? s_recv st) eqn:E3; [discriminate|].
    destruct (_ =? max64) eqn:E4; [discriminate|].
    destruct (open _ _) as [q|] eqn:E5; [|discriminate].
    intros H. injection H as <- <-.
    apply Nat.eqb_eq in E1. apply bytes_eqb_eq in E2.
    assert (Hb : nonce_counter (f_nonce ctext f) < two64).
    { unfold nonce_counter. pose proof (be_get_bound (skipn 4 (f_nonce ctext f))) as Hb.
      rewrite skipn_length, E1 in Hb. exact Hb. }
    unfold max64, two64 in *.
    repeat split; try assumption; try lia.
    f_equal. rewrite N.mod_small; lia.
  Qed.

  (** a genuine next frame is accepted (the checks do not reject everything) *)
  Lemma genuine_frame_accepted : forall (seal_open : forall n p, open n (seal n p) = Some p)
      s st_sender st p,
    s_send st_sender < max64 -> s_recv st <= s_send st_sender ->
    dec (other s) st (snd (encrypt ptext ctext plen seal s st_sender p))
      = ({| s_send := s_send st; s_recv := s_send st_sender + 1 |}, Accept p).
  Proof.
    intros seal_open s ss st p Hlt Hle. unfold encrypt, decrypt, too_short. cbn [snd f_len f_nonce f_body].
    rewrite build_nonce_length. cbn [Nat.eqb negb orb].
    replace (overhead + plen p <? overhead) with false by (symmetry; apply N.ltb_ge; lia).
    cbn [orb]. rewrite build_nonce_prefix.
    replace (bytes_eqb (send_prefix s) (recv_prefix (other s))) with true
      by (symmetry; apply bytes_eqb_eq; destruct s; reflexivity).
    cbn [negb]. unfold max64, two64 in *. rewrite build_nonce_counter by (unfold two64; lia).
    replace (s_send ss <? s_recv st) with false by (symmetry; apply N.ltb_ge; lia).
    replace (s_send ss =? 18446744073709551615) with false by (symmetry; apply N.eqb_neq; lia).
    rewrite seal_open. f_equal. f_equal. unfold two64. rewrite N.mod_small; lia.
  Qed.

  (** Decrypt as the Go code runs it: a first locked region that only reads
      the window, the AEAD open outside the lock, and a second locked region
      that re-checks and advances.  [recv1] is the counter seen by the first
      region, [st2] the state when the second region runs. *)
  Definition decrypt_two_phase (s : side) (recv1 : N) (st2 : sess) (f : frame) : sess * result ptext :=
    if too_short ctext f then (st2, RejShort) else
    let ctr := nonce_counter (f_nonce ctext f) in
    if negb (bytes_eqb (nonce_prefix (f_nonce ctext f)) (recv_prefix s)) then (st2, RejDir) else
    if ctr <? recv1 then (st2, RejOld) else
    if ctr =? max64 then (st2, RejExhausted) else
    match open (f_nonce ctext f) (f_body ctext f) with
    | None => (st2, RejAuth)
    | Some p =>
        if ctr <? s_recv st2 then (st2, RejOld)
        else ({| s_send := s_send st2; s_recv := (ctr + 1) mod two64 |}, Accept p)
    end.

  (** Because the window only grows between the two regions, the call behaves
      exactly like the atomic [decrypt] executed when the second region runs. *)
  Lemma decrypt_two_phase_linearises : forall s recv1 st2 f,
    recv1 <= s_recv st2 ->
    decrypt_two_phase s recv1 st2 f = dec s st2 f \/
    (fst (decrypt_two_phase s recv1 st2 f) = st2 /\
     is_accept ptext (snd (decrypt_two_phase s recv1 st2 f)) = false /\
     snd (decrypt_two_phase s recv1 st2 f) = snd (dec s {| s_send := s_send st2; s_recv := recv1 |} f)).
  Proof.
    intros s recv1 st2 f Hle. unfold decrypt_two_phase, decrypt. cbn [s_recv s_send].
    destruct (too_short ctext f); [left; reflexivity|].
    destruct (negb _); [left; reflexivity|].
    destruct (nonce_counter (f_nonce ctext f) <? recv1) eqn:E1.
    - left. replace (nonce_counter (f_nonce ctext f) <? s_recv st2) with true; [reflexivity|].
      symmetry. apply N.ltb_lt. apply N.ltb_lt in E1. lia.
    - destruct (_ =? max64) eqn:E2.
      + destruct (nonce_counter (f_nonce ctext f) <? s_recv st2); [|left; reflexivity].
        right. cbn. repeat split; reflexivity.
      + destruct (open _ _) eqn:E3.
        * left. destruct (nonce_counter (f_nonce ctext f) <? s_recv st2); reflexivity.
        * destruct (nonce_counter (f_nonce ctext f) <? s_recv st2); [|left; reflexivity].
          right. cbn. repeat split; reflexivity.
  Qed.

  (** ** Traces *)

  Definition side_log (s : side) (y : sys) : list sent :=
    filter (fun e => side_eqb (e_side _ _ e) s) (sent_rev _ _ y).

  Definition cnt (s : side) (y : sys) : N := N.of_nat (length (side_log s y)).

  (** newest-first log whose entries carry their own position as counter *)
  Fixpoint indexed (l : list sent) : Prop :=
    match l with
    | [] => True
    | x :: b => e_ctr _ _ x = N.of_nat (length b) /\ indexed b
    end.

  Lemma indexed_app : forall a l, indexed (a ++ l) -> indexed l.
  Proof. induction a; cbn; intros l H; [exact H|]. apply IHa. apply H. Qed.

  Lemma indexed_lt : forall l e, indexed l -> In e l -> e_ctr _ _ e < N.of_nat (length l).
  Proof.
    induction l as [|x l IH]; cbn [In indexed length]; intros e Hi Hin; [contradiction|].
    destruct Hi as [Hx Hi]. destruct Hin as [->|Hin].
    - lia.
    - specialize (IH e Hi Hin). lia.
  Qed.

  (** an entry whose counter is at least |l1| sits in the newer part l2 *)
  Lemma indexed_locate : forall l2 l1 e, indexed (l2 ++ l1) -> In e (l2 ++ l1) ->
    N.of_nat (length l1) <= e_ctr _ _ e ->
    exists a b, l2 = a ++ e :: b /\ e_ctr _ _ e = N.of_nat (length (b ++ l1)).
  Proof.
    induction l2 as [|x l2 IH]; intros l1 e Hi Hin Hge.
    - cbn in *. pose proof (indexed_lt l1 e Hi Hin). lia.
    - cbn [app] in Hi, Hin. destruct Hi as [Hx Hi]. destruct Hin as [->|Hin].
      + exists [], l2. split; [reflexivity|exact Hx].
      + destruct (IH l1 e Hi Hin Hge) as (a & b & -> & Hc).
        exists (x :: a), b. split; [reflexivity|exact Hc].
  Qed.

  Definition wf_entry (e : sent) : Prop :=
    e_nonce _ _ e = build_nonce (send_prefix (e_side _ _ e)) (e_ctr _ _ e) /\
    e_body _ _ e = seal (e_nonce _ _ e) (e_plain _ _ e) /\
    e_ctr _ _ e < two64.

  (** the invariant; [bi], [br] = number of Encrypt calls still to come *)
  Record inv (y : sys) : Prop := {
    inv_send : forall s, s_send (st_of y s) = cnt s y mod two64;
    inv_wf : forall e, In e (sent_rev _ _ y) -> wf_entry e;
    inv_idx : forall s, indexed (side_log s y);
    inv_win : forall x, exists l2 l1,
        side_log (other x) y = l2 ++ l1 /\
        N.of_nat (length l1) = s_recv (st_of y x) /\
        subseq (acc_rev_of _ _ y x) (map (sent_item _ _) l1) }.

  Lemma inv_init : inv init.
  Proof.
    constructor.
    - intros []; reflexivity.
    - intros e [].
    - intros []; exact I.
    - intros x. exists [], []. destruct x; repeat split; constructor.
  Qed.

  Lemma st_of_set_st_same : forall y s st, st_of (set_st y s st) s = st.
  Proof. intros y [] st; reflexivity. Qed.

  Lemma st_of_set_st_other : forall y s st, st_of (set_st y s st) (other s) = st_of y (other s).
  Proof. intros y [] st; reflexivity. Qed.

  Lemma set_st_same : forall y s, set_st y s (st_of y s) = y.
  Proof. intros [] []; reflexivity. Qed.

  Lemma side_cases : forall a b : side, a = b \/ a = other b.
  Proof. intros [] []; auto. Qed.

  Lemma other_other : forall s, other (other s) = s.
  Proof. intros []; reflexivity. Qed.

  Lemma side_eqb_refl : forall s, side_eqb s s = true.
  Proof. intros []; reflexivity. Qed.

  Lemma side_eqb_other : forall s, side_eqb s (other s) = false.
  Proof. intros []; reflexivity. Qed.

  Lemma side_eqb_other' : forall s, side_eqb (other s) s = false.
  Proof. intros []; reflexivity. Qed.

  Lemma side_eqb_eq : forall a b, side_eqb a b = true <-> a = b.
  Proof. intros [] []; cbn; split; intros H; try reflexivity; discriminate. Qed.

  Lemma In_side_log : forall s y e, In e (side_log s y) <-> In e (sent_rev _ _ y) /\ e_side _ _ e = s.
  Proof.
    intros s y e. unfold side_log. rewrite filter_In. rewrite side_eqb_eq. reflexivity.
  Qed.

  (** *** One Encrypt step *)
  Lemma step_enc_inv : forall y s p, inv y -> cnt s y < two64 -> inv (fst (step y (EEnc _ _ s p))).
  Proof.
    intros y s p Hinv Hb. destruct Hinv as [Hsend Hwf Hidx Hwin].
    assert (Hctr : s_send (st_of y s) = cnt s y) by (rewrite Hsend; apply N.mod_small; exact Hb).
    cbn [step Session.step encrypt fst f_nonce f_body].
    set (e := {| e_side := s; e_ctr := s_send (st_of y s);
                 e_nonce := build_nonce (send_prefix s) (s_send (st_of y s));
                 e_body := seal (build_nonce (send_prefix s) (s_send (st_of y s))) p; e_plain := p |}).
    set (st' := {| s_send := (s_send (st_of y s) + 1) mod two64; s_recv := s_recv (st_of y s) |}).
    assert (Hlog_s : side_log s (log_sent _ _ (set_st y s st') e) = e :: side_log s y).
    { unfold side_log. destruct y, s; cbn; reflexivity. }
    assert (Hlog_o : side_log (other s) (log_sent _ _ (set_st y s st') e) = side_log (other s) y).
    { unfold side_log. destruct y, s; cbn; reflexivity. }
    assert (Hacc : forall x, acc_rev_of _ _ (log_sent _ _ (set_st y s st') e) x = acc_rev_of _ _ y x).
    { intros x. destruct y, s, x; reflexivity. }
    assert (Hst_s : st_of (log_sent _ _ (set_st y s st') e) s = st').
    { destruct y, s; reflexivity. }
    assert (Hst_o : st_of (log_sent _ _ (set_st y s st') e) (other s) = st_of y (other s)).
    { destruct y, s; reflexivity. }
    constructor.
    - intros s0. destruct (side_cases s0 s) as [->| ->].
      + rewrite Hst_s. unfold cnt. rewrite Hlog_s. cbn [length s_send st'].
        rewrite Hctr. unfold cnt. rewrite Nat2N.inj_succ. f_equal. lia.
      + rewrite Hst_o. unfold cnt. rewrite Hlog_o. apply Hsend.
    - intros e0 Hin.
      assert (Hin' : e0 = e \/ In e0 (sent_rev _ _ y)).
      { destruct y, s; cbn in Hin; destruct Hin as [<-|Hin]; auto. }
      destruct Hin' as [->|Hin']; [|apply Hwf; exact Hin'].
      unfold wf_entry, e. cbn. repeat split. rewrite Hctr. exact Hb.
    - intros s0. destruct (side_cases s0 s) as [->| ->].
      + rewrite Hlog_s. cbn [indexed]. split; [|apply Hidx].
        unfold e. cbn [e_ctr]. rewrite Hctr. reflexivity.
      + rewrite Hlog_o. apply Hidx.
    - intros x. rewrite Hacc. destruct (Hwin x) as (l2 & l1 & Hsplit & Hlen & Hsub).
      destruct (side_cases x s) as [->| ->].
      + (* receiver is the encrypting end: its peer's log is unchanged *)
        exists l2, l1. rewrite Hlog_o, Hst_s. cbn [st' s_recv]. auto.
      + (* receiver is the other end: the peer's log grew at the head *)
        exists (e :: l2), l1. rewrite other_other, Hlog_s, Hst_o.
        rewrite other_other in Hsplit. rewrite Hsplit. auto.
  Qed.

  Lemma cnt_step_enc : forall y s p s0,
    cnt s0 (fst (step y (EEnc _ _ s p))) = cnt s0 y + (if side_eqb s0 s then 1 else 0).
  Proof.
    intros y s p s0. unfold cnt, side_log. cbn [step Session.step encrypt fst].
    destruct y, s, s0; cbn -[N.of_nat N.add]; rewrite ?Nat2N.inj_succ; lia.
  Qed.

  Lemma cnt_step_deliver : forall y to f s0,
    cnt s0 (fst (step y (EDeliver _ _ to f))) = cnt s0 y.
  Proof.
    intros y to f s0. unfold cnt, side_log. cbn [step Session.step].
    destruct (dec to (st_of y to) f) as [st' r]. cbn [fst].
    destruct y, to, r; reflexivity.
  Qed.

  (** *** One delivery step *)
  Hypothesis seal_open : forall n p, open n (seal n p) = Some p.

  Lemma step_deliver_inv : forall y to f, inv y ->
    (forall p, open (f_nonce _ f) (f_body _ f) = Some p ->
       exists e, In e (sent_rev _ _ y) /\ e_nonce _ _ e = f_nonce _ f /\ e_body _ _ e = f_body _ f) ->
    inv (fst (step y (EDeliver _ _ to f))).
  Proof.
    intros y to f Hinv Hint.
    cbn [step Session.step].
    destruct (dec to (st_of y to) f) as [st' r] eqn:Hd. cbn [fst].
    destruct r as [p| | | | |];
      try (pose proof (reject_leaves_state to (st_of y to) f) as Hr; rewrite Hd in Hr;
           cbn in Hr; rewrite (Hr eq_refl); rewrite set_st_same; exact Hinv).
    (* accepted *)
    destruct (accept_inv _ _ _ _ _ Hd) as (Hlen12 & _ & Hpre & Hge & Hmax & Hopen & ->).
    destruct Hinv as [Hsend Hwf Hidx Hwin].
    destruct (Hint p Hopen) as (e & Hin & Hen & Heb).
    destruct (Hwf e Hin) as (Hn & Hb & Hc).
    assert (Hside : e_side _ _ e = other to).
    { apply send_prefix_inj. change (send_prefix (other to)) with (recv_prefix to).
      rewrite <- Hpre, <- Hen, Hn. reflexivity. }
    assert (Hctr : nonce_counter (f_nonce _ f) = e_ctr _ _ e).
    { rewrite <- Hen, Hn. apply build_nonce_counter. exact Hc. }
    assert (Hp : e_plain _ _ e = p).
    { pose proof (seal_open (e_nonce _ _ e) (e_plain _ _ e)) as Ho.
      rewrite <- Hb, Hen, Heb, Hopen in Ho. injection Ho as ->. reflexivity. }
    set (a := {| a_nonce := f_nonce _ f; a_body := f_body _ f; a_plain := p |}).
    assert (Ha : a = sent_item _ _ e).
    { unfold a, sent_item. rewrite Hen, Heb, Hp. reflexivity. }
    set (st' := {| s_send := s_send (st_of y to); s_recv := nonce_counter (f_nonce _ f) + 1 |}).
    assert (Hlog : forall s, side_log s (log_acc _ _ (set_st y to st') to a) = side_log s y).
    { intros s. unfold side_log. destruct y, to; reflexivity. }
    assert (Hst_s : st_of (log_acc _ _ (set_st y to st') to a) to = st').
    { destruct y, to; reflexivity. }
    assert (Hst_o : st_of (log_acc _ _ (set_st y to st') to a) (other to) = st_of y (other to)).
    { destruct y, to; reflexivity. }
    assert (Hacc_s : acc_rev_of _ _ (log_acc _ _ (set_st y to st') to a) to = a :: acc_rev_of _ _ y to).
    { destruct y, to; reflexivity. }
    assert (Hacc_o : acc_rev_of _ _ (log_acc _ _ (set_st y to st') to a) (other to) = acc_rev_of _ _ y (other to)).
    { destruct y, to; reflexivity. }
    assert (Hsent : sent_rev _ _ (log_acc _ _ (set_st y to st') to a) = sent_rev _ _ y).
    { destruct y, to; reflexivity. }
    constructor.
    - intros s. unfold cnt. rewrite Hlog. destruct (side_cases s to) as [->| ->].
      + rewrite Hst_s. cbn [st' s_send]. apply Hsend.
      + rewrite Hst_o. apply Hsend.
    - intros e0. rewrite Hsent. apply Hwf.
    - intros s. rewrite Hlog. apply Hidx.
    - intros x. rewrite Hlog. destruct (side_cases x to) as [->| ->].
      + rewrite Hst_s, Hacc_s. cbn [st' s_recv].
        destruct (Hwin to) as (l2 & l1 & Hsplit & Hlen & Hsub).
        assert (Hin_log : In e (l2 ++ l1)).
        { rewrite <- Hsplit. apply In_side_log. split; assumption. }
        assert (Hi : indexed (l2 ++ l1)) by (rewrite <- Hsplit; apply Hidx).
        destruct (indexed_locate l2 l1 e Hi Hin_log) as (pre & b & -> & Hcb).
        { rewrite Hlen, <- Hctr. exact Hge. }
        exists pre, (e :: b ++ l1). repeat split.
        * rewrite Hsplit, <- app_assoc. reflexivity.
        * cbn [length]. rewrite Nat2N.inj_succ, <- Hcb, Hctr. lia.
        * rewrite Ha. cbn [map]. constructor. rewrite map_app. apply subseq_app_skip. exact Hsub.
      + rewrite Hst_o, Hacc_o. apply Hwin.
  Qed.

  (** *** Whole traces *)
  Lemma exec_inv : forall evs y,
    inv y ->
    intctxt ptext ctext plen seal open dec y evs ->
    cnt Ini y + enc_count _ _ Ini evs <= two64 ->
    cnt Res y + enc_count _ _ Res evs <= two64 ->
    inv (exec y evs).
  Proof.
    induction evs as [|ev evs IH]; intros y Hinv Hint Hbi Hbr; [exact Hinv|].
    cbn [Session.exec]. cbn [intctxt] in Hint. destruct Hint as [Hev Hint].
    cbn [enc_count] in Hbi, Hbr.
    apply IH.
    - destruct ev as [s p|to f].
      + apply step_enc_inv; [exact Hinv|].
        destruct s; cbn [side_eqb] in Hbi, Hbr; lia.
      + apply step_deliver_inv; assumption.
    - exact Hint.
    - destruct ev as [s p|to f].
      + rewrite cnt_step_enc. lia.
      + rewrite cnt_step_deliver. lia.
    - destruct ev as [s p|to f].
      + rewrite cnt_step_enc. lia.
      + rewrite cnt_step_deliver. lia.
  Qed.

  Lemma inv_subseq : forall y x, inv y ->
    subseq (accepted_by _ _ x y) (sent_by _ _ (other x) y).
  Proof.
    intros y x Hinv. destruct (inv_win y Hinv x) as (l2 & l1 & Hsplit & _ & Hsub).
    unfold accepted_by, sent_by. apply subseq_rev.
    change (filter (fun e => side_eqb (e_side _ _ e) (other x)) (sent_rev _ _ y)) with (side_log (other x) y).
    rewrite Hsplit, map_app. apply subseq_app_skip. exact Hsub.
  Qed.

  (** C01, main statement *)
  Theorem accepts_are_a_subsequence_of_the_peers_sends : forall evs,
    intctxt ptext ctext plen seal open dec init evs ->
    enc_count _ _ Ini evs <= two64 ->
    enc_count _ _ Res evs <= two64 ->
    forall x, subseq (accepted_by _ _ x (exec init evs)) (sent_by _ _ (other x) (exec init evs)).
  Proof.
    intros evs Hint Hbi Hbr x. apply inv_subseq. apply exec_inv; try assumption.
    apply inv_init.
  Qed.

  (** ** Rejected input has no effect, at the level of the whole session *)
  Theorem rejected_delivery_changes_nothing : forall y to f,
    is_accept ptext (snd (dec to (st_of y to) f)) = false ->
    fst (step y (EDeliver _ _ to f)) = y.
  Proof.
    intros y to f H. cbn [step Session.step].
    pose proof (reject_leaves_state to (st_of y to) f H) as Hst.
    destruct (dec to (st_of y to) f) as [st' r]. cbn [fst snd] in *. subst st'.
    rewrite set_st_same. destruct r; try reflexivity. discriminate.
  Qed.

  Lemma exec_app : forall a b y, exec y (a ++ b) = exec (exec y a) b.
  Proof. induction a; intros b y; cbn; [reflexivity|]. apply IHa. Qed.

  (** ... hence every later event behaves exactly as if the rejected frame had never been delivered *)
  Theorem rejected_delivery_is_forgotten : forall evs1 to f evs2,
    is_accept ptext (snd (dec to (st_of (exec init evs1) to) f)) = false ->
    exec init (evs1 ++ EDeliver _ _ to f :: evs2) = exec init (evs1 ++ evs2) /\
    outputs (exec init (evs1 ++ [EDeliver _ _ to f])) evs2 = outputs (exec init evs1) evs2.
  Proof.
    intros evs1 to f evs2 H. rewrite !exec_app. cbn [Session.exec].
    rewrite (rejected_delivery_changes_nothing _ _ _ H). split; reflexivity.
  Qed.
End Proofs.

(** ** C02: nonces are never reused *)
Section NonceUniqueness.
  Variable ptext : Type.
  Variable ctext : Type.
  Variable plen : ptext -> N.
  Variable seal : bytes -> ptext -> ctext.
  Variable open : bytes -> ctext -> option ptext.

  Notation dec := (decrypt ptext ctext open).
  Notation step := (step ptext ctext plen seal dec).
  Notation exec := (exec ptext ctext plen seal dec).
  Notation outputs := (outputs ptext ctext plen seal dec).
  Notation init := (init ptext ctext).
  Notation cnt := (cnt ptext ctext).
  Notation st_of := (st_of ptext ctext).

  Lemma decrypt_keeps_send : forall s st f, s_send (fst (dec s st f)) = s_send st.
  Proof.
    intros s st f. unfold decrypt.
    destruct (too_short ctext f); [reflexivity|].
    destruct (negb _); [reflexivity|].
    destruct (_ <? _); [reflexivity|].
    destruct (_ =? _); [reflexivity|].
    destruct (open _ _); reflexivity.
  Qed.

  Record inv2 (y : sys ptext ctext) : Prop := {
    inv2_send : forall s, s_send (st_of y s) = cnt s y mod two64;
    inv2_wf : forall e, In e (sent_rev _ _ y) ->
       e_nonce _ _ e = build_nonce (send_prefix (e_side _ _ e)) (e_ctr _ _ e) /\
       e_ctr _ _ e < cnt (e_side _ _ e) y /\ e_ctr _ _ e < two64;
    inv2_nodup : NoDup (nonces_used _ _ y) }.

  Lemma inv2_init : inv2 init.
  Proof.
    constructor.
    - intros []; reflexivity.
    - intros e [].
    - constructor.
  Qed.

  Lemma sent_rev_step_enc : forall y s p,
    sent_rev _ _ (fst (step y (EEnc _ _ s p))) =
      {| e_side := s; e_ctr := s_send (st_of y s);
         e_nonce := build_nonce (send_prefix s) (s_send (st_of y s));
         e_body := seal (build_nonce (send_prefix s) (s_send (st_of y s))) p; e_plain := p |} :: sent_rev _ _ y.
  Proof. intros y s p. destruct y, s; reflexivity. Qed.

  Lemma sent_rev_step_deliver : forall y to f, sent_rev _ _ (fst (step y (EDeliver _ _ to f))) = sent_rev _ _ y.
  Proof.
    intros y to f. cbn [Session.step]. destruct (dec to (st_of y to) f) as [st' r]. cbn [fst].
    destruct y, to, r; reflexivity.
  Qed.

  Lemma st_step_enc : forall y s p s0,
    s_send (st_of (fst (step y (EEnc _ _ s p))) s0) =
      if side_eqb s0 s then (s_send (st_of y s) + 1) mod two64 else s_send (st_of y s0).
  Proof. intros y s p s0. destruct y, s, s0; reflexivity. Qed.

  Lemma st_step_deliver : forall y to f s0,
    s_send (st_of (fst (step y (EDeliver _ _ to f))) s0) = s_send (st_of y s0).
  Proof.
    intros y to f s0. cbn [Session.step].
    pose proof (decrypt_keeps_send to (st_of y to) f) as Hk.
    destruct (dec to (st_of y to) f) as [st' r]. cbn [fst] in *.
    destruct y, to, s0, r; cbn in *; congruence.
  Qed.

  Lemma step_inv2 : forall y ev, inv2 y ->
    cnt Ini y + enc_count _ _ Ini [ev] <= two64 ->
    cnt Res y + enc_count _ _ Res [ev] <= two64 ->
    inv2 (fst (step y ev)).
  Proof.
    intros y ev [Hsend Hwf Hnd] Hbi Hbr. destruct ev as [s p|to f].
    - assert (Hb : cnt s y < two64).
      { cbn [enc_count] in Hbi, Hbr. destruct s; cbn [side_eqb] in Hbi, Hbr; lia. }
      assert (Hctr : s_send (st_of y s) = cnt s y) by (rewrite Hsend; apply N.mod_small; exact Hb).
      constructor.
      + intros s0. rewrite st_step_enc, cnt_step_enc.
        destruct (side_eqb s0 s) eqn:E.
        * apply side_eqb_eq in E. subst s0. rewrite Hctr. reflexivity.
        * rewrite N.add_0_r. apply Hsend.
      + intros e. rewrite sent_rev_step_enc. cbn [In]. intros [<-|Hin].
        * cbn [e_nonce e_side e_ctr]. rewrite cnt_step_enc, side_eqb_refl, Hctr. repeat split; lia.
        * destruct (Hwf e Hin) as (Hn & Hlt & Hlt2). rewrite cnt_step_enc.
          repeat split; try assumption. destruct (side_eqb _ _); lia.
      + unfold nonces_used. rewrite sent_rev_step_enc. cbn [map e_nonce]. constructor; [|exact Hnd].
        intros Hin. apply in_map_iff in Hin. destruct Hin as (e & He & Hin).
        destruct (Hwf e Hin) as (Hn & Hlt & Hlt2). rewrite Hn in He.
        apply build_nonce_inj in He; [|exact Hlt2|rewrite Hctr; exact Hb].
        destruct He as [Hs Hc]. rewrite Hs, Hc, Hctr in Hlt. lia.
    - constructor.
      + intros s0. rewrite st_step_deliver, cnt_step_deliver. apply Hsend.
      + intros e. rewrite sent_rev_step_deliver, cnt_step_deliver. apply Hwf.
      + unfold nonces_used. rewrite sent_rev_step_deliver. exact Hnd.
  Qed.

  Lemma exec_inv2 : forall evs y, inv2 y ->
    cnt Ini y + enc_count _ _ Ini evs <= two64 ->
    cnt Res y + enc_count _ _ Res evs <= two64 ->
    inv2 (exec y evs).
  Proof.
    induction evs as [|ev evs IH]; intros y Hinv Hbi Hbr; [exact Hinv|].
    cbn [Session.exec]. cbn [enc_count] in Hbi, Hbr.
    apply IH.
    - apply step_inv2; [exact Hinv| |]; cbn [enc_count]; destruct ev as [[] ?|? ?]; cbn [side_eqb] in *; lia.
    - destruct ev as [s p|to f]; [rewrite cnt_step_enc|rewrite cnt_step_deliver]; lia.
    - destruct ev as [s p|to f]; [rewrite cnt_step_enc|rewrite cnt_step_deliver]; lia.
  Qed.

  (** C02, main statement: any interleaving of Encrypt calls of both ends
      (each call one atomic step) and of arbitrary deliveries, with at most
      2^64 Encrypt calls per end: all nonces used for sealing are distinct. *)
  Theorem nonces_never_reused : forall evs,
    enc_count _ _ Ini evs <= two64 -> enc_count _ _ Res evs <= two64 ->
    NoDup (nonces_used _ _ (exec init evs)).
  Proof.
    intros evs Hi Hr. apply inv2_nodup. apply exec_inv2; [apply inv2_init| |]; assumption.
  Qed.

  (** the nonces in the log are exactly the nonces of the frames handed out *)
  Fixpoint frame_nonces (outs : list (output ptext ctext)) : list bytes :=
    match outs with
    | [] => []
    | OutFrame _ _ f :: r => f_nonce _ f :: frame_nonces r
    | OutResult _ _ _ :: r => frame_nonces r
    end.

  Lemma outputs_cons : forall y ev rest,
    outputs y (ev :: rest) = snd (step y ev) :: outputs (fst (step y ev)) rest.
  Proof. intros y ev rest. cbn [Session.outputs]. destruct (step y ev). reflexivity. Qed.

  Lemma snd_step_enc : forall y s p,
    snd (step y (EEnc _ _ s p)) = OutFrame _ _ (snd (encrypt ptext ctext plen seal s (st_of y s) p)).
  Proof. intros. reflexivity. Qed.

  Lemma snd_step_deliver : forall y to f,
    snd (step y (EDeliver _ _ to f)) = OutResult _ _ (snd (dec to (st_of y to) f)).
  Proof. intros. cbn [Session.step]. destruct (dec to (st_of y to) f). reflexivity. Qed.

  Lemma frame_nonces_log : forall evs y,
    rev (nonces_used _ _ (exec y evs)) = rev (nonces_used _ _ y) ++ frame_nonces (outputs y evs).
  Proof.
    induction evs as [|ev evs IH]; intros y.
    - cbn. rewrite app_nil_r. reflexivity.
    - cbn [Session.exec]. rewrite IH, outputs_cons.
      destruct ev as [s p|to f].
      + rewrite snd_step_enc. unfold nonces_used at 1. rewrite sent_rev_step_enc.
        cbn [frame_nonces map rev e_nonce encrypt snd f_nonce]. rewrite <- app_assoc. reflexivity.
      + rewrite snd_step_deliver. unfold nonces_used at 1. rewrite sent_rev_step_deliver. reflexivity.
  Qed.

  Theorem emitted_frame_nonces_distinct : forall evs,
    enc_count _ _ Ini evs <= two64 -> enc_count _ _ Res evs <= two64 ->
    NoDup (frame_nonces (outputs init evs)).
  Proof.
    intros evs Hi Hr. pose proof (frame_nonces_log evs init) as H. cbn [nonces_used sent_rev Session.init map rev app] in H.
    rewrite <- H. apply NoDup_rev. apply nonces_never_reused; assumption.
  Qed.

  (** The bound is tight: the counter is a uint64, so the (2^64+1)-th Encrypt
      call of one end uses the nonce of its first call again. *)
  Lemma send_counter_is_count_mod : forall evs y,
    (forall s, s_send (st_of y s) = cnt s y mod two64) ->
    forall s, s_send (st_of (exec y evs) s) = cnt s (exec y evs) mod two64.
  Proof.
    induction evs as [|ev evs IH]; intros y H; [exact H|].
    cbn [Session.exec]. apply IH. intros s0. destruct ev as [s p|to f].
    - rewrite st_step_enc, cnt_step_enc. destruct (side_eqb s0 s) eqn:E.
      + apply side_eqb_eq in E. subst s0. rewrite H. unfold two64. lia.
      + rewrite N.add_0_r. apply H.
    - rewrite st_step_deliver, cnt_step_deliver. apply H.
  Qed.

  Lemma first_nonce_stays : forall evs y s,
    In (build_nonce (send_prefix s) 0) (nonces_used _ _ y) ->
    In (build_nonce (send_prefix s) 0) (nonces_used _ _ (exec y evs)).
  Proof.
    induction evs as [|ev evs IH]; intros y s H; [exact H|].
    cbn [Session.exec]. apply IH. unfold nonces_used. destruct ev as [s1 p|to f].
    - rewrite sent_rev_step_enc. right. exact H.
    - rewrite sent_rev_step_deliver. exact H.
  Qed.

  Lemma cnt_enc_count : forall evs y s, cnt s (exec y evs) = cnt s y + enc_count _ _ s evs.
  Proof.
    induction evs as [|ev evs IH]; intros y s; cbn [Session.exec enc_count]; [lia|].
    rewrite IH. destruct ev as [s1 p|to f]; [rewrite cnt_step_enc|rewrite cnt_step_deliver]; lia.
  Qed.

  Theorem reuse_after_two64_sends : forall s p0 evs p,
    enc_count _ _ s evs = two64 - 1 ->
    let y := exec init (EEnc _ _ s p0 :: evs) in
    In (f_nonce _ (snd (encrypt ptext ctext plen seal s (st_of y s) p))) (nonces_used _ _ y).
  Proof.
    intros s p0 evs p Hn y. cbn [encrypt snd f_nonce].
    assert (Hs : s_send (st_of y s) = 0).
    { unfold y. rewrite send_counter_is_count_mod by (intros []; reflexivity).
      rewrite cnt_enc_count. cbn [enc_count]. rewrite side_eqb_refl, Hn.
      replace (cnt s init) with 0 by (destruct s; reflexivity). reflexivity. }
    rewrite Hs. unfold y. cbn [Session.exec]. apply first_nonce_stays.
    unfold nonces_used. rewrite sent_rev_step_enc. left. cbn [e_nonce].
    destruct s; reflexivity.
  Qed.
End NonceUniqueness.
