(** Proofs about Model.Session (C01, C02). *)
From Coq Require Import List Bool NArith ZArith Lia ZifyN ZifyNat ZifyBool.
From Coq.Strings Require Import Byte.
From MM Require Import Lib.Bytes Model.Session.
Import ListNotations.
Local Open Scope N_scope.
Ltac Zify.zify_post_hook ::= Z.div_mod_to_equations.

Section Proofs.
  Variable ptext : Type.
  Variable ctext : Type.
  Variable open : bytes -> ctext -> option ptext.

  Lemma reject_leaves_state : forall (s : side) (st : sess) (f : frame ctext),
    is_accept ptext (snd (decrypt ptext ctext open s st f)) = false ->
    fst (decrypt ptext ctext open s st f) = st.
  Proof.
    intros s st f. unfold decrypt.
    destruct (too_short ctext f); [reflexivity|].
    destruct (negb _); [reflexivity|].
    destruct (_ <? _); [reflexivity|].
    destruct (_ =? _); [reflexivity|].
    destruct (open _ _); cbn; [discriminate|reflexivity].
  Qed.
End Proofs.
