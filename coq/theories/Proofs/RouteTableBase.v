(** Generic facts about buckets and tables of Model/RouteTable.v: the bucket
    invariant (metric-sorted, one entry per slot), its preservation by every
    table operation, and the characterisation of what each operation does to
    the bucket stored under every key. *)
From Coq Require Import List NArith Bool Lia Permutation Sorted.
From MM Require Import Model.RouteTable.
Import ListNotations.
Local Open Scope N_scope.

(* ------------------------------------------------------------------ *)
(** * Buckets *)

Section BucketFacts.
  Context {D : Type}.
  Variable same : entry D -> entry D -> bool.
  (** [same] is an equivalence (it compares origin, or origin and next hop) *)
  Hypothesis same_refl : forall x, same x x = true.
  Hypothesis same_sym : forall x y, same x y = same y x.
  Hypothesis same_trans : forall x y z, same x y = true -> same y z = true -> same x z = true.
  Implicit Types (x y z r : entry D) (b l : list (entry D)).

  Definition le_metric (x y : entry D) : Prop := e_metric x <= e_metric y.
  Definition msorted (b : list (entry D)) : Prop := StronglySorted le_metric b.
  (** at most one entry per slot *)
  Definition slots_unique (b : list (entry D)) : Prop :=
    ForallOrdPairs (fun x y => same x y = false) b.

  (** the sorting function: any function returning a metric-sorted
      permutation of its argument *)
  Variable srt : list (entry D) -> list (entry D).
  Hypothesis srt_perm : forall l, Permutation (srt l) l.
  Hypothesis srt_sorted : forall l, msorted (srt l).

  Lemma ins_perm : forall x l, Permutation (ins x l) (x :: l).
  Proof.
    induction l as [|y l IH]; simpl; [reflexivity|].
    destruct (e_metric y <? e_metric x); [|reflexivity].
    rewrite IH. apply perm_swap.
  Qed.

  Lemma isort_perm : forall l, Permutation (isort l) l.
  Proof.
    induction l as [|x l IH]; simpl; [reflexivity|].
    rewrite ins_perm. now constructor.
  Qed.

  Lemma ins_sorted : forall x l, msorted l -> msorted (ins x l).
  Proof.
    induction l as [|y l IH]; intros Hs; simpl.
    - repeat constructor.
    - inversion Hs as [|? ? Hs' Hall]; subst.
      destruct (e_metric y <? e_metric x) eqn:E.
      + constructor; [now apply IH|].
        apply N.ltb_lt in E.
        eapply Permutation_Forall; [symmetry; apply ins_perm|].
        constructor; [unfold le_metric; lia|assumption].
      + apply N.ltb_ge in E. constructor; [assumption|].
        constructor; [exact E|].
        eapply Forall_impl; [|exact Hall]. unfold le_metric. intros; lia.
  Qed.

  Lemma isort_sorted : forall l, msorted (isort l).
  Proof. induction l; simpl; [constructor|now apply ins_sorted]. Qed.

  (** the head of a metric-sorted list has the lowest metric *)
  Lemma msorted_head_min : forall x b y, msorted (x :: b) -> In y (x :: b) -> e_metric x <= e_metric y.
  Proof.
    intros x b y Hs [->|Hin]; [lia|].
    inversion Hs as [|? ? _ Hall]; subst.
    rewrite Forall_forall in Hall. now apply Hall.
  Qed.

  Lemma slots_unique_perm : forall b b', Permutation b b' -> slots_unique b -> slots_unique b'.
  Proof.
    unfold slots_unique. intros b b' Hp.
    induction Hp; intros H.
    - constructor.
    - inversion H; subst. constructor.
      + eapply Permutation_Forall; eauto.
      + auto.
    - inversion H as [|? ? Hy H']; subst. inversion H' as [|? ? Hx H'']; subst.
      inversion Hy; subst.
      constructor; [constructor; [rewrite same_sym; assumption|assumption]|].
      constructor; assumption.
    - auto.
  Qed.

  Lemma msorted_filter : forall f b, msorted b -> msorted (filter f b).
  Proof.
    induction b as [|x b IH]; intros Hs; simpl; [constructor|].
    inversion Hs as [|? ? Hs' Hall]; subst.
    destruct (f x); [|apply IH; exact Hs'].
    constructor; [apply IH; exact Hs'|].
    rewrite Forall_forall in Hall. apply Forall_forall. intros y Hy. apply filter_In in Hy. now apply Hall.
  Qed.

  Lemma slots_unique_filter : forall f b, slots_unique b -> slots_unique (filter f b).
  Proof.
    unfold slots_unique. induction b as [|x b IH]; intros H; simpl; [constructor|].
    inversion H as [|? ? Hx H']; subst.
    destruct (f x); [|apply IH; exact H'].
    constructor; [|apply IH; exact H'].
    rewrite Forall_forall in Hx. apply Forall_forall. intros y Hy. apply filter_In in Hy. now apply Hx.
  Qed.

  (** ** bucket_put *)

  (** what bucket_put does: either the route goes into the slot of an
      existing entry that it is newer than, or no entry shares its slot and it
      is appended; it is rejected exactly when the first entry sharing its
      slot is not older/worse *)
  Lemma bucket_put_some : forall r b b',
    bucket_put same r b = Some b' ->
    (exists b1 x b2, b = b1 ++ x :: b2 /\ same x r = true /\ newer r x = true /\
                     (forall y, In y b1 -> same y r = false) /\ b' = b1 ++ r :: b2)
    \/ ((forall y, In y b -> same y r = false) /\ b' = b ++ [r]).
  Proof.
    induction b as [|x b IH]; simpl; intros b' H.
    - inversion H; subst. right. split; [intros y []|reflexivity].
    - destruct (same x r) eqn:Es.
      + destruct (newer r x) eqn:En; [|discriminate]. inversion H; subst.
        left. exists [], x, b. repeat split; auto; intros ? [].
      + destruct (bucket_put same r b) as [b''|] eqn:Eb; [|discriminate].
        inversion H; subst.
        destruct (IH _ eq_refl) as [(b1 & y & b2 & Hb & Hs & Hn & Hb1 & Hb')|[Hall Hb']].
        * left. exists (x :: b1), y, b2. subst. repeat split; auto.
          intros z [->|Hz]; auto.
        * right. subst. split; [|reflexivity]. intros z [->|Hz]; auto.
  Qed.

  Lemma bucket_put_none : forall r b,
    bucket_put same r b = None ->
    exists b1 x b2, b = b1 ++ x :: b2 /\ same x r = true /\ newer r x = false /\
                    (forall y, In y b1 -> same y r = false).
  Proof.
    induction b as [|x b IH]; simpl; intros H; [discriminate|].
    destruct (same x r) eqn:Es.
    - destruct (newer r x) eqn:En; [discriminate|].
      exists [], x, b. repeat split; auto; intros ? [].
    - destruct (bucket_put same r b) as [b''|] eqn:Eb; [discriminate|].
      destruct (IH eq_refl) as (b1 & y & b2 & Hb & Hs & Hn & Hb1).
      exists (x :: b1), y, b2. subst. repeat split; auto.
      intros z [->|Hz]; auto.
  Qed.

  Lemma slots_unique_app_inv : forall b1 x b2,
    slots_unique (b1 ++ x :: b2) ->
    slots_unique (b1 ++ b2) /\ (forall y, In y (b1 ++ b2) -> same y x = false).
  Proof.
    unfold slots_unique.
    induction b1 as [|z b1 IH]; simpl; intros x b2 H.
    - inversion H as [|? ? Hx H']; subst. split; [assumption|].
      intros y Hy. rewrite Forall_forall in Hx. rewrite same_sym. now apply Hx.
    - inversion H as [|? ? Hz H']; subst.
      destruct (IH _ _ H') as [IH1 IH2].
      split.
      + constructor; [|assumption].
        rewrite Forall_forall in *. intros y Hy. apply Hz.
        apply in_app_or in Hy. apply in_or_app. destruct Hy; [left|right; right]; assumption.
      + intros y [->|Hy]; [|now apply IH2].
        rewrite Forall_forall in Hz. apply Hz. apply in_or_app. right. left. reflexivity.
  Qed.

  Lemma slots_unique_insert : forall b1 r b2,
    slots_unique (b1 ++ b2) -> (forall y, In y (b1 ++ b2) -> same y r = false) ->
    slots_unique (b1 ++ r :: b2).
  Proof.
    unfold slots_unique.
    induction b1 as [|z b1 IH]; simpl; intros r b2 H Hr.
    - constructor; [|assumption].
      rewrite Forall_forall. intros y Hy. rewrite same_sym. now apply Hr.
    - inversion H as [|? ? Hz H']; subst.
      constructor.
      + rewrite Forall_forall in *. intros y Hy.
        apply in_app_or in Hy. destruct Hy as [Hy|[->|Hy]].
        * apply Hz. apply in_or_app. now left.
        * apply Hr. now left.
        * apply Hz. apply in_or_app. now right.
      + apply IH; [assumption|]. intros y Hy. apply Hr. now right.
  Qed.

  (** entries other than the replaced one are in other slots than r *)
  Lemma slot_others : forall b1 x b2 r z,
    slots_unique (b1 ++ x :: b2) -> same x r = true -> In z (b1 ++ b2) -> same z r = false.
  Proof.
    intros b1 x b2 r z Hu Hsx Hz.
    destruct (slots_unique_app_inv _ _ _ Hu) as [_ Hx].
    specialize (Hx z Hz). destruct (same z r) eqn:E; [|reflexivity].
    rewrite <- Hx. symmetry. apply same_trans with r; [assumption|]. rewrite same_sym; assumption.
  Qed.

  (** bucket_put keeps one entry per slot *)
  Lemma bucket_put_slots : forall r b b',
    slots_unique b -> bucket_put same r b = Some b' -> slots_unique b'.
  Proof.
    intros r b b' Hu Hput.
    destruct (bucket_put_some _ _ _ Hput) as [(b1 & x & b2 & -> & Hsx & Hn & Hb1 & ->)|[Hall ->]].
    - apply slots_unique_insert; [apply (slots_unique_app_inv _ _ _ Hu)|].
      intros y Hy. eapply slot_others; eauto.
    - replace (b ++ [r]) with (b ++ r :: []) by reflexivity.
      apply slots_unique_insert; rewrite app_nil_r; assumption.
  Qed.

  Lemma bucket_add_inv : forall r b b',
    slots_unique b -> bucket_add same srt r b = Some b' ->
    msorted b' /\ slots_unique b' /\
    exists b0, bucket_put same r b = Some b0 /\ Permutation b' b0.
  Proof.
    unfold bucket_add. intros r b b' Hu H.
    destruct (bucket_put same r b) as [b0|] eqn:E; [|discriminate].
    inversion H; subst. split; [apply srt_sorted|]. split.
    - eapply slots_unique_perm; [symmetry; apply srt_perm|].
      eapply bucket_put_slots; eauto.
    - exists b0. split; [reflexivity|apply srt_perm].
  Qed.

  Lemma bucket_put_in_iff : forall r b b' y,
    slots_unique b -> bucket_put same r b = Some b' ->
    (In y b' <-> y = r \/ (In y b /\ same y r = false)).
  Proof.
    intros r b b' y Hu Hput.
    destruct (bucket_put_some _ _ _ Hput) as [(b1 & x & b2 & -> & Hsx & Hn & Hb1 & ->)|[Hall ->]].
    - assert (Hothers : forall z, In z b1 \/ In z b2 -> same z r = false).
      { intros z Hz. eapply slot_others; eauto. apply in_or_app; exact Hz. }
      rewrite !in_app_iff. simpl. split.
      + intros [H|[H|H]]; [right|left; now symmetry|right].
        * split; [now left|]. apply Hothers; now left.
        * split; [right; now right|]. apply Hothers; now right.
      + intros [->|[[H|[H|H]] Hf]]; [right; now left|now left| |right; now right].
        subst y. rewrite Hsx in Hf. discriminate.
    - rewrite in_app_iff. simpl. split.
      + intros [H|[H|[]]]; [right; split; [assumption|now apply Hall]|left; now symmetry].
      + intros [->|[H _]]; [right; now left|now left].
  Qed.

  (** two entries of one bucket in the same slot are the same entry *)
  Lemma slots_unique_same_eq : forall b x y,
    slots_unique b -> In x b -> In y b -> same x y = true -> x = y.
  Proof.
    unfold slots_unique. induction b as [|z b IH]; intros x y Hu Hx Hy Hxy; [destruct Hx|].
    inversion Hu as [|? ? Hz Hu']; subst. rewrite Forall_forall in Hz.
    destruct Hx as [->|Hx]; destruct Hy as [->|Hy]; auto.
    - specialize (Hz y Hy). congruence.
    - specialize (Hz x Hx). rewrite same_sym in Hxy. congruence.
  Qed.

  (** the replacement rule: any entry of the new bucket that shares a slot
      with an entry of the old bucket is that entry or is newer than it *)
  Lemma bucket_put_rule : forall r b b' x y,
    slots_unique b -> bucket_put same r b = Some b' ->
    In x b -> In y b' -> same x y = true -> y = x \/ newer y x = true.
  Proof.
    intros r b b' x y Hu Hput Hx Hy Hxy.
    apply (bucket_put_in_iff r b b' y Hu Hput) in Hy.
    destruct Hy as [->|[Hyb Hyr]].
    - destruct (bucket_put_some _ _ _ Hput) as [(b1 & x0 & b2 & -> & Hsx & Hn & Hb1 & ->)|[Hall ->]].
      + right. assert (x = x0); [|subst; assumption].
        apply in_app_or in Hx. destruct Hx as [Hx|[Hx|Hx]]; [|now symmetry|].
        * specialize (Hb1 x Hx). rewrite Hb1 in Hxy. discriminate.
        * assert (same x r = false) by (eapply slot_others; eauto; apply in_or_app; now right).
          congruence.
      + specialize (Hall x Hx). rewrite Hall in Hxy. discriminate.
    - left. symmetry. eapply slots_unique_same_eq; eauto.
  Qed.

  (** ** bucket_remove *)
  Lemma bucket_remove_spec : forall o b b',
    bucket_remove o b = Some b' ->
    exists b1 x b2, b = b1 ++ x :: b2 /\ b' = b1 ++ b2 /\ e_origin x = o /\
                    (forall y, In y b1 -> e_origin y <> o).
  Proof.
    induction b as [|x b IH]; simpl; intros b' H; [discriminate|].
    destruct (e_origin x =? o) eqn:E.
    - inversion H; subst. apply N.eqb_eq in E.
      exists [], x, b'. repeat split; auto; intros ? [].
    - destruct (bucket_remove o b) as [b''|] eqn:Er; [|discriminate].
      inversion H; subst. destruct (IH _ eq_refl) as (b1 & y & b2 & Hb & Hb' & Ho & Hb1).
      apply N.eqb_neq in E.
      exists (x :: b1), y, b2. subst. repeat split; auto.
      intros z [->|Hz]; auto.
  Qed.

  Lemma bucket_remove_none : forall o b,
    bucket_remove o b = None <-> (forall y, In y b -> e_origin y <> o).
  Proof.
    induction b as [|x b IH]; simpl.
    - split; [intros _ y []|reflexivity].
    - destruct (e_origin x =? o) eqn:E.
      + split; [discriminate|]. intros H. apply N.eqb_eq in E. exfalso. apply (H x); auto.
      + apply N.eqb_neq in E. destruct (bucket_remove o b).
        * split; [discriminate|]. intros H. exfalso.
          destruct IH as [_ IH]. assert (Some l = None); [|discriminate]. apply IH. intros y Hy. apply H. now right.
        * split; [|reflexivity]. intros _ y [->|Hy]; [assumption|]. destruct IH as [IH _]. now apply IH.
  Qed.

  Lemma msorted_app_remove : forall b1 x b2, msorted (b1 ++ x :: b2) -> msorted (b1 ++ b2).
  Proof.
    induction b1 as [|z b1 IH]; simpl; intros x b2 H.
    - now inversion H.
    - inversion H as [|? ? Hs Hall]; subst. constructor; [eapply IH; eauto|].
      rewrite Forall_forall in *. intros y Hy. apply Hall.
      apply in_app_or in Hy. apply in_or_app. destruct Hy; [left|right; right]; assumption.
  Qed.

  Lemma bucket_remove_inv : forall o b b',
    msorted b -> slots_unique b -> bucket_remove o b = Some b' ->
    msorted b' /\ slots_unique b' /\ (forall y, In y b' -> In y b).
  Proof.
    intros o b b' Hs Hu H.
    destruct (bucket_remove_spec _ _ _ H) as (b1 & x & b2 & -> & -> & _ & _).
    split; [eapply msorted_app_remove; eauto|].
    split; [apply (slots_unique_app_inv _ _ _ Hu)|].
    intros y Hy. apply in_app_or in Hy. apply in_or_app. destruct Hy; [left|right; right]; assumption.
  Qed.
End BucketFacts.

(* ------------------------------------------------------------------ *)
(** * Tables *)

Section TableFacts.
  Context {K D : Type}.
  Variable keqb : K -> K -> bool.
  Hypothesis keqb_spec : forall a b, keqb a b = true <-> a = b.
  Variable same : entry D -> entry D -> bool.
  Hypothesis same_refl : forall x, same x x = true.
  Hypothesis same_sym : forall x y, same x y = same y x.
  Hypothesis same_trans : forall x y z, same x y = true -> same y z = true -> same x z = true.
  Variable srt : list (entry D) -> list (entry D).
  Hypothesis srt_perm : forall l, Permutation (srt l) l.
  Hypothesis srt_sorted : forall l, msorted (srt l).
  (** what must hold of an entry stored under key k (table specific) *)
  Variable P : K -> entry D -> Prop.
  Implicit Types (t : table K D) (k : K) (b : list (entry D)) (x y r : entry D).

  Lemma keqb_refl : forall k, keqb k k = true.
  Proof. intros. now apply keqb_spec. Qed.
  Lemma keqb_neq : forall k1 k2 : K, k1 <> k2 -> keqb k1 k2 = false.
  Proof. intros a c H. destruct (keqb a c) eqn:E; [|reflexivity]. apply keqb_spec in E. contradiction. Qed.

  Definition keys_nodup t : Prop := NoDup (map fst t).
  Definition bucket_ok k b : Prop :=
    msorted b /\ slots_unique same b /\ forall x, In x b -> P k x.
  Definition table_inv t : Prop :=
    keys_nodup t /\ forall k b, In (k, b) t -> b <> [] /\ bucket_ok k b.

  (** x is stored under key k *)
  Definition stored t k x : Prop := In x (tget keqb k t).

  Lemma bucket_ok_nil : forall k, bucket_ok k [].
  Proof. intros. split; [constructor|]. split; [constructor|]. intros x []. Qed.

  Lemma tget_in : forall t k b, keys_nodup t -> In (k, b) t -> tget keqb k t = b.
  Proof.
    unfold keys_nodup. induction t as [|[k' b'] t IH]; simpl; intros k b Hn Hin; [destruct Hin|].
    inversion Hn as [|? ? Hk Hn']; subst.
    destruct Hin as [Heq|Hin].
    - inversion Heq; subst. now rewrite keqb_refl.
    - destruct (keqb k k') eqn:E.
      + apply keqb_spec in E. subst. exfalso. apply Hk.
        change k' with (fst (k', b)). now apply in_map.
      + now apply IH.
  Qed.

  Lemma tget_nonempty : forall t k, tget keqb k t <> [] -> In (k, tget keqb k t) t.
  Proof.
    induction t as [|[k' b'] t IH]; simpl; intros k H; [contradiction|].
    destruct (keqb k k') eqn:E.
    - apply keqb_spec in E. subst. now left.
    - right. now apply IH.
  Qed.

  Lemma tget_absent : forall t k, ~ In k (map fst t) -> tget keqb k t = [].
  Proof.
    induction t as [|[k' b'] t IH]; simpl; intros k H; [reflexivity|].
    destruct (keqb k k') eqn:E.
    - apply keqb_spec in E. subst. exfalso. apply H. now left.
    - apply IH. intros Hin. apply H. now right.
  Qed.

  Lemma tget_ok : forall t k, table_inv t -> bucket_ok k (tget keqb k t).
  Proof.
    intros t k [Hn Hb].
    destruct (tget keqb k t) eqn:E; [apply bucket_ok_nil|].
    rewrite <- E. apply (Hb k). apply tget_nonempty. rewrite E. discriminate.
  Qed.

  Lemma stored_iff : forall t k x, keys_nodup t ->
    (stored t k x <-> exists b, In (k, b) t /\ In x b).
  Proof.
    intros t k x Hn. unfold stored. split.
    - intros H. exists (tget keqb k t). split; [|assumption].
      apply tget_nonempty. intros E. rewrite E in H. destruct H.
    - intros (b & Hb & Hx). now rewrite (tget_in _ _ _ Hn Hb).
  Qed.

  (** ** tset *)
  Lemma tset_keys : forall t k b k', In k' (map fst (tset keqb k b t)) -> k' = k \/ In k' (map fst t).
  Proof.
    induction t as [|[k0 b0] t IH]; simpl; intros k b k' H.
    - destruct b; simpl in H; [destruct H|]. destruct H as [H|[]]. now left.
    - destruct (keqb k k0) eqn:E.
      + apply keqb_spec in E. subst. destruct b; simpl in H.
        * right. now right.
        * destruct H as [H|H]; [now left|right; now right].
      + simpl in H. destruct H as [H|H]; [right; now left|].
        destruct (IH _ _ _ H); [now left|right; now right].
  Qed.

  Lemma tset_keys_nodup : forall t k b, keys_nodup t -> keys_nodup (tset keqb k b t).
  Proof.
    unfold keys_nodup. induction t as [|[k0 b0] t IH]; simpl; intros k b Hn.
    - destruct b; simpl; [constructor|]. constructor; [intros []|constructor].
    - inversion Hn as [|? ? Hk Hn']; subst.
      destruct (keqb k k0) eqn:E.
      + apply keqb_spec in E. subst. destruct b; simpl; [assumption|]. now constructor.
      + simpl. constructor; [|now apply IH].
        intros Hin. apply tset_keys in Hin. destruct Hin as [->|Hin]; [|contradiction].
        rewrite keqb_refl in E. discriminate.
  Qed.

  Lemma tget_tset_same : forall t k b, keys_nodup t -> tget keqb k (tset keqb k b t) = b.
  Proof.
    unfold keys_nodup. induction t as [|[k0 b0] t IH]; simpl; intros k b Hn.
    - destruct b; simpl; [reflexivity|]. now rewrite keqb_refl.
    - inversion Hn as [|? ? Hk Hn']; subst.
      destruct (keqb k k0) eqn:E.
      + apply keqb_spec in E. subst. destruct b; simpl.
        * now apply tget_absent.
        * now rewrite keqb_refl.
      + simpl. rewrite E. now apply IH.
  Qed.

  Lemma tget_tset_other : forall t k b k', k' <> k -> tget keqb k' (tset keqb k b t) = tget keqb k' t.
  Proof.
    induction t as [|[k0 b0] t IH]; simpl; intros k b k' Hne.
    - destruct b; simpl; [reflexivity|]. now rewrite keqb_neq.
    - destruct (keqb k k0) eqn:E.
      + apply keqb_spec in E. subst. rewrite (keqb_neq _ _ Hne).
        destruct b; simpl; [reflexivity|]. now rewrite keqb_neq.
      + simpl. destruct (keqb k' k0); [reflexivity|]. now apply IH.
  Qed.

  Lemma tset_in : forall t k b k' b', In (k', b') (tset keqb k b t) ->
    (k' = k /\ b' = b /\ b <> []) \/ In (k', b') t.
  Proof.
    induction t as [|[k0 b0] t IH]; simpl; intros k b k' b' H.
    - destruct b; simpl in H; [destruct H|]. destruct H as [H|[]]. inversion H; subst. left. repeat split. discriminate.
    - destruct (keqb k k0) eqn:E.
      + destruct b; simpl in H.
        * right. now right.
        * destruct H as [H|H]; [inversion H; subst; left; repeat split; discriminate|right; now right].
      + simpl in H. destruct H as [H|H]; [right; now left|].
        destruct (IH _ _ _ _ H) as [?|?]; [now left|right; now right].
  Qed.

  Lemma tset_inv : forall t k b, table_inv t -> bucket_ok k b -> table_inv (tset keqb k b t).
  Proof.
    intros t k b [Hn Hb] Hok. split; [now apply tset_keys_nodup|].
    intros k' b' Hin. apply tset_in in Hin. destruct Hin as [(-> & -> & Hne)|Hin].
    - split; assumption.
    - now apply Hb.
  Qed.

  (** ** tfilter *)
  Lemma tfilter_keys : forall f t k, In k (map fst (tfilter f t)) -> In k (map fst t).
  Proof.
    induction t as [|[k0 b0] t IH]; simpl; intros k H; [assumption|].
    destruct (filter f b0); simpl in H.
    - right. now apply IH.
    - destruct H as [H|H]; [now left|right; now apply IH].
  Qed.

  Lemma tfilter_keys_nodup : forall f t, keys_nodup t -> keys_nodup (tfilter f t).
  Proof.
    unfold keys_nodup. induction t as [|[k0 b0] t IH]; simpl; intros Hn; [constructor|].
    inversion Hn as [|? ? Hk Hn']; subst.
    destruct (filter f b0); simpl; [now apply IH|].
    constructor; [|now apply IH]. intros Hin. apply Hk. eapply tfilter_keys; eauto.
  Qed.

  (** the bucket under every key is filtered in place *)
  Lemma tget_tfilter : forall f t k, keys_nodup t ->
    tget keqb k (tfilter f t) = filter f (tget keqb k t).
  Proof.
    unfold keys_nodup. induction t as [|[k0 b0] t IH]; simpl; intros k Hn; [reflexivity|].
    inversion Hn as [|? ? Hk Hn']; subst.
    destruct (keqb k k0) eqn:E.
    - apply keqb_spec in E. subst.
      destruct (filter f b0) eqn:Ef; simpl.
      + apply tget_absent. intros Hin. apply Hk. eapply tfilter_keys; eauto.
      + now rewrite keqb_refl.
    - destruct (filter f b0) eqn:Ef; simpl; [now apply IH|]. rewrite E. now apply IH.
  Qed.

  Lemma tfilter_in : forall f t k b, In (k, b) (tfilter f t) ->
    exists b0, In (k, b0) t /\ b = filter f b0 /\ b <> [].
  Proof.
    induction t as [|[k0 b0] t IH]; simpl; intros k b H; [destruct H|].
    destruct (filter f b0) eqn:Ef.
    - destruct (IH _ _ H) as (b1 & ? & ? & ?). exists b1. auto.
    - destruct H as [H|H].
      + inversion H; subst. exists b0. repeat split; auto; try discriminate; now left.
      + destruct (IH _ _ H) as (b1 & ? & ? & ?). exists b1. auto.
  Qed.

  Lemma tfilter_inv : forall f t, table_inv t -> table_inv (tfilter f t).
  Proof.
    intros f t [Hn Hb]. split; [now apply tfilter_keys_nodup|].
    intros k b Hin. destruct (tfilter_in _ _ _ _ Hin) as (b0 & Hin0 & -> & Hne).
    split; [assumption|].
    destruct (Hb _ _ Hin0) as [_ (Hs & Hu & HP)].
    split; [now apply msorted_filter|]. split; [now apply slots_unique_filter|].
    intros x Hx. apply filter_In in Hx. now apply HP.
  Qed.

  (** ** tadd / tremove *)
  Lemma tadd_inv : forall t k r t' ok, table_inv t -> P k r ->
    tadd keqb same srt k r t = (t', ok) -> table_inv t'.
  Proof.
    unfold tadd. intros t k r t' ok Hinv HP H.
    destruct (bucket_add same srt r (tget keqb k t)) as [b|] eqn:E; inversion H; subst; [|assumption].
    apply tset_inv; [assumption|].
    pose proof (tget_ok t k Hinv) as (Hs & Hu & HPk).
    destruct (bucket_add_inv same same_sym same_trans srt srt_perm srt_sorted _ _ _ Hu E) as (Hs' & Hu' & b0 & Hput & Hperm).
    split; [assumption|]. split; [assumption|].
    intros x Hx. apply (Permutation_in _ Hperm) in Hx.
    apply (bucket_put_in_iff same same_sym same_trans _ _ _ _ Hu Hput) in Hx.
    destruct Hx as [->|[Hx _]]; [assumption|now apply HPk].
  Qed.

  Lemma tremove_inv : forall t k o t' ok, table_inv t ->
    tremove keqb k o t = (t', ok) -> table_inv t'.
  Proof.
    unfold tremove. intros t k o t' ok Hinv H.
    destruct (bucket_remove o (tget keqb k t)) as [b|] eqn:E; inversion H; subst; [|assumption].
    apply tset_inv; [assumption|].
    pose proof (tget_ok t k Hinv) as (Hs & Hu & HPk).
    destruct (bucket_remove_inv same same_sym _ _ _ Hs Hu E) as (Hs' & Hu' & Hsub).
    split; [assumption|]. split; [assumption|]. intros x Hx. apply HPk. now apply Hsub.
  Qed.

  (** what tadd does to every bucket *)
  Lemma tadd_get : forall t k r t' ok, keys_nodup t ->
    tadd keqb same srt k r t = (t', ok) ->
    (forall k', k' <> k -> tget keqb k' t' = tget keqb k' t) /\
    (ok = false -> t' = t /\ bucket_put same r (tget keqb k t) = None) /\
    (ok = true -> exists b0, bucket_put same r (tget keqb k t) = Some b0 /\ tget keqb k t' = srt b0).
  Proof.
    unfold tadd, bucket_add. intros t k r t' ok Hn H.
    destruct (bucket_put same r (tget keqb k t)) as [b0|] eqn:E; inversion H; subst.
    - split; [intros k' Hne; now apply tget_tset_other|].
      split; [discriminate|]. intros _. exists b0. split; [reflexivity|now apply tget_tset_same].
    - split; [reflexivity|]. split; [auto|discriminate].
  Qed.

  Lemma tremove_get : forall t k o t' ok, keys_nodup t ->
    tremove keqb k o t = (t', ok) ->
    (forall k', k' <> k -> tget keqb k' t' = tget keqb k' t) /\
    (ok = false -> t' = t /\ bucket_remove o (tget keqb k t) = None) /\
    (ok = true -> exists b0, bucket_remove o (tget keqb k t) = Some b0 /\ tget keqb k t' = b0).
  Proof.
    unfold tremove. intros t k o t' ok Hn H.
    destruct (bucket_remove o (tget keqb k t)) as [b0|] eqn:E; inversion H; subst.
    - split; [intros k' Hne; now apply tget_tset_other|].
      split; [discriminate|]. intros _. exists b0. split; [reflexivity|now apply tget_tset_same].
    - split; [reflexivity|]. split; [auto|discriminate].
  Qed.

  (** ** How a table may change in one step *)

  (** the replacement rule between two states of a table: a stored route that
      shares its slot with a route stored before (same key) is that route or
      is newer than it *)
  Definition rule1 t t' : Prop :=
    forall k x y, stored t k x -> stored t' k y -> same x y = true -> y = x \/ newer y x = true.

  (** additions only: the rule holds and no slot is vacated *)
  Definition grow t t' : Prop :=
    rule1 t t' /\ forall k x, stored t k x -> exists y, stored t' k y /\ same x y = true.

  (** removals only: every stored route was stored before, unchanged *)
  Definition shrink t t' : Prop := forall k y, stored t' k y -> stored t k y.

  Lemma newer_trans : forall x y z, newer y x = true -> newer z y = true -> newer z x = true.
  Proof.
    unfold newer. intros x y z H1 H2.
    apply orb_true_iff in H1, H2. apply orb_true_iff.
    rewrite !andb_true_iff, !N.ltb_lt, !N.eqb_eq in *. lia.
  Qed.

  Lemma grow_refl : forall t, table_inv t -> grow t t.
  Proof.
    intros t Hinv. split.
    - intros k x y Hx Hy Hs. left. symmetry.
      destruct (tget_ok t k Hinv) as (_ & Hu & _).
      eapply (slots_unique_same_eq same same_sym); eauto.
    - intros k x Hx. exists x. split; [assumption|apply same_refl].
  Qed.

  Lemma grow_trans : forall t1 t2 t3, grow t1 t2 -> grow t2 t3 -> grow t1 t3.
  Proof.
    intros t1 t2 t3 [R12 E12] [R23 E23]. split.
    - intros k x z Hx Hz Hs.
      destruct (E12 k x Hx) as (y & Hy & Hxy).
      assert (Hyz : same y z = true) by (apply same_trans with x; [rewrite same_sym; assumption|assumption]).
      destruct (R12 k x y Hx Hy Hxy) as [E1|N1]; destruct (R23 k y z Hy Hz Hyz) as [E2|N2].
      + left. congruence.
      + right. rewrite <- E1. exact N2.
      + right. rewrite E2. exact N1.
      + right. eapply newer_trans; eauto.
    - intros k x Hx. destruct (E12 k x Hx) as (y & Hy & Hxy). destruct (E23 k y Hy) as (z & Hz & Hyz).
      exists z. split; [assumption|]. eapply same_trans; eauto.
  Qed.

  Lemma shrink_refl : forall t, shrink t t.
  Proof. intros t k y H. exact H. Qed.

  Lemma shrink_trans : forall t1 t2 t3, shrink t1 t2 -> shrink t2 t3 -> shrink t1 t3.
  Proof. intros t1 t2 t3 H1 H2 k y H. apply H1. now apply H2. Qed.

  Lemma shrink_rule1 : forall t t', table_inv t -> shrink t t' -> rule1 t t'.
  Proof.
    intros t t' Hinv Hs k x y Hx Hy Hxy. left. symmetry.
    destruct (tget_ok t k Hinv) as (_ & Hu & _).
    eapply (slots_unique_same_eq same same_sym); eauto. now apply Hs.
  Qed.

  Lemma tadd_grow : forall t k r t' ok, table_inv t ->
    tadd keqb same srt k r t = (t', ok) -> grow t t'.
  Proof.
    intros t k r t' ok Hinv H.
    destruct (tadd_get t k r t' ok (proj1 Hinv) H) as (Hother & Hfalse & Htrue).
    destruct ok.
    - destruct (Htrue eq_refl) as (b0 & Hput & Hget). clear Hfalse Htrue.
      destruct (tget_ok t k Hinv) as (_ & Hu & _).
      split.
      + intros k' x y Hx Hy Hs. unfold stored in *.
        destruct (keqb k' k) eqn:E.
        * apply keqb_spec in E. subst k'. rewrite Hget in Hy.
          apply (Permutation_in _ (srt_perm b0)) in Hy.
          eapply (bucket_put_rule same same_sym same_trans); eauto.
        * assert (k' <> k) by (intros ->; rewrite keqb_refl in E; discriminate).
          rewrite (Hother k' H0) in Hy. left. symmetry.
          destruct (tget_ok t k' Hinv) as (_ & Hu' & _).
          eapply (slots_unique_same_eq same same_sym); eauto.
      + intros k' x Hx. unfold stored in *.
        destruct (keqb k' k) eqn:E.
        * apply keqb_spec in E. subst k'. rewrite Hget.
          destruct (same x r) eqn:Er.
          -- exists r. split; [|assumption].
             apply (Permutation_in _ (Permutation_sym (srt_perm b0))).
             apply (bucket_put_in_iff same same_sym same_trans _ _ _ _ Hu Hput). now left.
          -- exists x. split; [|apply same_refl].
             apply (Permutation_in _ (Permutation_sym (srt_perm b0))).
             apply (bucket_put_in_iff same same_sym same_trans _ _ _ _ Hu Hput). right. now split.
        * assert (k' <> k) by (intros ->; rewrite keqb_refl in E; discriminate).
          exists x. split; [now rewrite (Hother k' H0)|apply same_refl].
    - destruct (Hfalse eq_refl) as [-> _]. now apply grow_refl.
  Qed.

  Lemma tremove_shrink : forall t k o t' ok, keys_nodup t ->
    tremove keqb k o t = (t', ok) -> shrink t t'.
  Proof.
    intros t k o t' ok Hn H.
    destruct (tremove_get t k o t' ok Hn H) as (Hother & Hfalse & Htrue).
    destruct ok.
    - destruct (Htrue eq_refl) as (b0 & Hrem & Hget).
      intros k' y Hy. unfold stored in *.
      destruct (keqb k' k) eqn:E.
      + apply keqb_spec in E. subst k'. rewrite Hget in Hy.
        destruct (bucket_remove_spec _ _ _ Hrem) as (b1 & x & b2 & Hb & -> & _).
        rewrite Hb. apply in_app_or in Hy. apply in_or_app. destruct Hy; [left|right; right]; assumption.
      + assert (k' <> k) by (intros ->; rewrite keqb_refl in E; discriminate).
        now rewrite <- (Hother k' H0).
    - destruct (Hfalse eq_refl) as [-> _]. apply shrink_refl.
  Qed.

  Lemma tfilter_shrink : forall f t, keys_nodup t -> shrink t (tfilter f t).
  Proof.
    intros f t Hn k y Hy. unfold stored in *. rewrite (tget_tfilter f t k Hn) in Hy.
    apply filter_In in Hy. tauto.
  Qed.

  (** keyed lookup: nothing iff nothing stored; otherwise a stored route of
      lowest metric *)
  Lemma tlookup_spec : forall t k, table_inv t ->
    match tlookup keqb k t with
    | None => forall x, ~ stored t k x
    | Some r => stored t k r /\ forall x, stored t k x -> e_metric r <= e_metric x
    end.
  Proof.
    intros t k Hinv. unfold tlookup, stored.
    pose proof (tget_ok t k Hinv) as (Hs & _ & _).
    destruct (tget keqb k t) as [|r b] eqn:E.
    - intros x [].
    - split; [now left|]. intros x Hx. eapply msorted_head_min; eauto.
  Qed.
End TableFacts.

(* ------------------------------------------------------------------ *)
(** * The longest-prefix scan *)

Section Scan.
  Context {K D : Type}.
  Variable d_contains : D -> addr -> bool.
  Variable d_ones : D -> N.
  Implicit Types (t : table K D) (best : option (entry D)).

  (** what the scan over the buckets returns, for any starting [best] *)
  Lemma lpm_scan_spec : forall t a best,
    match lpm_scan d_contains d_ones t a best with
    | None => best = None /\
              forall k f b, In (k, f :: b) t -> d_contains (e_data f) a = false
    | Some r =>
        (best = Some r \/ (exists k b, In (k, r :: b) t /\ d_contains (e_data r) a = true)) /\
        (forall bb, best = Some bb -> d_ones (e_data bb) <= d_ones (e_data r)) /\
        (forall k f b, In (k, f :: b) t -> d_contains (e_data f) a = true ->
                       d_ones (e_data f) <= d_ones (e_data r))
    end.
  Proof.
    induction t as [|[k0 [|f0 b0]] t IH]; intros a best; simpl.
    - destruct best as [r|].
      + split; [now left|]. split; [intros bb H; inversion H; subst; lia|]. intros k f b [].
      + split; [reflexivity|]. intros k f b [].
    - specialize (IH a best).
      destruct (lpm_scan d_contains d_ones t a best) as [r|].
      + destruct IH as (H1 & H2 & H3). split.
        * destruct H1 as [H1|(k & b & Hin & Hc)]; [now left|right; exists k, b; split; [now right|assumption]].
        * split; [assumption|]. intros k f b [Heq|Hin]; [inversion Heq|now apply (H3 k f b)].
      + destruct IH as (H1 & H2). split; [assumption|].
        intros k f b [Heq|Hin]; [inversion Heq|now apply (H2 k f b)].
    - destruct (d_contains (e_data f0) a) eqn:Ec.
      + destruct best as [bb|].
        * destruct (d_ones (e_data bb) <? d_ones (e_data f0)) eqn:El.
          -- apply N.ltb_lt in El. specialize (IH a (Some f0)).
             destruct (lpm_scan d_contains d_ones t a (Some f0)) as [r|].
             ++ destruct IH as (H1 & H2 & H3). split.
                ** right. destruct H1 as [H1|(k & b & Hin & Hc)].
                   --- inversion H1; subst. exists k0, b0. split; [now left|assumption].
                   --- exists k, b. split; [now right|assumption].
                ** split.
                   --- intros bb' H; inversion H; subst. specialize (H2 f0 eq_refl). lia.
                   --- intros k f b [Heq|Hin] Hc; [inversion Heq; subst; now apply H2|now apply (H3 k f b)].
             ++ destruct IH as [H _]. discriminate.
          -- apply N.ltb_ge in El. specialize (IH a (Some bb)).
             destruct (lpm_scan d_contains d_ones t a (Some bb)) as [r|].
             ++ destruct IH as (H1 & H2 & H3). split.
                ** destruct H1 as [H1|(k & b & Hin & Hc)]; [now left|right; exists k, b; split; [now right|assumption]].
                ** split; [assumption|].
                   intros k f b [Heq|Hin] Hc; [inversion Heq; subst; specialize (H2 bb eq_refl); lia|now apply (H3 k f b)].
             ++ destruct IH as [H _]. discriminate.
        * specialize (IH a (Some f0)).
          destruct (lpm_scan d_contains d_ones t a (Some f0)) as [r|].
          -- destruct IH as (H1 & H2 & H3). split.
             ++ right. destruct H1 as [H1|(k & b & Hin & Hc)].
                ** inversion H1; subst. exists k0, b0. split; [now left|assumption].
                ** exists k, b. split; [now right|assumption].
             ++ split; [intros bb H; discriminate|].
                intros k f b [Heq|Hin] Hc; [inversion Heq; subst; now apply H2|now apply (H3 k f b)].
          -- destruct IH as [H _]. discriminate.
      + specialize (IH a best).
        destruct (lpm_scan d_contains d_ones t a best) as [r|].
        * destruct IH as (H1 & H2 & H3). split.
          -- destruct H1 as [H1|(k & b & Hin & Hc)]; [now left|right; exists k, b; split; [now right|assumption]].
          -- split; [assumption|].
             intros k f b [Heq|Hin] Hc; [inversion Heq; subst; congruence|now apply (H3 k f b)].
        * destruct IH as (H1 & H2). split; [assumption|].
          intros k f b [Heq|Hin]; [inversion Heq; subst; assumption|now apply (H2 k f b)].
  Qed.
End Scan.
