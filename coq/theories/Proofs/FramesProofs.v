(** Proofs about Model/Frames.v: every codec term is [good] (round trip with an
    arbitrary continuation, decoded values are within limits, minimum
    consumption), hence the top-level Encode/Decode pairs are lossless and
    stable. *)
From Coq Require Import List Bool NArith ZArith Lia ZifyN ZifyNat ZifyBool.
From Coq.Strings Require Import Byte.
From MM Require Import Lib.Bytes Lib.Codec Model.Frames.
Import ListNotations.
Local Open Scope N_scope.
Ltac Zify.zify_post_hook ::= Z.div_mod_to_equations.

(** * The two halves of the property, for an Encode/Decode pair *)

(** a message within its wire limits is encoded, and decodes to itself *)
Definition lossless {A} (encode : A -> option bytes) (decode : bytes -> option A) (wf : A -> bool) : Prop :=
  forall m, wf m = true -> exists b, encode m = Some b /\ decode b = Some m.
(** whatever decodes from arbitrary bytes is within limits and re-encodes to bytes that decode to the same message *)
Definition stable {A} (encode : A -> option bytes) (decode : bytes -> option A) (wf : A -> bool) : Prop :=
  forall b m, decode b = Some m -> wf m = true /\ exists b', encode m = Some b' /\ decode b' = Some m.

Lemma codec_lossless : forall {A} (c : codec A) min, good c -> min <= minlen c ->
  lossless (fun m => Some (enc c m)) (decode_top min c) (wfb c).
Proof.
  intros A c min G M m W. eexists. split; [reflexivity|]. apply decode_top_roundtrip; assumption.
Qed.

Lemma codec_stable : forall {A} (c : codec A) min, good c -> min <= minlen c ->
  stable (fun m => Some (enc c m)) (decode_top min c) (wfb c).
Proof.
  intros A c min G M b m D. destruct (decode_top_stable c min b m G M D) as [W R].
  split; [exact W|]. eexists. split; [reflexivity|exact R].
Qed.

(** * Length functions of the raw self-delimiting fields *)

Lemma plen_domain_ok : plen_ok plen_domain 1.
Proof.
  repeat split.
  - intros b rest n H L. destruct b as [|x b]; [discriminate|]. exact H.
  - intros b rest n H L. destruct b as [|x b].
    + cbn [lenN] in L. destruct rest as [|y r]; [discriminate|]. cbn [app plen_domain] in H.
      exfalso. assert (1 + b2n y = n) by congruence. lia.
    + exact H.
  - intros b n H. destruct b as [|x b]; [discriminate|]. cbn [plen_domain] in H.
    assert (1 + b2n x = n) by congruence. lia.
Qed.

Lemma takeN_app_enough : forall a n p q rest, takeN n a = Some (p, q) -> takeN n (a ++ rest) = Some (p, q ++ rest).
Proof.
  induction a as [|x a IH]; intros n p q rest H; cbn [takeN] in H.
  - destruct (n =? 0) eqn:E; [|discriminate]. injection H as <- <-.
    apply N.eqb_eq in E. subst n. cbn [app]. apply takeN_0.
  - cbn [app takeN]. destruct (n =? 0) eqn:E.
    + injection H as <- <-. reflexivity.
    + destruct (takeN (N.pred n) a) as [[p' q']|] eqn:T; [|discriminate].
      injection H as <- <-. rewrite (IH _ _ _ rest T). reflexivity.
Qed.

Lemma takeN_app_cut : forall a rest n p q, takeN n (a ++ rest) = Some (p, q) -> n <= lenN a ->
  exists q', takeN n a = Some (p, q') /\ q = q' ++ rest.
Proof.
  induction a as [|x a IH]; intros rest n p q H L.
  - cbn [lenN] in L. assert (n = 0) by lia. subst n. rewrite takeN_0 in H. injection H as <- <-.
    exists []. split; reflexivity.
  - cbn [app takeN] in H. cbn [takeN]. destruct (n =? 0) eqn:E.
    + injection H as <- <-. exists (x :: a). split; reflexivity.
    + destruct (takeN (N.pred n) (a ++ rest)) as [[p' q0]|] eqn:T; [|discriminate].
      injection H as <- <-. cbn [lenN] in L.
      destruct (IH rest (N.pred n) p' q0 T) as (q' & T' & ->); [lia|].
      rewrite T'. exists q'. split; reflexivity.
Qed.

Lemma plen_forward_ok : plen_ok plen_forward 2.
Proof.
  repeat split.
  - intros b rest n H L. destruct b as [|k t]; [discriminate|]. cbn [plen_forward app] in *.
    destruct (takeN (b2n k) t) as [[p q]|] eqn:T; [|discriminate].
    destruct q as [|tl q]; [discriminate|]. rewrite (takeN_app_enough _ _ _ _ rest T). exact H.
  - intros b rest n H L. destruct b as [|k t].
    + cbn [lenN] in L. cbn [app] in H. destruct rest as [|y r]; [discriminate|].
      cbn [plen_forward] in H. destruct (takeN (b2n y) r) as [[p [|tl q]]|]; try discriminate.
      exfalso. assert (1 + b2n y + 1 + b2n tl = n) by congruence. lia.
    + cbn [plen_forward app] in *.
      destruct (takeN (b2n k) (t ++ rest)) as [[p q]|] eqn:T; [|discriminate].
      destruct q as [|tl q]; [discriminate|].
      assert (En : 1 + b2n k + 1 + b2n tl = n) by congruence. clear H. cbn [lenN] in L.
      destruct (takeN_app_cut t rest (b2n k) p (tl :: q) T) as (q' & T' & Eq); [lia|].
      rewrite T'. destruct q' as [|tl' q'].
      * (* the target length byte would lie in [rest]: excluded by the length bound *)
        exfalso. apply takeN_some in T'. destruct T' as [-> Lp]. rewrite app_nil_r in L. lia.
      * cbn [app] in Eq. injection Eq as -> _. rewrite En. reflexivity.
  - intros b n H. destruct b as [|k t]; [discriminate|]. cbn [plen_forward] in H.
    destruct (takeN (b2n k) t) as [[p [|tl q]]|]; try discriminate.
    assert (1 + b2n k + 1 + b2n tl = n) by congruence. lia.
Qed.

(** * Every codec term is good *)

Create HintDb codec.
#[export] Hint Resolve uint_good fixed_good boolc_good lpbytes_good pairc_good listc_good failc_good : codec.

Lemma u8_good : good u8. Proof. apply uint_good. Qed.
Lemma u16_good : good u16. Proof. apply uint_good. Qed.
Lemma u32_good : good u32. Proof. apply uint_good. Qed.
Lemma u64_good : good u64. Proof. apply uint_good. Qed.
Lemma id16_good : good id16. Proof. apply fixed_good. Qed.
Lemma key32_good : good key32. Proof. apply fixed_good. Qed.
Lemma sig64_good : good sig64. Proof. apply fixed_good. Qed.
Lemma str8_good : good str8. Proof. apply lpbytes_good. Qed.
Lemma idlist_good : good idlist. Proof. apply listc_good, id16_good. Qed.
#[export] Hint Resolve u8_good u16_good u32_good u64_good id16_good key32_good sig64_good str8_good idlist_good : codec.

Lemma addr_body_min : forall t, 1 <= minlen (addr_body t).
Proof.
  intros t. unfold addr_body.
  destruct (t =? addr_domain); [cbn; lia|].
  destruct (t =? addr_ipv4); [cbn; lia|].
  destruct (t =? addr_ipv6); cbn; lia.
Qed.

Lemma addr_body_good : forall t, good (addr_body t).
Proof.
  intros t. unfold addr_body.
  destruct (t =? addr_domain); [apply rawc_good, plen_domain_ok|].
  destruct (t =? addr_ipv4); [apply fixed_good|].
  destruct (t =? addr_ipv6); [apply fixed_good|apply failc_good].
Qed.

Lemma prefix_body_good : forall f, good (prefix_body f).
Proof.
  intros f. unfold prefix_body.
  destruct (f =? fam_domain); [apply rawc_good, plen_domain_ok|].
  destruct (f =? fam_forward); [apply rawc_good, plen_forward_ok|apply fixed_good].
Qed.
#[export] Hint Resolve addr_body_good prefix_body_good : codec.

Ltac good := repeat first
  [ apply pairc_good | apply listc_good | apply uint_good | apply fixed_good | apply boolc_good
  | apply lpbytes_good | apply addr_body_good | apply prefix_body_good
  | apply depc_good; [ | intros ?; cbv beta | let a := fresh "a" in intros a; pose proof (addr_body_min a);
                     cbn [minlen pairc uint fixed lpbytes listc boolc]; unfold key_size, signature_size; lia ] ].

Lemma PeerHello_good : good PeerHello_c. Proof. unfold PeerHello_c, u16, u64, id16, str8. good. Qed.
Lemma Open_good : good Open_c.
Proof. unfold Open_c, u64, u8, u16, idlist, key32, id16. good. Qed.
Lemma Ack_good : good Ack_c.
Proof. unfold Ack_c, u64, u8, u16, key32. good. Qed.
Lemma Err_good : good Err_c. Proof. unfold Err_c, u64, u16, str8. good. Qed.
Lemma Route_good : good Route_c. Proof. unfold Route_c, u8, u16. good. Qed.
Lemma WRoute_good : good WRoute_c. Proof. unfold WRoute_c, u8, u16. good. Qed.
Lemma EncData_good : good EncData_c. Proof. unfold EncData_c. good. Qed.
Lemma RAW_good : good RAW_c.
Proof. unfold RAW_c. repeat apply pairc_good; auto using Route_good, EncData_good with codec. Qed.
Lemma RW_good : good RW_c.
Proof. unfold RW_c. repeat apply pairc_good; auto using WRoute_good with codec. Qed.
Lemma Peer_good : good Peer_c. Proof. unfold Peer_c, id16, str8, u64. good. Qed.
Lemma FL_good : good FL_c. Proof. unfold FL_c, str8. good. Qed.
Lemma NI_good : good NI_c.
Proof. unfold NI_c. repeat apply pairc_good; auto using Peer_good, FL_good with codec. Qed.
Lemma NIAW_good : good NIAW_c.
Proof. unfold NIAW_c. repeat apply pairc_good; auto using EncData_good with codec. Qed.
Lemma CtlReq_good : good CtlReq_c. Proof. unfold CtlReq_c. repeat apply pairc_good; auto with codec. Qed.
Lemma CtlResp_good : good CtlResp_c. Proof. unfold CtlResp_c. repeat apply pairc_good; auto with codec. Qed.
Lemma UDPDatagram_good : good UDPDatagram_c.
Proof. unfold UDPDatagram_c, u8, u16. good. Qed.
Lemma ICMPOpen_good : good ICMPOpen_c. Proof. unfold ICMPOpen_c. repeat apply pairc_good; auto with codec. Qed.
Lemma ICMPOpenAck_good : good ICMPOpenAck_c. Proof. unfold ICMPOpenAck_c. repeat apply pairc_good; auto with codec. Qed.
Lemma ICMPEcho_good : good ICMPEcho_c. Proof. unfold ICMPEcho_c. repeat apply pairc_good; auto with codec. Qed.
Lemma Cmd_good : good Cmd_c. Proof. unfold Cmd_c. repeat apply pairc_good; auto with codec. Qed.
Lemma Header_good : good Header_c. Proof. unfold Header_c. repeat apply pairc_good; auto with codec. Qed.

(** * Regular messages: lossless and stable *)

Ltac top G := first [ apply codec_lossless | apply codec_stable ]; [ exact G | apply N.leb_le; vm_compute; reflexivity ].

Lemma PeerHello_lossless : lossless encode_PeerHello decode_PeerHello (wfb PeerHello_c).
Proof. top PeerHello_good. Qed.
Lemma PeerHello_stable : stable encode_PeerHello decode_PeerHello (wfb PeerHello_c).
Proof. top PeerHello_good. Qed.
Lemma Open_lossless : lossless encode_Open decode_Open (wfb Open_c).
Proof. top Open_good. Qed.
Lemma Open_stable : stable encode_Open decode_Open (wfb Open_c).
Proof. top Open_good. Qed.
Lemma Ack_lossless : lossless encode_Ack decode_Ack (wfb Ack_c).
Proof. top Ack_good. Qed.
Lemma Ack_stable : stable encode_Ack decode_Ack (wfb Ack_c).
Proof. top Ack_good. Qed.
Lemma StreamReset_lossless : lossless encode_StreamReset decode_StreamReset (wfb u16).
Proof. top u16_good. Qed.
Lemma StreamReset_stable : stable encode_StreamReset decode_StreamReset (wfb u16).
Proof. top u16_good. Qed.
Lemma Keepalive_lossless : lossless encode_Keepalive decode_Keepalive (wfb u64).
Proof. top u64_good. Qed.
Lemma Keepalive_stable : stable encode_Keepalive decode_Keepalive (wfb u64).
Proof. top u64_good. Qed.
Lemma Close_lossless : lossless encode_Close decode_Close (wfb u8).
Proof. top u8_good. Qed.
Lemma Close_stable : stable encode_Close decode_Close (wfb u8).
Proof. top u8_good. Qed.
Lemma Path_lossless : lossless encode_Path decode_Path (wfb idlist).
Proof. top idlist_good. Qed.
Lemma Path_stable : stable encode_Path decode_Path (wfb idlist).
Proof. top idlist_good. Qed.
Lemma CtlReq_lossless : lossless encode_CtlReq decode_CtlReq (wfb CtlReq_c).
Proof. top CtlReq_good. Qed.
Lemma CtlReq_stable : stable encode_CtlReq decode_CtlReq (wfb CtlReq_c).
Proof. top CtlReq_good. Qed.
Lemma UDPDatagram_lossless : lossless encode_UDPDatagram decode_UDPDatagram (wfb UDPDatagram_c).
Proof. top UDPDatagram_good. Qed.
Lemma UDPDatagram_stable : stable encode_UDPDatagram decode_UDPDatagram (wfb UDPDatagram_c).
Proof. top UDPDatagram_good. Qed.
Lemma ICMPOpen_lossless : lossless encode_ICMPOpen decode_ICMPOpen (wfb ICMPOpen_c).
Proof. top ICMPOpen_good. Qed.
Lemma ICMPOpen_stable : stable encode_ICMPOpen decode_ICMPOpen (wfb ICMPOpen_c).
Proof. top ICMPOpen_good. Qed.
Lemma ICMPOpenAck_lossless : lossless encode_ICMPOpenAck decode_ICMPOpenAck (wfb ICMPOpenAck_c).
Proof. top ICMPOpenAck_good. Qed.
Lemma ICMPOpenAck_stable : stable encode_ICMPOpenAck decode_ICMPOpenAck (wfb ICMPOpenAck_c).
Proof. top ICMPOpenAck_good. Qed.
Lemma ICMPEcho_lossless : lossless encode_ICMPEcho decode_ICMPEcho (wfb ICMPEcho_c).
Proof. top ICMPEcho_good. Qed.
Lemma ICMPEcho_stable : stable encode_ICMPEcho decode_ICMPEcho (wfb ICMPEcho_c).
Proof. top ICMPEcho_good. Qed.
Lemma Cmd_lossless : lossless encode_Cmd decode_Cmd (wfb Cmd_c).
Proof. top Cmd_good. Qed.
Lemma Cmd_stable : stable encode_Cmd decode_Cmd (wfb Cmd_c).
Proof. top Cmd_good. Qed.
