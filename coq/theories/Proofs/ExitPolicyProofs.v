(** Proofs about the exit destination policy model (C19). *)
From Coq Require Import List NArith Bool Lia PeanoNat.
From MM Require Import Lib.Bytes Model.ExitPolicy.
Import ListNotations.
Local Open Scope N_scope.

(** ** Equality tests *)

Lemma net_eqb_eq : forall x y, net_eqb x y = true <-> x = y.
Proof.
  intros [a1 b1 p1] [a2 b2 p2]. unfold net_eqb. cbn [n_is6 n_base n_plen]. split.
  - intros H. apply andb_prop in H. destruct H as [H H3]. apply andb_prop in H. destruct H as [H1 H2].
    apply Bool.eqb_prop in H1. apply N.eqb_eq in H2. apply N.eqb_eq in H3. subst. reflexivity.
  - intros H. injection H as -> -> ->. rewrite Bool.eqb_reflx, !N.eqb_refl. reflexivity.
Qed.

Lemma net_eqb_refl : forall x, net_eqb x x = true.
Proof. intros x. apply net_eqb_eq. reflexivity. Qed.

Lemma net_eqb_neq : forall x y, net_eqb x y = false <-> x <> y.
Proof.
  intros x y. split.
  - intros H E. apply net_eqb_eq in E. congruence.
  - intros H. destruct (net_eqb x y) eqn:E; [|reflexivity]. apply net_eqb_eq in E. contradiction.
Qed.

Lemma net_eq_dec : forall x y : net, {x = y} + {x <> y}.
Proof.
  intros x y. destruct (net_eqb x y) eqn:E; [left; apply net_eqb_eq; exact E|right; apply net_eqb_neq; exact E].
Qed.

Lemma mem_net_in : forall k l, mem_net k l = true <-> In k l.
Proof.
  intros k l. unfold mem_net. rewrite existsb_exists. split.
  - intros (x & Hin & E). apply net_eqb_eq in E. subst. exact Hin.
  - intros H. exists k. split; [exact H|apply net_eqb_refl].
Qed.

Lemma mem_net_notin : forall k l, mem_net k l = false <-> ~ In k l.
Proof.
  intros k l. split.
  - intros H Hin. apply mem_net_in in Hin. congruence.
  - intros H. destruct (mem_net k l) eqn:E; [|reflexivity]. apply mem_net_in in E. contradiction.
Qed.

Definition keys (d : list (net * N)) : list net := map fst d.

Lemma mem_dyn_in : forall k l, mem_dyn k l = true <-> In k (keys l).
Proof.
  intros k l. unfold mem_dyn, keys. rewrite existsb_exists, in_map_iff. split.
  - intros (e & Hin & E). apply net_eqb_eq in E. exists e. split; [symmetry; exact E|exact Hin].
  - intros (e & E & Hin). exists e. split; [exact Hin|]. rewrite <- E. apply net_eqb_refl.
Qed.

Lemma mem_dyn_notin : forall k l, mem_dyn k l = false <-> ~ In k (keys l).
Proof.
  intros k l. split.
  - intros H Hin. apply mem_dyn_in in Hin. congruence.
  - intros H. destruct (mem_dyn k l) eqn:E; [|reflexivity]. apply mem_dyn_in in E. contradiction.
Qed.

(** ** The dynamic-route table *)

Lemma keys_upsert : forall k m l x, In x (keys (dyn_upsert k m l)) <-> x = k \/ In x (keys l).
Proof.
  intros k m l x. unfold keys. induction l as [|e l IH]; cbn [dyn_upsert map In].
  - split; [intros [H|[]]; left; symmetry; exact H|intros [H|[]]; left; symmetry; exact H].
  - destruct (net_eqb k (fst e)) eqn:E; cbn [map In fst].
    + apply net_eqb_eq in E. rewrite <- E. split.
      * intros [H|H]; [left; symmetry; exact H|right; right; exact H].
      * intros [H|[H|H]]; [left; symmetry; exact H|left; exact H|right; exact H].
    + rewrite IH. tauto.
Qed.

Lemma keys_remove : forall k l x, In x (keys (dyn_remove k l)) <-> x <> k /\ In x (keys l).
Proof.
  intros k l x. unfold keys, dyn_remove. rewrite !in_map_iff. split.
  - intros (e & E & Hin). apply filter_In in Hin. destruct Hin as [Hin Hne].
    apply negb_true_iff, net_eqb_neq in Hne. split; [congruence|]. exists e. split; assumption.
  - intros (Hne & e & E & Hin). exists e. split; [exact E|]. apply filter_In. split; [exact Hin|].
    apply negb_true_iff, net_eqb_neq. congruence.
Qed.

(** ** The allow list *)

Lemma allow_add_app : forall k A D, ~ In k A -> allow_add k (A ++ D) = A ++ allow_add k D.
Proof.
  intros k A D Hn. unfold allow_add.
  assert (E : mem_net k (A ++ D) = mem_net k D).
  { destruct (mem_net k D) eqn:ED.
    - apply mem_net_in. apply in_or_app. right. apply mem_net_in. exact ED.
    - apply mem_net_notin. intros Hin. apply in_app_or in Hin. destruct Hin as [H|H]; [contradiction|].
      apply mem_net_in in H. congruence. }
  rewrite E. destruct (mem_net k D); [reflexivity|apply app_assoc_reverse].
Qed.

Lemma allow_add_in : forall k D x, In x (allow_add k D) <-> x = k \/ In x D.
Proof.
  intros k D x. unfold allow_add. destruct (mem_net k D) eqn:E.
  - apply mem_net_in in E. split; [intros H; right; exact H|intros [->|H]; assumption].
  - rewrite in_app_iff. cbn [In]. split.
    + intros [H|[H|[]]]; [right; exact H|left; symmetry; exact H].
    + intros [H|H]; [right; left; symmetry; exact H|left; exact H].
Qed.

Lemma nodup_snoc : forall (D : list net) k, NoDup D -> ~ In k D -> NoDup (D ++ [k]).
Proof.
  induction D as [|d D IH]; intros k Hnd Hn; cbn [app].
  - constructor; [intros []|constructor].
  - inversion Hnd as [|? ? Hd Hnd']. subst. constructor.
    + intros Hin. apply in_app_or in Hin. destruct Hin as [H|[H|[]]]; [contradiction|].
      apply Hn. left. symmetry. exact H.
    + apply IH; [exact Hnd'|]. intros H. apply Hn. right. exact H.
Qed.

Lemma allow_add_nodup : forall k D, NoDup D -> NoDup (allow_add k D).
Proof.
  intros k D H. unfold allow_add. destruct (mem_net k D) eqn:E; [exact H|].
  apply mem_net_notin in E. apply nodup_snoc; assumption.
Qed.

Lemma allow_remove_app : forall k A D, ~ In k A -> allow_remove k (A ++ D) = A ++ allow_remove k D.
Proof.
  intros k A D. induction A as [|a A IH]; intros Hn; cbn [app allow_remove]; [reflexivity|].
  destruct (net_eqb a k) eqn:E.
  - apply net_eqb_eq in E. exfalso. apply Hn. left. exact E.
  - f_equal. apply IH. intros H. apply Hn. right. exact H.
Qed.

Lemma allow_remove_in : forall k D x, NoDup D -> (In x (allow_remove k D) <-> x <> k /\ In x D).
Proof.
  intros k D x. induction D as [|d D IH]; intros Hnd; cbn [allow_remove In]; [tauto|].
  inversion Hnd as [|? ? Hnin Hnd']. subst.
  destruct (net_eqb d k) eqn:E.
  - apply net_eqb_eq in E. subst d. split.
    + intros H. split; [intros ->; contradiction|right; exact H].
    + intros [Hne [H|H]]; [congruence|exact H].
  - apply net_eqb_neq in E. cbn [In]. rewrite (IH Hnd'). split.
    + intros [H|[H1 H2]]; [subst; split; [exact E|left; reflexivity]|split; [exact H1|right; exact H2]].
    + intros [Hne [H|H]]; [left; exact H|right; split; assumption].
Qed.

Lemma allow_remove_nodup : forall k D, NoDup D -> NoDup (allow_remove k D).
Proof.
  intros k D. induction D as [|d D IH]; intros H; cbn [allow_remove]; [constructor|].
  inversion H as [|? ? Hnin Hnd]. subst. destruct (net_eqb d k); [exact Hnd|].
  constructor; [|apply IH; exact Hnd].
  intros Hin. apply (allow_remove_in k D d Hnd) in Hin. destruct Hin as [_ Hin]. contradiction.
Qed.

(** ** The invariant of every reachable state *)

Definition configured_nets (c : cfg) : list net :=
  if c_enabled c then map canon_net (c_routes c) else [].

Definition configured_domains (c : cfg) : list bytes :=
  if c_enabled c then c_domains c else [].

Record inv (c : cfg) (st : state) : Prop := mkInv {
  inv_domains : s_domains st = configured_domains c;
  inv_local : forall k, In k (s_local st) <-> In k (map canon_net (c_routes c)) \/ In k (keys (s_dyn st));
  inv_disjoint : forall k, In k (keys (s_dyn st)) -> ~ In k (map canon_net (c_routes c));
  inv_allow : match s_allow st with
              | None => c_enabled c = false /\ s_dyn st = []
              | Some l => exists D, l = configured_nets c ++ D /\ NoDup D /\
                                    (forall k, In k D <-> In k (keys (s_dyn st)))
              end
}.

Lemma configured_subset : forall c k, In k (configured_nets c) -> In k (map canon_net (c_routes c)).
Proof. intros c k. unfold configured_nets. destruct (c_enabled c); [tauto|intros []]. Qed.

Lemma inv_init : forall c, inv c (init c).
Proof.
  intros c. unfold init. constructor; cbn [s_domains s_local s_dyn s_allow keys map].
  - reflexivity.
  - intros k. cbn [In]. tauto.
  - intros k [].
  - unfold configured_nets. destruct (c_enabled c).
    + exists []. rewrite app_nil_r. split; [reflexivity|]. split; [constructor|]. intros k. cbn. tauto.
    + split; reflexivity.
Qed.

Lemma inv_step : forall c st o, inv c st -> inv c (step st o).
Proof.
  intros c st o [Hd Hl Hdis Ha]. destruct o as [cd m|cd| |d|d]; try (constructor; assumption).
  - (* add *)
    unfold step, step_with, manage_add_with. destruct cd as [cd|]; [|constructor; assumption].
    set (k := canon_net cd).
    destruct (mem_net k (s_local st) && negb (mem_dyn k (s_dyn st))) eqn:Eref; cbn [fst]; [constructor; assumption|].
    (* not refused: k is not a configured key *)
    assert (Hnc : ~ In k (map canon_net (c_routes c))).
    { intros Hin. apply andb_false_iff in Eref. destruct Eref as [E|E].
      - apply mem_net_notin in E. apply E. apply Hl. left. exact Hin.
      - apply negb_false_iff, mem_dyn_in in E. exact (Hdis k E Hin). }
    assert (HnA : ~ In k (configured_nets c)) by (intros H; apply Hnc, configured_subset; exact H).
    constructor; cbn [s_domains s_local s_dyn s_allow].
    + exact Hd.
    + intros x. rewrite keys_upsert. destruct (mem_net k (s_local st)) eqn:El.
      * rewrite Hl. split; [tauto|]. intros [H|[->|H]]; [tauto| |tauto].
        apply Hl. apply mem_net_in. exact El.
      * cbn [In]. rewrite Hl. split; [intros [<-|H]; tauto|]. intros [H|[->|H]]; tauto.
    + intros x Hx. apply keys_upsert in Hx. destruct Hx as [->|Hx]; [exact Hnc|apply Hdis; exact Hx].
    + destruct (s_allow st) as [l|].
      * destruct Ha as (D & -> & Hnd & HD). exists (allow_add k D).
        split; [apply allow_add_app; exact HnA|]. split; [apply allow_add_nodup; exact Hnd|].
        intros x. rewrite allow_add_in, keys_upsert, HD. tauto.
      * destruct Ha as [Hen Hdy]. exists [k]. unfold configured_nets. rewrite Hen.
        split; [reflexivity|]. split; [constructor; [intros []|constructor]|].
        intros x. rewrite keys_upsert, Hdy. cbn. split; [intros [<-|[]]; left; reflexivity|intros [->|[]]; left; reflexivity].
  - (* remove *)
    unfold step, step_with, manage_remove. destruct cd as [cd|]; [|constructor; assumption].
    set (k := canon_net cd).
    destruct (mem_dyn k (s_dyn st)) eqn:Edyn; cbn [negb fst]; [|constructor; assumption].
    apply mem_dyn_in in Edyn.
    assert (Hnc : ~ In k (map canon_net (c_routes c))) by (apply Hdis; exact Edyn).
    assert (HnA : ~ In k (configured_nets c)) by (intros H; apply Hnc, configured_subset; exact H).
    constructor; cbn [s_domains s_local s_dyn s_allow].
    + exact Hd.
    + intros x. rewrite keys_remove, filter_In, Hl. rewrite negb_true_iff, net_eqb_neq. split.
      * intros [[H|H] Hne]; [left; exact H|right; split; [congruence|exact H]].
      * intros [H|[Hne H]]; [split; [left; exact H|intros ->; contradiction]|split; [right; exact H|congruence]].
    + intros x Hx. apply keys_remove in Hx. apply Hdis. tauto.
    + destruct (s_allow st) as [l|].
      * destruct Ha as (D & -> & Hnd & HD). exists (allow_remove k D).
        split; [apply allow_remove_app; exact HnA|]. split; [apply allow_remove_nodup; exact Hnd|].
        intros x. rewrite (allow_remove_in k D x Hnd), keys_remove, HD. tauto.
      * destruct Ha as [Hen Hdy]. rewrite Hdy in Edyn. destruct Edyn.
Qed.

Lemma inv_run : forall c h, inv c (run c h).
Proof.
  intros c h. unfold run. generalize (inv_init c). generalize (init c).
  induction h as [|o h IH]; intros st H; cbn [fold_left]; [exact H|]. apply IH, inv_step, H.
Qed.

(** ** Domain patterns: the matcher against its declarative reading *)

Lemma has_suffix_spec : forall suf s,
  has_suffix suf s = true <-> exists pre, s = pre ++ suf.
Proof.
  intros suf s. unfold has_suffix. split.
  - intros H. apply andb_prop in H. destruct H as [Hl He]. apply Nat.leb_le in Hl. apply bytes_eqb_eq in He.
    exists (firstn (length s - length suf) s). rewrite <- He at 2. symmetry. apply firstn_skipn.
  - intros (pre & ->). rewrite app_length. apply andb_true_intro. split; [apply Nat.leb_le; lia|].
    replace (length pre + length suf - length suf)%nat with (length pre) by lia.
    rewrite skipn_app, skipn_all, Nat.sub_diag. cbn. apply bytes_eqb_refl.
Qed.

(** "name matches pattern": exact (case-insensitive) or one extra non-empty
    label in front of the base of a "*." pattern *)
Definition pattern_spec (p nm : bytes) : Prop :=
  match parse_pattern p with
  | (true, base) => exists label, label <> [] /\ has_dot label = false /\ lower nm = label ++ dot :: lower base
  | (false, _) => lower nm = lower p
  end.

Lemma pattern_matches_spec : forall p nm, pattern_matches (lower nm) p = true <-> pattern_spec p nm.
Proof.
  intros p nm. unfold pattern_matches, pattern_spec. destruct (parse_pattern p) as [[|] base].
  - destruct (has_suffix (dot :: lower base) (lower nm)) eqn:Es.
    + apply has_suffix_spec in Es. destruct Es as (pre & Es). rewrite Es.
      rewrite app_length. replace (length pre + length (dot :: lower base) - length (dot :: lower base))%nat with (length pre) by lia.
      rewrite firstn_app, Nat.sub_diag, firstn_all. cbn [firstn]. rewrite app_nil_r. split.
      * intros H. apply andb_prop in H. destruct H as [H1 H2]. exists pre.
        split; [intros ->; discriminate|]. split; [apply negb_true_iff; exact H1|reflexivity].
      * intros (label & Hne & Hd & Hl). apply app_inv_tail in Hl. subst label.
        rewrite Hd. cbn [negb andb]. destruct pre; [contradiction|reflexivity].
    + split; [discriminate|]. intros (label & _ & _ & Hl). exfalso.
      assert (has_suffix (dot :: lower base) (lower nm) = true) by (apply has_suffix_spec; exists label; exact Hl).
      congruence.
  - apply bytes_eqb_eq.
Qed.

Definition name_permitted (c : cfg) (d : dest) : Prop :=
  match d with
  | DName nm None _ => exists p, In p (configured_domains c) /\ pattern_spec p nm
  | _ => False
  end.

Lemma domain_allowed_spec : forall pats nm,
  domain_allowed pats nm = true <-> exists p, In p pats /\ pattern_spec p nm.
Proof.
  intros pats nm. unfold domain_allowed. destruct pats as [|p0 pats].
  - split; [discriminate|intros (p & [] & _)].
  - rewrite existsb_exists. split; intros (p & Hin & H); exists p; (split; [exact Hin|]); apply pattern_matches_spec; exact H.
Qed.

(** ** C19 *)

Definition net_permitted (c : cfg) (st : state) (i : ip) : Prop :=
  exists n, (In n (configured_nets c) \/ In n (keys (s_dyn st))) /\ contains n i = true.

Lemma permitted_iff : forall c h d i,
  open (run c h) d = MPermitted i <->
  dest_ip d = Some i /\ (name_permitted c d \/ net_permitted c (run c h) i).
Proof.
  intros c h d i. pose proof (inv_run c h) as [Hd Hl Hdis Ha]. unfold open.
  destruct (s_allow (run c h)) as [l|] eqn:Eal.
  - destruct Ha as (D & -> & Hnd & HD).
    destruct (dest_ip d) as [j|] eqn:Ej.
    + assert (Hname : dest_name_allowed (run c h) d = true <-> name_permitted c d).
      { unfold dest_name_allowed, name_permitted. destruct d as [a|a|nm [p|] r]; try (split; [discriminate|intros []]).
        rewrite Hd. apply domain_allowed_spec. }
      assert (Hnet : is_allowed (configured_nets c ++ D) j = true <-> net_permitted c (run c h) j).
      { unfold is_allowed, net_permitted. rewrite existsb_exists. split.
        - intros (n & Hin & Hc). exists n. split; [|exact Hc]. apply in_app_or in Hin.
          destruct Hin as [H|H]; [left; exact H|right; apply HD; exact H].
        - intros (n & [H|H] & Hc); exists n; (split; [|exact Hc]); apply in_or_app; [left; exact H|right; apply HD; exact H]. }
      destruct (dest_name_allowed (run c h) d || is_allowed (configured_nets c ++ D) j) eqn:E.
      * apply orb_true_iff in E. split.
        -- intros H. injection H as <-. split; [reflexivity|]. destruct E as [E|E]; [left; apply Hname; exact E|right; apply Hnet; exact E].
        -- intros [H _]. injection H as ->. reflexivity.
      * apply orb_false_iff in E. destruct E as [E1 E2]. split; [discriminate|].
        intros [H [Hn|Hn]]; injection H as ->.
        -- apply Hname in Hn. congruence.
        -- apply Hnet in Hn. congruence.
    + split; [discriminate|intros [H _]; discriminate].
  - destruct Ha as [Hen Hdy]. split; [discriminate|]. intros [_ [Hn|Hn]].
    + unfold name_permitted, configured_domains in Hn. rewrite Hen in Hn.
      destruct d as [a|a|nm [p|] r]; try contradiction. destruct Hn as (p & [] & _).
    + unfold net_permitted, configured_nets in Hn. rewrite Hen, Hdy in Hn. destruct Hn as (n & [[]|[]] & _).
Qed.

(** with nothing configured and no dynamic route present, nothing is permitted *)
Lemma nothing_configured_nothing_permitted : forall c h d i,
  configured_nets c = [] -> configured_domains c = [] -> s_dyn (run c h) = [] ->
  open (run c h) d <> MPermitted i.
Proof.
  intros c h d i Hn Hdm Hdy H. apply permitted_iff in H. destruct H as [_ [H|H]].
  - unfold name_permitted in H. rewrite Hdm in H. destruct d as [a|a|nm [p|] r]; try contradiction.
    destruct H as (p & [] & _).
  - unfold net_permitted in H. rewrite Hn, Hdy in H. destruct H as (n & [[]|[]] & _).
Qed.

(** the allow list never holds a network that is neither configured nor a current dynamic route *)
Lemma allow_list_is_configured_plus_dynamic : forall c h l n,
  s_allow (run c h) = Some l ->
  (In n l <-> In n (configured_nets c) \/ In n (keys (s_dyn (run c h)))).
Proof.
  intros c h l n E. pose proof (inv_run c h) as [_ _ _ Ha]. rewrite E in Ha.
  destruct Ha as (D & -> & _ & HD). rewrite in_app_iff, HD. tauto.
Qed.

(** ** The defect in the code before the fix: add n; add n; remove n *)

Definition w_net : cidr := (false, 2130771968, 16).          (* 127.1.0.0/16 *)
Definition w_cfg : cfg := mkCfg false [] [].
Definition w_hist : list op := [OpAdd (Some w_net) 1; OpAdd (Some w_net) 7; OpRemove (Some w_net)].
Definition w_dest : dest := DIp4 2130772483.                  (* 127.1.2.3 *)

Lemma readd_pre_fix_permits_without_route :
  open (run_pre_fix w_cfg w_hist) w_dest = MPermitted (V4 2130772483) /\
  s_dyn (run_pre_fix w_cfg w_hist) = [] /\ c_enabled w_cfg = false.
Proof. vm_compute. repeat split; reflexivity. Qed.

Lemma readd_fixed_denies :
  open (run w_cfg w_hist) w_dest = MDenied /\ s_allow (run w_cfg w_hist) = Some [].
Proof. vm_compute. split; reflexivity. Qed.

(** ** Non-vacuity: a reachable state with a configured network, a dynamic
    route and a domain pattern, each permitting a destination *)
Definition ex_cfg : cfg :=
  mkCfg true [(false, 167772160, 8)]                                        (* 10.0.0.0/8 *)
        [[Byte.x2a; Byte.x2e; Byte.x61; Byte.x2e; Byte.x62]].               (* "*.a.b" *)
Definition ex_hist : list op := [OpAdd (Some w_net) 1; OpAdd (Some (true, 1, 128)) 2; OpRemove (Some (true, 1, 128))].

Example ex_permitted :
  open (run ex_cfg ex_hist) (DIp4 167837953) = MPermitted (V4 167837953) /\          (* 10.1.1.1: configured *)
  open (run ex_cfg ex_hist) w_dest = MPermitted (V4 2130772483) /\                    (* dynamic route *)
  open (run ex_cfg ex_hist) (DIp6 1) = MDenied /\                                     (* ::1: route removed again *)
  open (run ex_cfg ex_hist) (DName [Byte.x58; Byte.x2e; Byte.x41; Byte.x2e; Byte.x62] None (Some (V4 16843009)))
    = MPermitted (V4 16843009) /\                                                     (* "X.A.b" matches "*.a.b" *)
  open (run ex_cfg ex_hist) (DIp4 16843009) = MDenied.
Proof. vm_compute. repeat split; reflexivity. Qed.
