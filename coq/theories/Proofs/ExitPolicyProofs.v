(** Proofs about the exit destination policy model (C19). *)
From Coq Require Import List NArith Bool Lia.
From MM Require Import Lib.Bytes Model.ExitPolicy.
Import ListNotations.
Local Open Scope N_scope.

(** ** The defect in the code before the fix: add n; add n; remove n *)

Definition w_net : cidr := (false, 2130771968, 16).          (* 127.1.0.0/16 *)
Definition w_cfg : cfg := mkCfg false [] [].
Definition w_hist : list op := [OpAdd (Some w_net) 1; OpAdd (Some w_net) 7; OpRemove (Some w_net)].
Definition w_dest : dest := DIp4 2130772483.                  (* 127.1.2.3 *)

Lemma readd_pre_fix_permits_without_route :
  open (run_pre_fix w_cfg w_hist) w_dest = MPermitted (V4 2130772483) /\
  s_dyn (run_pre_fix w_cfg w_hist) = [] /\ c_enabled w_cfg = false.
Proof. vm_compute. repeat split; reflexivity. Qed.

Lemma readd_fixed_denies :
  open (run w_cfg w_hist) w_dest = MDenied /\ s_allow (run w_cfg w_hist) = Some [].
Proof. vm_compute. split; reflexivity. Qed.
